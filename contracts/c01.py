"""C01 - affiliations are valid distributions and equal the model's Bayes posterior."""
import itertools

import numpy as np

from pbv.instance import Instance
from pbv.spec import cells, shape_of
from .common import TINY, exp_shift_hints, bcast_index

META = {
    'level': 'proof',
    'min_obligations': 50,
    'explanation': 'posterior formation (log_pdf_to_affiliation) under contract for all real inputs at the listed shapes',
}

F_AFF = 'pb_bss.distribution.mixture_model_utils:log_pdf_to_affiliation'


def _aff_instance(K, N, lead, wlayout, mask, eps, tier_tag='quick'):
    """log_pdf_to_affiliation at one shape / weight layout / mask / eps instance.

    mask: None or a concrete boolean array of shape lead+(K,N)."""
    from pb_bss.distribution import mixture_model_utils as mmu
    full = tuple(lead) + (K, N)
    wshape = {
        'KN1': tuple(lead) + (K, 1),          # weight_constant_axis=(-1,)
        '1KN': (1,) * len(lead) + (K, N) if lead else (K, N),       # (-3,)-style: per observation
        'K1': (K, 1),                          # constant 1/K like layout
        'scalar': (),
    }[wlayout]

    def make(B):
        w = B.real('w', wshape, lo=TINY, dist=(0.05, 1.0))
        l = B.real('l', full)
        inp = {'weight': w, 'log_pdf': l, 'mask': None if mask is None else B.given('mask', mask), 'eps': eps}
        return inp

    def call(inp):
        return mmu.log_pdf_to_affiliation(inp['weight'], inp['log_pdf'], source_activity_mask=inp['mask'],
                                          affiliation_eps=inp['eps'])

    def wk(sp, inp, idx):
        w = inp['weight']
        if shape_of(w) == ():
            return w
        return cells(w)[bcast_index(shape_of(w), full, idx)]

    def active(idx):
        return True if mask is None else bool(mask[idx])

    def ensures(sp, inp, out):
        g = cells(out)
        l = cells(inp['log_pdf'])
        yield 'shape', sp._f(shape_of(out) == full)
        if shape_of(out) != full:
            return
        for lead_idx in np.ndindex(*lead):
            for n in range(N):
                col = [lead_idx + (k, n) for k in range(K)]
                act = [active(i) for i in col]
                for k, i in enumerate(col):
                    if eps == 0:
                        yield 'range[%s]' % (i,), sp.and_(sp.ge(g[i], 0.0), sp.le(g[i], 1.0))
                        if not act[k]:
                            yield 'inactive-zero[%s]' % (i,), sp.eq(g[i], 0.0)
                    else:
                        yield 'clip-range[%s]' % (i,), sp.and_(sp.ge(g[i], eps), sp.le(g[i], 1 - eps))
                if eps == 0:
                    if any(act):
                        # the overall maximum is attained by an active class (see DESIGN: masked columns)
                        yield 'sum-to-one[%s,n=%d]' % (lead_idx, n), sp.eq(sp.sum(g[i] for i in col), 1.0)
                    else:
                        yield 'all-inactive-zero[%s,n=%d]' % (lead_idx, n), sp.all(sp.eq(g[i], 0.0) for i in col)
                # Bayes' rule with p = exp(log_pdf):  gamma_k * sum_j w_j p_j = w_k p_k  over the active classes
                if any(act):
                    p = [sp.exp(l[i]) for i in col]
                    tot = sp.sum(wk(sp, inp, i) * p[j] for j, i in enumerate(col) if act[j])
                    for k, i in enumerate(col):
                        if act[k]:
                            if eps == 0:
                                yield 'bayes[%s]' % (i,), sp.eq(g[i] * tot, wk(sp, inp, i) * p[k])
                            else:
                                # clipped posterior: equals Bayes where Bayes lies inside [eps, 1-eps]
                                b_in = sp.and_(sp.ge(wk(sp, inp, i) * p[k], eps * tot),
                                               sp.le(wk(sp, inp, i) * p[k], (1 - eps) * tot))
                                yield 'bayes-clipped[%s]' % (i,), sp.implies(b_in, sp.eq(g[i] * tot, wk(sp, inp, i) * p[k]))

    def hints(sp, inp, out):
        l = cells(inp['log_pdf'])
        return exp_shift_hints(sp, [l[i] for i in np.ndindex(*full)])

    def requires_mask(B, inp):
        pass

    name = 'K%dN%d-lead%s-w%s-mask%s-eps%g' % (K, N, 'x'.join(map(str, lead)) or '0', wlayout,
                                               'none' if mask is None else ''.join('1' if b else '0' for b in np.asarray(mask).reshape(-1)),
                                               eps)
    inst = Instance('C01', F_AFF, name, make, call, ensures, hints=hints, timeout=20.0)
    if mask is not None:
        # precondition for masked columns: the column maximum is attained by an active class
        base_make = make

        def make2(B):
            inp = base_make(B)
            l = cells(inp['log_pdf'])
            for lead_idx in np.ndindex(*lead):
                for n in range(N):
                    col = [lead_idx + (k, n) for k in range(K)]
                    act = [bool(mask[i]) for i in col]
                    if any(act) and not all(act):
                        B.require('active-class-attains-column-maximum',
                                  B.sp.any(B.sp.all(B.sp.ge(l[i], l[j]) for j in col) for k, i in enumerate(col) if act[k]))
            return inp
        inst.make = make2
    return inst


def instances(tier):
    out = []
    shapes = [(1, 1), (2, 1), (2, 2), (3, 1), (3, 2), (4, 1)]
    if tier == 'thorough':
        shapes += [(5, 1), (6, 1), (4, 2)]
    for K, N in shapes:
        for wl in ('KN1', '1KN', 'K1', 'scalar'):
            out.append(_aff_instance(K, N, (), wl, None, 0.0))
        out.append(_aff_instance(K, N, (), 'KN1', None, 1e-10))
    # leading axes
    out.append(_aff_instance(2, 2, (2,), 'KN1', None, 0.0))
    out.append(_aff_instance(2, 1, (2,), '1KN', None, 0.0))
    # masks: all boolean masks for K x N = 2 x 1, 2 x 2 ; K = 3 x 1
    for K, N in ((2, 1), (3, 1), (2, 2)):
        for bits in itertools.product([False, True], repeat=K * N):
            m = np.array(bits, dtype=bool).reshape(K, N)
            if m.all():
                continue
            out.append(_aff_instance(K, N, (), 'KN1', m, 0.0))
    return out
