"""C01 - affiliations are valid distributions and equal the model's Bayes posterior."""
import itertools

import numpy as np

from pbv.instance import Instance
from pbv.spec import cells, shape_of
from .common import TINY, exp_shift_hints, bcast_index

META = {
    'level': 'proof',
    'min_obligations': 50,
    'explanation': 'posterior formation (log_pdf_to_affiliation) under contract for all real inputs at the listed shapes',
}

F_AFF = 'pb_bss.distribution.mixture_model_utils:log_pdf_to_affiliation'


def _aff_instance(K, N, lead, wlayout, mask, eps, tier_tag='quick'):
    """log_pdf_to_affiliation at one shape / weight layout / mask / eps instance.

    mask: None or a concrete boolean array of shape lead+(K,N)."""
    from pb_bss.distribution import mixture_model_utils as mmu
    full = tuple(lead) + (K, N)
    wshape = {
        'KN1': tuple(lead) + (K, 1),          # weight_constant_axis=(-1,)
        '1KN': (1,) * len(lead) + (K, N) if lead else (K, N),       # (-3,)-style: per observation
        'K1': (K, 1),                          # constant 1/K like layout
        'scalar': (),
    }[wlayout]

    def make(B):
        w = B.real('w', wshape, lo=TINY, dist=(0.05, 1.0))
        l = B.real('l', full)
        inp = {'weight': w, 'log_pdf': l, 'mask': None if mask is None else B.given('mask', mask), 'eps': eps}
        return inp

    def call(inp):
        return mmu.log_pdf_to_affiliation(inp['weight'], inp['log_pdf'], source_activity_mask=inp['mask'],
                                          affiliation_eps=inp['eps'])

    def wk(sp, inp, idx):
        w = inp['weight']
        if shape_of(w) == ():
            return w
        return cells(w)[bcast_index(shape_of(w), full, idx)]

    def active(idx):
        return True if mask is None else bool(mask[idx])

    def ensures(sp, inp, out):
        g = cells(out)
        l = cells(inp['log_pdf'])
        yield 'shape', sp._f(shape_of(out) == full)
        if shape_of(out) != full:
            return
        for lead_idx in np.ndindex(*lead):
            for n in range(N):
                col = [lead_idx + (k, n) for k in range(K)]
                act = [active(i) for i in col]
                for k, i in enumerate(col):
                    if eps == 0:
                        yield 'range[%s]' % (i,), sp.and_(sp.ge(g[i], 0.0), sp.le(g[i], 1.0))
                        if not act[k]:
                            yield 'inactive-zero[%s]' % (i,), sp.eq(g[i], 0.0)
                    else:
                        yield 'clip-range[%s]' % (i,), sp.and_(sp.ge(g[i], eps), sp.le(g[i], 1 - eps))
                if eps == 0:
                    if any(act):
                        # the overall maximum is attained by an active class (see DESIGN: masked columns)
                        yield 'sum-to-one[%s,n=%d]' % (lead_idx, n), sp.eq(sp.sum(g[i] for i in col), 1.0)
                    else:
                        yield 'all-inactive-zero[%s,n=%d]' % (lead_idx, n), sp.all(sp.eq(g[i], 0.0) for i in col)
                # Bayes' rule with p = exp(log_pdf):  gamma_k * sum_j w_j p_j = w_k p_k  over the active classes
                if any(act):
                    p = [sp.exp(l[i]) for i in col]
                    tot = sp.sum(wk(sp, inp, i) * p[j] for j, i in enumerate(col) if act[j])
                    for k, i in enumerate(col):
                        if act[k]:
                            if eps == 0:
                                yield 'bayes[%s]' % (i,), sp.eq(g[i] * tot, wk(sp, inp, i) * p[k])
                            else:
                                # clipped posterior: equals Bayes where Bayes lies inside [eps, 1-eps]
                                b_in = sp.and_(sp.ge(wk(sp, inp, i) * p[k], eps * tot),
                                               sp.le(wk(sp, inp, i) * p[k], (1 - eps) * tot))
                                yield 'bayes-clipped[%s]' % (i,), sp.implies(b_in, sp.eq(g[i] * tot, wk(sp, inp, i) * p[k]))

    def hints(sp, inp, out):
        l = cells(inp['log_pdf'])
        return exp_shift_hints(sp, [l[i] for i in np.ndindex(*full)])

    def requires_mask(B, inp):
        pass

    name = 'K%dN%d-lead%s-w%s-mask%s-eps%g' % (K, N, 'x'.join(map(str, lead)) or '0', wlayout,
                                               'none' if mask is None else ''.join('1' if b else '0' for b in np.asarray(mask).reshape(-1)),
                                               eps)
    inst = Instance('C01', F_AFF, name, make, call, ensures, hints=hints, timeout=20.0)
    if mask is not None:
        # precondition for masked columns: the column maximum is attained by an active class
        base_make = make

        def make2(B):
            inp = base_make(B)
            l = cells(inp['log_pdf'])
            for lead_idx in np.ndindex(*lead):
                for n in range(N):
                    col = [lead_idx + (k, n) for k in range(K)]
                    act = [bool(mask[i]) for i in col]
                    if any(act) and not all(act):
                        B.require('active-class-attains-column-maximum',
                                  B.sp.any(B.sp.all(B.sp.ge(l[i], l[j]) for j in col) for k, i in enumerate(col) if act[k]))
            return inp
        inst.make = make2
    return inst


def instances(tier):
    out = []
    shapes = [(1, 1), (2, 1), (2, 2), (3, 1), (3, 2), (4, 1)]
    if tier == 'thorough':
        shapes += [(5, 1), (6, 1), (4, 2)]
    for K, N in shapes:
        for wl in ('KN1', '1KN', 'K1', 'scalar'):
            out.append(_aff_instance(K, N, (), wl, None, 0.0))
        out.append(_aff_instance(K, N, (), 'KN1', None, 1e-10))
    # leading axes
    out.append(_aff_instance(2, 2, (2,), 'KN1', None, 0.0))
    out.append(_aff_instance(2, 1, (2,), '1KN', None, 0.0))
    # masks: all boolean masks for K x N = 2 x 1, 2 x 2 ; K = 3 x 1
    for K, N in ((2, 1), (3, 1), (2, 2)):
        for bits in itertools.product([False, True], repeat=K * N):
            m = np.array(bits, dtype=bool).reshape(K, N)
            if m.all():
                continue
            out.append(_aff_instance(K, N, (), 'KN1', m, 0.0))
    return out


# ============================================================================= P2: E-steps of the mixture models
# Data-flow contracts: the component log-pdf and log_pdf_to_affiliation are replaced by recording stubs that return
# fresh symbolic arrays.  Obligations: the posterior routine receives the stored weight (unsqueezed along exactly the
# tied axes for the integration models), the component log-pdf of the (normalised) observation - for the integration
# models the exponent-weighted sum of the two streams, element by element -, the mask and the eps; its result is
# returned unchanged.
from pbv import symnp as _symnp           # noqa: E402
from pbv import scalar as _S              # noqa: E402
TINY64 = float(np.finfo(np.float64).tiny)


class _Rec:
    def __init__(self):
        self.calls = []


def estep_instance(kind, F=2, K=2, T=2, D=2, Edim=2, wca=(-1,), s_w=None, p_w=None):
    from pb_bss.distribution import cacgmm, gcacgmm, vmfcacgmm, cwmm, cbmm, gmm, vmfmm
    mod = {'cacgmm': cacgmm, 'gcacgmm': gcacgmm, 'vmfcacgmm': vmfcacgmm, 'cwmm': cwmm, 'cbmm': cbmm, 'gmm': gmm, 'vmfmm': vmfmm}[kind]
    rec = _Rec()
    integration = kind in ('gcacgmm', 'vmfcacgmm')
    cplx = kind in ('cacgmm', 'cwmm', 'cbmm')
    wshape = {(-1,): (F, K), (-3,): (K, T), (-3, -1): (K,), (-3, -2, -1): ()}[tuple(wca)] if integration else (F, K, 1)

    def make(B):
        inp = {'aff': B.real('aff', (F, K, T)), 'weight': B.real('w', wshape, lo=0.0, dist=(0.1, 1.0))}
        if integration:
            inp['obs'] = B.cplx('y', (F, T, D))
            inp['emb'] = B.real('e', (F, T, Edim))
            inp['A'] = B.real('A', (F, K, T))                 # spatial log-pdf returned by the cACG stub
            inp['Q'] = B.real('Q', (F, K, T), lo=0.0, dist='pos')
            inp['G'] = B.real('G', (K, F * T))                # spectral log-pdf returned by the Gaussian / vMF stub
            inp['s_w'] = B.real('sw', (), lo=0.0, dist=(0.2, 2.0)) if s_w is None else s_w
            inp['p_w'] = B.real('pw', (), lo=0.0, dist=(0.2, 2.0)) if p_w is None else p_w
        else:
            inp['obs'] = B.cplx('y', (F, T, D)) if cplx else B.real('y', (F, T, D))
            inp['A'] = B.real('A', (F, K, T))
            inp['Q'] = B.real('Q', (F, K, T), lo=0.0, dist='pos')
        return inp

    def patches():
        def aff_stub(*a, **k):
            rec.calls.append(('affiliation', a, k))
            return rec.aff
        return [(mod, 'log_pdf_to_affiliation', aff_stub)]

    class Comp:
        """stands for the component distribution object"""

        def __init__(self, lp, qf=None, tag='c'):
            self.lp, self.qf, self.tag = lp, qf, tag

        def _log_pdf(self, y):
            rec.calls.append((self.tag + '._log_pdf', y))
            return self.lp, self.qf

        def log_pdf(self, y):
            rec.calls.append((self.tag + '.log_pdf', y))
            return self.lp

    def call(inp):
        rec.calls = []
        rec.aff = inp['aff']
        if kind == 'cacgmm':
            m = mod.CACGMM(weight=inp['weight'], cacg=Comp(inp['A'], inp['Q'], 'cacg'))
            mask = np.ones((F, K, T), dtype=bool)
            a1, q1 = m.predict(inp['obs'], return_quadratic_form=True, source_activity_mask=mask)
            calls1 = list(rec.calls)
            rec.calls = []
            yn = mod.normalize_observation(inp['obs'])
            a2, q2, lp2 = m._predict(yn, source_activity_mask=mask, affiliation_eps=1e-10)
            return {'a1': a1, 'q1': q1, 'calls1': calls1, 'a2': a2, 'q2': q2, 'lp2': lp2, 'calls2': list(rec.calls), 'mask': mask, 'yn': yn}
        if integration:
            comp = Comp(inp['G'], None, 'spectral')
            kw = dict(weight=inp['weight'], weight_constant_axis=tuple(wca), cacg=Comp(inp['A'], inp['Q'], 'cacg'),
                      spatial_weight=inp['s_w'], spectral_weight=inp['p_w'])
            m = mod.GCACGMM(gaussian=comp, **kw) if kind == 'gcacgmm' else mod.VMFCACGMM(vmf=comp, **kw)
            a2, q2 = m._predict(inp['obs'], inp['emb'], affiliation_eps=1e-10)
            return {'a2': a2, 'q2': q2, 'calls2': list(rec.calls)}
        comp = Comp(inp['A'], None, 'comp')
        if kind == 'cwmm':
            m = mod.CWMM(weight=inp['weight'], complex_watson=comp)
        elif kind == 'cbmm':
            m = mod.CBMM(weight=inp['weight'], complex_bingham=comp)
        elif kind == 'gmm':
            m = mod.GMM(weight=inp['weight'], gaussian=comp)
        else:
            m = mod.VMFMM(weight=inp['weight'], vmf=comp)
        a2 = m.predict(inp['obs'])
        return {'a2': a2, 'calls2': list(rec.calls)}

    def same_cells(sp, a, b):
        if shape_of(a) != shape_of(b):
            return sp.FALSE
        ca, cb = cells(a), cells(b)
        return sp.all(sp.eq(ca[i], cb[i]) for i in np.ndindex(*shape_of(a)))

    def unit_rows(sp, y, yn_cells, swap, style='max'):
        """yn = y / max(|y|, tiny) along the last axis (optionally with the last two axes swapped)"""
        yc = cells(y)
        fs = []
        for f in range(F):
            for t in range(T):
                n2 = sp.sum(sp.abs2(yc[f, t, d]) if cplx or integration or kind == 'cacgmm' else yc[f, t, d] * yc[f, t, d] for d in range(D))
                nrm = sp.sqrt(n2)
                for d in range(D):
                    z = yn_cells[(f, d, t) if swap else (f, t, d)]
                    den = sp.max(nrm, TINY64) if style == 'max' else nrm       # 'where': divided by the norm itself
                    fs.append(sp.implies(sp.gt(n2, 0.0), sp.eq(z * den, yc[f, t, d])))
        return sp.and_(*fs)

    def ensures(sp, inp, out):
        calls = out['calls2']
        affc = [c for c in calls if c[0] == 'affiliation']
        yield 'posterior-routine-called-once', sp._f(len(affc) == 1)
        if len(affc) != 1:
            return
        _, a, k = affc[0]
        weight = k.get('weight', a[0] if a else None)
        log_pdf = k.get('log_pdf', a[1] if len(a) > 1 else None)
        yield 'result-is-the-posterior-unchanged', sp._f(out['a2'] is inp['aff'])
        if kind == 'cacgmm':
            yield 'stored-weight-passed', sp._f(weight is inp['weight'])
            yield 'component-log-pdf-passed', sp._f(log_pdf is inp['A'])
            yield 'mask-and-eps-passed', sp._f(k.get('source_activity_mask') is out['mask'] and k.get('affiliation_eps') == 1e-10)
            yield 'quadratic-form-returned', sp._f(out['q2'] is inp['Q'] and out['lp2'] is inp['A'])
            # predict(): normalises, swaps D and N, adds the class axis
            c1 = [c for c in out['calls1'] if c[0] == 'cacg._log_pdf']
            a1c = [c for c in out['calls1'] if c[0] == 'affiliation']
            ok = len(c1) == 1 and len(a1c) == 1 and shape_of(c1[0][1]) == (F, 1, D, T)
            yield 'predict-evaluates-component-on-(F,1,D,T)', sp._f(ok)
            if ok:
                z = cells(c1[0][1])[:, 0]
                yield 'predict-normalises-observation', unit_rows(sp, inp['obs'], z, swap=True, style='where')
                yield 'predict-passes-mask-and-no-clipping', sp._f(a1c[0][2].get('source_activity_mask') is out['mask']
                                                                  and a1c[0][2].get('affiliation_eps', 0.) == 0.)
                yield 'predict-returns-posterior-and-quadratic-form', sp._f(out['a1'] is inp['aff'] and out['q1'] is inp['Q'])
            return
        if integration:
            # weight unsqueezed along exactly the tied axes
            wexp_shape = {(-1,): (F, K, 1), (-3,): (1, K, T), (-3, -1): (1, K, 1), (-3, -2, -1): (1, 1, 1)}[tuple(wca)]
            yield 'weight-unsqueezed-along-tied-axes', sp._f(shape_of(weight) == wexp_shape)
            if shape_of(weight) == wexp_shape:
                wc, w0 = cells(weight), cells(inp['weight'])
                flat_w = np.reshape(w0, wexp_shape) if shape_of(inp['weight']) != () else np.full(wexp_shape, w0[()], dtype=object)
                yield 'weight-values', sp.all(sp.eq(wc[i], flat_w[i]) for i in np.ndindex(*wexp_shape))
            yield 'joint-log-pdf-shape', sp._f(shape_of(log_pdf) == (F, K, T))
            if shape_of(log_pdf) == (F, K, T):
                lc, A, G = cells(log_pdf), cells(inp['A']), cells(inp['G'])
                for f in range(F):
                    for k_ in range(K):
                        for t in range(T):
                            yield 'joint-log-pdf[%d,%d,%d]' % (f, k_, t), sp.eq(lc[f, k_, t], inp['s_w'] * A[f, k_, t] + inp['p_w'] * G[k_, f * T + t])
            yield 'eps-passed', sp._f(k.get('affiliation_eps') == 1e-10)
            yield 'quadratic-form-returned', sp._f(out['q2'] is inp['Q'])
            sc = [c for c in calls if c[0] == 'spectral.log_pdf']
            cc = [c for c in calls if c[0] == 'cacg._log_pdf']
            ok = len(sc) == 1 and len(cc) == 1 and shape_of(sc[0][1]) == (1, F * T, Edim) and shape_of(cc[0][1]) == (F, 1, D, T)
            yield 'stream-arguments-shapes', sp._f(ok)
            if ok:
                e, ec = cells(inp['emb']), cells(sc[0][1])
                yield 'embedding-stream-flattened-frequency-major', sp.all(sp.eq(ec[0, f * T + t, d], e[f, t, d]) for f in range(F) for t in range(T) for d in range(Edim))
                y, yc = cells(inp['obs']), cells(cc[0][1])
                yield 'spatial-stream-swapped', sp.all(sp.eq(yc[f, 0, d, t], y[f, t, d]) for f in range(F) for t in range(T) for d in range(D))
            return
        yield 'stored-weight-passed', sp._f(weight is inp['weight'])
        yield 'component-log-pdf-passed', sp._f(log_pdf is inp['A'])
        cc = [c for c in calls if c[0] == 'comp.log_pdf']
        ok = len(cc) == 1 and shape_of(cc[0][1]) == (F, 1, T, D)
        yield 'component-evaluated-on-(F,1,N,D)', sp._f(ok)
        if ok:
            z = cells(cc[0][1])[:, 0]
            if kind == 'gmm':
                y = cells(inp['obs'])
                yield 'observation-passed-unchanged', sp.all(sp.eq(z[f, t, d], y[f, t, d]) for f in range(F) for t in range(T) for d in range(D))
            else:
                yield 'observation-normalised', unit_rows(sp, inp['obs'], z, swap=False)

    name = '%s-F%dK%dT%d%s' % (kind, F, K, T, '-wca' + ''.join(map(str, wca)).replace('-', 'm') if integration else '')
    func = {'cacgmm': 'cacgmm:CACGMM._predict', 'gcacgmm': 'gcacgmm:GCACGMM._predict', 'vmfcacgmm': 'vmfcacgmm:VMFCACGMM._predict',
            'cwmm': 'cwmm:CWMM.predict', 'cbmm': 'cbmm:CBMM.predict', 'gmm': 'gmm:GMM.predict', 'vmfmm': 'vmfmm:VMFMM.predict'}[kind]
    return Instance('C01', 'pb_bss.distribution.' + func, name, make, call, ensures, patches=patches, crosscheck=False, timeout=20.0)


_base_instances = instances


def instances(tier):       # noqa: F811
    out = _base_instances(tier)
    for kind in ('cacgmm', 'cwmm', 'cbmm', 'gmm', 'vmfmm'):
        out.append(estep_instance(kind))
    for kind in ('gcacgmm', 'vmfcacgmm'):
        for wca in ((-1,), (-3,), (-3, -1), (-3, -2, -1)):
            out.append(estep_instance(kind, wca=wca))
    return out


# ============================================================================= P3: initializers
def flag_instance(K, N, lead=()):
    """flag initializer with a symbolic `minimum` in (0, 1/K): segment n*K//N owns observation n; every other class gets exactly
    the minimum, the owner the remainder; columns sum to one."""
    from pb_bss.initializer import deterministic as det
    lead = tuple(lead)

    def make(B):
        return {'Y': B.given('Y', np.zeros(lead + (N, 2)), wrap=False), 'm': B.real('m', (), lo=0.0, hi=1.0 / K, lo_strict=True, hi_strict=True,
                                                                                    dist=(0.01 / K, 0.99 / K))}

    def call(inp):
        return det.flag(inp['Y'], K, permutation_free=True, minimum=inp['m'])

    def ensures(sp, inp, out):
        yield 'shape', sp._f(shape_of(out) == lead + (K, N))
        if shape_of(out) != lead + (K, N):
            return
        g, m = cells(out), inp['m']
        for li in np.ndindex(*lead):
            for n in range(N):
                owner = (n * K) // N
                for k in range(K):
                    want = (1.0 - (K - 1) * m) if k == owner else m
                    yield 'value[%s,%d,%d]' % (li, k, n), sp.eq(g[li + (k, n)], want)
                yield 'column-sums-to-one[%s,%d]' % (li, n), sp.eq(sp.sum(g[li + (k, n)] for k in range(K)), 1.0)

    return Instance('C01', 'pb_bss.initializer.deterministic:flag', 'K%dN%d-lead%s' % (K, N, 'x'.join(map(str, lead)) or '0'), make, call, ensures,
                    crosscheck=False, frame=False)


def initializer_bounded_instance():
    from pb_bss.initializer import iid, deterministic as det, deflation

    def make(B):
        return {'fn': B.choose('fn', ['uniform_normalized', 'dirichlet_uniform', 'dirichlet', 'one_hot', 'flag', 'flag0', 'deflation', 'deflation']),
                'K': B.choose('K', [1, 2, 3, 4, 6]), 'N': B.choose('N', [1, 2, 5, 12]), 'lead': B.choose('lead', [(), (3,), (2, 2)]),
                'pf': B.choose('pf', [False, True]), 'seed': B.choose('seed', list(range(5000))), 'd': B.given('d', np.zeros(1))}

    def call(inp):
        fn, K, N, lead, pf = inp['fn'], inp['K'], inp['N'], tuple(inp['lead']), inp['pf']
        rng = np.random.RandomState(inp['seed'])
        res = {'fn': fn, 'K': K, 'pf': pf}
        if fn == 'deflation':
            K = max(K, 2)
            F, T, D = int(rng.choice([257, 513])), int(rng.choice([11, 16, 30])), int(rng.choice([2, 3, 5]))
            # K sources active in disjoint time segments plus weak noise (a scene the initializer is made for), random gains
            Y = 0.05 * (rng.normal(size=(F, T, D)) + 1j * rng.normal(size=(F, T, D)))
            steer = rng.normal(size=(K, F, 1, D)) + 1j * rng.normal(size=(K, F, 1, D))
            owner = rng.randint(0, K, size=T)
            for k in range(K):
                Y[:, owner == k, :] += steer[k] * rng.uniform(0.5, 2.0, size=(1, int(np.sum(owner == k)), 1))
            Y = Y * 10.0 ** rng.uniform(-6, 6)
            out = deflation.deflationSeed(Y, K, permutation_free=pf)
            res.update(out=np.moveaxis(np.asarray(out), 0, -2), shape=(F, K, T), K=K)      # (K, F, T) -> (F, K, T) for the common checks
            res['raw_shape_ok'] = np.shape(out) == (K, F, T)
            return res
        Y = rng.normal(size=lead + (N, 3)) + 1j * rng.normal(size=lead + (N, 3))
        np.random.seed(inp['seed'])
        if fn == 'flag':
            m = float(rng.uniform(0.02, 0.98)) / K
            out = det.flag(Y, K, permutation_free=True, minimum=m) if K > 1 else det.flag(Y, K, permutation_free=True)
            res['minimum'] = m if K > 1 else 0.0
        elif fn == 'flag0':
            out = det.flag(Y, K, permutation_free=True)
            res['minimum'] = 0.0
        elif fn == 'dirichlet':
            out = iid.dirichlet(Y, K, permutation_free=pf, alpha=float(rng.choice([0.3, 1.0, 5.0])))
        else:
            out = getattr(iid, fn)(Y, K, permutation_free=pf)
        res.update(out=np.asarray(out), shape=lead + (K, N))
        return res

    def ensures(sp, inp, out):
        o, K = out['out'], out['K']
        yield 'documented-shape[%s]' % out['fn'], bool(o.shape == out['shape'] and out.get('raw_shape_ok', True))
        if o.shape != out['shape']:
            return
        yield 'finite-in-[0,1][%s]' % out['fn'], bool(np.all(np.isfinite(o)) and np.all(o >= 0.0) and np.all(o <= 1.0 + 1e-12))
        yield 'sums-to-one-over-classes[%s]' % out['fn'], bool(np.allclose(o.sum(-2), 1.0, rtol=0, atol=1e-9))
        if out['fn'] in ('flag', 'flag0'):
            N = o.shape[-1]
            owner = (np.arange(N) * K) // N
            m = out['minimum']
            exp = np.where(np.arange(K)[:, None] == owner[None, :], 1.0 - (K - 1) * m, m)
            yield 'flag-values', bool(np.allclose(o, np.broadcast_to(exp, o.shape), rtol=0, atol=1e-12))
        if out['fn'] == 'one_hot':
            yield 'one-hot', bool(np.all((o == 0) | (o == 1)))
        if out['pf'] and out['fn'] in ('uniform_normalized', 'dirichlet_uniform', 'dirichlet', 'one_hot') and o.ndim > 2:
            flat = o.reshape((-1,) + o.shape[-2:])
            yield 'permutation-free-initialisation-is-shared-by-all-leading-indices', bool(np.all(flat == flat[:1]))

    return Instance('C01', 'pb_bss.initializer.*', 'bounded-initializers', make, call, ensures, mode='bounded', bounded_n=120, frame=False)


_instances_before_init = instances


def instances(tier):       # noqa: F811
    out = _instances_before_init(tier)
    out.append(flag_instance(2, 5))
    out.append(flag_instance(3, 4, (2,)))
    out.append(flag_instance(4, 5))
    out.append(initializer_bounded_instance())
    return out


# ============================================================================= P4: public predict of the seven mixture models
def predict_bounded_instance():
    """model.predict(...) against Bayes' rule evaluated independently, class by class and frequency by frequency, with the
    component distribution's own public log_pdf (the p_k of the property) on the caller's observation: raw for the Gaussians,
    the direction of the frame for the spherical families.  Models are built directly from random parameters (all weight
    layouts of the tying options), observations carry per-frame gains over 280 decades, embeddings are not unit norm."""
    from pb_bss.distribution import cacgmm, cwmm, cbmm, gmm, vmfmm, gcacgmm, vmfcacgmm
    from pb_bss.distribution import (complex_angular_central_gaussian as cacg_m, complex_watson as cw_m, complex_bingham as cb_m,
                                     gaussian as g_m, von_mises_fisher as vmf_m)
    from scipy.special import logsumexp

    def make(B):
        return {'kind': B.choose('kind', ['cacgmm', 'cwmm', 'cbmm', 'gmm', 'vmfmm', 'gcacgmm', 'vmfcacgmm', 'gcacgmm', 'vmfcacgmm']),
                'K': B.choose('K', [1, 2, 3]), 'D': B.choose('D', [2, 3, 4]), 'wl': B.choose('wl', [0, 1, 2, 3]), 'seed': B.choose('seed', list(range(5000))),
                'd': B.given('d', np.zeros(1))}

    def unit(x):
        return x / np.maximum(np.linalg.norm(x, axis=-1, keepdims=True), np.finfo(float).tiny)

    def herm_pd(rng, shape, D):
        A = rng.normal(size=shape + (D, D)) + 1j * rng.normal(size=shape + (D, D))
        return A @ np.conj(np.swapaxes(A, -1, -2)) + 0.2 * np.eye(D)

    def call(inp):
        rng = np.random.RandomState(inp['seed'])
        kind, K, D = inp['kind'], inp['K'], inp['D']
        F, T, Ed = [2, 3, 1][(inp['seed'] // 3) % 3], 5, 3           # the number of bins equals the number of classes or not
        cplx = kind not in ('gmm', 'vmfmm')
        y = rng.normal(size=(F, T, D)) + (1j * rng.normal(size=(F, T, D)) if cplx else 0)
        if kind != 'gmm':
            y = y * 10.0 ** rng.uniform(-140, 140, size=(F, T, 1))          # any magnitude (1e-150..1e150): only the direction matters
        emb = rng.normal(size=(F, T, Ed)) * rng.uniform(0.2, 3.0, size=(F, T, 1)) + rng.normal(size=Ed)
        # the memory layout of the caller's tensors is arbitrary: C order, Fortran order, the transposed view of a (D, T, F) STFT,
        # a strided slice of a larger buffer -- the values (and therefore the reference below) are the same
        layout = ['C', 'F', 'T', 'strided'][(inp['seed'] // 7) % 4]

        def relayout(a):
            if layout == 'F':
                return np.asfortranarray(a)
            if layout == 'T':
                return np.ascontiguousarray(a.transpose(2, 1, 0)).transpose(2, 1, 0)
            if layout == 'strided':
                big = np.zeros(a.shape[:-1] + (2 * a.shape[-1],), dtype=a.dtype)
                big[..., ::2] = a
                return big[..., ::2]
            return a
        y, emb = relayout(y), relayout(emb)
        integration = kind in ('gcacgmm', 'vmfcacgmm')
        # mixture weights in the layout of a tying option
        wca = [(-1,), (-3,), (-3, -1), (-3, -2, -1)][inp['wl']] if integration else [(-1,), (-3,), (-3, -1), (-1,)][inp['wl']]
        full = rng.dirichlet(np.ones(K) * 2, size=(F, T)).transpose(0, 2, 1)       # (F, K, T), sums to one over K
        wshape = [F, K, T]
        for a in wca:
            wshape[a] = 1
        if -2 in wca:
            w_full = np.full((1, 1, 1) if integration else (F, K, 1), 1.0 / K)
            w_b = np.broadcast_to(np.full((1, K, 1), 1.0 / K), (F, K, T))
        else:
            w_full = full[:wshape[0], :, :wshape[2]].copy()
            w_b = np.broadcast_to(w_full, (F, K, T))
        lam = rng.uniform(0.05, 1.0, size=(F, K, D))
        lam /= lam.max(-1, keepdims=True)
        V = np.linalg.eigh(herm_pd(rng, (F, K), D))[1]
        lp = np.empty((F, K, T))
        if kind == 'cacgmm':
            model = cacgmm.CACGMM(weight=w_full, cacg=cacg_m.ComplexAngularCentralGaussian(covariance_eigenvectors=V, covariance_eigenvalues=lam))
            for f in range(F):
                for k in range(K):
                    lp[f, k] = cacg_m.ComplexAngularCentralGaussian(covariance_eigenvectors=V[f, k], covariance_eigenvalues=lam[f, k]).log_pdf(y[f])
            if inp['seed'] % 2 and K >= 2:
                # source activity mask: inactive sources get exactly zero, the active ones share the Bayes posterior; a frame
                # with no active source is all zero
                act = rng.rand(F, K, T) < 0.7
                act[:, :, 0] = False
                act[:, 0, 1] = True
                post = model.predict(y, source_activity_mask=act)
                joint_m = np.where(act, np.log(w_b) + lp, -np.inf)
                with np.errstate(all='ignore'):
                    ref_m = np.exp(joint_m - logsumexp(joint_m, axis=-2, keepdims=True))
                ref_m = np.where(act.any(-2, keepdims=True), ref_m, 0.0)
                return {'post': np.asarray(post), 'ref': ref_m, 'kind': 'cacgmm-masked', 'shape': (F, K, T), 'masked': True}
            post = model.predict(y)
        elif kind == 'cwmm':
            mode = unit(rng.normal(size=(F, K, D)) + 1j * rng.normal(size=(F, K, D)))
            kap = rng.uniform(0.5, 40.0, size=(F, K))
            model = cwmm.CWMM(weight=w_full, complex_watson=cw_m.ComplexWatson(mode=mode, concentration=kap))
            for f in range(F):
                for k in range(K):
                    lp[f, k] = cw_m.ComplexWatson(mode=mode[f, k], concentration=np.asarray(kap[f, k])).log_pdf(unit(y[f]))
            post = model.predict(y)
        elif kind == 'cbmm':
            ev = -np.sort(rng.uniform(0.0, 8.0, size=(F, K, D)), axis=-1)[..., ::-1]
            ev = ev - ev.max(-1, keepdims=True)
            ev = ev - 0.3 * np.arange(D)[::-1]                      # pairwise distinct
            ev = ev - ev.max(-1, keepdims=True)
            model = cbmm.CBMM(weight=w_full, complex_bingham=cb_m.ComplexBingham(covariance_eigenvectors=V, covariance_eigenvalues=ev))
            for f in range(F):
                for k in range(K):
                    lp[f, k] = cb_m.ComplexBingham(covariance_eigenvectors=V[f, k], covariance_eigenvalues=ev[f, k].copy()).log_pdf(unit(y[f]))
            post = model.predict(y)
        elif kind == 'gmm':
            mean = rng.normal(size=(F, K, D))
            A = rng.normal(size=(F, K, D, D))
            cov = A @ np.swapaxes(A, -1, -2) + 0.3 * np.eye(D)
            model = gmm.GMM(weight=w_full, gaussian=g_m.Gaussian(mean=mean, covariance=cov))
            for f in range(F):
                for k in range(K):
                    lp[f, k] = g_m.Gaussian(mean=mean[f, k], covariance=cov[f, k]).log_pdf(y[f])
            post = model.predict(y)
        elif kind == 'vmfmm':
            mean = unit(rng.normal(size=(F, K, D)))
            kap = rng.uniform(0.5, 40.0, size=(F, K))
            model = vmfmm.VMFMM(weight=w_full, vmf=vmf_m.VonMisesFisher(mean=mean, concentration=kap))
            for f in range(F):
                for k in range(K):
                    lp[f, k] = vmf_m.VonMisesFisher(mean=mean[f, k], concentration=np.asarray(kap[f, k])).log_pdf(y[f])
            post = model.predict(y)
        else:
            sw, pw = float(rng.uniform(0.3, 2.0)), float(rng.uniform(0.3, 2.0))
            w_store = np.squeeze(w_full, axis=tuple(a % 3 for a in wca)) if True else w_full
            cg = cacg_m.ComplexAngularCentralGaussian(covariance_eigenvectors=V, covariance_eigenvalues=lam)
            lp_s = np.empty((F, K, T))
            lp_e = np.empty((F, K, T))
            for f in range(F):
                for k in range(K):
                    lp_s[f, k] = cacg_m.ComplexAngularCentralGaussian(covariance_eigenvectors=V[f, k], covariance_eigenvalues=lam[f, k]).log_pdf(y[f])
            if kind == 'gcacgmm':
                mean = rng.normal(size=(K, Ed))
                var = rng.uniform(0.3, 2.0, size=(K,))
                model = gcacgmm.GCACGMM(weight=w_store, weight_constant_axis=wca, gaussian=g_m.SphericalGaussian(mean=mean, covariance=var), cacg=cg,
                                        spatial_weight=sw, spectral_weight=pw)
                for f in range(F):
                    for k in range(K):
                        lp_e[f, k] = g_m.SphericalGaussian(mean=mean[k], covariance=np.asarray(var[k])).log_pdf(emb[f])
            else:
                mean = unit(rng.normal(size=(K, Ed)))
                kap = rng.uniform(0.5, 30.0, size=(K,))
                model = vmfcacgmm.VMFCACGMM(weight=w_store, weight_constant_axis=wca, vmf=vmf_m.VonMisesFisher(mean=mean, concentration=kap), cacg=cg,
                                            spatial_weight=sw, spectral_weight=pw)
                for f in range(F):
                    for k in range(K):
                        lp_e[f, k] = vmf_m.VonMisesFisher(mean=mean[k], concentration=np.asarray(kap[k])).log_pdf(emb[f])
            lp = sw * lp_s + pw * lp_e
            post = model.predict(y, emb)
        joint = np.log(w_b) + lp
        ref = np.exp(joint - logsumexp(joint, axis=-2, keepdims=True))
        return {'post': np.asarray(post), 'ref': ref, 'kind': kind, 'shape': (F, K, T)}

    def ensures(sp, inp, out):
        p, ref = out['post'], out['ref']
        yield 'documented-shape[%s]' % out['kind'], bool(p.shape == out['shape'])
        if p.shape != out['shape']:
            return
        yield 'finite-in-[0,1][%s]' % out['kind'], bool(np.all(np.isfinite(p)) and np.all(p >= 0) and np.all(p <= 1 + 1e-12))
        if out.get('masked'):
            yield 'sums-to-one-or-zero[%s]' % out['kind'], bool(np.allclose(p.sum(-2), ref.sum(-2), rtol=0, atol=1e-9))
        else:
            yield 'sums-to-one[%s]' % out['kind'], bool(np.allclose(p.sum(-2), 1.0, rtol=0, atol=1e-9))
        yield 'bayes-rule-on-the-stored-parameters[%s]' % out['kind'], bool(np.allclose(p, ref, rtol=1e-6, atol=1e-9))

    return Instance('C01', 'pb_bss.distribution.*:predict', 'bounded-public-predict-is-bayes-rule', make, call, ensures, mode='bounded', bounded_n=90,
                    frame=False)


_instances_before_predict = instances


def instances(tier):       # noqa: F811
    return _instances_before_predict(tier) + [predict_bounded_instance()]


# ============================================================================= P5: fit_predict on degenerate data
def fit_predict_degenerate_bounded_instance(pinned=False):
    """fit_predict / fit + predict of every mixture trainer on degenerate observations (all-zero bins, zero frames, duplicated or
    collinear frames, fewer frames than channels, extreme magnitudes): a call either raises an exception or returns an array of
    the documented shape with finite values in [0, 1] that sum to one over the classes -- never NaN."""
    from pb_bss.distribution import (CACGMMTrainer, CWMMTrainer, CBMMTrainer, GMMTrainer, VMFMMTrainer, GCACGMMTrainer, VMFCACGMMTrainer)

    def make(B):
        if pinned == 'cacg-zero-bin':        # the input of a known finding, evaluated on every run
            return {'model': B.choose('model', ['cacgmm']), 'data': B.choose('data', ['zero-bin']), 'K': B.choose('K', [2]), 'it': B.choose('it', [1]),
                    'wca': B.choose('wca', [(-1,)]), 'norm': B.choose('norm', [False]), 'seed': B.choose('seed', [0]), 'd': B.given('d', np.zeros(1))}
        if pinned == 'cbmm-few-frames':
            return {'model': B.choose('model', ['cbmm']), 'data': B.choose('data', ['few-frames']), 'K': B.choose('K', [1]), 'it': B.choose('it', [1]),
                    'wca': B.choose('wca', [(-3,)]), 'norm': B.choose('norm', ['eigenvalue']), 'seed': B.choose('seed', [707]), 'd': B.given('d', np.zeros(1))}
        return {'model': B.choose('model', ['cacgmm', 'cwmm', 'gmm', 'vmfmm', 'gcacgmm', 'vmfcacgmm', 'cacgmm', 'cbmm']),
                'data': B.choose('data', ['generic', 'zero-bin', 'zero-bin', 'zero-frames', 'duplicated', 'collinear', 'few-frames', 'tiny', 'huge', 'zero-embedding', 'cancelling']),
                'K': B.choose('K', [1, 2, 3]), 'it': B.choose('it', [1, 1, 2, 4]), 'wca': B.choose('wca', [(-1,), (-3,), (-3, -1)]),
                'norm': B.choose('norm', ['eigenvalue', 'trace', False]), 'seed': B.choose('seed', list(range(3000))), 'd': B.given('d', np.zeros(1))}

    def call(inp):
        rng = np.random.RandomState(inp['seed'])
        model, data, K, it = inp['model'], inp['data'], inp['K'], inp['it']
        F, D = 2, 3
        if model in ('cacgmm', 'gcacgmm', 'vmfcacgmm') and not pinned:
            # microphone arrays of any size: with more channels than frames most of the spectrum sits on the eigenvalue floor
            D = [3, 3, 8, 34][(inp['seed'] // 5) % 4]
        N = 2 if data == 'few-frames' else 10
        cplx = model not in ('gmm', 'vmfmm')
        y = rng.normal(size=(F, N, D)) + (1j * rng.normal(size=(F, N, D)) if cplx else 0)
        if data == 'zero-bin':
            y[0] = 0
        elif data == 'zero-frames':
            y[:, ::3] = 0
        elif data == 'duplicated':
            y[:, 1:] = y[:, :1]
        elif data == 'collinear':
            y = y[:, :1] * rng.normal(size=(F, N, 1))
        elif data == 'tiny':
            y = y * 1e-150
        elif data == 'huge':
            y = y * 1e150
        emb = rng.normal(size=(F, N, 3))
        init = rng.dirichlet(np.ones(K), size=(F, N)).transpose(0, 2, 1).copy()
        if data == 'zero-embedding':
            emb = np.zeros_like(emb)
            if model == 'vmfmm':
                y = np.zeros_like(y)
        elif data == 'cancelling':
            # directions that cancel exactly under equal affiliations: zero resultant with non-zero frames
            emb[:, 1::2] = -emb[:, ::2][:, :emb[:, 1::2].shape[1]]
            init = np.full_like(init, 1.0 / K)
            if model == 'vmfmm':
                y[:, 1::2] = -y[:, ::2][:, :y[:, 1::2].shape[1]]
        if model == 'cbmm':
            F1 = slice(0, 1)
            y, init, it = y[F1], init[F1], 1
        # single precision observations / embeddings for every fourth scene (magnitudes inside the range of the type)
        single = (not pinned) and (inp['seed'] % 4 == 3 or (model == 'cwmm' and inp['seed'] % 2 == 1)) and data not in ('tiny', 'huge')
        if single:
            y = y.astype(np.complex64 if cplx else np.float32)
            emb = emb.astype(np.float32)
            if inp['seed'] % 8 == 7 or model == 'cwmm':
                init = init.astype(np.float32)          # the whole pipeline in single precision (masks of a neural network as the start)
        try:
            with np.errstate(all='ignore'):
                if model in ('gcacgmm', 'vmfcacgmm'):
                    cls = GCACGMMTrainer if model == 'gcacgmm' else VMFCACGMMTrainer
                    m = cls().fit(y, emb[:y.shape[0]], initialization=init, iterations=it, weight_constant_axis=inp['wca'], covariance_norm=inp['norm'])
                    post = m.predict(y, emb[:y.shape[0]])
                elif model == 'cacgmm':
                    post = CACGMMTrainer().fit_predict(y, initialization=init, iterations=it, weight_constant_axis=inp['wca'], covariance_norm=inp['norm'])
                else:
                    cls = {'cwmm': CWMMTrainer, 'cbmm': CBMMTrainer, 'gmm': GMMTrainer, 'vmfmm': VMFMMTrainer}[model]
                    # every covariance structure of the Gaussian mixture (a zero-padded feature dimension for every other scene:
                    # an exactly zero variance must end in an exception, not in NaN posteriors)
                    kw_ = {}
                    if model == 'gmm':
                        kw_ = {'covariance_type': ['full', 'diagonal', 'spherical'][inp['seed'] % 3]}
                        if (inp['seed'] // 3) % 2:
                            y = np.concatenate([y, np.zeros_like(y[..., :1])], axis=-1)
                    post = cls().fit_predict(y, initialization=init, iterations=it, weight_constant_axis=inp['wca'], **kw_)
        except Exception as e:      # noqa  an explicit exception is an admissible outcome
            return {'raised': type(e).__name__, 'post': None, 'shape': (y.shape[0], K, N), 'model': model}
        if model == 'gmm':
            model = 'gmm-' + kw_['covariance_type']
        tag = '%s,%s,norm=%s%s' % (model, data, inp['norm'] if model in ('cacgmm', 'gcacgmm', 'vmfcacgmm') else '-', ',single' if single else '')
        return {'raised': None, 'post': np.asarray(post), 'shape': (y.shape[0], K, N), 'model': tag}

    def ensures(sp, inp, out):
        if out['raised'] is not None:
            yield 'explicit-exception[%s]' % out['raised'], True
            return
        p = out['post']
        yield 'documented-shape[%s]' % out['model'], bool(p.shape == out['shape'])
        yield 'finite-in-[0,1][%s]' % out['model'], bool(np.all(np.isfinite(p)) and np.all(p >= 0) and np.all(p <= 1 + 1e-12))
        if p.shape == out['shape'] and np.all(np.isfinite(p)):
            # up to rounding of the element type of the returned array (single precision observations may give a float32 posterior)
            atol_ = 1e-8 if p.dtype == np.float64 else 2e-5
            yield 'sums-to-one[%s]' % out['model'], bool(np.allclose(p.sum(-2), 1.0, rtol=0, atol=atol_))

    return Instance('C01', 'pb_bss.distribution.*Trainer.fit_predict', 'bounded-fit_predict-on-degenerate-data' + ('-pinned-known-finding-%s' % pinned if pinned else ''),
                    make, call, ensures, mode='bounded', bounded_n=1 if pinned else 300, frame=False, fixed_seed=bool(pinned))


_instances_before_degenerate = instances


def masked_underflow_pinned_instance():
    """The input of a known finding, evaluated on every run: a frame in which an *inactive* class has a log-density more than 745 nats
    above every active one (rank-deficient class next to a source-activity mask)."""
    from pb_bss.distribution import mixture_model_utils as mmu

    def make(B):
        return {'d': B.given('d', np.zeros(1))}

    def call(inp):
        w = np.array([[0.5], [0.5]])
        lp = np.array([[-1000.0, -3.0], [0.0, -1.0]])
        act = np.array([[True, True], [False, True]])
        return {'post': np.asarray(mmu.log_pdf_to_affiliation(w, lp, source_activity_mask=act, affiliation_eps=0.0)), 'act': act}

    def ensures(sp, inp, out):
        p, act = out['post'], out['act']
        yield 'inactive-sources-exactly-zero', bool(np.all(p[~act] == 0))
        yield 'frame-with-an-active-source-sums-to-one[inactive-class-dominates-by-1000-nats]', bool(np.allclose(p.sum(-2), 1.0, atol=1e-9))

    return Instance('C01', F_AFF, 'pinned-known-finding-masked-underflow', make, call, ensures, mode='bounded', bounded_n=1, frame=False, fixed_seed=True)


def instances(tier):       # noqa: F811
    # the E-step of the integration models with the inline aligner on: Bayes' rule with the stored weights on the re-paired streams
    from .c14 import integration_pa_bounded_instance
    return _instances_before_degenerate(tier) + [integration_pa_bounded_instance('C01'), masked_underflow_pinned_instance(), fit_predict_degenerate_bounded_instance(), fit_predict_degenerate_bounded_instance(pinned='cacg-zero-bin'),
                                                  fit_predict_degenerate_bounded_instance(pinned='cbmm-few-frames')]


_instances_before_simplex = instances


def instances(tier):       # noqa: F811
    from .common import simplex_lemma_instances
    return _instances_before_simplex(tier) + simplex_lemma_instances('C01')
