"""C01 - affiliations are valid distributions and equal the model's Bayes posterior."""
import itertools

import numpy as np

from pbv.instance import Instance
from pbv.spec import cells, shape_of
from .common import TINY, exp_shift_hints, bcast_index

META = {
    'level': 'proof',
    'min_obligations': 50,
    'explanation': 'posterior formation (log_pdf_to_affiliation) under contract for all real inputs at the listed shapes',
}

F_AFF = 'pb_bss.distribution.mixture_model_utils:log_pdf_to_affiliation'


def _aff_instance(K, N, lead, wlayout, mask, eps, tier_tag='quick'):
    """log_pdf_to_affiliation at one shape / weight layout / mask / eps instance.

    mask: None or a concrete boolean array of shape lead+(K,N)."""
    from pb_bss.distribution import mixture_model_utils as mmu
    full = tuple(lead) + (K, N)
    wshape = {
        'KN1': tuple(lead) + (K, 1),          # weight_constant_axis=(-1,)
        '1KN': (1,) * len(lead) + (K, N) if lead else (K, N),       # (-3,)-style: per observation
        'K1': (K, 1),                          # constant 1/K like layout
        'scalar': (),
    }[wlayout]

    def make(B):
        w = B.real('w', wshape, lo=TINY, dist=(0.05, 1.0))
        l = B.real('l', full)
        inp = {'weight': w, 'log_pdf': l, 'mask': None if mask is None else B.given('mask', mask), 'eps': eps}
        return inp

    def call(inp):
        return mmu.log_pdf_to_affiliation(inp['weight'], inp['log_pdf'], source_activity_mask=inp['mask'],
                                          affiliation_eps=inp['eps'])

    def wk(sp, inp, idx):
        w = inp['weight']
        if shape_of(w) == ():
            return w
        return cells(w)[bcast_index(shape_of(w), full, idx)]

    def active(idx):
        return True if mask is None else bool(mask[idx])

    def ensures(sp, inp, out):
        g = cells(out)
        l = cells(inp['log_pdf'])
        yield 'shape', sp._f(shape_of(out) == full)
        if shape_of(out) != full:
            return
        for lead_idx in np.ndindex(*lead):
            for n in range(N):
                col = [lead_idx + (k, n) for k in range(K)]
                act = [active(i) for i in col]
                for k, i in enumerate(col):
                    if eps == 0:
                        yield 'range[%s]' % (i,), sp.and_(sp.ge(g[i], 0.0), sp.le(g[i], 1.0))
                        if not act[k]:
                            yield 'inactive-zero[%s]' % (i,), sp.eq(g[i], 0.0)
                    else:
                        yield 'clip-range[%s]' % (i,), sp.and_(sp.ge(g[i], eps), sp.le(g[i], 1 - eps))
                if eps == 0:
                    if any(act):
                        # the overall maximum is attained by an active class (see DESIGN: masked columns)
                        yield 'sum-to-one[%s,n=%d]' % (lead_idx, n), sp.eq(sp.sum(g[i] for i in col), 1.0)
                    else:
                        yield 'all-inactive-zero[%s,n=%d]' % (lead_idx, n), sp.all(sp.eq(g[i], 0.0) for i in col)
                # Bayes' rule with p = exp(log_pdf):  gamma_k * sum_j w_j p_j = w_k p_k  over the active classes
                if any(act):
                    p = [sp.exp(l[i]) for i in col]
                    tot = sp.sum(wk(sp, inp, i) * p[j] for j, i in enumerate(col) if act[j])
                    for k, i in enumerate(col):
                        if act[k]:
                            if eps == 0:
                                yield 'bayes[%s]' % (i,), sp.eq(g[i] * tot, wk(sp, inp, i) * p[k])
                            else:
                                # clipped posterior: equals Bayes where Bayes lies inside [eps, 1-eps]
                                b_in = sp.and_(sp.ge(wk(sp, inp, i) * p[k], eps * tot),
                                               sp.le(wk(sp, inp, i) * p[k], (1 - eps) * tot))
                                yield 'bayes-clipped[%s]' % (i,), sp.implies(b_in, sp.eq(g[i] * tot, wk(sp, inp, i) * p[k]))

    def hints(sp, inp, out):
        l = cells(inp['log_pdf'])
        return exp_shift_hints(sp, [l[i] for i in np.ndindex(*full)])

    def requires_mask(B, inp):
        pass

    name = 'K%dN%d-lead%s-w%s-mask%s-eps%g' % (K, N, 'x'.join(map(str, lead)) or '0', wlayout,
                                               'none' if mask is None else ''.join('1' if b else '0' for b in np.asarray(mask).reshape(-1)),
                                               eps)
    inst = Instance('C01', F_AFF, name, make, call, ensures, hints=hints, timeout=20.0)
    if mask is not None:
        # precondition for masked columns: the column maximum is attained by an active class
        base_make = make

        def make2(B):
            inp = base_make(B)
            l = cells(inp['log_pdf'])
            for lead_idx in np.ndindex(*lead):
                for n in range(N):
                    col = [lead_idx + (k, n) for k in range(K)]
                    act = [bool(mask[i]) for i in col]
                    if any(act) and not all(act):
                        B.require('active-class-attains-column-maximum',
                                  B.sp.any(B.sp.all(B.sp.ge(l[i], l[j]) for j in col) for k, i in enumerate(col) if act[k]))
            return inp
        inst.make = make2
    return inst


def instances(tier):
    out = []
    shapes = [(1, 1), (2, 1), (2, 2), (3, 1), (3, 2), (4, 1)]
    if tier == 'thorough':
        shapes += [(5, 1), (6, 1), (4, 2)]
    for K, N in shapes:
        for wl in ('KN1', '1KN', 'K1', 'scalar'):
            out.append(_aff_instance(K, N, (), wl, None, 0.0))
        out.append(_aff_instance(K, N, (), 'KN1', None, 1e-10))
    # leading axes
    out.append(_aff_instance(2, 2, (2,), 'KN1', None, 0.0))
    out.append(_aff_instance(2, 1, (2,), '1KN', None, 0.0))
    # masks: all boolean masks for K x N = 2 x 1, 2 x 2 ; K = 3 x 1
    for K, N in ((2, 1), (3, 1), (2, 2)):
        for bits in itertools.product([False, True], repeat=K * N):
            m = np.array(bits, dtype=bool).reshape(K, N)
            if m.all():
                continue
            out.append(_aff_instance(K, N, (), 'KN1', m, 0.0))
    return out


# ============================================================================= P2: E-steps of the mixture models
# Data-flow contracts: the component log-pdf and log_pdf_to_affiliation are replaced by recording stubs that return
# fresh symbolic arrays.  Obligations: the posterior routine receives the stored weight (unsqueezed along exactly the
# tied axes for the integration models), the component log-pdf of the (normalised) observation - for the integration
# models the exponent-weighted sum of the two streams, element by element -, the mask and the eps; its result is
# returned unchanged.
from pbv import symnp as _symnp           # noqa: E402
from pbv import scalar as _S              # noqa: E402
TINY64 = float(np.finfo(np.float64).tiny)


class _Rec:
    def __init__(self):
        self.calls = []


def estep_instance(kind, F=2, K=2, T=2, D=2, Edim=2, wca=(-1,), s_w=None, p_w=None):
    from pb_bss.distribution import cacgmm, gcacgmm, vmfcacgmm, cwmm, cbmm, gmm, vmfmm
    mod = {'cacgmm': cacgmm, 'gcacgmm': gcacgmm, 'vmfcacgmm': vmfcacgmm, 'cwmm': cwmm, 'cbmm': cbmm, 'gmm': gmm, 'vmfmm': vmfmm}[kind]
    rec = _Rec()
    integration = kind in ('gcacgmm', 'vmfcacgmm')
    cplx = kind in ('cacgmm', 'cwmm', 'cbmm')
    wshape = {(-1,): (F, K), (-3,): (K, T), (-3, -1): (K,), (-3, -2, -1): ()}[tuple(wca)] if integration else (F, K, 1)

    def make(B):
        inp = {'aff': B.real('aff', (F, K, T)), 'weight': B.real('w', wshape, lo=0.0, dist=(0.1, 1.0))}
        if integration:
            inp['obs'] = B.cplx('y', (F, T, D))
            inp['emb'] = B.real('e', (F, T, Edim))
            inp['A'] = B.real('A', (F, K, T))                 # spatial log-pdf returned by the cACG stub
            inp['Q'] = B.real('Q', (F, K, T), lo=0.0, dist='pos')
            inp['G'] = B.real('G', (K, F * T))                # spectral log-pdf returned by the Gaussian / vMF stub
            inp['s_w'] = B.real('sw', (), lo=0.0, dist=(0.2, 2.0)) if s_w is None else s_w
            inp['p_w'] = B.real('pw', (), lo=0.0, dist=(0.2, 2.0)) if p_w is None else p_w
        else:
            inp['obs'] = B.cplx('y', (F, T, D)) if cplx else B.real('y', (F, T, D))
            inp['A'] = B.real('A', (F, K, T))
            inp['Q'] = B.real('Q', (F, K, T), lo=0.0, dist='pos')
        return inp

    def patches():
        def aff_stub(*a, **k):
            rec.calls.append(('affiliation', a, k))
            return rec.aff
        return [(mod, 'log_pdf_to_affiliation', aff_stub)]

    class Comp:
        """stands for the component distribution object"""

        def __init__(self, lp, qf=None, tag='c'):
            self.lp, self.qf, self.tag = lp, qf, tag

        def _log_pdf(self, y):
            rec.calls.append((self.tag + '._log_pdf', y))
            return self.lp, self.qf

        def log_pdf(self, y):
            rec.calls.append((self.tag + '.log_pdf', y))
            return self.lp

    def call(inp):
        rec.calls = []
        rec.aff = inp['aff']
        if kind == 'cacgmm':
            m = mod.CACGMM(weight=inp['weight'], cacg=Comp(inp['A'], inp['Q'], 'cacg'))
            mask = np.ones((F, K, T), dtype=bool)
            a1, q1 = m.predict(inp['obs'], return_quadratic_form=True, source_activity_mask=mask)
            calls1 = list(rec.calls)
            rec.calls = []
            yn = mod.normalize_observation(inp['obs'])
            a2, q2, lp2 = m._predict(yn, source_activity_mask=mask, affiliation_eps=1e-10)
            return {'a1': a1, 'q1': q1, 'calls1': calls1, 'a2': a2, 'q2': q2, 'lp2': lp2, 'calls2': list(rec.calls), 'mask': mask, 'yn': yn}
        if integration:
            comp = Comp(inp['G'], None, 'spectral')
            kw = dict(weight=inp['weight'], weight_constant_axis=tuple(wca), cacg=Comp(inp['A'], inp['Q'], 'cacg'),
                      spatial_weight=inp['s_w'], spectral_weight=inp['p_w'])
            m = mod.GCACGMM(gaussian=comp, **kw) if kind == 'gcacgmm' else mod.VMFCACGMM(vmf=comp, **kw)
            a2, q2 = m._predict(inp['obs'], inp['emb'], affiliation_eps=1e-10)
            return {'a2': a2, 'q2': q2, 'calls2': list(rec.calls)}
        comp = Comp(inp['A'], None, 'comp')
        if kind == 'cwmm':
            m = mod.CWMM(weight=inp['weight'], complex_watson=comp)
        elif kind == 'cbmm':
            m = mod.CBMM(weight=inp['weight'], complex_bingham=comp)
        elif kind == 'gmm':
            m = mod.GMM(weight=inp['weight'], gaussian=comp)
        else:
            m = mod.VMFMM(weight=inp['weight'], vmf=comp)
        a2 = m.predict(inp['obs'])
        return {'a2': a2, 'calls2': list(rec.calls)}

    def same_cells(sp, a, b):
        if shape_of(a) != shape_of(b):
            return sp.FALSE
        ca, cb = cells(a), cells(b)
        return sp.all(sp.eq(ca[i], cb[i]) for i in np.ndindex(*shape_of(a)))

    def unit_rows(sp, y, yn_cells, swap, style='max'):
        """yn = y / max(|y|, tiny) along the last axis (optionally with the last two axes swapped)"""
        yc = cells(y)
        fs = []
        for f in range(F):
            for t in range(T):
                n2 = sp.sum(sp.abs2(yc[f, t, d]) if cplx or integration or kind == 'cacgmm' else yc[f, t, d] * yc[f, t, d] for d in range(D))
                nrm = sp.sqrt(n2)
                for d in range(D):
                    z = yn_cells[(f, d, t) if swap else (f, t, d)]
                    den = sp.max(nrm, TINY64) if style == 'max' else nrm       # 'where': divided by the norm itself
                    fs.append(sp.implies(sp.gt(n2, 0.0), sp.eq(z * den, yc[f, t, d])))
        return sp.and_(*fs)

    def ensures(sp, inp, out):
        calls = out['calls2']
        affc = [c for c in calls if c[0] == 'affiliation']
        yield 'posterior-routine-called-once', sp._f(len(affc) == 1)
        if len(affc) != 1:
            return
        _, a, k = affc[0]
        weight = k.get('weight', a[0] if a else None)
        log_pdf = k.get('log_pdf', a[1] if len(a) > 1 else None)
        yield 'result-is-the-posterior-unchanged', sp._f(out['a2'] is inp['aff'])
        if kind == 'cacgmm':
            yield 'stored-weight-passed', sp._f(weight is inp['weight'])
            yield 'component-log-pdf-passed', sp._f(log_pdf is inp['A'])
            yield 'mask-and-eps-passed', sp._f(k.get('source_activity_mask') is out['mask'] and k.get('affiliation_eps') == 1e-10)
            yield 'quadratic-form-returned', sp._f(out['q2'] is inp['Q'] and out['lp2'] is inp['A'])
            # predict(): normalises, swaps D and N, adds the class axis
            c1 = [c for c in out['calls1'] if c[0] == 'cacg._log_pdf']
            a1c = [c for c in out['calls1'] if c[0] == 'affiliation']
            ok = len(c1) == 1 and len(a1c) == 1 and shape_of(c1[0][1]) == (F, 1, D, T)
            yield 'predict-evaluates-component-on-(F,1,D,T)', sp._f(ok)
            if ok:
                z = cells(c1[0][1])[:, 0]
                yield 'predict-normalises-observation', unit_rows(sp, inp['obs'], z, swap=True, style='where')
                yield 'predict-passes-mask-and-no-clipping', sp._f(a1c[0][2].get('source_activity_mask') is out['mask']
                                                                  and a1c[0][2].get('affiliation_eps', 0.) == 0.)
                yield 'predict-returns-posterior-and-quadratic-form', sp._f(out['a1'] is inp['aff'] and out['q1'] is inp['Q'])
            return
        if integration:
            # weight unsqueezed along exactly the tied axes
            wexp_shape = {(-1,): (F, K, 1), (-3,): (1, K, T), (-3, -1): (1, K, 1), (-3, -2, -1): (1, 1, 1)}[tuple(wca)]
            yield 'weight-unsqueezed-along-tied-axes', sp._f(shape_of(weight) == wexp_shape)
            if shape_of(weight) == wexp_shape:
                wc, w0 = cells(weight), cells(inp['weight'])
                flat_w = np.reshape(w0, wexp_shape) if shape_of(inp['weight']) != () else np.full(wexp_shape, w0[()], dtype=object)
                yield 'weight-values', sp.all(sp.eq(wc[i], flat_w[i]) for i in np.ndindex(*wexp_shape))
            yield 'joint-log-pdf-shape', sp._f(shape_of(log_pdf) == (F, K, T))
            if shape_of(log_pdf) == (F, K, T):
                lc, A, G = cells(log_pdf), cells(inp['A']), cells(inp['G'])
                for f in range(F):
                    for k_ in range(K):
                        for t in range(T):
                            yield 'joint-log-pdf[%d,%d,%d]' % (f, k_, t), sp.eq(lc[f, k_, t], inp['s_w'] * A[f, k_, t] + inp['p_w'] * G[k_, f * T + t])
            yield 'eps-passed', sp._f(k.get('affiliation_eps') == 1e-10)
            yield 'quadratic-form-returned', sp._f(out['q2'] is inp['Q'])
            sc = [c for c in calls if c[0] == 'spectral.log_pdf']
            cc = [c for c in calls if c[0] == 'cacg._log_pdf']
            ok = len(sc) == 1 and len(cc) == 1 and shape_of(sc[0][1]) == (1, F * T, Edim) and shape_of(cc[0][1]) == (F, 1, D, T)
            yield 'stream-arguments-shapes', sp._f(ok)
            if ok:
                e, ec = cells(inp['emb']), cells(sc[0][1])
                yield 'embedding-stream-flattened-frequency-major', sp.all(sp.eq(ec[0, f * T + t, d], e[f, t, d]) for f in range(F) for t in range(T) for d in range(Edim))
                y, yc = cells(inp['obs']), cells(cc[0][1])
                yield 'spatial-stream-swapped', sp.all(sp.eq(yc[f, 0, d, t], y[f, t, d]) for f in range(F) for t in range(T) for d in range(D))
            return
        yield 'stored-weight-passed', sp._f(weight is inp['weight'])
        yield 'component-log-pdf-passed', sp._f(log_pdf is inp['A'])
        cc = [c for c in calls if c[0] == 'comp.log_pdf']
        ok = len(cc) == 1 and shape_of(cc[0][1]) == (F, 1, T, D)
        yield 'component-evaluated-on-(F,1,N,D)', sp._f(ok)
        if ok:
            z = cells(cc[0][1])[:, 0]
            if kind == 'gmm':
                y = cells(inp['obs'])
                yield 'observation-passed-unchanged', sp.all(sp.eq(z[f, t, d], y[f, t, d]) for f in range(F) for t in range(T) for d in range(D))
            else:
                yield 'observation-normalised', unit_rows(sp, inp['obs'], z, swap=False)

    name = '%s-F%dK%dT%d%s' % (kind, F, K, T, '-wca' + ''.join(map(str, wca)).replace('-', 'm') if integration else '')
    func = {'cacgmm': 'cacgmm:CACGMM._predict', 'gcacgmm': 'gcacgmm:GCACGMM._predict', 'vmfcacgmm': 'vmfcacgmm:VMFCACGMM._predict',
            'cwmm': 'cwmm:CWMM.predict', 'cbmm': 'cbmm:CBMM.predict', 'gmm': 'gmm:GMM.predict', 'vmfmm': 'vmfmm:VMFMM.predict'}[kind]
    return Instance('C01', 'pb_bss.distribution.' + func, name, make, call, ensures, patches=patches, crosscheck=False, timeout=20.0)


_base_instances = instances


def instances(tier):       # noqa: F811
    out = _base_instances(tier)
    for kind in ('cacgmm', 'cwmm', 'cbmm', 'gmm', 'vmfmm'):
        out.append(estep_instance(kind))
    for kind in ('gcacgmm', 'vmfcacgmm'):
        for wca in ((-1,), (-3,), (-3, -1), (-3, -2, -1)):
            out.append(estep_instance(kind, wca=wca))
    return out
