"""C02 - EM iterations never decrease the mixture log-likelihood."""
import itertools
import math

import numpy as np

from pbv import expr as E
from pbv import scalar as S
from pbv import symnp
from pbv.instance import Instance
from pbv.spec import cells, shape_of

META = {
    'level': 'exploration',
    'min_obligations': 10,
    'explanation': 'proved part: CACGMM.log_likelihood / _log_likelihood is sum_n log sum_k pi_k p_k(y_n) with the stored weights in '
                   'every tying layout (logsumexp by contract); together with C01 (the E-step is the exact posterior) and C08 (each '
                   'M-step is the documented estimator) this is what the classical EM argument needs from the code.  The '
                   'monotonicity statement itself is a convergence property: bounded evaluation of per-iteration traces with '
                   'independently computed mixture log-likelihoods (cACGMM, cWMM, GMM x3, GCACGMM with unit stream weights).',
    'assumptions': ['scipy.special.logsumexp(a, axis, b) = log sum_axis b exp(a)',
                    'EM monotonicity from "the expected complete-data log-likelihood does not decrease" and optimality of the weight '
                    'update are Lean theorems (lean/Em.lean); that each component update does not decrease its part is cited'],
}
DN = 'pb_bss.distribution.'
TINY = float(np.finfo(np.float64).tiny)


def loglik_instance(K, N, wshape, lead=()):
    from pb_bss.distribution import cacgmm
    import scipy.special
    lead = tuple(lead)
    real_lse = scipy.special.logsumexp

    def lse_stub(a, axis=None, b=None, **kw):
        if not isinstance(a, symnp.SymArray) and not isinstance(b, symnp.SymArray):
            return real_lse(a, axis=axis, b=b, **kw)
        S.ctx().assumptions_used.add('scipy.special.logsumexp(a, axis, b) = log(sum_axis b * exp(a))')
        t = np.exp(a) if b is None else np.exp(a) * b
        return np.log(np.sum(t, axis=axis))

    def patches():
        return [(scipy.special, 'logsumexp', lse_stub)]

    def make(B):
        return {'w': B.real('w', wshape, lo=TINY, dist=(0.05, 1.0)), 'lp': B.real('l', lead + (K, N)),
                'y': B.cplx('y', lead + (2, N))}

    def call(inp):
        m = cacgmm.CACGMM(weight=inp['w'], cacg=None)
        return m._log_likelihood(inp['y'], inp['lp'])

    def ensures(sp, inp, out):
        w, l = cells(inp['w']), cells(inp['lp'])
        full = lead + (K, N)
        tot = None
        for li in np.ndindex(*lead):
            for n in range(N):
                acc = None
                for k in range(K):
                    idx = li + (k, n)
                    sub = idx[len(full) - len(wshape):]
                    wi = w[tuple(0 if wshape[i] == 1 else sub[i] for i in range(len(wshape)))]
                    t = wi * sp.exp(l[idx])
                    acc = t if acc is None else acc + t
                term = sp.log(acc)
                tot = term if tot is None else tot + term
        yield 'mixture-log-likelihood-with-weights', sp.eq(out, tot)

    return Instance('C02', DN + 'cacgmm:CACGMM._log_likelihood', 'K%dN%d-w%s-lead%s' % (K, N, 'x'.join(map(str, wshape)), 'x'.join(map(str, lead)) or '0'),
                    make, call, ensures, patches=patches, crosscheck=False, definedness=False)


# ----------------------------------------------------------------------------- independent log-likelihood oracles
def _lse(a, axis):
    m = np.max(a, axis=axis, keepdims=True)
    return np.squeeze(m, axis) + np.log(np.sum(np.exp(a - m), axis=axis))


def cacg_logpdf(z, V, lam):
    """z: (..., N, D) unit norm; V: (..., K, D, D); lam: (..., K, D) -> (..., K, N)"""
    Binv = np.einsum('...kde,...ke,...kge->...kdg', V, 1 / lam, np.conj(V))
    q = np.real(np.einsum('...nd,...kdg,...ng->...kn', np.conj(z), Binv, z))
    D = z.shape[-1]
    return -D * np.log(q) - np.sum(np.log(lam), axis=-1)[..., None]


def watson_logpdf(z, mode, kappa):
    from scipy.special import hyp1f1
    D = z.shape[-1]
    ip = np.abs(np.einsum('...nd,...kd->...kn', z, np.conj(mode))) ** 2
    lognorm = np.log(hyp1f1(1, D, kappa) * 2 * np.pi ** D / math.factorial(D - 1))
    return kappa[..., None] * ip - lognorm[..., None]


def gauss_logpdf(y, mean, cov, ctype):
    import scipy.stats
    lead = mean.shape[:-2]
    K = mean.shape[-2]
    D = y.shape[-1]
    out = np.empty(lead + (K, y.shape[-2]))
    for li in np.ndindex(*lead):
        for k in range(K):
            c = cov[li + (k,)]
            C_ = c if ctype == 'full' else (np.diag(c) if ctype == 'diagonal' else c * np.eye(D))
            out[li + (k,)] = scipy.stats.multivariate_normal(mean[li + (k,)], C_, allow_singular=False).logpdf(y[li])
    return out


def mix_ll(weight, logp):
    w = np.broadcast_to(weight, logp.shape)
    with np.errstate(divide='ignore'):
        return float(np.sum(_lse(np.log(w) + logp, axis=-2)))


def trace_bounded_instance(outliers_only=False, pinned=False):
    from pb_bss.distribution import CACGMMTrainer, CWMMTrainer, GMMTrainer, GCACGMMTrainer
    from pb_bss.utils import unsqueeze

    def make(B):
        if pinned:          # the input of a known finding, evaluated on every run
            return {'which': B.choose('which', ['gmm-spherical']), 'wca': B.choose('wca', [(-3,)]), 'sal': B.choose('sal', [True]), 'K': B.choose('K', [3]),
                    'D': B.choose('D', [4]), 'n_it': B.choose('n_it', [8]), 'seed': B.choose('seed', [2537]), 'd': B.given('d', np.zeros(1))}
        if outliers_only:
            # (per-frame weights, weight_constant_axis=(-3,), can become exactly zero for the class whose density dominates an outlier by
            # more than 745 nats: the known finding pinned below; the family keeps to the other tying options)
            return {'which': B.choose('which', ['gmm-diagonal', 'gmm-spherical']), 'wca': B.choose('wca', [(-1,), -2, (-3, -1)]), 'sal': B.choose('sal', [False, True, True]),
                    'K': B.choose('K', [2, 3]), 'D': B.choose('D', [2, 3, 4]), 'n_it': B.choose('n_it', [3, 8, 20, 50]),
                    'seed': B.choose('seed', list(range(5000))), 'd': B.given('d', np.zeros(1))}
        return {'which': B.choose('which', ['gmm-diagonal', 'gmm-spherical']) if outliers_only else
                B.choose('which', ['cacgmm', 'cacgmm-continued', 'cwmm', 'gmm-full', 'gmm-diagonal', 'gmm-spherical', 'gcacgmm', 'gcacgmm', 'cwmm-sal',
                                   'cwmm-sal']),
                'wca': B.choose('wca', [(-1,), -2, (-3,), (-3, -1)]), 'sal': B.choose('sal', [False, True, True]),
                'K': B.choose('K', [2, 3]), 'D': B.choose('D', [2, 3, 4]), 'n_it': B.choose('n_it', [3, 8, 20, 50]),
                'seed': B.choose('seed', list(range(5000))), 'd': B.given('d', np.zeros(1))}

    def call(inp):
        rng = np.random.RandomState(inp['seed'])
        which, K, D, n_it, wca = inp['which'], inp['K'], inp['D'], inp['n_it'], inp['wca']
        if outliers_only:
            n_it = min(n_it, 8)
        force_sal = which == 'cwmm-sal'          # the Watson mixture with importance weights (20 iterations at most)
        if force_sal:
            which, n_it = 'cwmm', min(n_it, 20)
        F = 2
        N = 4 * K * D + int(rng.randint(0, 20))
        cplx = which.startswith('cacgmm') or which in ('cwmm', 'gcacgmm')
        # data in general position: mixture of K directions / clusters plus noise
        cent = rng.normal(size=(F, K, D)) + (1j * rng.normal(size=(F, K, D)) if cplx else 0)
        lab = rng.randint(0, K, size=(F, N))
        noise = 0.7
        if which == 'cwmm' and (inp['seed'] // 2) % 2 == 0:
            noise = float(rng.uniform(0.13, 0.2))       # concentrated classes: Watson concentrations of 50 .. 300, below the table end
        y = np.take_along_axis(cent, lab[..., None], axis=1) + noise * (rng.normal(size=(F, N, D)) + (1j * rng.normal(size=(F, N, D)) if cplx else 0))
        if which in ('gmm-diagonal', 'gmm-spherical') and (outliers_only or ((inp['seed'] // 5) % 3 == 0 and wca != (-3,))):
            # tight classes and a few far outliers: the log-densities of one fit span millions of nats ACROSS observations (far beyond the
            # range of exp), which is harmless as long as every observation is normalised on its own
            y = np.take_along_axis(cent, lab[..., None], axis=1) + 0.02 * rng.normal(size=(F, N, D))
            y[:, :3] += 40.0 * rng.normal(size=(F, 3, D))
        if cplx and inp['seed'] % 2:
            # the directional models see directions only: frames of any level (quiet frames next to loud ones) give the same trace
            y = y * 10.0 ** rng.uniform(-4.5, 2.0, size=(F, N, 1))
        emb = rng.normal(size=(F, N, 3)) + 2.0 * np.eye(3)[lab % 3]
        init = np.moveaxis(rng.dirichlet(2 * np.ones(K), size=(F, N)), -1, -2).copy() + 1e-3
        init /= init.sum(-2, keepdims=True)
        if inp['seed'] % 3 == 0 and (which.startswith('gmm') or which == 'cwmm'):
            # strictly positive but not normalised over the classes (the saliency-weighted weight update renormalises)
            init = init * rng.uniform(0.5, 2.0, size=(F, 1, N))
        # integer saliency (observation counts), correlated with the clusters
        sal = (1.0 + 3.0 * (lab == 0) * (rng.rand(F, N) < 0.8)) if inp['sal'] else None
        if force_sal and sal is None:
            sal = 1.0 + 3.0 * (lab == 0) * (rng.rand(F, N) < 0.8)
        if (inp['sal'] or force_sal) and (inp['seed'] % 2 or force_sal and inp['seed'] % 4):
            # fractional importance weights below one (the weighted log-likelihood sum_n s_n log p(y_n) is what EM ascends)
            sal = rng.uniform(0.15, 1.0, size=(F, N)) * np.where(lab == 0, 1.0, 0.5)
        if which == 'gcacgmm':
            wca = (-1,) if wca == -2 else wca
            sal = None if sal is None else sal
        z = y / np.linalg.norm(y, axis=-1, keepdims=True) if cplx else y
        rep = (lambda a: a) if sal is None else None
        lls, own, guard_ok = [], [], []
        fixed_cov = {}
        model = None
        for i in range(1, n_it + 1):
            if which.startswith('cacgmm'):
                cn = {'covariance_norm': ['eigenvalue', 'trace', False][(inp['seed'] // 2) % 3]}       # every normalisation of the cACG matrices
                if which == 'cacgmm-continued' and model is not None:
                    model = CACGMMTrainer().fit(y, initialization=model, iterations=1, saliency=sal, weight_constant_axis=wca, **cn)
                else:
                    model = CACGMMTrainer().fit(y, initialization=init, iterations=i, saliency=sal, weight_constant_axis=wca, **cn)
                lp = cacg_logpdf(z, model.cacg.covariance_eigenvectors, model.cacg.covariance_eigenvalues)
                wgt = model.weight
                ev_ = np.asarray(model.cacg.covariance_eigenvalues)
                guard_ok.append(bool(np.all(ev_ >= 1e4 * 1e-10 * ev_.max(-1, keepdims=True))))
                own.append(float(model.log_likelihood(y)) if sal is None else None)
            elif which == 'cwmm':
                model = CWMMTrainer().fit(y, initialization=init, iterations=i, saliency=sal, weight_constant_axis=wca)
                kap = np.asarray(model.complex_watson.concentration)
                lp = watson_logpdf(z, model.complex_watson.mode, kap)
                wgt = model.weight
                # the upper end of the spline table clips the ML value (the step is then not an exact M-step); the lower end does not:
                # a top eigenvalue of 1 / D has the exact ML concentration 0
                guard_ok.append(bool(np.all(kap < 499.0)))
                own.append(None)
            elif which.startswith('gmm'):
                ct = which[4:]
                fixed = None
                if inp['seed'] % 4 == 1:
                    # covariances given by the caller (the weighted mean is then the exact M-step for the means): one fixed
                    # positive definite matrix / variance vector / variance per class, shaped like the fitted ones
                    if fixed_cov.get('ct') != ct:
                        Af = rng.normal(size=(F, K, D, D))
                        fixed_cov.update(ct=ct, full=Af @ np.swapaxes(Af, -1, -2) + 0.5 * np.eye(D), diagonal=rng.uniform(0.5, 2.0, size=(F, K, D)),
                                         spherical=rng.uniform(0.5, 2.0, size=(F, K)))
                    fixed = fixed_cov[ct]
                try:
                    model = GMMTrainer().fit(y, initialization=init, iterations=i, saliency=sal, weight_constant_axis=wca, covariance_type=ct,
                                             fixed_covariance=fixed)
                except ValueError as e:
                    # a component collapsed: the Gaussian constructor refuses a covariance that is not positive definite
                    # (documented behaviour, C09); the trace ends here and its prefix is still checked
                    if 'ill-defined empirical covariance' in str(e):
                        break
                    raise
                try:
                    lp = gauss_logpdf(y, model.gaussian.mean, model.gaussian.covariance, ct)
                except (np.linalg.LinAlgError, ValueError):
                    # a component collapsed to a covariance that is singular up to rounding: the independent oracle
                    # (scipy.stats) refuses it; the trace ends here, its prefix is still checked
                    break
                wgt = model.weight
                guard_ok.append(True)
                own.append(None)
            else:
                model = GCACGMMTrainer().fit(y, emb, initialization=init, iterations=i, saliency=sal, weight_constant_axis=wca,
                                             spatial_weight=1., spectral_weight=1., affiliation_eps=0.)
                lp_s = cacg_logpdf(z, model.cacg.covariance_eigenvectors, model.cacg.covariance_eigenvalues)
                g = model.gaussian
                lp_g = gauss_logpdf(emb.reshape(1, F * N, 3), g.mean[None], np.asarray(g.covariance)[None], 'spherical')[0]
                lp = lp_s + np.transpose(lp_g.reshape(K, F, N), (1, 0, 2))
                wgt = unsqueeze(model.weight, model.weight_constant_axis)
                guard_ok.append(bool(np.all(model.cacg.covariance_eigenvalues >= 1e4 * 1e-10)))
                own.append(None)
            if sal is None:
                lls.append(mix_ll(wgt, lp))
            else:       # integer saliency = observation counts
                w = np.broadcast_to(wgt, lp.shape)
                with np.errstate(divide='ignore'):
                    lls.append(float(np.sum(sal * _lse(np.log(w) + lp, axis=-2))))
        return {'ll': lls, 'own': own, 'guard': guard_ok, 'which': which}

    def ensures(sp, inp, out):
        ll, guard = np.array(out['ll']), out['guard']
        yield 'finite-trace', bool(np.all(np.isfinite(ll)))
        # prefix along which no numerical guard is active
        n = len(ll)
        for i, g in enumerate(guard):
            if not g:
                n = i
                break
        ok = True
        worst = 0.0
        for i in range(1, n):
            tol = 1e-9 * max(1.0, abs(ll[i - 1]))
            if out['which'] == 'cwmm':
                tol = 1e-5 * max(1.0, abs(ll[i - 1]))      # the Watson concentration is a spline interpolation of the ML value
            if ll[i] < ll[i - 1] - tol:
                ok = False
                worst = max(worst, ll[i - 1] - ll[i])
        yield 'log-likelihood-non-decreasing[%s]' % out['which'], ok
        for i, o in enumerate(out['own'][:n]):
            if o is not None:
                yield 'own-log_likelihood-equals-mixture-log-likelihood', bool(abs(o - ll[i]) <= 1e-8 * max(1.0, abs(ll[i])))
                break

    return Instance('C02', DN + '*Trainer.fit', 'bounded-log-likelihood-traces' + ('-tight-classes-with-far-outliers' if outliers_only else '')
                    + ('-pinned-known-finding-zero-weight-underflow' if pinned else ''), make, call, ensures,
                    mode='bounded', bounded_n=1 if pinned else (24 if outliers_only else 90), frame=False, fixed_seed=bool(pinned))


def instances(tier):
    out = []
    out.append(loglik_instance(2, 2, (2, 1)))
    out.append(loglik_instance(3, 2, (3, 1)))
    out.append(loglik_instance(2, 2, (2, 2, 1), (2,)))
    out.append(loglik_instance(2, 2, (1, 2, 2), (2,)))
    out.append(loglik_instance(2, 2, (1, 2, 1), (2,)))
    out.append(trace_bounded_instance())
    out.append(trace_bounded_instance(outliers_only=True))
    out.append(trace_bounded_instance(outliers_only=True, pinned=True))
    from .common import lemma_instance
    out.append(lemma_instance('C02', 'em', 'lemma:em-monotonicity-from-the-expected-complete-data-log-likelihood'))
    out.append(lemma_instance('C02', 'gauss_mstep', 'lemma:gaussian-m-step-maximises-the-expected-complete-data-log-likelihood'))
    out.append(lemma_instance('C02', 'watson', 'lemma:watson-m-step-maximises-given-a-convex-log-normaliser',
                              ['tangent_line_le', 'tangent_maximiser', 'watson_mstep_maximises', 'clipped_upper_maximiser', 'clipped_lower_maximiser',
                               'clipped_lower_maximiser_Ici', 'log_integral_exp_convex']))
    out.append(lemma_instance('C02', 'cacgmm', 'lemma:cacg-mm-step-does-not-decrease-the-weighted-log-likelihood',
                              ['cacg_scale_invariant', 'complex_logdet_le_trace', 'complex_logdet_mul_le_trace', 'cacg_mm_step']))
    return out
