"""C03 - the true partition of separable data is a stable EM fixed point."""
import itertools
import math

import numpy as np

from pbv import expr as E
from pbv import scalar as S
from pbv.instance import Instance
from pbv.spec import cells, shape_of
from . import stubs

META = {
    'level': 'exploration',
    'min_obligations': 8,
    'explanation': 'proved part (ranking at exact prototypes): for every component family, with parameters that point at orthonormal '
                   'prototypes, the log-density of class j at any non-zero multiple of prototype j exceeds that of every other class '
                   '(the clause an inverted eigenvalue, a wrong sign of the concentration or a swapped whitening breaks).  The '
                   'robustness statement over perturbed data sets and iterations is outside contract-based verification: bounded '
                   'evaluation for all seven mixture models.',
    'assumptions': ['hyp1f1 / ive uninterpreted positive functions (the normalisers cancel between classes with equal concentration)'],
}
DN = 'pb_bss.distribution.'


def ranking_instance(family, D):
    """class parameters aligned with the standard basis vectors e_0, e_1 (K = 2); observation c * e_j."""
    from pb_bss.distribution import complex_angular_central_gaussian as cacg, complex_watson as cw, von_mises_fisher as vm, gaussian as g
    K = 2

    def patches():
        from scipy.special import hyp1f1 as rh, ive as ri
        return ([(cw, 'hyp1f1', stubs.uf_stub('hyp1f1', rh, 'hyp1f1 uninterpreted positive')), (vm, 'ive', stubs.uf_stub('ive', ri, 'ive uninterpreted positive'))]
                + stubs.make_gaussian_patches())

    def make(B):
        sp = B.sp
        inp = {}
        if family in ('cacg', 'watson'):
            inp['c'] = B.cplx('c', ())
            B.require('gain-nonzero', sp.gt(sp.abs2(inp['c']), 0.0))
        else:
            inp['c'] = B.real('c', (), lo=0.0, lo_strict=True, dist=(0.1, 10.0))
        if family == 'cacg':
            inp['eps'] = B.real('eps', (), lo=0.0, lo_strict=True, hi=1.0, hi_strict=True, dist=(0.01, 0.9))
        elif family == 'gaussian':
            inp['sig'] = B.real('sig', (), lo=0.0, lo_strict=True, dist=(0.1, 2.0))
        else:
            inp['kappa'] = B.real('kappa', (), lo=0.0, lo_strict=True, hi=500.0, dist=(0.5, 20.0))
        return inp

    def call(inp):
        res = {}
        cplx = family in ('cacg', 'watson')
        for j in range(K):
            y = np.zeros((1, D), dtype=complex if cplx else float)
            y[0, j] = 1.0
            y = y * inp['c']
            if family == 'cacg':
                lam = np.empty((K, D), dtype=object)
                for k in range(K):
                    for d in range(D):
                        lam[k, d] = 1.0 if d == k else inp['eps']
                lam = np.array(lam.tolist()) if not any(isinstance(v, S.R) for v in lam.reshape(-1)) else __import__('pbv.symnp', fromlist=['x']).from_scalars(lam, np.float64)
                V = np.broadcast_to(np.eye(D, dtype=complex), (K, D, D)).copy()
                m = cacg.ComplexAngularCentralGaussian(covariance_eigenvectors=V, covariance_eigenvalues=lam)
                res[j] = m.log_pdf(y[None])[..., 0] if False else m.log_pdf(np.broadcast_to(y, (K, 1, D)) if not hasattr(y, 'data') else y[None][[0] * K])
            elif family == 'watson':
                mode = np.eye(K, D, dtype=complex)
                kap = inp['kappa'] * np.ones(K)
                yn = y / np.maximum(np.linalg.norm(y, axis=-1, keepdims=True), np.finfo(np.float64).tiny)
                res[j] = cw.ComplexWatson(mode=mode, concentration=kap).log_pdf(yn[None][[0] * K])
            elif family == 'vmf':
                mean = np.eye(K, D)
                kap = inp['kappa'] * np.ones(K)
                res[j] = vm.VonMisesFisher(mean=mean, concentration=kap).log_pdf(y[None][[0] * K])
            else:
                mean = np.eye(K, D)
                cov = np.broadcast_to(np.eye(D), (K, D, D)) * (inp['sig'] * inp['sig'])
                yy = np.zeros((1, D))
                yy[0, j] = 1.0          # the Gaussian is not scale invariant: the prototype itself
                res[j] = g.Gaussian(mean=mean, covariance=cov).log_pdf(np.broadcast_to(yy, (K, 1, D)))
        return res

    def ensures(sp, inp, out):
        for j in range(K):
            lp = cells(out[j])
            yield 'shape[%d]' % j, sp._f(lp.shape == (K, 1))
            if lp.shape != (K, 1):
                continue
            for k in range(K):
                if k != j:
                    yield 'own-class-ranks-first[obs=%d,other=%d]' % (j, k), sp.gt(lp[j, 0], lp[k, 0])

    func = {'cacg': 'complex_angular_central_gaussian:ComplexAngularCentralGaussian.log_pdf', 'watson': 'complex_watson:ComplexWatson.log_pdf',
            'vmf': 'von_mises_fisher:VonMisesFisher.log_pdf', 'gaussian': 'gaussian:Gaussian.log_pdf'}[family]
    return Instance('C03', DN + func, 'ranking-%s-D%d' % (family, D), make, call, ensures, patches=patches, crosscheck=False, timeout=30.0,
                    definedness=False, native_n=4)


GMM_BLUR = float(__import__('os').environ.get('C03_GB', '0.1'))
UNBALANCED_BLUR = float(__import__('os').environ.get('C03_UB', '0.2'))


def fixed_point_bounded_instance():
    from pb_bss.distribution import (CACGMMTrainer, CWMMTrainer, CBMMTrainer, GMMTrainer, VMFMMTrainer, GCACGMMTrainer, VMFCACGMMTrainer)

    def make(B):
        return {'model': B.choose('model', ['cacgmm', 'cwmm', 'cbmm', 'gmm', 'vmfmm', 'gcacgmm', 'vmfcacgmm']),
                'K': B.choose('K', [2, 3, 4]), 'it': B.choose('it', [1, 2, 5, 20]), 'seed': B.choose('seed', list(range(5000))),
                'd': B.given('d', np.zeros(1))}

    def protos(rng, K, D, cplx):
        """K unit vectors with pairwise |cos| <= 0.3"""
        for _ in range(200):
            A = rng.normal(size=(D, D)) + (1j * rng.normal(size=(D, D)) if cplx else 0)
            Q, _ = np.linalg.qr(A)
            P = Q[:, :K].T.copy()
            # tilt slightly away from exact orthogonality
            P = P + 0.1 * (rng.normal(size=P.shape) + (1j * rng.normal(size=P.shape) if cplx else 0))
            P /= np.linalg.norm(P, axis=-1, keepdims=True)
            G = np.abs(P @ np.conj(P.T)) - np.eye(K)
            if G.max() <= 0.3:
                return P
        raise RuntimeError

    def call(inp):
        rng = np.random.RandomState(inp['seed'])
        model, K, it = inp['model'], inp['K'], inp['it']
        D = int(rng.randint(K, 9))
        if model == 'cbmm':
            D, it = min(D, 4), min(it, 2)
        F = 1 if model == 'cbmm' else 2
        sizes = rng.randint(D + 2, D + 12, size=K)
        if inp['seed'] % 3 == 0 and model != 'cbmm':
            # "any class sizes >= D + 2": clearly unbalanced classes (concentrations of a blurred start then differ per class)
            sizes = sizes * np.array([1, 4, 15, 2])[rng.permutation(4)[:K]]
        if inp['seed'] % 7 == 3 and model in ('gmm', 'vmfmm', 'cwmm', 'cacgmm'):
            # the smallest admissible class (D + 2 members) next to classes of hundreds
            sizes = np.array([D + 2] + [int(rng.randint(150, 400)) for _ in range(K - 1)])[rng.permutation(K)]
        lab = np.concatenate([np.full(s, k) for k, s in enumerate(sizes)])
        N = len(lab)
        cplx = model not in ('gmm', 'vmfmm')
        ys, es, protoS, protoE = [], [], [], []
        for f in range(F):
            P = protos(rng, K, D, cplx)
            pert = 1e-2 * (rng.normal(size=(N, D)) + (1j * rng.normal(size=(N, D)) if cplx else 0)) / np.sqrt(D)
            if model == 'gmm' and inp['seed'] % 2 == 0:
                # perturbation of the same level but strongly elongated and tilted in some classes (scatter 1e-2 along one
                # direction, 1e-5 along the others), round in the others
                for k in range(K):
                    if k % 2 == 0:
                        Q = np.linalg.qr(rng.normal(size=(D, D)))[0]
                        sv = np.full(D, 1e-3)
                        sv[0] = 1.0
                        pert[lab == k] = (pert[lab == k] * sv) @ Q.T
            y = P[lab] + pert
            if model not in ('gmm',):
                gain = 10.0 ** rng.uniform(-8, 8, size=(N, 1)) * (np.exp(1j * rng.uniform(0, 2 * np.pi, size=(N, 1))) if cplx else 1.0)
                y = y * gain
            ys.append(y)
            protoS.append(P)
        y = np.stack(ys)
        Ed = 4
        PE = protos(rng, K, max(Ed, K), False)
        if model == 'gcacgmm':
            # Gaussian stream: distinct means, not directions -- class means of clearly different length
            PE = PE * np.array([0.4, 1.0, 2.5, 1.6])[rng.permutation(4)[:K]][:, None]
        emb = PE[lab] + 1e-2 * rng.normal(size=(N, PE.shape[1])) / 2
        emb = np.broadcast_to(emb, (F,) + emb.shape).copy()
        onehot = (lab[None, :] == np.arange(K)[:, None]).astype(float)
        blur = rng.uniform(0.0, 0.45)
        if sizes.max() > 3 * sizes.min():
            blur = rng.uniform(0.0, UNBALANCED_BLUR)
        if inp['seed'] % 7 == 3 and model in ('vmfmm', 'cwmm', 'cacgmm'):
            blur = rng.uniform(0.2, 0.32)             # (the smallest class next to hundreds, from a clearly blurred start)
        if model == 'gmm':
            # full covariances fitted from a blurred start mix the between-class spread into every class; on the unchanged tree
            # a heavily blurred start then converges to another local optimum at a rate of about 2e-3 -- the family keeps the
            # blur of the Gaussian mixture moderate
            blur = min(blur, GMM_BLUR)
        init = (1 - blur) * onehot + blur / K
        init = np.broadcast_to(init, (F, K, N)).copy()
        if inp['seed'] % 5 == 0:
            # the true partition itself as a hard one-hot start of boolean / integer element type (labels_to_one_hot style)
            blur = 0.0
            init = np.broadcast_to(onehot, (F, K, N)).astype([bool, np.int64][(inp['seed'] // 5) % 2])
        if (inp['seed'] // 11) % 3 == 0 and model in ('cwmm', 'cacgmm'):
            # a single-precision pipeline: complex64 STFT and float32 starts (masks of a neural network)
            y = y.astype(np.complex64)
            if init.dtype.kind == 'f':
                init = init.astype(np.float32)
        if model in ('gcacgmm', 'vmfcacgmm'):
            cls = GCACGMMTrainer if model == 'gcacgmm' else VMFCACGMMTrainer
            # (the inline alignment between the two streams is an option of the integration models)
            kw_ = {'covariance_type': ['spherical', 'diagonal'][(inp['seed'] // 2) % 2]} if model == 'gcacgmm' else {}
            m = cls().fit(y, emb, initialization=init, iterations=it, inline_permutation_alignment=bool(inp['seed'] % 2), **kw_)
            post = m.predict(y, emb)
            param = m.cacg.covariance_eigenvectors[..., -1]
        else:
            cls = {'cacgmm': CACGMMTrainer, 'cwmm': CWMMTrainer, 'cbmm': CBMMTrainer, 'gmm': GMMTrainer, 'vmfmm': VMFMMTrainer}[model]
            if model == 'cbmm' and inp['seed'] % 2:
                tr_ = CBMMTrainer(max_concentration=[1e5, 500.0, 50.0][inp['seed'] % 3])       # a finite concentration cap
            else:
                tr_ = cls()
            # every covariance structure of the Gaussian mixture
            kw_ = {'covariance_type': ['full', 'diagonal', 'spherical'][(inp['seed'] // 2) % 3]} if model == 'gmm' else {}
            if model == 'cacgmm' and inp['seed'] % 3 == 1:
                # a source-activity mask that always allows the true class (and a random subset of the others)
                act = rng.rand(F, K, N) < 0.6
                act |= onehot.astype(bool)[None]
                m = tr_.fit(y, initialization=init * act, iterations=it, source_activity_mask=act)
                post = m.predict(y, source_activity_mask=act)
            else:
                m = tr_.fit(y, initialization=init, iterations=it, **kw_)
                post = m.predict(y)
            if model == 'cacgmm':
                param = m.cacg.covariance_eigenvectors[..., -1]
            elif model == 'cwmm':
                param = m.complex_watson.mode
            elif model == 'cbmm':
                ev = np.asarray(m.complex_bingham.covariance_eigenvalues)
                vec = np.asarray(m.complex_bingham.covariance_eigenvectors)
                param = np.take_along_axis(vec, np.argmax(ev, axis=-1)[..., None, None], axis=-1)[..., 0]
            elif model == 'gmm':
                param = m.gaussian.mean
            else:
                param = m.vmf.mean
        return {'post': post, 'lab': lab, 'param': param, 'protos': np.stack(protoS), 'model': model, 'blur': blur, 'it': it,
                'unbalanced': bool(sizes.max() > 3 * sizes.min())}

    def ensures(sp, inp, out):
        post, lab = np.asarray(out['post']), out['lab']
        yield 'posterior-finite', bool(np.all(np.isfinite(post)))
        yield 'maximum-posterior-class-is-true-class[%s]' % out['model'], bool(np.all(np.argmax(post, axis=-2) == lab[None, :]))
        P, prm = out['protos'], np.asarray(out['param'])
        # "small" distance / angle: after the first M-step from a blurred start the estimate is the blur-weighted mixture of the
        # class statistics, so the admissible deviation is proportional to the blur there; from the second iteration on
        # (posteriors of a fitted model) it is the perturbation level
        slack = out['blur'] if out['it'] <= 2 else 0.0
        if out['unbalanced'] and out['it'] <= 2:
            # a small class next to a 15 times larger one: after one or two M-steps from a blurred start its statistics are still
            # dominated by the blurred mass of the large class -- the parameter clause is about the fitted (iterated) model
            return
        if out['model'] == 'gmm':
            yield 'means-near-prototypes', bool(np.all(np.linalg.norm(prm - P, axis=-1) < 0.1 + 1.5 * slack))
        else:
            cosv = np.abs(np.sum(np.conj(prm) * P, axis=-1)) / np.linalg.norm(prm, axis=-1)
            yield 'fitted-direction-points-at-prototype[%s]' % out['model'], bool(np.all(cosv > 0.99 - slack))

    return Instance('C03', DN + '*Trainer.fit', 'bounded-separable-fixed-point', make, call, ensures, mode='bounded', bounded_n=150, frame=False)


def instances(tier):
    out = []
    for fam in ('watson', 'vmf', 'gaussian', 'cacg'):
        out.append(ranking_instance(fam, 2))
    out.append(ranking_instance('watson', 3))
    out.append(ranking_instance('vmf', 3))
    out.append(fixed_point_bounded_instance())
    return out
