"""C04 - spatial models depend only on the direction of each observation vector."""
import itertools

import numpy as np

from pbv import expr as E
from pbv import scalar as S
from pbv import symnp
from pbv.instance import Instance, flatten
from pbv.spec import cells, shape_of
from . import stubs
from .c11 import vecs

META = {
    'level': 'proof',
    'min_obligations': 80,
    'explanation': 'two-step relational argument, both steps under contract: (i) every normalising entry point maps c*y to '
                   '(c/|c|) * normalised(y) for a non-zero complex gain per frame (exactly normalised(y) for positive real gains: '
                   'vMF / embedding stream); (ii) every routine fed with normalised observations (cACG inner log-pdf and Tyler '
                   'step up to the eigen-solver, Watson log-pdf and scatter, Bingham log-pdf, the cACGMM E-step incl. '
                   'log-likelihood) is invariant under a unit-modulus factor per frame.  Their composition (fit / predict on y '
                   'versus c*y) is by construction; full fits with gains 1e-100..1e100 are bounded.',
    'assumptions': ['unit-modulus factors are parametrised as (1 - t^2 + 2 i t)/(1 + t^2), t real (every unit complex number except '
                    '-1, which is an extra concrete instance)'],
}
DN = 'pb_bss.distribution.'
TINY = float(np.finfo(np.float64).tiny)


def unit_factors(B, N, minus_one=False):
    """per-frame unit-modulus complex factors, rational parametrisation"""
    sp = B.sp
    if minus_one:
        return [sp.cplx(-1.0, 0.0)] * N
    out = []
    for n in range(N):
        t = B.real('t_%d' % n, dist=(-2.0, 2.0))
        den = t * t + 1.0
        out.append(sp.cplx((1.0 - t * t) / den, (t * 2.0) / den))
    return out


def scaled(B, y, factors, frame_axis, name):
    """y with frame n multiplied by factors[n] (cells computed by the contract)"""
    yc = cells(y)
    out = np.empty(yc.shape, dtype=object)
    for idx in np.ndindex(*yc.shape):
        out[idx] = yc[idx] * factors[idx[frame_axis]]
    return B.derived(name, out, np.complex128)


def normalisation_instance(kind, N, D, zero_frame=False):
    """normalised(c * y) * |c| == c * normalised(y)   (c complex non-zero; c > 0 real for 'vmf': equality)"""
    from pb_bss.distribution import complex_angular_central_gaussian as cacg, complex_watson as cw

    def make(B):
        sp = B.sp
        y = B.cplx('y', (N, D)) if kind != 'vmf' else B.real('y', (N, D))
        for n in range(N):
            B.require('frame-nonzero', sp.gt(sp.sum(sp.abs2(cells(y)[n, d]) for d in range(D)), 0.0))
        if kind == 'vmf':
            c = [B.real('c_%d' % n, lo=0.0, lo_strict=True, dist=(0.1, 10.0)) for n in range(N)]
            yc = cells(y)
            out = np.empty((N, D), dtype=object)
            for n in range(N):
                for d in range(D):
                    out[n, d] = yc[n, d] * c[n]
            return {'y': y, 'cy': B.derived('cy', out, np.float64), 'c': c}
        c = [B.cplx('c_%d' % n, ()) for n in range(N)]
        for n in range(N):
            B.require('gain-nonzero', sp.gt(sp.abs2(c[n]), 0.0))
        cy = scaled(B, y, c, 0, 'cy')
        if zero_frame:
            # one exactly silent frame next to the others (zero padding / a muted point): it stays zero, the others are projected as before
            def pad(a, name):
                out = np.empty((N + 1, D), dtype=object)
                out[:N] = cells(a)
                out[N] = 0.0
                return B.derived(name, out, np.complex128)
            return {'y': y, 'cy': cy, 'c': c, 'y_in': pad(y, 'y0'), 'cy_in': pad(cy, 'cy0')}
        return {'y': y, 'cy': cy, 'c': c}

    def norm(y):
        if kind == 'cacg':
            return np.swapaxes(cacg.normalize_observation(y), -1, -2)
        if kind == 'watson':
            return cw.normalize_observation(y)
        return y / np.maximum(np.linalg.norm(y, axis=-1, keepdims=True), np.finfo(y.dtype).tiny)

    def call(inp):
        return {'z': norm(inp.get('y_in', inp['y'])), 'zc': norm(inp.get('cy_in', inp['cy']))}

    def ensures(sp, inp, out):
        z, zc = cells(out['z']), cells(out['zc'])
        NN = N + 1 if zero_frame else N
        yield 'shapes', sp._f(z.shape == (NN, D) and zc.shape == (NN, D))
        if z.shape != (NN, D) or zc.shape != (NN, D):
            return
        if zero_frame:
            for d in range(D):
                yield 'silent-frame-stays-zero[%d]' % d, sp.and_(sp.eq(z[N, d], 0.0), sp.eq(zc[N, d], 0.0))
        yv = cells(inp['y'])
        for n in range(N):
            c = inp['c'][n]
            n2 = sp.sum(sp.abs2(yv[n, d]) for d in range(D))
            for d in range(D):
                if kind == 'vmf':
                    cond = sp.ge(sp.sqrt(n2) * sp.min(c, 1.0), TINY)       # both norms above the tiny guard
                    yield 'positive-gain-removed[%d,%d]' % (n, d), sp.implies(cond, sp.eq(zc[n, d], z[n, d]))
                else:
                    mod = sp.sqrt(sp.abs2(c))
                    cond = sp.TRUE if kind == 'cacg' else sp.ge(sp.sqrt(n2) * sp.min(mod, 1.0), TINY)
                    yield 'gain-reduced-to-its-phase[%d,%d]' % (n, d), sp.implies(cond, sp.eq(zc[n, d] * mod, z[n, d] * c))

    func = {'cacg': 'complex_angular_central_gaussian:normalize_observation', 'watson': 'complex_watson:normalize_observation',
            'vmf': 'von_mises_fisher:VonMisesFisher.log_pdf(normalisation)'}[kind]
    return Instance('C04', DN + func, '%s-N%dD%d%s' % (kind, N, D, '-with-a-silent-frame' if zero_frame else ''), make, call, ensures, timeout=40.0, definedness=False)


def unit_invariance_instance(kind, N, D, K=2, minus_one=False):
    """f(z) == f(u * z) for unit-modulus factors u per frame."""
    from pb_bss.distribution import complex_angular_central_gaussian as cacg, complex_watson as cw, complex_bingham as cb, cacgmm
    rec = stubs.Recorder(np.linalg.eigh)

    def patches():
        from scipy.special import hyp1f1 as real_h
        rec.clear()
        return [(np.linalg, 'eigh', rec), (cw, 'hyp1f1', stubs.uf_stub('hyp1f1', real_h, 'scipy.special.hyp1f1: uninterpreted positive function'))]

    def make(B):
        u = unit_factors(B, N, minus_one)
        inp = {'u': u}
        if kind in ('cacg-logpdf', 'cacg-fit', 'cacgmm-estep'):
            z = B.cplx('z', (D, N))                                   # (D, N) layout of the cACG internals
            inp['z'], inp['uz'] = z, scaled(B, z, u, 1, 'uz')
        else:
            z = B.cplx('z', (N, D))
            inp['z'], inp['uz'] = z, scaled(B, z, u, 0, 'uz')
        if kind in ('cacg-logpdf', 'cacgmm-estep'):
            lead = (K,) if kind == 'cacgmm-estep' else ()
            inp['V'] = B.cplx('V', lead + (D, D))
            inp['lam'] = B.real('lam', lead + (D,), lo=0.0, lo_strict=True, dist=(0.1, 1.0))
            if kind == 'cacgmm-estep':
                inp['w'] = B.real('w', (K, 1), lo=TINY, dist=(0.1, 1.0))
        if kind == 'cacg-fit':
            inp['q'] = B.real('q', (N,), lo=0.0, lo_strict=True, dist=(0.5, 2.0))
            inp['s'] = B.real('s', (N,), lo=0.0, lo_strict=True, dist=(0.2, 2.0))
            for n in range(N):
                B.require('quadratic-form-above-clip', B.sp.ge(cells(inp['q'])[n], 10 * TINY))
        if kind in ('watson-logpdf',):
            inp['w'] = B.cplx('w', (D,))
            inp['k'] = B.real('k', (), lo=1e-3, hi=100.0, dist=(0.5, 5.0))
        if kind == 'watson-fit':
            inp['s'] = B.real('s', (N,), lo=0.0, lo_strict=True, dist=(0.2, 2.0))
        if kind == 'bingham-logpdf':
            inp['Bm'] = B.cplx('Bm', (D, D))
        return inp

    def f(inp, z):
        if kind == 'cacg-logpdf':
            m = cacg.ComplexAngularCentralGaussian(covariance_eigenvectors=inp['V'], covariance_eigenvalues=inp['lam'])
            lp, qf = m._log_pdf(z)
            return {'log_pdf': lp, 'qf': qf}
        if kind == 'cacgmm-estep':
            m = cacgmm.CACGMM(weight=inp['w'], cacg=cacg.ComplexAngularCentralGaussian(covariance_eigenvectors=inp['V'], covariance_eigenvalues=inp['lam']))
            aff, qf, lp = m._predict(z)
            return {'aff': aff, 'qf': qf, 'll': m._log_likelihood(z, lp) if False else lp}
        if kind == 'cacg-fit':
            rec.clear()
            cacg.ComplexAngularCentralGaussianTrainer()._fit(z, saliency=inp['s'], quadratic_form=inp['q'])
            return {'eigh_arg': rec.calls[-1][0][0]}
        if kind == 'watson-logpdf':
            k = inp['k']
            return {'log_pdf': cw.ComplexWatson(mode=inp['w'], concentration=k if hasattr(k, 'shape') and isinstance(k, np.ndarray) else np.asarray(k) if not isinstance(k, S.R) else k).log_pdf(z)}
        if kind == 'watson-fit':
            rec.clear()
            orig = cw.ComplexWatsonTrainer.hypergeometric_ratio_inverse
            try:
                cw.ComplexWatsonTrainer.hypergeometric_ratio_inverse = lambda self, ev: ev
                cw.ComplexWatsonTrainer(D)._fit(z, saliency=inp['s'])
            finally:
                cw.ComplexWatsonTrainer.hypergeometric_ratio_inverse = orig
            return {'eigh_arg': rec.calls[-1][0][0]}
        if kind == 'bingham-logpdf':
            # z^H B z (the parameter-dependent part of the Bingham log-density; the normaliser does not depend on z)
            return {'quad': np.einsum('...td,...dD,...tD->...t', np.conj(z), inp['Bm'], z).real}
        raise ValueError(kind)

    def call(inp):
        return {'base': f(inp, inp['z']), 'scaled': f(inp, inp['uz'])}

    def ensures(sp, inp, out):
        if kind in ('cacg-logpdf', 'cacgmm-estep'):
            # ghost intermediate e(z) = z^H V diag(1/lam) V^H z (per class and frame): the outputs are functions of e only
            # (quadratic form = max(|e|, tiny), log-pdf = -D log(qf) - log det, posterior = posterior routine of the log-pdf),
            # so their invariance follows from e(z) = e(u z) by congruence.
            def ghost(z):
                zz = z[..., None, :, :] if kind == 'cacgmm-estep' else z
                return cells(np.einsum('...dt,...de,...e,...ge,...gt->...t', np.conj(zz), inp['V'], 1 / inp['lam'], np.conj(inp['V']), zz))
            g1, g2 = ghost(inp['z']), ghost(inp['uz'])
            lam = cells(inp['lam'])
            for run, g in (('base', g1), ('scaled', g2)):
                qf, lp = cells(out[run]['qf']), cells(out[run]['log_pdf' if kind == 'cacg-logpdf' else 'll'])
                for idx in np.ndindex(*g.shape):
                    logdet = sp.sum(sp.log(lam[idx[:-1] + (e,)]) for e in range(D))
                    yield 'quadratic-form-is-function-of-hermitian-form[%s,%s]' % (run, idx), sp.eq(qf[idx], sp.max(sp.abs(g[idx]), TINY))
                    yield 'log-pdf-is-function-of-quadratic-form[%s,%s]' % (run, idx), sp.eq(lp[idx], sp.log(qf[idx]) * (-float(D)) - logdet)
            for idx in np.ndindex(*g1.shape):
                yield 'hermitian-form-invariant-under-unit-factor[%s]' % (idx,), sp.eq(g1[idx], g2[idx])
            return
        fb, fs = flatten(out['base']), flatten(out['scaled'])
        yield 'same-structure', sp._f([p for p, _ in fb] == [p for p, _ in fs])
        for (p, a), (_, b) in zip(fb, fs):
            ca, cb_ = cells(a), cells(b)
            yield 'shape[%s]' % p, sp._f(ca.shape == cb_.shape)
            if ca.shape != cb_.shape:
                continue
            for idx in np.ndindex(*ca.shape):
                yield 'unit-modulus-factor-invisible[%s,%s]' % (p, idx), sp.eq(ca[idx], cb_[idx])

    func = {'cacg-logpdf': 'complex_angular_central_gaussian:ComplexAngularCentralGaussian._log_pdf',
            'cacg-fit': 'complex_angular_central_gaussian:ComplexAngularCentralGaussianTrainer._fit', 'cacgmm-estep': 'cacgmm:CACGMM._predict',
            'watson-logpdf': 'complex_watson:ComplexWatson.log_pdf', 'watson-fit': 'complex_watson:ComplexWatsonTrainer._fit',
            'bingham-logpdf': 'complex_bingham:ComplexBingham.log_pdf'}[kind]
    return Instance('C04', DN + func, '%s-N%dD%d%s' % (kind, N, D, '-minus-one' if minus_one else ''), make, call, ensures, patches=patches,
                    timeout=40.0, definedness=False, crosscheck=False, native_n=3)


def gains_bounded_instance():
    from pb_bss.distribution import (CACGMMTrainer, CWMMTrainer, CBMMTrainer, VMFMMTrainer, GCACGMMTrainer, VMFCACGMMTrainer,
                                     ComplexAngularCentralGaussianTrainer, ComplexWatsonTrainer, VonMisesFisherTrainer)

    def make(B):
        return {'which': B.choose('which', ['cacgmm', 'cacgmm-ll', 'cwmm', 'cwmm-fit_predict', 'cbmm', 'vmfmm', 'gcacgmm', 'vmfcacgmm', 'cacg', 'watson', 'vmf', 'bingham']),
                'range': B.choose('range', [(1e-3, 1e3), (1e-100, 1e100), (1e-100, 1e-90), (1e90, 1e100), (1 - 9e-6, 1 + 9e-6)]),
                'it': B.choose('it', [1, 3, 8]), 'seed': B.choose('seed', list(range(3000))), 'd': B.given('d', np.zeros(1)),
                'trainer': B.choose('trainer', ['fresh', 'dimension', 'reused'])}

    def call(inp):
        rng = np.random.RandomState(inp['seed'])
        which, it = inp['which'], inp['it']
        warm = rng.normal(size=(1, 8, 3)) + 1j * rng.normal(size=(1, 8, 3))
        warm_init = np.moveaxis(rng.dirichlet(np.ones(2), size=(1, 8)), -1, -2).copy()

        def mk(cls):
            # trainer objects with a dimension option: fresh, constructed with the dimension, or used before
            if inp['trainer'] == 'dimension':
                return cls(dimension=3)
            tr = cls()
            if inp['trainer'] == 'reused':
                with np.errstate(all='ignore'):
                    tr.fit(warm, initialization=warm_init, iterations=1)
            return tr
        F, N, D, K = 2, 24, 3, 2
        lo, hi = inp['range']
        real = which in ('vmfmm', 'vmf')
        y = rng.normal(size=(F, N, D)) + (0 if real else 1j * rng.normal(size=(F, N, D)))
        if hi < 2 and lo > 0.5:
            # gains next to one act on frames that are (almost exactly) unit norm already
            y = y / np.linalg.norm(y, axis=-1, keepdims=True)
        mag = np.exp(rng.uniform(np.log(lo), np.log(hi), size=(F, N, 1)))
        c = mag if real else mag * np.exp(1j * rng.uniform(0, 2 * np.pi, size=(F, N, 1)))
        if (inp['seed'] // 13) % 3 == 0 and not real and which not in ('cbmm', 'bingham'):
            # silent points (zero padding, a muted segment, a removed DC bin): exactly zero frames stay zero under every gain, the
            # other points keep their directions
            dead = rng.rand(F, N) < 0.12
            dead[:, :6] = False
            y = np.where(dead[..., None], 0.0, y)
        single = (inp['seed'] // 17) % 3 == 0 and hi <= 1e3 and lo >= 1e-3 and which not in ('bingham', 'cbmm')
        if single:
            # single-precision STFT (gains inside the range of the type; the comparison tolerance is that of the type)
            y = y.astype(np.float32 if real else np.complex64)
            c = c.astype(np.float32 if real else np.complex64)
        emb = rng.normal(size=(F, N, 4))
        ce = np.exp(rng.uniform(np.log(lo), np.log(hi), size=(F, N, 1)))
        init = np.moveaxis(rng.dirichlet(np.ones(K), size=(F, N)), -1, -2).copy()
        # every weight-tying option of the mixture trainers; every memory layout of the caller's tensors (C order, Fortran order, the
        # transposed view of a (D, T, F) STFT, a strided slice)
        wca = [(-1,), (-3,), (-3, -1), (-1,)][(inp['seed'] // 5) % 4]
        kw = {'weight_constant_axis': wca}
        layout = ['C', 'T', 'F', 'strided'][(inp['seed'] // 3) % 4]

        def relayout(a):
            if layout == 'F':
                return np.asfortranarray(a)
            if layout == 'T':
                return np.ascontiguousarray(a.transpose(2, 1, 0)).transpose(2, 1, 0)
            if layout == 'strided':
                big = np.zeros(a.shape[:-1] + (2 * a.shape[-1],), dtype=a.dtype)
                big[..., ::2] = a
                return big[..., ::2]
            return a

        # the importance-weight option of every trainer (every second scene)
        sal = rng.uniform(0.2, 2.0, size=(F, N)) if inp['seed'] % 2 else None
        kws = dict(kw, saliency=sal)

        def run(yy, ee):
            yy, ee = relayout(yy), relayout(ee)
            if which in ('cacgmm', 'cacgmm-ll'):
                m = CACGMMTrainer().fit(yy, initialization=init, iterations=it, **kws)
                return [m.predict(yy), np.asarray(m.log_likelihood(yy)), m.weight, m.cacg.covariance_eigenvalues, m.cacg.covariance]
            if which == 'cwmm':
                m = mk(CWMMTrainer).fit(yy, initialization=init, iterations=it, **kws)
                return [m.predict(yy), m.weight, np.asarray(m.complex_watson.concentration)]
            if which == 'cwmm-fit_predict':
                return [mk(CWMMTrainer).fit_predict(yy, initialization=init, iterations=it, **kws)]
            if which == 'cbmm':
                m = mk(CBMMTrainer).fit(yy[:, :8], initialization=init[:, :, :8], iterations=1)
                return [m.predict(yy[:, :8]), m.weight]
            if which == 'vmfmm':
                m = VMFMMTrainer().fit(yy, initialization=init, iterations=it, **kws)
                return [m.predict(yy), m.weight, m.vmf.mean, np.asarray(m.vmf.concentration)]
            if which in ('gcacgmm', 'vmfcacgmm'):
                cls = GCACGMMTrainer if which == 'gcacgmm' else VMFCACGMMTrainer
                m = cls().fit(yy, ee if which == 'vmfcacgmm' else emb, initialization=init, iterations=it, **kws)
                return [m.predict(yy, ee if which == 'vmfcacgmm' else emb), m.cacg.covariance_eigenvalues]
            if which == 'cacg':
                m = ComplexAngularCentralGaussianTrainer().fit(yy, iterations=it)        # (the stand-alone cACG trainer rejects a saliency explicitly)
                return [m.covariance_eigenvalues, m.covariance, m.log_pdf(yy)]
            if which == 'bingham':
                from pb_bss.distribution.complex_bingham import ComplexBinghamTrainer
                m = ComplexBinghamTrainer(max_concentration=500.0).fit(yy[0, :12], saliency=None if sal is None else sal[0, :12])
                return [np.asarray(m.covariance), np.asarray(m.covariance_eigenvalues), np.asarray(m.log_pdf(yy[0, :12] / np.linalg.norm(yy[0, :12], axis=-1, keepdims=True)))]
            if which == 'watson':
                m = ComplexWatsonTrainer().fit(yy, saliency=sal)
                return [np.asarray(m.concentration), np.abs(m.mode)]
            m = VonMisesFisherTrainer().fit(yy, saliency=sal)
            return [m.mean, np.asarray(m.concentration), m.log_pdf(yy)]
        with np.errstate(all='ignore'):
            return {'base': run(y, emb), 'scaled': run(c * y, ce * emb), 'single': single}

    def ensures(sp, inp, out):
        for i, (a, b) in enumerate(zip(out['base'], out['scaled'])):
            a, b = np.asarray(a), np.asarray(b)
            yield 'finite[%d]' % i, bool(np.all(np.isfinite(a)) and np.all(np.isfinite(b)))
            tol = {'rtol': 2e-3, 'atol': 2e-4} if out.get('single') else {'rtol': 1e-6, 'atol': 1e-8}
            yield 'unchanged-under-per-frame-gains[%d]%s' % (i, '[single]' if out.get('single') else ''), bool(a.shape == b.shape and np.allclose(a, b, **tol))

    return Instance('C04', DN + '*Trainer.fit', 'bounded-gains-1e-100..1e100', make, call, ensures, mode='bounded', bounded_n=100, frame=False)


def instances(tier):
    out = []
    out.append(normalisation_instance('cacg', 2, 2))
    out.append(normalisation_instance('watson', 1, 2))
    out.append(normalisation_instance('vmf', 2, 2))
    out.append(normalisation_instance('cacg', 1, 3))
    out.append(normalisation_instance('watson', 1, 2, zero_frame=True))
    out.append(normalisation_instance('cacg', 1, 2, zero_frame=True))
    for kind in ('cacg-logpdf', 'cacg-fit', 'cacgmm-estep', 'watson-logpdf', 'watson-fit', 'bingham-logpdf'):
        out.append(unit_invariance_instance(kind, 2, 2))
        out.append(unit_invariance_instance(kind, 2, 2, minus_one=True))
    out.append(gains_bounded_instance())
    return out


_instances_before_simplex = instances


def instances(tier):       # noqa: F811
    from .common import simplex_lemma_instances
    return _instances_before_simplex(tier) + simplex_lemma_instances('C04')
