"""C05 - mixture training is equivariant under relabelling of the classes."""
import itertools

import numpy as np

from pbv import scalar as S
from pbv import symnp
from pbv.instance import Instance, flatten
from pbv.spec import cells, shape_of
from . import stubs

META = {
    'level': 'proof',
    'min_obligations': 150,
    'explanation': 'relational contracts for every class permutation (K = 2, 3): the weight update, the M-step of every mixture '
                   'trainer and the posterior routine commute with a permutation of the class axis (of the affiliation, the '
                   'quadratic forms and the source-activity mask); external eigen-solvers are memoised per matrix, so the '
                   'permuted call sees the same decompositions.  fit() is the alternation of these steps (C08), hence '
                   'equivariant for every iteration count; full fits with 1..20 iterations are bounded.',
    'assumptions': ['external eigen-solvers / spline inverse are deterministic functions of their argument',
                    'Bingham M-step and the inline aligners (tie-free data) only in the bounded part'],
}
DN = 'pb_bss.distribution.'


def take(a, perm, axis):
    if isinstance(a, symnp.SymArray):
        return symnp.SymArray(np.take(a.data, list(perm), axis=axis), a.dt)
    return np.take(np.asarray(a), list(perm), axis=axis)


def eq_cells(sp, a, b, tag):
    ca, cb = cells(a), cells(b)
    yield 'shape[%s]' % tag, sp._f(ca.shape == cb.shape)
    if ca.shape != cb.shape:
        return
    for idx in np.ndindex(*ca.shape):
        yield 'permuted-call-equals-permuted-result[%s,%s]' % (tag, idx), sp.eq(ca[idx], cb[idx])


def weight_perm(K, N, wca, with_saliency, lead=(2,)):
    from pb_bss.distribution import mixture_model_utils as mmu
    lead = tuple(lead)
    perms = [p for p in itertools.permutations(range(K)) if p != tuple(range(K))]

    def make(B):
        return {'g': B.real('g', lead + (K, N), lo=0.0, lo_strict=True, dist=(0.05, 1.0)),
                's': B.real('s', lead + (N,), lo=0.0, lo_strict=True, dist=(0.2, 2.0)) if with_saliency else None}

    def call(inp):
        base = mmu.estimate_mixture_weight(inp['g'], saliency=inp['s'], weight_constant_axis=wca)
        return {'base': base, 'perm': {p: mmu.estimate_mixture_weight(take(inp['g'], p, -2), saliency=inp['s'], weight_constant_axis=wca) for p in perms}}

    def ensures(sp, inp, out):
        for p in perms:
            yield from eq_cells(sp, out['perm'][p], take(out['base'], p, -2), ''.join(map(str, p)))

    return Instance('C05', DN + 'mixture_model_utils:estimate_mixture_weight', 'K%dN%d-wca%s-sal%d' % (K, N, str(wca).replace(' ', ''), int(with_saliency)),
                    make, call, ensures, definedness=False, crosscheck=False)


def affiliation_perm(K, N, masked, eps):
    from pb_bss.distribution import mixture_model_utils as mmu
    TINY = float(np.finfo(np.float64).tiny)
    perms = [p for p in itertools.permutations(range(K)) if p != tuple(range(K))]
    mask = None
    if masked:
        mask = np.ones((K, N), dtype=bool)
        mask[0, 0] = False
        if masked == 2:          # a frame where every class is declared inactive
            mask[:, 0] = False

    def make(B):
        return {'w': B.real('w', (K, 1), lo=TINY, dist=(0.05, 1.0)), 'l': B.real('l', (K, N))}

    def call(inp):
        f = lambda w, l, m: mmu.log_pdf_to_affiliation(w, l, source_activity_mask=m, affiliation_eps=eps)      # noqa
        return {'base': f(inp['w'], inp['l'], mask),
                'perm': {p: f(take(inp['w'], p, -2), take(inp['l'], p, -2), None if mask is None else mask[list(p)]) for p in perms}}

    def ensures(sp, inp, out):
        for p in perms:
            yield from eq_cells(sp, out['perm'][p], take(out['base'], p, -2), ''.join(map(str, p)))

    return Instance('C05', DN + 'mixture_model_utils:log_pdf_to_affiliation', 'K%dN%d-mask%d-eps%g' % (K, N, int(masked), eps),
                    make, call, ensures, definedness=False, crosscheck=False, timeout=20.0)


FIELD_AXIS = {     # class axis of every model field, counted from the end
    'weight': -2, 'V': -3, 'lam': -2, 'mode': -2, 'kappa': -1, 'mean': -2, 'cov_full': -3, 'cov_diagonal': -2, 'cov_spherical': -1,
}


def mstep_perm(kind, K, N=3, D=2, ctype='full', wca=(-1,), cov_norm='eigenvalue', floor=1e-10, nolead=False):
    from pb_bss.distribution import cacgmm, cwmm, gmm, vmfmm, gcacgmm, vmfcacgmm
    from pb_bss.distribution import complex_watson as cw
    F = 2
    LS = () if nolead else (F,)           # leading (independent) axes of the stack
    cplx = kind in ('cacgmm', 'cwmm', 'gcacgmm', 'vmfcacgmm')
    integration = kind in ('gcacgmm', 'vmfcacgmm')
    perms = [p for p in itertools.permutations(range(K)) if p != tuple(range(K))]
    orig_inv = cw.ComplexWatsonTrainer.hypergeometric_ratio_inverse
    Ed = 2

    def patches():
        ps = []
        if kind in ('gmm', 'gcacgmm'):
            ps += stubs.make_gaussian_opaque_patches()
        if kind == 'cwmm':
            inv = stubs.uf_stub('watson_inv', lambda ev: np.asarray(orig_inv(cw.ComplexWatsonTrainer(D), ev)), 'Watson spline inverse: uninterpreted', positive=False)
            ps.append((cw.ComplexWatsonTrainer, 'hypergeometric_ratio_inverse', lambda self, ev: inv(ev)))
        return ps

    def make(B):
        a = {'y': B.cplx('y', LS + (N, D)) if cplx else B.real('y', LS + (N, D)),
             'g': B.real('g', LS + (K, N), lo=0.0, lo_strict=True, dist=(0.05, 1.0)),
             's': B.real('s', LS + (N,), lo=0.0, lo_strict=True, dist=(0.2, 2.0)),
             'q': B.real('q', LS + (K, N), lo=0.0, lo_strict=True, dist=(0.5, 2.0))}
        if integration:
            a['e'] = B.real('e', (F, N, Ed))
        return a

    def one(a, g, q):
        if kind == 'cacgmm':
            m = cacgmm.CACGMMTrainer()._m_step(np.swapaxes(a['y'], -1, -2), q, affiliation=g, saliency=a['s'], hermitize=True,
                                               covariance_norm=cov_norm, eigenvalue_floor=floor, weight_constant_axis=wca)
            return {'weight': m.weight, 'V': m.cacg.covariance_eigenvectors, 'lam': m.cacg.covariance_eigenvalues}
        if kind == 'cwmm':
            m = cwmm.CWMMTrainer(dimension=D)._m_step(a['y'], affiliation=g, saliency=a['s'], weight_constant_axis=wca)
            return {'weight': m.weight, 'mode': m.complex_watson.mode, 'kappa': m.complex_watson.concentration}
        if kind == 'gmm':
            m = gmm.GMMTrainer()._m_step(a['y'], affiliation=g, saliency=a['s'], weight_constant_axis=wca, covariance_type=ctype, fixed_covariance=None)
            return {'weight': m.weight, 'mean': m.gaussian.mean, 'cov_' + ctype: m.gaussian.covariance}
        if kind == 'vmfmm':
            m = vmfmm.VMFMMTrainer()._m_step(a['y'], affiliation=g, saliency=a['s'], weight_constant_axis=wca, min_concentration=1e-10, max_concentration=500)
            return {'weight': m.weight, 'mean': m.vmf.mean, 'kappa': m.vmf.concentration}
        if kind == 'gcacgmm':
            m = gcacgmm.GCACGMMTrainer()._m_step(a['y'], a['e'], q, affiliation=g, saliency=a['s'], hermitize=True, covariance_norm='eigenvalue',
                                                 eigenvalue_floor=1e-10, covariance_type='spherical', fixed_covariance=None,
                                                 weight_constant_axis=wca, spatial_weight=1., spectral_weight=1.)
            return {'weight_fk': m.weight, 'V': m.cacg.covariance_eigenvectors, 'lam': m.cacg.covariance_eigenvalues, 'mean': m.gaussian.mean,
                    'cov_spherical': m.gaussian.covariance}
        m = vmfcacgmm.VMFCACGMMTrainer()._m_step(a['y'], a['e'], q, affiliation=g, saliency=a['s'], min_concentration=1e-10, max_concentration=500,
                                                 hermitize=True, covariance_norm='eigenvalue', eigenvalue_floor=1e-10, weight_constant_axis=wca,
                                                 spatial_weight=1., spectral_weight=1.)
        return {'weight_fk': m.weight, 'V': m.cacg.covariance_eigenvectors, 'lam': m.cacg.covariance_eigenvalues, 'mean': m.vmf.mean, 'kappa': m.vmf.concentration}

    def call(inp):
        return {'base': one(inp, inp['g'], inp['q']), 'perm': {p: one(inp, take(inp['g'], p, -2), take(inp['q'], p, -2)) for p in perms}}

    def ensures(sp, inp, out):
        for p in perms:
            for fld, val in out['base'].items():
                if fld == 'weight_fk':        # integration models, default tying: weight of shape (F, K)
                    ax = -1
                else:
                    ax = FIELD_AXIS[fld]
                yield from eq_cells(sp, out['perm'][p][fld], take(val, p, ax), '%s,%s' % (fld, ''.join(map(str, p))))

    func = {'cacgmm': 'cacgmm:CACGMMTrainer', 'cwmm': 'cwmm:CWMMTrainer', 'gmm': 'gmm:GMMTrainer', 'vmfmm': 'vmfmm:VMFMMTrainer',
            'gcacgmm': 'gcacgmm:GCACGMMTrainer', 'vmfcacgmm': 'vmfcacgmm:VMFCACGMMTrainer'}[kind]
    extra = ('' if cov_norm == 'eigenvalue' else '-norm%s-floor%g' % (cov_norm, floor)) + ('-nolead' if nolead else '')
    return Instance('C05', DN + func + '._m_step', '%s-K%d%s-wca%s%s' % (kind, K, '-' + ctype if kind == 'gmm' else '', str(wca).replace(' ', ''), extra),
                    make, call, ensures, patches=patches, definedness=False, crosscheck=False, timeout=30.0, native_n=3)


def fits_bounded_instance(tied_only=False, symmetric_only=False):
    from pb_bss.distribution import CACGMMTrainer, CWMMTrainer, GMMTrainer, VMFMMTrainer, GCACGMMTrainer, VMFCACGMMTrainer, CBMMTrainer

    def make(B):
        return {'which': B.choose('which', ['cbmm-tied']) if tied_only else B.choose('which', ['cacgmm', 'cacgmm-mask', 'cwmm', 'gmm-diagonal', 'gmm-spherical', 'vmfmm', 'gcacgmm', 'vmfcacgmm']) if symmetric_only else B.choose('which', ['cacgmm', 'cacgmm-mask', 'cwmm', 'gmm-full', 'gmm-diagonal', 'gmm-spherical', 'vmfmm', 'gcacgmm', 'vmfcacgmm', 'cbmm', 'cbmm-tied', 'gcacgmm-ipa', 'vmfcacgmm-ipa', 'gcacgmm-ipa', 'vmfcacgmm-ipa',
                                                                                       'cacgmm-aligner', 'cwmm-aligner']),
                'K': B.choose('K', [2, 3, 3, 4]), 'it': B.choose('it', [1, 2, 5, 20]), 'wca': B.choose('wca', [(-1,), (-3,), (-3, -1)]),
                'seed': B.choose('seed', list(range(3000))), 'd': B.given('d', np.zeros(1))}

    def call(inp):
        rng = np.random.RandomState(inp['seed'])
        which, K, it = inp['which'], inp['K'], inp['it']
        F, N, D = 2, 30, 3
        if inp['seed'] % 3 == 0:
            F = K                # as many independent problems as classes: a class axis mistaken for the leading axis broadcasts
        if which.endswith('-aligner'):
            F = 3                # (the aligners insist on an odd number of bins)
        cplx = not (which.startswith('gmm') or which == 'vmfmm')
        tied = which == 'cbmm-tied'
        if tied:
            which = 'cbmm'
        if which == 'cbmm':
            F, N, it = 1, (40 if tied else 10), 1
        y = rng.normal(size=(F, N, D)) + (1j * rng.normal(size=(F, N, D)) if cplx else 0)
        if tied:
            # concentrated directions: the Bingham parameters (about -1/lambda) are sensitive to the scatter spectrum
            y = (rng.normal(size=(F, 1, D)) + 1j * rng.normal(size=(F, 1, D))) + 0.15 * y
        emb = rng.normal(size=(F, N, 4))
        init = np.moveaxis(rng.dirichlet(np.ones(K), size=(F, N)), -1, -2).copy()
        if tied and K >= 2:
            # two classes with almost the same soft assignment: their scatter spectra agree to about 1e-5 without being equal
            init[:, 1] = init[:, 0] * (1 + 10.0 ** rng.uniform(-6, -3) * rng.normal(size=init[:, 0].shape))
            init /= init.sum(-2, keepdims=True)
        if ((inp['seed'] // 7) % 4 == 0 or symmetric_only) and not tied and which in ('cacgmm', 'cacgmm-mask', 'cwmm', 'gmm-diagonal', 'gmm-spherical', 'vmfmm', 'gcacgmm', 'vmfcacgmm'):
            # class-symmetric starts (an uninformative flat start, or two classes with exactly the same soft assignment): relabelling must
            # still only relabel -- in particular the classes that start equal stay equal
            if inp['seed'] % 2:
                init = np.full((F, K, N), 1.0 / K)
            else:
                init[:, 1] = init[:, 0]
                init /= init.sum(-2, keepdims=True)
        perm = rng.permutation(K)
        if K > 1 and np.array_equal(perm, np.arange(K)):
            perm = np.roll(perm, 1)            # never the identity
        mask = rng.rand(F, K, N) < 0.9
        mask[:, :, 0] = True
        if inp['seed'] % 2:
            mask[:, :, 1] = False            # a frame in which every source is declared inactive

        # the relabelled fit runs on the trainer object of the first fit for odd seeds (a trainer is reusable), else on a new one
        share = bool(inp['seed'] % 2)
        pool = {}

        def trainer(cls):
            if not share:
                return cls()
            return pool.setdefault(cls, cls())

        def run(ii, mm):
            if which.startswith('gcacgmm') or which.startswith('vmfcacgmm'):
                cls = GCACGMMTrainer if which.startswith('gcacgmm') else VMFCACGMMTrainer
                tr = trainer(cls)
                ipa = which.endswith('-ipa')
                m = tr.fit(y, emb, initialization=ii, iterations=max(it, 2) if ipa else it, weight_constant_axis=inp['wca'],
                           inline_permutation_alignment=ipa)
                return m.predict(y, emb)
            if which in ('cacgmm-aligner', 'cwmm-aligner'):
                # the inline aligner option of the spatial mixture trainers (weights tied over frequency), any metric
                from pb_bss import permutation_alignment as pa_
                al = pa_.GreedyPermutationAlignment(['cos', 'euclidean'][inp['seed'] % 2])
                cls_ = CACGMMTrainer if which == 'cacgmm-aligner' else CWMMTrainer
                m = trainer(cls_).fit(y, initialization=ii, iterations=max(it, 2), weight_constant_axis=(-3,), inline_permutation_aligner=al)
                return m.predict(y)
            if which == 'cacgmm-mask':
                # tied (uniform) weights for every third scene: no class is preferred a priori
                m = trainer(CACGMMTrainer).fit(y, initialization=ii * mm, iterations=max(it, 2), source_activity_mask=mm,
                                               weight_constant_axis=-2 if inp['seed'] % 3 == 0 else inp['wca'])
                return m.predict(y, source_activity_mask=mm)
            cls = {'cacgmm': CACGMMTrainer, 'cwmm': CWMMTrainer, 'vmfmm': VMFMMTrainer, 'cbmm': CBMMTrainer}.get(which, GMMTrainer)
            kw = {'covariance_type': which[4:]} if which.startswith('gmm') else {}
            m = trainer(cls).fit(y, initialization=ii, iterations=it, weight_constant_axis=inp['wca'], **kw)
            return m.predict(y)
        base = run(init, mask)
        per = run(init[:, perm], mask[:, perm])
        return {'base': base, 'perm': per, 'p': perm, 'tied': tied}

    def ensures(sp, inp, out):
        # nearly tied classes: every class is computed by the same vectorised arithmetic, so relabelling is exact up to a few ulp
        # (2e-16 over 1500 scenes on the pinned tree); a class-order dependent shortcut shows as 1e-7 .. 1e-4
        tol = {'rtol': 0.0, 'atol': 1e-9} if out['tied'] else {'rtol': 1e-5, 'atol': 1e-7}
        yield 'posterior-of-permuted-start-is-permuted-posterior', bool(np.allclose(out['perm'], np.asarray(out['base'])[:, out['p']], **tol))

    return Instance('C05', DN + '*Trainer.fit', 'bounded-relabelled-fits-nearly-tied-classes' if tied_only else ('bounded-relabelled-fits-class-symmetric-starts' if symmetric_only else 'bounded-relabelled-fits'), make, call, ensures,
                    mode='bounded', bounded_n=60 if (tied_only or symmetric_only) else 80, frame=False,
                    raises=(ValueError, np.linalg.LinAlgError))


def assignment_relabelling_bounded_instance():
    """The assignment used by the inline aligners has no preferred class index: relabelling the reference classes (rows) and the
    estimated classes (columns) of a tie-free score matrix relabels the assignment, for both algorithms and stacked bins."""
    from pb_bss import permutation_alignment as pa

    def make(B):
        return {'K': B.choose('K', [2, 3, 4, 5]), 'F': B.choose('F', [None, 1, 3]), 'alg': B.choose('alg', ['greedy', 'greedy', 'optimal']),
                'seed': B.choose('seed', list(range(4000))), 'd': B.given('d', np.zeros(1))}

    def call(inp):
        rng = np.random.RandomState(inp['seed'])
        K, F = inp['K'], inp['F']
        shape = (K, K) if F is None else (F, K, K)
        s = rng.normal(size=shape)
        if inp['seed'] % 2:
            # two estimated classes compete for the same reference class (one dominant column): conflicts are the common case
            s[..., :, 0] += 3.0
        P, Q = rng.permutation(K), rng.permutation(K)
        m = np.asarray(pa._mapping_from_score_matrix(s, inp['alg']))
        m2 = np.asarray(pa._mapping_from_score_matrix(np.ascontiguousarray(s[..., P, :][..., :, Q]), inp['alg']))
        return {'m': m, 'm2': m2, 'P': P, 'Q': Q}

    def ensures(sp, inp, out):
        m, m2, P, Q = out['m'], out['m2'], out['P'], out['Q']
        Qinv = np.argsort(Q)
        yield 'relabelled-score-matrix-gives-relabelled-assignment[%s]' % inp['alg'], bool(m.shape == m2.shape and np.array_equal(m2, Qinv[m[P]]))

    return Instance('C05', 'pb_bss.permutation_alignment:_mapping_from_score_matrix', 'bounded-assignment-relabelling', make, call, ensures,
                    mode='bounded', bounded_n=200, frame=False)


def instances(tier):
    out = []
    for K in (2, 3):
        for wca in ((-1,), -2, (-3,), (-3, -1)):
            for sal in (False, True):
                out.append(weight_perm(K, 2, wca, sal))
        out.append(affiliation_perm(K, 2, False, 0.0))
        out.append(affiliation_perm(K, 2, True, 0.0))
        out.append(affiliation_perm(K, 2, 2, 0.0))
        out.append(affiliation_perm(K, 2, False, 1e-10))
    for kind in ('cacgmm', 'cwmm', 'vmfmm'):
        for K in (2, 3):
            out.append(mstep_perm(kind, K))
    out.append(mstep_perm('cacgmm', 2, wca=(-3,)))
    # single problem without a leading axis (the class axis is the first one) and the relative eigenvalue floors
    out.append(mstep_perm('cacgmm', 3, nolead=True))
    out.append(mstep_perm('cacgmm', 3, cov_norm='trace', floor=1e-3, nolead=True))
    out.append(mstep_perm('cacgmm', 2, cov_norm=False, floor=1e-3, nolead=True))
    out.append(mstep_perm('cacgmm', 2, cov_norm='trace', floor=1e-3))
    out.append(mstep_perm('gmm', 3, nolead=True))
    out.append(mstep_perm('cwmm', 3, nolead=True))
    out.append(mstep_perm('vmfmm', 3, nolead=True))
    for ct in ('full', 'diagonal', 'spherical'):
        out.append(mstep_perm('gmm', 2, ctype=ct))
    out.append(mstep_perm('gmm', 3, ctype='full'))
    for kind in ('gcacgmm', 'vmfcacgmm'):
        out.append(mstep_perm(kind, 2))
        out.append(mstep_perm(kind, 3))
    out.append(fits_bounded_instance())
    out.append(fits_bounded_instance(tied_only=True))
    out.append(fits_bounded_instance(symmetric_only=True))
    out.append(assignment_relabelling_bounded_instance())
    return out


_instances_before_simplex = instances


def instances(tier):       # noqa: F811
    from .common import simplex_lemma_instances
    return _instances_before_simplex(tier) + simplex_lemma_instances('C05')
