"""C06 - leading (frequency / batch) axes are independent problems."""
import dataclasses
import itertools

import numpy as np

from pbv import expr as E
from pbv import scalar as S
from pbv import symnp
from pbv.instance import Instance, flatten
from pbv.spec import cells, shape_of
from . import stubs
from .c07 import sym_lower
from .c11 import herm_pd

META = {
    'level': 'proof',
    'min_obligations': 150,
    'explanation': 'relational contracts: the stacked call indexed at a slice equals the call on the slice alone (same symbolic '
                   'content, externals memoised per matrix) for log_pdf and the single-step estimators of every distribution, '
                   'for the posterior routine, the weight update and the M-steps of the mixture trainers; a singleton leading '
                   'axis of the initial affiliation behaves as repetition (first M-step argument); bounded: full fits with 1..3 '
                   'leading axes',
    'assumptions': ['external eigen-solvers are deterministic functions of their matrix argument (memoised per matrix)',
                    'Bingham (least-squares fit) only in the bounded part'],
}
DN = 'pb_bss.distribution.'
L = 2        # size of the leading axis


def rel_instance(name, func, make_full, call, patches=None, fields=None, lead_in_result=True, timeout=20.0, slicer=None, **kw):
    """Generic stacking contract.  make_full(B) -> dict of arrays with the leading axis first (others passed unchanged when
    not arrays); call(args) -> result (arrays / dataclass).  Obligation: result[i] == call(args sliced at i)."""

    def make(B):
        return make_full(B)

    def slice_args(args, i):
        if slicer is not None:
            return slicer(args, i)
        out = {}
        for k, v in args.items():
            if hasattr(v, 'shape') and len(getattr(v, 'shape', ())) >= 1 and not k.startswith('_'):
                out[k] = v[i]
            else:
                out[k] = v
        return out

    def do_call(inp):
        full = call(inp)
        parts = [call(slice_args(inp, i)) for i in range(L)]
        return {'full': full, 'parts': parts}

    def pick(res):
        fl = flatten(res)
        if fields is not None:
            fl = [(p, v) for p, v in fl if any(p.endswith(f) or ('.' + f) in ('.' + p) for f in fields)]
        return fl

    def ensures(sp, inp, out):
        ff = pick(out['full'])
        for i in range(L):
            fp = pick(out['parts'][i])
            yield 'same-structure[%d]' % i, sp._f([p for p, _ in ff] == [p for p, _ in fp])
            if [p for p, _ in ff] != [p for p, _ in fp]:
                continue
            for (p, a), (_, b) in zip(ff, fp):
                if isinstance(a, (float, int, tuple, str, type(None))) and not hasattr(a, 'shape'):
                    continue
                ca, cb = cells(a), cells(b)
                ok = ca.shape[1:] == cb.shape if ca.ndim == cb.ndim + 1 else ca.shape == (L,) + cb.shape
                yield 'slice-shape[%d,%s]' % (i, p), sp._f(ca.ndim >= 1 and ca.shape[0] == L and ca.shape[1:] == cb.shape)
                if not (ca.ndim >= 1 and ca.shape[0] == L and ca.shape[1:] == cb.shape):
                    continue
                for idx in np.ndindex(*cb.shape):
                    yield 'stacked-equals-slice[%d,%s,%s]' % (i, p, idx), sp.eq(ca[(i,) + idx], cb[idx])

    return Instance('C06', func, name, make, do_call, ensures, patches=patches, crosscheck=False, timeout=timeout, native_n=3,
                    definedness=False, **kw)   # definedness of these functions is decided under C01 / C07 / C08 / C09


# ----------------------------------------------------------------------------- distributions: log_pdf
def gaussian_logpdf(ctype, D=2, N=2):
    from pb_bss.distribution import gaussian as g

    def make_full(B):
        args = {'mean': B.real('mu', (L, D)), 'y': B.real('y', (L, N, D))}
        if ctype == 'full':
            args['cov'], _ = sym_lower(B, 'S', D, (L,))
        elif ctype == 'diagonal':
            s = cells(B.real('s', (L, D), lo=0.0, lo_strict=True, dist=(0.5, 2.0)))
            c = np.empty((L, D), dtype=object)
            for i in np.ndindex(L, D):
                c[i] = s[i] * s[i]
            args['cov'] = B.derived('cov', c, np.float64)
        else:
            s = cells(B.real('s', (L,), lo=0.0, lo_strict=True, dist=(0.5, 2.0)))
            c = np.empty((L,), dtype=object)
            for i in range(L):
                c[i] = s[i] * s[i]
            args['cov'] = B.derived('cov', c, np.float64)
        return args

    def call(a):
        cls = {'full': g.Gaussian, 'diagonal': g.DiagonalGaussian, 'spherical': g.SphericalGaussian}[ctype]
        cov = a['cov']
        if ctype == 'spherical' and not hasattr(cov, 'shape'):
            cov = np.asarray(cov)
        elif ctype == 'spherical' and getattr(cov, 'shape', None) == () and not isinstance(cov, np.ndarray):
            pass
        return cls(mean=a['mean'], covariance=cov).log_pdf(a['y'])

    cls = {'full': 'Gaussian', 'diagonal': 'DiagonalGaussian', 'spherical': 'SphericalGaussian'}[ctype]
    return rel_instance('log_pdf-%s' % ctype, DN + 'gaussian:%s.log_pdf' % cls, make_full, call, patches=stubs.make_gaussian_patches)


def gaussian_fit(ctype, D=2, N=3, nosal=False):
    from pb_bss.distribution import gaussian as g

    def make_full(B):
        sal = B.real('s', (L, N), lo=0.0, lo_strict=True, dist=(0.2, 2.0))
        return {'y': B.real('y', (L, N, D)), 'sal': sal}

    def call(a):
        return g.GaussianTrainer().fit(a['y'], saliency=None if nosal else a['sal'], covariance_type=ctype)

    return rel_instance('fit-%s%s' % (ctype, '-nosal' if nosal else ''), DN + 'gaussian:GaussianTrainer.fit', make_full, call, patches=stubs.make_gaussian_opaque_patches,
                        fields=['mean', 'covariance'])


def from_cov_rel(cov_norm, floor, D=2):
    """cACG parameters from a stack of covariances: eigenvalue flooring relative to the slice's own largest eigenvalue"""
    from pb_bss.distribution import complex_angular_central_gaussian as m

    def make_full(B):
        return {'cov': herm_pd(B, 'c', D, (L,))}

    def call(a):
        mod = m.ComplexAngularCentralGaussian.from_covariance(a['cov'], eigenvalue_floor=floor, covariance_norm=cov_norm)
        return {'lam': mod.covariance_eigenvalues}

    return rel_instance('from_covariance-%s-floor%g' % (cov_norm, floor), DN + 'complex_angular_central_gaussian:ComplexAngularCentralGaussian.from_covariance',
                        make_full, call, timeout=30.0)


def ccsg_singleton(D=2, N=1):
    """complex Gaussian log_pdf with a singleton inner leading axis (the K = 1 class-axis layout) and single frames"""
    from pb_bss.distribution import complex_circular_symmetric_gaussian as m

    def make_full(B):
        return {'cov': herm_pd(B, 'S', D, (L, 1)), 'y': B.cplx('y', (L, 1, N, D))}

    def call(a):
        return {'log_pdf': m.ComplexCircularSymmetricGaussian(covariance=a['cov']).log_pdf(a['y'])}

    return rel_instance('log_pdf-singleton-axis-N%d' % N, DN + 'complex_circular_symmetric_gaussian:ComplexCircularSymmetricGaussian', make_full, call,
                        patches=lambda: [(symnp.SolveStub, 'fork_singular', False)])


def ccsg_both(D=2, N=2, nosal=False):
    from pb_bss.distribution import complex_circular_symmetric_gaussian as m

    def make_full(B):
        return {'cov': herm_pd(B, 'S', D, (L,)), 'y': B.cplx('y', (L, N, D)), 'sal': B.real('s', (L, N), lo=0.0, lo_strict=True, dist=(0.2, 2.0))}

    def call(a):
        return {'log_pdf': m.ComplexCircularSymmetricGaussian(covariance=a['cov']).log_pdf(a['y']),
                'fit': m.ComplexCircularSymmetricGaussianTrainer().fit(a['y'], saliency=None if nosal else a['sal']).covariance}

    return rel_instance('log_pdf+fit' + ('-nosal' if nosal else ''), DN + 'complex_circular_symmetric_gaussian:ComplexCircularSymmetricGaussian', make_full, call,
                        patches=lambda: [(symnp.SolveStub, 'fork_singular', False)])


def vmf_both(D=2, N=2, nosal=False):
    from pb_bss.distribution import von_mises_fisher as m
    from scipy.special import ive as real_ive

    def patches():
        return [(m, 'ive', stubs.uf_stub('ive', real_ive, 'scipy.special.ive: uninterpreted positive function'))]

    def make_full(B):
        sp = B.sp
        y = B.real('y', (L, N, D))
        for i in np.ndindex(L, N):
            B.require('observation-nonzero', sp.gt(sp.sum(cells(y)[i + (d,)] * cells(y)[i + (d,)] for d in range(D)), 0.0))
        return {'mean': B.real('mu', (L, D)), 'kappa': B.real('k', (L,), lo=1e-3, hi=100.0, dist=(0.5, 5.0)), 'y': y,
                'sal': B.real('s', (L, N), lo=0.0, lo_strict=True, dist=(0.2, 2.0))}

    def call(a):
        k = a['kappa']
        if not hasattr(k, 'shape') or (getattr(k, 'shape', None) == () and not isinstance(k, np.ndarray)):
            k = np.asarray(k) if not isinstance(k, (S.R,)) else k
        f = m.VonMisesFisherTrainer().fit(a['y'], saliency=None if nosal else a['sal'])
        return {'log_pdf': m.VonMisesFisher(mean=a['mean'], concentration=k).log_pdf(a['y']), 'fit_mean': f.mean, 'fit_kappa': f.concentration}

    return rel_instance('log_pdf+fit' + ('-nosal' if nosal else ''), DN + 'von_mises_fisher:VonMisesFisher', make_full, call, patches=patches, timeout=30.0)


def watson_both(D=2, N=2, nosal=False):
    from pb_bss.distribution import complex_watson as m
    from scipy.special import hyp1f1 as real_h
    orig_inv = m.ComplexWatsonTrainer.hypergeometric_ratio_inverse

    def patches():
        inv = stubs.uf_stub('watson_inv', lambda ev: np.asarray(orig_inv(m.ComplexWatsonTrainer(D), ev)), 'Watson spline inverse: uninterpreted', positive=False)
        return [(m, 'hyp1f1', stubs.uf_stub('hyp1f1', real_h, 'scipy.special.hyp1f1: uninterpreted positive function')),
                (m.ComplexWatsonTrainer, 'hypergeometric_ratio_inverse', lambda self, ev: inv(ev))]

    def make_full(B):
        sp = B.sp
        y = B.cplx('y', (L, N, D))
        for i in np.ndindex(L, N):
            B.require('observation-nonzero', sp.gt(sp.sum(sp.abs2(cells(y)[i + (d,)]) for d in range(D)), 0.0))
        return {'mode': B.cplx('w', (L, D)), 'kappa': B.real('k', (L,), lo=1e-3, hi=100.0, dist=(0.5, 5.0)), 'y': y,
                'sal': B.real('s', (L, N), lo=0.0, lo_strict=True, dist=(0.2, 2.0))}

    def call(a):
        f = m.ComplexWatsonTrainer(D).fit(a['y'], saliency=None if nosal else a['sal'])
        return {'log_pdf': m.ComplexWatson(mode=a['mode'], concentration=a['kappa']).log_pdf(a['y']), 'fit_mode': f.mode, 'fit_kappa': f.concentration}

    return rel_instance('log_pdf+fit' + ('-nosal' if nosal else ''), DN + 'complex_watson:ComplexWatson', make_full, call, patches=patches, timeout=30.0)


def cacg_both(D=2, N=2, iterations=2):
    from pb_bss.distribution import complex_angular_central_gaussian as m

    def make_full(B):
        sp = B.sp
        y = B.cplx('y', (L, N, D))
        for i in np.ndindex(L, N):
            B.require('observation-nonzero', sp.gt(sp.sum(sp.abs2(cells(y)[i + (d,)]) for d in range(D)), 0.0))
        return {'V': B.cplx('V', (L, D, D)), 'lam': B.real('lam', (L, D), lo=0.0, lo_strict=True, dist=(0.1, 1.0)), 'y': y}

    def call(a):
        f = m.ComplexAngularCentralGaussianTrainer().fit(a['y'], iterations=iterations)
        return {'log_pdf': m.ComplexAngularCentralGaussian(covariance_eigenvectors=a['V'], covariance_eigenvalues=a['lam']).log_pdf(a['y']),
                'fit_V': f.covariance_eigenvectors, 'fit_lam': f.covariance_eigenvalues}

    return rel_instance('log_pdf+fit-it%d' % iterations, DN + 'complex_angular_central_gaussian:ComplexAngularCentralGaussianTrainer.fit',
                        make_full, call, timeout=40.0)


# ----------------------------------------------------------------------------- mixture routines
def affiliation_rel(K=2, N=2):
    from pb_bss.distribution import mixture_model_utils as mmu
    TINY = float(np.finfo(np.float64).tiny)

    def make_full(B):
        return {'w': B.real('w', (L, K, 1), lo=TINY, dist=(0.05, 1.0)), 'l': B.real('l', (L, K, N))}

    def call(a):
        return mmu.log_pdf_to_affiliation(a['w'], a['l'])

    return rel_instance('K%dN%d' % (K, N), DN + 'mixture_model_utils:log_pdf_to_affiliation', make_full, call)


def weight_rel(K=2, N=2, with_saliency=True):
    from pb_bss.distribution import mixture_model_utils as mmu

    def make_full(B):
        a = {'g': B.real('g', (L, K, N), lo=0.0, lo_strict=True, dist=(0.05, 1.0))}
        a['s'] = B.real('s', (L, N), lo=0.0, lo_strict=True, dist=(0.2, 2.0)) if with_saliency else None
        return a

    def call(a):
        return mmu.estimate_mixture_weight(a['g'], saliency=a['s'], weight_constant_axis=(-1,))

    return rel_instance('K%dN%d-sal%d' % (K, N, int(with_saliency)), DN + 'mixture_model_utils:estimate_mixture_weight', make_full, call)


def mstep_rel(kind, K=2, N=3, D=2):
    """M-step on a stack (leading axis F = 2) versus the M-step of each slice kept as a length-one stack."""
    from pb_bss.distribution import cacgmm, cwmm, gmm, vmfmm
    from pb_bss.distribution import complex_watson as cw
    cplx = kind in ('cacgmm', 'cwmm')
    orig_inv = cw.ComplexWatsonTrainer.hypergeometric_ratio_inverse

    def patches():
        ps = []
        if kind == 'gmm':
            ps += stubs.make_gaussian_opaque_patches()
        if kind == 'cwmm':
            inv = stubs.uf_stub('watson_inv', lambda ev: np.asarray(orig_inv(cw.ComplexWatsonTrainer(D), ev)), 'Watson spline inverse: uninterpreted', positive=False)
            ps.append((cw.ComplexWatsonTrainer, 'hypergeometric_ratio_inverse', lambda self, ev: inv(ev)))
        return ps

    def make_full(B):
        a = {'y': B.cplx('y', (L, N, D)) if cplx else B.real('y', (L, N, D)),
             'g': B.real('g', (L, K, N), lo=0.0, lo_strict=True, dist=(0.05, 1.0)),
             's': B.real('s', (L, N), lo=0.0, lo_strict=True, dist=(0.2, 2.0)),
             'q': B.real('q', (L, K, N), lo=0.0, lo_strict=True, dist=(0.5, 2.0))}
        if kind == 'cacgmm':
            for i in np.ndindex(L, K, N):
                B.require('quadratic-form-above-clip', B.sp.ge(cells(a['q'])[i], 10 * float(np.finfo(np.float64).tiny)))
        return a

    def call(a):
        if kind == 'cacgmm':
            m = cacgmm.CACGMMTrainer()._m_step(np.swapaxes(a['y'], -1, -2), a['q'], affiliation=a['g'], saliency=a['s'], hermitize=True,
                                               covariance_norm='eigenvalue', eigenvalue_floor=1e-10, weight_constant_axis=(-1,))
            return {'weight': m.weight, 'V': m.cacg.covariance_eigenvectors, 'lam': m.cacg.covariance_eigenvalues}
        if kind == 'cwmm':
            tr = cwmm.CWMMTrainer(dimension=D)
            m = tr._m_step(a['y'], affiliation=a['g'], saliency=a['s'], weight_constant_axis=(-1,))
            return {'weight': m.weight, 'mode': m.complex_watson.mode, 'kappa': m.complex_watson.concentration}
        if kind == 'gmm':
            m = gmm.GMMTrainer()._m_step(a['y'], affiliation=a['g'], saliency=a['s'], weight_constant_axis=(-1,), covariance_type='full', fixed_covariance=None)
            return {'weight': m.weight, 'mean': m.gaussian.mean, 'cov': m.gaussian.covariance}
        m = vmfmm.VMFMMTrainer()._m_step(a['y'], affiliation=a['g'], saliency=a['s'], weight_constant_axis=(-1,), min_concentration=1e-10, max_concentration=500)
        return {'weight': m.weight, 'mean': m.vmf.mean, 'kappa': m.vmf.concentration}

    def slicer(args, i):
        return {k: (v[i:i + 1] if hasattr(v, 'shape') else v) for k, v in args.items()}

    inst = rel_instance('mstep-%s' % kind, DN + {'cacgmm': 'cacgmm:CACGMMTrainer', 'cwmm': 'cwmm:CWMMTrainer', 'gmm': 'gmm:GMMTrainer',
                                                 'vmfmm': 'vmfmm:VMFMMTrainer'}[kind] + '._m_step', make_full, call, patches=patches,
                        slicer=slicer, timeout=40.0)
    # parts keep a length-one leading axis: compare full[i] with part[0]
    base_ens = inst.ensures

    def ensures(sp, inp, out):
        ff = flatten(out['full'])
        for i in range(L):
            fp = flatten(out['parts'][i])
            for (p, a), (_, b) in zip(ff, fp):
                ca, cb = cells(a), cells(b)
                ok = cb.ndim == ca.ndim and cb.shape[0] == 1 and ca.shape[0] == L and ca.shape[1:] == cb.shape[1:]
                yield 'slice-shape[%d,%s]' % (i, p), sp._f(ok)
                if not ok:
                    continue
                for idx in np.ndindex(*cb.shape[1:]):
                    yield 'stacked-equals-slice[%d,%s,%s]' % (i, p, idx), sp.eq(ca[(i,) + idx], cb[(0,) + idx])
    inst.ensures = ensures
    return inst


def singleton_init_instance(yshape_lead, init_lead):
    """CACGMMTrainer.fit: an initial affiliation with singleton leading axes reaches the first M-step as if repeated."""
    from pb_bss.distribution import cacgmm
    K, N, D = 2, 3, 2
    rng = np.random.RandomState(3)
    y0 = rng.normal(size=tuple(yshape_lead) + (N, D)) + 1j * rng.normal(size=tuple(yshape_lead) + (N, D))
    init = rng.uniform(0.1, 1.0, size=tuple(init_lead) + (K, N))
    log = []

    def fake_m(self, x, quadratic_form, affiliation, **k):
        log.append((np.array(x), np.array(quadratic_form), np.array(affiliation)))
        return 'model'

    def patches():
        return [(cacgmm.CACGMMTrainer, '_m_step', fake_m)]

    def make(B):
        return {'y': B.given('y', y0, wrap=False), 'init': B.given('init', init, wrap=False)}

    def call(inp):
        del log[:]
        cacgmm.CACGMMTrainer().fit(inp['y'], initialization=inp['init'], iterations=1)
        return {'log': list(log)}

    def ensures(sp, inp, out):
        yield 'one-m-step', sp._f(len(out['log']) == 1)
        if len(out['log']) != 1:
            return
        x, q, a = out['log'][0]

        def f(v):
            if isinstance(v, symnp.SymArray):
                return np.array([float(t) for t in v.data.reshape(-1)]).reshape(v.shape)
            return np.asarray(v)
        a, q = f(a), f(q)
        want = np.broadcast_to(init, tuple(yshape_lead) + (K, N))
        yield 'first-m-step-affiliation-is-the-repeated-initialisation', sp._f(a.shape == want.shape and bool(np.array_equal(a, want)))
        yield 'first-m-step-quadratic-form-is-one', sp._f(q.shape == want.shape and bool(np.all(q == 1.0)))

    return Instance('C06', DN + 'cacgmm:CACGMMTrainer.fit', 'singleton-init-y%s-init%s' % ('x'.join(map(str, yshape_lead)), 'x'.join(map(str, init_lead))),
                    make, call, ensures, patches=patches, crosscheck=False, native_n=1, frame=False)


def fits_bounded_instance():
    from pb_bss.distribution import (CACGMMTrainer, CWMMTrainer, GMMTrainer, VMFMMTrainer, GaussianTrainer, VonMisesFisherTrainer,
                                     ComplexWatsonTrainer, ComplexAngularCentralGaussianTrainer, CBMMTrainer)
    from pb_bss.distribution.complex_circular_symmetric_gaussian import ComplexCircularSymmetricGaussianTrainer
    from pb_bss.distribution.complex_bingham import ComplexBinghamTrainer

    def make(B):
        return {'which': B.choose('which', ['cacgmm', 'cwmm', 'gmm-full', 'gmm-diagonal', 'gmm-spherical', 'vmfmm', 'gauss-full', 'gauss-diagonal',
                                            'gauss-spherical', 'ccsg', 'vmf', 'watson', 'cacg', 'bingham', 'cbmm']),
                'nlead': B.choose('nlead', [1, 2, 3]), 'seed': B.choose('seed', list(range(3000))), 'd': B.given('d', np.zeros(1))}

    def call(inp):
        rng = np.random.RandomState(inp['seed'])
        which = inp['which']
        lead = tuple(int(v) for v in rng.randint(1, 4, size=inp['nlead']))
        if which == 'bingham':
            lead = lead[:1]
        if which == 'cbmm':
            lead = tuple(min(n, 2) for n in lead[:2])          # (the Bingham solver runs once per class and bin)
        K, N, D = 2, 14, 3
        cplx = which in ('cacgmm', 'cwmm', 'ccsg', 'watson', 'cacg', 'bingham', 'cbmm')
        y = rng.normal(size=lead + (N, D)) + (1j * rng.normal(size=lead + (N, D)) if cplx else 0)
        init = rng.dirichlet(np.ones(K), size=lead + (N,))
        init = np.moveaxis(init, -1, -2).copy()
        sal = rng.uniform(0.3, 2.0, size=lead + (N,))
        # memory layouts of the caller's tensors: masks kept class-major (K, ..., N) and handed over as a (..., K, N) view, observations
        # in Fortran order, a saliency that is a transposed view
        lay = (inp['seed'] // 3) % 3
        if lay == 1:
            init = np.moveaxis(np.ascontiguousarray(np.moveaxis(init, -2, 0)), 0, -2)
            sal = np.ascontiguousarray(sal.T).T
        elif lay == 2:
            y = np.asfortranarray(y)
            init = np.asfortranarray(init)

        def run(yy, ii, ss):
            if which in ('cacgmm', 'cwmm', 'vmfmm', 'cbmm') or which.startswith('gmm'):
                cls = {'cacgmm': CACGMMTrainer, 'cwmm': CWMMTrainer, 'vmfmm': VMFMMTrainer, 'cbmm': CBMMTrainer}.get(which, GMMTrainer)
                kw = {'covariance_type': which[4:]} if which.startswith('gmm') else {}
                tr = cls()
                m = tr.fit(yy, initialization=ii, iterations=2, saliency=ss, **kw)
                return [np.asarray(v) for _, v in flatten(m) if isinstance(v, np.ndarray)] + [np.asarray(m.predict(yy))]
            if which.startswith('gauss'):
                m = GaussianTrainer().fit(yy, saliency=ss, covariance_type=which[6:])
                return [np.asarray(m.mean), np.asarray(m.covariance), np.asarray(m.log_pdf(yy))]
            if which == 'ccsg':
                m = ComplexCircularSymmetricGaussianTrainer().fit(yy, saliency=ss)
                return [m.covariance, m.log_pdf(yy)]
            if which == 'vmf':
                m = VonMisesFisherTrainer().fit(yy, saliency=ss)
                return [m.mean, np.asarray(m.concentration), m.log_pdf(yy)]
            if which == 'watson':
                m = ComplexWatsonTrainer().fit(yy, saliency=ss)
                return [m.mode, np.asarray(m.concentration), m.log_pdf(yy / np.linalg.norm(yy, axis=-1, keepdims=True))]
            if which == 'cacg':
                m = ComplexAngularCentralGaussianTrainer().fit(yy, iterations=3)
                return [m.covariance_eigenvalues, m.covariance, m.log_pdf(yy)]
            m = ComplexBinghamTrainer().fit(yy[..., :8, :], saliency=None)
            return [np.asarray(m.covariance_eigenvalues), np.asarray(m.covariance)]
        full = run(y, init, sal)
        idx = tuple(int(rng.randint(0, n)) for n in lead)
        sl = tuple(slice(i, i + 1) for i in idx[:-1]) + (idx[-1],) if which in ('cacgmm', 'cwmm', 'vmfmm', 'cbmm') or which.startswith('gmm') else idx
        part = run(y[idx], init[idx], sal[idx])
        return {'full': [np.asarray(f)[idx] for f in full], 'part': part, 'which': which}

    def ensures(sp, inp, out):
        ok = len(out['full']) == len(out['part'])
        yield 'same-structure', ok
        if ok:
            for i, (a, b) in enumerate(zip(out['full'], out['part'])):
                same = np.shape(a) == np.shape(b) and np.allclose(a, b, rtol=1e-6, atol=1e-9)
                if not same and out['which'] in ('cacgmm', 'cacg', 'watson', 'cwmm', 'cbmm') and np.shape(a) == np.shape(b) and np.ndim(a) >= 1:
                    # eigenvectors are defined up to a phase: compare through the rank-one projectors
                    same = np.allclose(np.abs(a), np.abs(b), rtol=1e-5, atol=1e-8)
                yield 'stacked-fit-indexed-equals-slice-fit[%d]' % i, bool(same)

    return Instance('C06', DN + '*Trainer.fit', 'bounded-stacked-fits', make, call, ensures, mode='bounded', bounded_n=100, frame=False)


def wide_range_models_bounded_instance():
    """Hand-built (or loaded) stacked models whose parameters differ by orders of magnitude between the slices -- a Watson / vMF
    concentration near 0 next to one in the hundreds (up to the documented limits and the largest values the normaliser can hold),
    cACG spectra at the floor next to flat ones: log_pdf / predict of the stack indexed at a slice equals the slice alone."""
    from pb_bss.distribution import ComplexWatson, VonMisesFisher, ComplexAngularCentralGaussian, CWMM

    def make(B):
        return {'family': B.choose('family', ['watson', 'watson', 'vmf', 'cacg', 'cwmm', 'gauss-spherical', 'gauss-diagonal', 'gauss-full']), 'nlead': B.choose('nlead', [1, 2, 2]),
                'D': B.choose('D', [2, 3, 5]), 'seed': B.choose('seed', list(range(3000))), 'd': B.given('d', np.zeros(1))}

    def call(inp):
        rng = np.random.RandomState(inp['seed'])
        fam, D = inp['family'], inp['D']
        lead = tuple(int(v) for v in rng.randint(2, 4, size=inp['nlead']))
        N = 6

        def cn(*s_):
            return rng.normal(size=s_) + 1j * rng.normal(size=s_)
        # concentrations: every slice draws its own decade
        bands = [(0.01, 1.0), (1.0, 30.0), (100.0, 500.0), (700.5, 708.0)]      # (exp overflows at 709.78)
        if fam == 'vmf':
            bands = [(0.01, 1.0), (1.0, 30.0), (100.0, 500.0), (700.0, 5000.0)]          # (the exponentially scaled Bessel function has no upper limit)
        pick = rng.randint(0, len(bands), size=lead + ((2,) if fam == 'cwmm' else ()))
        pick.reshape(-1)[0] = len(bands) - 1
        pick.reshape(-1)[-1] = 0
        lo = np.array([b[0] for b in bands])[pick]
        hi = np.array([b[1] for b in bands])[pick]
        kappa = rng.uniform(lo, hi)
        def nc(a):
            # the same values in a different memory layout (leading axes stored in the opposite order) for every other scene
            if len(lead) == 2 and inp['seed'] % 2 and a.ndim >= 2:
                return np.swapaxes(np.ascontiguousarray(np.swapaxes(a, 0, 1)), 0, 1)
            return a
        if fam.startswith('gauss'):
            from pb_bss.distribution import Gaussian, DiagonalGaussian, SphericalGaussian
            mean = nc(rng.normal(size=lead + (D,)))
            if fam == 'gauss-spherical':
                cov = nc(10.0 ** rng.uniform(-3, 2, size=lead))
                obj = lambda ix: SphericalGaussian(mean=mean[ix], covariance=cov[ix])      # noqa
            elif fam == 'gauss-diagonal':
                cov = nc(10.0 ** rng.uniform(-3, 2, size=lead + (D,)))
                obj = lambda ix: DiagonalGaussian(mean=mean[ix], covariance=cov[ix])      # noqa
            else:
                a_ = rng.normal(size=lead + (D, D))
                cov = nc(a_ @ np.swapaxes(a_, -1, -2) + 0.1 * np.eye(D))
                obj = lambda ix: Gaussian(mean=mean[ix], covariance=cov[ix])      # noqa
            y = rng.normal(size=lead + (N, D))
        elif fam == 'watson':
            m = cn(*lead, D)
            obj = lambda ix: ComplexWatson(mode=(m / np.linalg.norm(m, axis=-1, keepdims=True))[ix], concentration=kappa[ix])      # noqa
            y = cn(*lead, N, D)
        elif fam == 'vmf':
            m = rng.normal(size=lead + (D,))
            obj = lambda ix: VonMisesFisher(mean=(m / np.linalg.norm(m, axis=-1, keepdims=True))[ix], concentration=kappa[ix])      # noqa
            y = rng.normal(size=lead + (N, D))
        elif fam == 'cacg':
            q, _ = np.linalg.qr(cn(*lead, D, D))
            ev = rng.uniform(0.0, 1.0, size=lead + (D,)) ** rng.choice([1, 8, 30], size=lead + (1,))
            ev = np.maximum(ev / ev.max(-1, keepdims=True), 1e-10)
            obj = lambda ix: ComplexAngularCentralGaussian(covariance_eigenvectors=q[ix], covariance_eigenvalues=ev[ix])      # noqa
            y = cn(*lead, N, D)
        else:
            m = cn(*lead, 2, D)
            w = rng.dirichlet(np.ones(2), size=lead)[..., None]
            obj = lambda ix: CWMM(weight=w[ix], complex_watson=ComplexWatson(mode=(m / np.linalg.norm(m, axis=-1, keepdims=True))[ix], concentration=kappa[ix]))      # noqa
            y = cn(*lead, N, D)
        if not fam.startswith('gauss'):
            y = y / np.linalg.norm(y, axis=-1, keepdims=True)
        ev_ = (lambda o, yy: o.predict(yy)) if fam == 'cwmm' else (lambda o, yy: o.log_pdf(yy))
        with np.errstate(all='ignore'):
            full = np.asarray(ev_(obj(Ellipsis), y))
            idx = tuple(int(rng.randint(0, n)) for n in lead)
            part = np.asarray(ev_(obj(idx), y[idx]))
        return {'full': full[idx], 'part': part}

    def ensures(sp, inp, out):
        yield 'slice-alone-finite', bool(np.all(np.isfinite(out['part'])))
        yield 'stacked-model-indexed-equals-slice-alone[%s]' % inp['family'], bool(out['full'].shape == out['part'].shape
                                                                                    and np.allclose(out['full'], out['part'], rtol=1e-9, atol=1e-9))

    return Instance('C06', DN + '*.log_pdf', 'bounded-stacked-models-wide-parameter-range', make, call, ensures, mode='bounded', bounded_n=120, frame=False)


def instances(tier):
    out = []
    for ct in ('full', 'diagonal', 'spherical'):
        out.append(gaussian_logpdf(ct))
        out.append(gaussian_fit(ct))
    out.append(ccsg_both())
    out.append(vmf_both())
    out.append(watson_both())
    # the saliency=None branch of every trainer (its own normaliser: the number of observations of the slice)
    for ct in ('full', 'diagonal', 'spherical'):
        out.append(gaussian_fit(ct, nosal=True))
    # (three observations in a stack of two: a count taken from the wrong axis does not coincide with the right one)
    out.append(ccsg_both(N=3, nosal=True))
    out.append(vmf_both(N=3, nosal=True))
    out.append(watson_both(N=3, nosal=True))
    out.append(from_cov_rel(False, 1e-3))
    out.append(from_cov_rel('trace', 1e-3))
    out.append(from_cov_rel('eigenvalue', 1e-3))
    out.append(ccsg_singleton(2, 1))
    out.append(ccsg_singleton(2, 2))
    out.append(cacg_both(iterations=1))
    out.append(cacg_both(iterations=2))
    out.append(affiliation_rel())
    out.append(weight_rel(with_saliency=True))
    out.append(weight_rel(with_saliency=False))
    for kind in ('cacgmm', 'cwmm', 'gmm', 'vmfmm'):
        out.append(mstep_rel(kind))
    out.append(singleton_init_instance((2,), (1,)))
    out.append(singleton_init_instance((2, 3), (1, 1)))
    out.append(singleton_init_instance((2, 3), (1, 3)))
    out.append(singleton_init_instance((2, 3), (2, 1)))
    out.append(singleton_init_instance((2, 2, 2), (2, 1, 2)))
    out.append(fits_bounded_instance())
    return out


_instances_before_wide = instances


def instances(tier):       # noqa: F811
    return _instances_before_wide(tier) + [wide_range_models_bounded_instance()]
