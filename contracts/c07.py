"""C07 - log_pdf is the logarithm of the named, normalised density."""
import itertools
import math

import numpy as np

from pbv import expr as E
from pbv import scalar as S
from pbv.instance import Instance
from pbv.spec import cells, shape_of
from . import stubs
from .c11 import herm_pd, det, adj, mat, vecs, quad

META = {
    'level': 'proof',
    'min_obligations': 60,
    'explanation': 'log_pdf of Gaussian (full/diagonal/spherical), complex Gaussian, cACG, vMF and complex Watson equals '
                   'the closed form of the named density at the stored parameters (all real/complex parameter and '
                   'observation values at the listed shapes); Bingham and the normalisation integrals are bounded',
    'assumptions': ['log det Sigma = 2 sum_i log L_ii for Sigma = L L^T (the density is stated through the Cholesky factor '
                    'of the covariance, as the stored precision factor is)',
                    'the closed forms of the vMF / Watson / Bingham / cACG normalisers integrate to one over the sphere '
                    '(checked by numerical integration in the bounded part only)',
                    'scipy.special.ive / hyp1f1 are uninterpreted positive functions; I_v(k) = ive(v, k) e^k'],
}
D_ = 'pb_bss.distribution.'
LOG2PI = math.log(2 * math.pi)


def sym_lower(B, name, D, lead=()):
    """Covariance Sigma = L L^T from a symbolic lower-triangular L with positive diagonal (real)."""
    out = np.empty(tuple(lead) + (D, D), dtype=object)
    Ls = {}
    for li in np.ndindex(*lead):
        tag = name + ''.join('_%d' % i for i in li)
        L = [[0.0] * D for _ in range(D)]
        for i in range(D):
            for j in range(i + 1):
                L[i][j] = (B.real('%s_L%d%d' % (tag, i, j), lo=0.0, lo_strict=True, dist=(0.5, 2.0)) if i == j
                           else B.real('%s_L%d%d' % (tag, i, j), dist=(-1.0, 1.0)))
        Ls[li] = L
        for i in range(D):
            for j in range(D):
                acc = None
                for k in range(min(i, j) + 1):
                    t = L[i][k] * L[j][k]
                    acc = t if acc is None else acc + t
                out[li + (i, j)] = acc
    return B.derived(name, out, np.float64), Ls


def gaussian_instance(ctype, D, N, lead=()):
    from pb_bss.distribution import gaussian as g
    lead = tuple(lead)

    def make(B):
        mean = B.real('mu', lead + (D,))
        y = B.real('y', lead + (N, D))
        if ctype == 'full':
            cov, Ls = sym_lower(B, 'S', D, lead)
            return {'mean': mean, 'cov': cov, 'L': Ls, 'y': y}
        if ctype == 'diagonal':
            s = B.real('s', lead + (D,), lo=0.0, lo_strict=True, dist=(0.5, 2.0))
            sc = cells(s)
            cov = np.empty(lead + (D,), dtype=object)
            for i in np.ndindex(*(lead + (D,))):
                cov[i] = sc[i] * sc[i]
            return {'mean': mean, 'cov': B.derived('cov', cov, np.float64), 's': s, 'y': y}
        s = B.real('s', lead, lo=0.0, lo_strict=True, dist=(0.5, 2.0))
        sc = cells(s)
        cov = np.empty(lead, dtype=object)
        for i in np.ndindex(*lead):
            cov[i] = sc[i] * sc[i]
        if lead == ():
            cov[()] = sc[()] * sc[()]
        return {'mean': mean, 'cov': B.derived('cov', cov, np.float64), 's': s, 'y': y}

    def call(inp):
        cls = {'full': g.Gaussian, 'diagonal': g.DiagonalGaussian, 'spherical': g.SphericalGaussian}[ctype]
        cov = inp['cov']
        if ctype == 'spherical' and lead == () and not isinstance(cov, np.ndarray) and not hasattr(cov, 'data'):
            cov = np.asarray(cov)
        model = cls(mean=inp['mean'], covariance=cov)
        return model.log_pdf(inp['y'])

    def ensures(sp, inp, out):
        yield 'shape', sp._f(shape_of(out) == lead + (N,))
        if shape_of(out) != lead + (N,):
            return
        g_, mu, y = cells(out), cells(inp['mean']), cells(inp['y'])
        for li in np.ndindex(*lead):
            if ctype == 'full':
                L = inp['L'][li]
                Sg = mat(inp['cov'], li, D)
                logdet_half = sp.sum(sp.log(L[i][i]) for i in range(D))            # = 1/2 log det Sigma
                dt, ad = det(Sg), adj(Sg)
            for n in range(N):
                d = [y[li + (n, i)] - mu[li + (i,)] for i in range(D)]
                if ctype == 'full':
                    qn = sp.sum(d[i] * ad[i][j] * d[j] for i in range(D) for j in range(D))
                    # log N = -D/2 log 2pi - 1/2 log det - 1/2 q ;  q = qn / det
                    lhs = (g_[li + (n,)] + 0.5 * D * LOG2PI + logdet_half) * dt * (-2.0)
                    yield 'density[%s,%d]' % (li, n), sp.eq(lhs, qn)
                elif ctype == 'diagonal':
                    s = cells(inp['s'])
                    q = sp.sum(d[i] * d[i] / (s[li + (i,)] * s[li + (i,)]) for i in range(D))
                    ld = sp.sum(sp.log(s[li + (i,)]) for i in range(D))
                    yield 'density[%s,%d]' % (li, n), sp.eq(g_[li + (n,)], -0.5 * D * LOG2PI - ld - 0.5 * q)
                else:
                    s = cells(inp['s'])[li]
                    q = sp.sum(d[i] * d[i] for i in range(D)) / (s * s)
                    yield 'density[%s,%d]' % (li, n), sp.eq(g_[li + (n,)], -0.5 * D * LOG2PI - D * sp.log(s) - 0.5 * q)

    name = '%s-D%dN%d-lead%s' % (ctype, D, N, 'x'.join(map(str, lead)) or '0')
    cls = {'full': 'Gaussian', 'diagonal': 'DiagonalGaussian', 'spherical': 'SphericalGaussian'}[ctype]
    return Instance('C07', D_ + 'gaussian:%s.log_pdf' % cls, name, make, call, ensures, patches=stubs.make_gaussian_patches,
                    timeout=30.0, weight=D ** 3)


def ccsg_instance(D, N, lead=()):
    from pb_bss.distribution import complex_circular_symmetric_gaussian as m
    lead = tuple(lead)

    def make(B):
        return {'cov': herm_pd(B, 'S', D, lead), 'y': B.cplx('y', lead + (N, D))}

    def call(inp):
        return m.ComplexCircularSymmetricGaussian(covariance=inp['cov']).log_pdf(inp['y'])

    def ensures(sp, inp, out):
        yield 'shape', sp._f(shape_of(out) == lead + (N,))
        if shape_of(out) != lead + (N,):
            return
        g_ = cells(out)
        for li in np.ndindex(*lead):
            Sg = mat(inp['cov'], li, D)
            dt, ad = sp.re(det(Sg)), adj(Sg)
            for n in range(N):
                yv = vecs(inp['y'], li + (n,), D)
                qn = sp.re(quad(sp, yv, ad, yv))
                # log CN = -D log pi - log det - y^H S^-1 y
                yield 'density[%s,%d]' % (li, n), sp.eq((g_[li + (n,)] + D * math.log(math.pi) + sp.log(dt)) * dt * (-1.0), qn)

    from pbv import symnp
    return Instance('C07', D_ + 'complex_circular_symmetric_gaussian:ComplexCircularSymmetricGaussian.log_pdf',
                    'D%dN%d-lead%s' % (D, N, 'x'.join(map(str, lead)) or '0'), make, call, ensures,
                    patches=lambda: [(symnp.SolveStub, 'fork_singular', False)], timeout=30.0)


def cacg_instance(D, N, lead=()):
    """cACG: log_pdf(y) = _log_pdf(normalize_observation(y))[0];  _log_pdf(z) = (-D log q - sum log lam, q) with
    q = max(z^H V diag(1/lam) V^H z, tiny);  normalize_observation(y) = y/|y| (axes swapped)."""
    from pb_bss.distribution import complex_angular_central_gaussian as m
    lead = tuple(lead)
    TINY = float(np.finfo(np.float64).tiny)

    def make(B):
        sp = B.sp
        V = B.cplx('V', lead + (D, D))
        lam = B.real('lam', lead + (D,), lo=0.0, lo_strict=True, dist=(0.1, 1.0))
        y = B.cplx('y', lead + (N, D))
        for i in np.ndindex(*(lead + (N,))):
            B.require('observation-nonzero', sp.gt(sp.sum(sp.abs2(v) for v in vecs(y, i, D)), 0.0))
        return {'V': V, 'lam': lam, 'y': y, 'zfree': B.cplx('z', lead + (D, N))}

    def call(inp):
        model = m.ComplexAngularCentralGaussian(covariance_eigenvectors=inp['V'], covariance_eigenvalues=inp['lam'])
        z = m.normalize_observation(inp['y'])
        lp_z, _ = model._log_pdf(z)
        lp, qf = model._log_pdf(inp['zfree'])          # the inner routine under contract for an arbitrary argument
        return {'log_pdf': model.log_pdf(inp['y']), 'z': z, 'lp_of_z': lp_z, 'lp_inner': lp, 'qf': qf, 'cov': model.covariance}

    def ensures(sp, inp, out):
        g_, cov = cells(out['log_pdf']), cells(out['cov'])
        ok = (shape_of(out['log_pdf']) == lead + (N,) and shape_of(out['cov']) == lead + (D, D)
              and shape_of(out['z']) == lead + (D, N) and shape_of(out['qf']) == lead + (N,))
        yield 'shapes', sp._f(ok)
        if not ok:
            return
        V, lam, y = cells(inp['V']), cells(inp['lam']), cells(inp['y'])
        z, lp, qf, lpz, zf = cells(out['z']), cells(out['lp_inner']), cells(out['qf']), cells(out['lp_of_z']), cells(inp['zfree'])
        ghost = cells(np.einsum('...dt,...de,...e,...ge,...gt->...t', np.conj(inp['zfree']), inp['V'], 1 / inp['lam'],
                                np.conj(inp['V']), inp['zfree']))
        for li in np.ndindex(*lead):
            for a in range(D):
                for b in range(D):
                    yield 'covariance[%s,%d,%d]' % (li, a, b), sp.eq(cov[li + (a, b)], sp.sum(V[li + (a, e)] * lam[li + (e,)] * sp.conj(V[li + (b, e)]) for e in range(D)))
            logdet = sp.sum(sp.log(lam[li + (e,)]) for e in range(D))
            for n in range(N):
                yv = [y[li + (n, d)] for d in range(D)]
                n2 = sp.sum(sp.abs2(v) for v in yv)
                zz = [z[li + (d, n)] for d in range(D)]
                # unit norm and direction: z * |y| = y  <=>  z parallel to y with |z| = 1
                yield 'normalised-unit-norm[%s,%d]' % (li, n), sp.eq(sp.sum(sp.abs2(v) for v in zz), 1.0)
                for d in range(D):
                    yield 'normalised-direction[%s,%d,%d]' % (li, n, d), sp.eq(zz[d] * sp.sqrt(n2), yv[d])
                # z^H V diag(1/lam) V^H z = sum_e |V_e^H z|^2 / lam_e   (>= 0)
                zf_ = [zf[li + (d, n)] for d in range(D)]
                q = sp.sum(sp.abs2(sp.sum(sp.conj(V[li + (d, e)]) * zf_[d] for d in range(D))) / lam[li + (e,)] for e in range(D))
                # ghost intermediate e = z^H V diag(1/lam) V^H z (complex); the code output is max(|e|, tiny) and e is
                # the non-negative real number q (two rational identities)
                e = ghost[li + (n,)]
                yield 'quadratic-form-is-clipped-modulus[%s,%d]' % (li, n), sp.eq(qf[li + (n,)], sp.max(sp.abs(e), TINY))
                yield 'hermitian-form-is-real-nonnegative[%s,%d]' % (li, n), sp.and_(sp.eq(sp.re(e), q), sp.eq(sp.im(e), 0.0))
                yield 'density[%s,%d]' % (li, n), sp.eq(lp[li + (n,)], sp.log(qf[li + (n,)]) * (-float(D)) - logdet)
                yield 'public-is-inner-of-normalised[%s,%d]' % (li, n), sp.eq(g_[li + (n,)], lpz[li + (n,)])

    return Instance('C07', D_ + 'complex_angular_central_gaussian:ComplexAngularCentralGaussian.log_pdf',
                    'D%dN%d-lead%s' % (D, N, 'x'.join(map(str, lead)) or '0'), make, call, ensures, timeout=30.0)


def vmf_instance(D, N, lead=()):
    from pb_bss.distribution import von_mises_fisher as m
    from scipy.special import ive as real_ive
    lead = tuple(lead)
    TINY = float(np.finfo(np.float64).tiny)

    def patches():
        return [(m, 'ive', stubs.uf_stub('ive', real_ive, 'scipy.special.ive(v, k): uninterpreted positive function'))]

    def make(B):
        sp = B.sp
        y = B.real('y', lead + (N, D))
        for i in np.ndindex(*(lead + (N,))):
            B.require('observation-nonzero', sp.gt(sp.sum(v * v for v in vecs(y, i, D)), 0.0))
        return {'mean': B.real('mu', lead + (D,)), 'kappa': B.real('kappa', lead, lo=1e-6, hi=500.0, dist=lambda r: 10.0 ** r.uniform(-3.0, 2.69)), 'y': y}

    def call(inp):
        k = inp['kappa']
        if lead == () and not hasattr(k, 'shape'):
            k = np.asarray(k)
        return m.VonMisesFisher(mean=inp['mean'], concentration=k).log_pdf(inp['y'])

    def ensures(sp, inp, out):
        yield 'shape', sp._f(shape_of(out) == lead + (N,))
        if shape_of(out) != lead + (N,):
            return
        g_, mu, y, kap = cells(out), cells(inp['mean']), cells(inp['y']), cells(inp['kappa'])
        for li in np.ndindex(*lead):
            k = kap[li]
            if sp.symbolic:
                iv = S.R(S.uf_app('ive', (S.R(E.const(D / 2 - 1)).term() if False else E.const(D / 2 - 1), S.num(k).term())))
            else:
                iv = float(real_ive(D / 2 - 1, k))
            # log c^-1 = D/2 log 2pi + log I_{D/2-1}(k) - (D/2-1) log k ,  log I = log ive + k
            log_norm = (D / 2) * LOG2PI + sp.log(iv) + k - (D / 2 - 1) * sp.log(k)
            for n in range(N):
                yv = [y[li + (n, d)] for d in range(D)]
                nrm = sp.max(sp.sqrt(sp.sum(v * v for v in yv)), TINY)
                dot = sp.sum((yv[d] / nrm) * mu[li + (d,)] for d in range(D))
                yield 'density[%s,%d]' % (li, n), sp.eq(g_[li + (n,)], k * dot - log_norm)

    return Instance('C07', D_ + 'von_mises_fisher:VonMisesFisher.log_pdf', 'D%dN%d-lead%s' % (D, N, 'x'.join(map(str, lead)) or '0'),
                    make, call, ensures, patches=patches, timeout=30.0)


def watson_instance(D, N, lead=()):
    from pb_bss.distribution import complex_watson as m
    from scipy.special import hyp1f1 as real_h
    lead = tuple(lead)

    def patches():
        return [(m, 'hyp1f1', stubs.uf_stub('hyp1f1', real_h, 'scipy.special.hyp1f1(a, b, x): uninterpreted positive function'))]

    def make(B):
        return {'mode': B.cplx('w', lead + (D,)), 'kappa': B.real('kappa', lead, lo=1e-6, hi=500.0, dist=lambda r: 10.0 ** r.uniform(-3.0, 2.69)),
                'y': B.cplx('y', lead + (N, D))}

    def call(inp):
        k = inp['kappa']
        if lead == () and not hasattr(k, 'shape'):
            k = np.asarray(k)
        model = m.ComplexWatson(mode=inp['mode'], concentration=k)
        return {'log_pdf': model.log_pdf(inp['y']), 'pdf': model.pdf(inp['y'])}

    def ensures(sp, inp, out):
        yield 'shape', sp._f(shape_of(out['log_pdf']) == lead + (N,))
        if shape_of(out['log_pdf']) != lead + (N,):
            return
        g_, p_, w, y, kap = cells(out['log_pdf']), cells(out['pdf']), cells(inp['mode']), cells(inp['y']), cells(inp['kappa'])
        for li in np.ndindex(*lead):
            k = kap[li]
            if sp.symbolic:
                h = S.R(S.uf_app('hyp1f1', (E.const(1), E.const(D), S.num(k).term())))
            else:
                h = float(real_h(1, D, k))
            log_norm = sp.log(h * (2 * math.pi ** D / math.factorial(D - 1)))
            for n in range(N):
                ip = sp.sum(sp.conj(w[li + (d,)]) * y[li + (n, d)] for d in range(D))
                yield 'density[%s,%d]' % (li, n), sp.eq(g_[li + (n,)], k * sp.abs2(ip) - log_norm)
                yield 'pdf-is-exp-log_pdf[%s,%d]' % (li, n), sp.eq(p_[li + (n,)], sp.exp(g_[li + (n,)]))

    return Instance('C07', D_ + 'complex_watson:ComplexWatson.log_pdf', 'D%dN%d-lead%s' % (D, N, 'x'.join(map(str, lead)) or '0'),
                    make, call, ensures, patches=patches, timeout=30.0)


def bingham_instance(D, N, lead=()):
    """complex Bingham: log_pdf(y) = Re(y^H V diag(lam) V^H y) - log c(lam),  c(lam) = 2 pi^D sum_j exp(lam_j) / prod_{i != j}(lam_j - lam_i)
    for pairwise distinct eigenvalues (gap above the de-duplication eps), in any stored order; the stored parameters are the
    caller's arrays (frame: read-only)."""
    from pb_bss.distribution import complex_bingham as m
    lead = tuple(lead)
    GAP = 1e-6

    def make(B):
        sp = B.sp
        lam = B.real('lam', lead + (D,), dist=(-5.0, 0.0))
        l_ = cells(lam)
        for li in np.ndindex(*lead):
            for a in range(D):
                for b in range(a + 1, D):
                    B.require('eigenvalues-distinct', sp.gt((l_[li + (a,)] - l_[li + (b,)]) * (l_[li + (a,)] - l_[li + (b,)]), GAP * GAP))
        return {'V': B.cplx('V', lead + (D, D)), 'lam': lam, 'y': B.cplx('y', lead + (N, D))}

    def call(inp):
        model = m.ComplexBingham(covariance_eigenvectors=inp['V'], covariance_eigenvalues=inp['lam'])
        first = model.log_pdf(inp['y'])
        second = model.log_pdf(inp['y'])
        return {'log_pdf': first, 'again': second}

    def ensures(sp, inp, out):
        ok = shape_of(out['log_pdf']) == lead + (N,) and shape_of(out['again']) == lead + (N,)
        yield 'shape', sp._f(ok)
        if not ok:
            return
        g_, g2, V, lam, y = cells(out['log_pdf']), cells(out['again']), cells(inp['V']), cells(inp['lam']), cells(inp['y'])
        for li in np.ndindex(*lead):
            l_ = [lam[li + (e,)] for e in range(D)]
            c_ = None
            for j in range(D):
                den = None
                for i in range(D):
                    if i != j:
                        den = (l_[j] - l_[i]) if den is None else den * (l_[j] - l_[i])
                term = sp.exp(l_[j]) / den
                c_ = term if c_ is None else c_ + term
            c_ = c_ * (2 * math.pi ** D)
            for n in range(N):
                quad = sp.sum(l_[e] * sp.abs2(sp.sum(sp.conj(V[li + (d, e)]) * y[li + (n, d)] for d in range(D))) for e in range(D))
                yield 'density[%s,%d]' % (li, n), sp.eq(g_[li + (n,)], quad - sp.log(c_))
                yield 'second-evaluation-identical[%s,%d]' % (li, n), sp.eq(g2[li + (n,)], g_[li + (n,)])

    def hints(sp, inp, out):
        # D >= 3: positivity of the normaliser is the positivity of a divided difference of exp (Hermite-Genocchi:
        # exp[l_1..l_D] = integral of exp over the simplex > 0) -- not derivable from ground monotonicity instances; assumed
        if D < 3 or not sp.symbolic:
            return []
        S.ctx().assumptions_used.add('divided differences of exp are positive (Hermite-Genocchi formula): Bingham normaliser > 0 for D >= 3')
        lam = cells(inp['lam'])
        res = []
        for li in np.ndindex(*lead):
            l_ = [lam[li + (e,)] for e in range(D)]
            c_ = None
            for j in range(D):
                den = None
                for i in range(D):
                    if i != j:
                        den = (l_[j] - l_[i]) if den is None else den * (l_[j] - l_[i])
                term = sp.exp(l_[j]) / den
                c_ = term if c_ is None else c_ + term
            res.append(sp.gt(c_, 0.0))
        return res

    return Instance('C07', D_ + 'complex_bingham:ComplexBingham.log_pdf', 'D%dN%d-lead%s' % (D, N, 'x'.join(map(str, lead)) or '0'),
                    make, call, ensures, hints=hints, timeout=30.0, max_paths=50)


# ----------------------------------------------------------------------------- bounded: independent oracles
def bounded_scipy_instance():
    """Gaussians against scipy.stats.multivariate_normal, vMF against scipy.stats.vonmises_fisher,
    Watson / Bingham normalisers against closed forms and numerical integration (D = 2)."""
    import scipy.stats
    from pb_bss.distribution import gaussian as g, von_mises_fisher as vm, complex_watson as cw, complex_bingham as cb
    from pb_bss.distribution import complex_circular_symmetric_gaussian as cg, complex_angular_central_gaussian as ca

    def make(B):
        kind = B.choose('kind', ['full', 'diagonal', 'spherical', 'diagonal', 'spherical', 'vmf', 'ccsg', 'watson-int', 'bingham-form', 'cacg-int', 'bingham-logpdf', 'bingham-logpdf', 'cacg-scale'])
        # (feature vectors of hundreds of dimensions are ordinary for the Gaussian stream: spectra, embeddings)
        D = B.choose('D', [1, 2, 3, 5, 8, 64, 513, 513] if kind in ('full', 'diagonal', 'spherical') else [2, 3, 4, 6])
        lead = B.choose('lead', [(), (2,), (3, 2)])
        seed = B.choose('seed', list(range(1000)))
        return {'kind': kind, 'D': D, 'lead': tuple(lead), 'seed': seed, 'dummy': B.given('dummy', np.zeros(1))}

    def call(inp):
        rng = np.random.RandomState(inp['seed'])
        kind, D, lead = inp['kind'], inp['D'], inp['lead']
        N = 4
        res = {'kind': kind}
        if kind in ('full', 'diagonal', 'spherical'):
            mean = rng.normal(size=lead + (D,))
            y = rng.normal(size=lead + (N, D)) * 2
            A = rng.normal(size=lead + (D, D))
            cov_full = A @ np.swapaxes(A, -1, -2) + 0.1 * np.eye(D)
            if kind == 'full':
                model, cov_ref = g.Gaussian(mean=mean, covariance=cov_full), cov_full
            elif kind == 'diagonal':
                dg = rng.uniform(0.2, 3.0, size=lead + (D,)) * 10.0 ** rng.uniform(-3, 3)
                model, cov_ref = g.DiagonalGaussian(mean=mean, covariance=dg), dg[..., None] * np.eye(D)
            else:
                sg = np.asarray(rng.uniform(0.2, 3.0, size=lead)) * 10.0 ** rng.uniform(-3, 3)
                model, cov_ref = g.SphericalGaussian(mean=mean, covariance=sg), sg[..., None, None] * np.eye(D)
            got = model.log_pdf(y)
            ref = np.empty(lead + (N,))
            for li in np.ndindex(*lead):
                ref[li] = scipy.stats.multivariate_normal(mean[li], cov_ref[li]).logpdf(y[li])
            res.update(got=got, ref=ref)
        elif kind == 'vmf' and inp['seed'] % 4 == 0:
            # D = 1: the sphere is {-1, +1}; density exp(kappa mu x) / (2 cosh kappa) with respect to the counting measure
            mu = np.sign(rng.normal(size=lead + (1,)))
            kap = np.asarray(np.exp(rng.uniform(np.log(1e-3), np.log(300), size=lead)))
            y = rng.normal(size=lead + (N, 1))
            got = vm.VonMisesFisher(mean=mu, concentration=kap).log_pdf(y)
            ref = kap[..., None] * mu * np.sign(y[..., 0]) - (kap[..., None] + np.log1p(np.exp(-2 * kap[..., None])))
            res.update(got=got, ref=ref)
        elif kind == 'vmf':
            mu = rng.normal(size=lead + (D,))
            mu /= np.linalg.norm(mu, axis=-1, keepdims=True)
            kap = np.asarray(np.exp(rng.uniform(np.log(1e-3), np.log(300), size=lead)))
            y = rng.normal(size=lead + (N, D))
            got = vm.VonMisesFisher(mean=mu, concentration=kap).log_pdf(y)
            ref = np.empty(lead + (N,))
            yn = y / np.linalg.norm(y, axis=-1, keepdims=True)
            for li in np.ndindex(*lead):
                ref[li] = scipy.stats.vonmises_fisher(mu[li], float(kap[li])).logpdf(yn[li])
            res.update(got=got, ref=ref)
        elif kind == 'ccsg':
            A = rng.normal(size=lead + (D, D)) + 1j * rng.normal(size=lead + (D, D))
            cov = A @ np.conj(np.swapaxes(A, -1, -2)) + 0.1 * np.eye(D)
            y = rng.normal(size=lead + (N, D)) + 1j * rng.normal(size=lead + (N, D))
            got = cg.ComplexCircularSymmetricGaussian(covariance=cov).log_pdf(y)
            ref = np.empty(lead + (N,))
            for li in np.ndindex(*lead):
                # equivalent real 2D-dimensional Gaussian
                C_ = cov[li]
                R2 = 0.5 * np.block([[C_.real, -C_.imag], [C_.imag, C_.real]])
                yr = np.concatenate([y[li].real, y[li].imag], axis=-1)
                ref[li] = scipy.stats.multivariate_normal(np.zeros(2 * D), R2).logpdf(yr)
            res.update(got=got, ref=ref)
        elif kind == 'watson-int':
            # D = 2 complex sphere: integrate exp(log_pdf) with mode e_1: z = (cos t e^{ia}, sin t e^{ib})
            kap = float(np.exp(rng.uniform(np.log(1e-3), np.log(50))))
            model = cw.ComplexWatson(mode=np.array([1.0 + 0j, 0.0]), concentration=np.asarray(kap))
            t = (np.arange(4000) + 0.5) / 4000 * (np.pi / 2)
            z = np.stack([np.cos(t), np.sin(t)], axis=-1).astype(complex)
            dens = np.exp(model.log_pdf(z))
            # surface element of S^3 in Hopf-like coordinates: (2 pi)^2 cos t sin t dt
            res.update(got=np.asarray([np.sum(dens * np.cos(t) * np.sin(t)) * (np.pi / 2 / 4000) * (2 * np.pi) ** 2]), ref=np.asarray([1.0]))
        elif kind == 'cacg-int':
            lam = np.array([1.0, float(rng.uniform(0.05, 1.0))])
            model = ca.ComplexAngularCentralGaussian(covariance_eigenvectors=np.eye(2, dtype=complex), covariance_eigenvalues=lam)
            t = (np.arange(4000) + 0.5) / 4000 * (np.pi / 2)
            z = np.stack([np.cos(t), np.sin(t)], axis=-1).astype(complex)
            dens = np.exp(model.log_pdf(z))
            area = 2 * np.pi ** 2       # 2 pi^D / (D-1)!  for D = 2
            res.update(got=np.asarray([np.sum(dens * np.cos(t) * np.sin(t)) * (np.pi / 2 / 4000) * (2 * np.pi) ** 2]), ref=np.asarray([area]))
        elif kind == 'cacg-scale':
            # the cACG density does not depend on the scale of the stored covariance: eigenvalues of any magnitude
            Dd = min(D, 6)
            A = rng.normal(size=lead + (Dd, Dd)) + 1j * rng.normal(size=lead + (Dd, Dd))
            V = np.linalg.qr(A)[0]
            lam = rng.uniform(0.2, 1.0, size=lead + (Dd,))
            y = rng.normal(size=lead + (N, Dd)) + 1j * rng.normal(size=lead + (N, Dd))
            c_ = 10.0 ** rng.choice([-20.0, -12.0, -9.0, 0.0, 9.0, 20.0])
            got = ca.ComplexAngularCentralGaussian(covariance_eigenvectors=V, covariance_eigenvalues=lam * c_).log_pdf(y)
            z = y / np.linalg.norm(y, axis=-1, keepdims=True)
            ref = np.empty(lead + (N,))
            for li in np.ndindex(*lead):
                Bm = (V[li] * lam[li]) @ V[li].conj().T
                q = np.real(np.einsum('nd,de,ne->n', z[li].conj(), np.linalg.inv(Bm), z[li]))
                ref[li] = -Dd * np.log(q) - np.linalg.slogdet(Bm)[1]
            res.update(got=got, ref=ref)
        elif kind == 'bingham-logpdf':
            # stored parameters: random unitary eigenvectors, distinct eigenvalues in arbitrary (unsorted) order, leading axes;
            # the same object is evaluated three times (the density is a function of the stored parameters only)
            Dd = min(D, 4)
            A = rng.normal(size=lead + (Dd, Dd)) + 1j * rng.normal(size=lead + (Dd, Dd))
            V = np.linalg.qr(A)[0]
            lam = rng.uniform(-6.0, 0.0, size=lead + (Dd,))
            for li in np.ndindex(*lead):
                while np.min(np.abs(np.diff(np.sort(lam[li])))) < 5e-2:
                    lam[li] = rng.uniform(-6.0, 0.0, size=Dd)
            y = rng.normal(size=lead + (N, Dd)) + 1j * rng.normal(size=lead + (N, Dd))
            y /= np.linalg.norm(y, axis=-1, keepdims=True)
            lam0, V0 = lam.copy(), V.copy()
            model = cb.ComplexBingham(covariance_eigenvectors=V, covariance_eigenvalues=lam)
            gots = [np.array(model.log_pdf(y)) for _ in range(3)]
            ref = np.empty(lead + (N,))
            for li in np.ndindex(*lead):
                l_ = lam0[li]
                closed = 2 * np.pi ** Dd * sum(np.exp(l_[j]) / np.prod([l_[j] - l_[i] for i in range(Dd) if i != j]) for j in range(Dd))
                C_ = (V0[li] * l_) @ V0[li].conj().T
                ref[li] = np.einsum('td,de,te->t', y[li].conj(), C_, y[li]).real - np.log(closed)
            res.update(got=np.stack(gots), ref=np.stack([ref] * 3),
                       frame_ok=bool(np.array_equal(np.asarray(model.covariance_eigenvalues), lam0)
                                     and np.array_equal(np.asarray(model.covariance_eigenvectors), V0)))
        else:   # bingham-form: closed form for distinct eigenvalues
            Dd = min(D, 4)
            lam = np.sort(rng.uniform(-3.0, 0.0, size=Dd))
            while np.min(np.diff(lam)) < 1e-2:
                lam = np.sort(rng.uniform(-3.0, 0.0, size=Dd))
            model = cb.ComplexBingham(np.eye(Dd), lam)
            closed = 2 * np.pi ** Dd * sum(np.exp(lam[j]) / np.prod([lam[j] - lam[i] for i in range(Dd) if i != j]) for j in range(Dd))
            res.update(got=np.asarray([float(np.squeeze(model.norm()))]), ref=np.asarray([closed]))
        return res

    def ensures(sp, inp, out):
        tol = 1e-3 if out['kind'] in ('watson-int', 'cacg-int') else (1e-6 if out['kind'].startswith('bingham') else 1e-8)
        got, ref = np.asarray(out['got'], dtype=float), np.asarray(out['ref'], dtype=float)
        yield 'shape', got.shape == ref.shape
        yield 'matches-independent-oracle[%s]' % out['kind'], bool(np.allclose(got, ref, rtol=tol, atol=tol))
        if 'frame_ok' in out:
            yield 'stored-parameters-unchanged-by-log_pdf', out['frame_ok']

    return Instance('C07', D_ + '*:log_pdf', 'bounded-independent-oracles', make, call, ensures, mode='bounded', bounded_n=150, frame=False)


def parameters_changed_after_use_bounded_instance():
    """log_pdf is a function of the parameters STORED NOW: a distribution object that has been evaluated and whose parameters are then
    replaced, updated in place, or changed on a shallow copy evaluates like a fresh object built from the new parameters (and the
    original of a copy like before).  Independent of the closed forms: the oracle is the library's own fresh object."""
    import copy
    from pb_bss.distribution import (ComplexAngularCentralGaussian, ComplexWatson, VonMisesFisher, ComplexCircularSymmetricGaussian)
    from pb_bss.distribution.complex_bingham import ComplexBingham

    def make(B):
        return {'family': B.choose('family', ['cacg', 'watson', 'vmf', 'bingham', 'ccsg']), 'how': B.choose('how', ['assign', 'inplace', 'copy']),
                'D': B.choose('D', [2, 3, 4]), 'lead': B.choose('lead', [(), (2,)]), 'seed': B.choose('seed', list(range(3000))), 'd': B.given('d', np.zeros(1))}

    def call(inp):
        rng = np.random.RandomState(inp['seed'])
        D, lead = inp['D'], tuple(inp['lead'])
        fam = inp['family']
        if fam == 'bingham':
            lead = ()

        def cn(*s_):
            return rng.normal(size=s_) + 1j * rng.normal(size=s_)

        def unitary():
            q, _ = np.linalg.qr(cn(*lead, D, D))
            return q

        def draw():
            if fam == 'cacg':
                ev = np.sort(rng.uniform(0.05, 1.0, size=lead + (D,)), axis=-1)
                ev[..., -1] = 1.0
                return {'covariance_eigenvectors': unitary(), 'covariance_eigenvalues': ev}
            if fam == 'watson':
                m = cn(*lead, D)
                return {'mode': m / np.linalg.norm(m, axis=-1, keepdims=True), 'concentration': rng.uniform(0.5, 30.0, size=lead)}
            if fam == 'vmf':
                m = rng.normal(size=lead + (D,))
                return {'mean': m / np.linalg.norm(m, axis=-1, keepdims=True), 'concentration': rng.uniform(0.5, 30.0, size=lead)}
            if fam == 'bingham':
                ev = -np.sort(rng.uniform(0.5, 20.0, size=(D,)))[::-1].copy()
                ev[-1] = 0.0
                return {'covariance_eigenvectors': unitary(), 'covariance_eigenvalues': ev}
            a = cn(*lead, D, D)
            return {'covariance': a @ np.conj(np.swapaxes(a, -1, -2)) + 0.1 * np.eye(D)}
        cls = {'cacg': ComplexAngularCentralGaussian, 'watson': ComplexWatson, 'vmf': VonMisesFisher, 'bingham': ComplexBingham,
               'ccsg': ComplexCircularSymmetricGaussian}[fam]
        y = rng.normal(size=lead + (7, D)) if fam == 'vmf' else cn(*lead, 7, D)
        if fam != 'ccsg':
            y = y / np.linalg.norm(y, axis=-1, keepdims=True)
        p0, p1 = draw(), draw()
        obj = cls(**{k: v.copy() for k, v in p0.items()})
        first = np.array(obj.log_pdf(y))
        target = obj
        if inp['how'] == 'copy':
            target = copy.copy(obj)
        for k, v in p1.items():
            if inp['how'] == 'inplace':
                getattr(target, k)[...] = v
            else:
                setattr(target, k, v.copy())
        second = np.array(target.log_pdf(y))
        fresh = np.array(cls(**{k: v.copy() for k, v in p1.items()}).log_pdf(y))
        res = {'first': first, 'second': second, 'fresh': fresh}
        if fam in ('watson', 'vmf'):
            # parameters of any numeric element type (a hand-built or loaded model with integer concentrations, or single precision)
            k_int = rng.randint(1, 60, size=lead).astype(np.int64)          # (the default integer type; small integer types select scipy's single-precision loops)
            pi_ = dict(p1)
            pi_['concentration'] = k_int
            pf_ = dict(p1)
            pf_['concentration'] = k_int.astype(np.float64)
            res['int_params'] = (np.array(cls(**pi_).log_pdf(y)), np.array(cls(**pf_).log_pdf(y)))
        if inp['how'] == 'copy':
            res['original_again'] = np.array(obj.log_pdf(y))
        return res

    def ensures(sp, inp, out):
        yield 'evaluates-at-the-parameters-stored-now[%s,%s]' % (inp['family'], inp['how']), bool(np.allclose(out['second'], out['fresh'], rtol=1e-9, atol=1e-9))
        yield 'finite', bool(np.all(np.isfinite(out['second'])))
        if 'int_params' in out:
            a, b = out['int_params']
            yield 'integer-typed-concentration-evaluates-like-its-float-value[%s]' % inp['family'], bool(np.allclose(a, b, rtol=1e-9, atol=1e-9))
        if 'original_again' in out:
            yield 'original-of-a-copy-unchanged[%s]' % inp['family'], bool(np.allclose(out['original_again'], out['first'], rtol=1e-12, atol=1e-12))

    return Instance('C07', D_ + 'complex_angular_central_gaussian:ComplexAngularCentralGaussian.log_pdf', 'bounded-parameters-changed-after-use', make, call, ensures,
                    mode='bounded', bounded_n=150, frame=False)


def instances(tier):
    th = tier == 'thorough'
    out = []
    for ct in ('full', 'diagonal', 'spherical'):
        out.append(gaussian_instance(ct, 2, 2))
        out.append(gaussian_instance(ct, 2, 1, (2,)))
        out.append(gaussian_instance(ct, 1, 1))
    out.append(gaussian_instance('full', 3, 1))
    out.append(gaussian_instance('diagonal', 3, 2, (2,)))
    out.append(ccsg_instance(2, 2))
    out.append(ccsg_instance(1, 1, (2,)))
    out.append(ccsg_instance(2, 1, (2,)))
    out.append(cacg_instance(2, 2))
    out.append(cacg_instance(2, 1, (2,)))
    out.append(vmf_instance(2, 2))
    out.append(vmf_instance(3, 1, (2,)))
    out.append(vmf_instance(1, 2))          # D = 1: the sphere {-1, +1}, Bessel order -1/2
    out.append(watson_instance(2, 2))
    out.append(watson_instance(3, 1, (2,)))
    out.append(bingham_instance(2, 1))
    out.append(bingham_instance(2, 2, (2,)))
    out.append(bingham_instance(3, 1))
    if th:
        out.append(ccsg_instance(3, 1))
        out.append(cacg_instance(3, 1))
    out.append(bounded_scipy_instance())
    return out


_inst_before_lemmas = instances


def instances(tier):       # noqa: F811
    from .common import lemma_instance
    return _inst_before_lemmas(tier) + [lemma_instance('C07', 'logdet', 'lemma:log-det-of-a-cholesky-factorisation')]


_instances_before_history = instances


def instances(tier):       # noqa: F811
    return _instances_before_history(tier) + [parameters_changed_after_use_bounded_instance()]
