"""C08 - trainers return the documented weighted estimators and EM alternates them."""
import itertools

import numpy as np

from pbv import expr as E
from pbv import scalar as S
from pbv import symnp
from pbv.instance import Instance
from pbv.spec import cells, shape_of
from . import stubs
from .c11 import vecs

META = {
    'level': 'proof',
    'min_obligations': 150,
    'explanation': 'estimate_mixture_weight, Gaussian / complex Gaussian / vMF / Watson / cACG single-step estimators equal '
                   'the documented weighted formulas for all real (complex) data and saliencies at the listed shapes '
                   '(up to the call boundary of the eigen-solver, which is replaced by its contract); integer saliency '
                   'equals repetition; fit() alternates E- and M-steps with the documented data flow for 1..3 iterations',
    'assumptions': ['the Watson concentration is hypergeometric_ratio_inverse(top eigenvalue): the spline inverse itself is '
                    'an uninterpreted function here (its accuracy is a bounded check)',
                    'Bingham eigenvalue fitting (least squares) is only covered by bounded evaluations'],
}
DN = 'pb_bss.distribution.'
TINY = float(np.finfo(np.float64).tiny)


def lead_name(lead):
    return 'x'.join(map(str, lead)) or '0'


# ----------------------------------------------------------------------------- mixture weights
def weight_instance(lead, K, N, wca, with_saliency):
    from pb_bss.distribution import mixture_model_utils as mmu
    lead = tuple(lead)
    full = lead + (K, N)
    nd = len(full)

    def make(B):
        inp = {'aff': B.real('g', full, lo=0.0, dist=(0.0, 1.0)), 'sal': None}
        if with_saliency:
            inp['sal'] = B.real('s', lead + (N,), lo=0.0, dist=(0.1, 2.0))
            sp = B.sp
            B.require('saliency-mass-positive', sp.gt(sp.sum(cells(inp['sal']).reshape(-1)), 0.0))
        return inp

    def call(inp):
        return mmu.estimate_mixture_weight(inp['aff'], saliency=inp['sal'], weight_constant_axis=wca)

    axes = (wca,) if isinstance(wca, int) else tuple(wca)
    axes = tuple(a % nd for a in axes)
    is_const = isinstance(wca, int) and wca % nd - nd == -2

    def ensures(sp, inp, out):
        if is_const:
            yield 'shape', sp._f(shape_of(out) == (K, 1))
            if shape_of(out) == (K, 1):
                for k in range(K):
                    yield 'uniform[%d]' % k, sp.eq(cells(out)[k, 0] * K, 1.0)
            return
        wshape = tuple(1 if i in axes else full[i] for i in range(nd))
        yield 'shape', sp._f(shape_of(out) == wshape)
        if shape_of(out) != wshape:
            return
        g, w = cells(inp['aff']), cells(out)
        sal = cells(inp['sal']) if with_saliency else None

        def group(widx):
            """all full indices that are averaged into weight index widx"""
            rng = [range(full[i]) if i in axes else [widx[i]] for i in range(nd)]
            return list(itertools.product(*rng))

        def sval(i):
            return sal[i[:-2] + (i[-1],)] if with_saliency else 1.0
        for widx in np.ndindex(*wshape):
            mass = sp.sum(g[i] * sval(i) for i in group(widx))
            if not with_saliency:
                cnt = len(group(widx))
                yield 'mean-affiliation[%s]' % (widx,), sp.eq(w[widx] * float(cnt), mass)
            else:
                # renormalised over classes: w_k = mass_k / sum_j mass_j  (where the total is non-zero)
                tot = sp.sum(sp.sum(g[i] * sval(i) for i in group(widx[:-2] + (k, widx[-1]))) for k in range(K))
                yield 'saliency-weighted-mean[%s]' % (widx,), sp.implies(sp.gt(tot, 0.0), sp.eq(w[widx] * tot, mass))

    name = 'lead%s-K%dN%d-wca%s-sal%d' % (lead_name(lead), K, N, str(wca).replace(' ', ''), int(with_saliency))
    return Instance('C08', DN + 'mixture_model_utils:estimate_mixture_weight', name, make, call, ensures, timeout=20.0)


# ----------------------------------------------------------------------------- Gaussian trainers
def gaussian_fit_instance(ctype, lead, N, D, with_saliency, repeat=None):
    """repeat: tuple of integer saliencies; compares saliency-weighted fit with the fit on repeated observations."""
    from pb_bss.distribution import gaussian as g
    lead = tuple(lead)

    def make(B):
        inp = {'y': B.real('y', lead + (N, D)), 'sal': None}
        if repeat is not None:
            inp['sal'] = B.given('s', np.broadcast_to(np.asarray(repeat, dtype=np.float64), lead + (N,)).copy())
        elif with_saliency:
            inp['sal'] = B.real('s', lead + (N,), lo=0.0, dist=(0.1, 2.0))
            sc = cells(inp['sal'])
            for li in np.ndindex(*lead):
                B.require('saliency-mass-positive', B.sp.gt(B.sp.sum(sc[li + (n,)] for n in range(N)), TINY))
        return inp

    def call(inp):
        m = g.GaussianTrainer()._fit(inp['y'], saliency=inp['sal'], covariance_type=ctype)
        res = {'mean': m.mean, 'cov': m.covariance}
        if repeat is not None:
            idx = [n for n, r in enumerate(repeat) for _ in range(int(r))]
            m2 = g.GaussianTrainer()._fit(inp['y'][..., idx, :], saliency=None, covariance_type=ctype)
            res.update(mean2=m2.mean, cov2=m2.covariance)
        return res

    cshape = {'full': (D, D), 'diagonal': (D,), 'spherical': ()}[ctype]

    def ensures(sp, inp, out):
        ok = shape_of(out['mean']) == lead + (D,) and shape_of(out['cov']) == lead + cshape
        yield 'shapes', sp._f(ok)
        if not ok:
            return
        y, mu, cov = cells(inp['y']), cells(out['mean']), cells(out['cov'])
        sal = cells(inp['sal']) if inp['sal'] is not None else None
        for li in np.ndindex(*lead):
            s = [sal[li + (n,)] if sal is not None else 1.0 for n in range(N)]
            den = sp.sum(s)
            if repeat is not None:
                mu2, cov2 = cells(out['mean2']), cells(out['cov2'])
                for d in range(D):
                    yield 'repetition-mean[%s,%d]' % (li, d), sp.eq(mu[li + (d,)], mu2[li + (d,)])
                for ci in np.ndindex(*cshape):
                    yield 'repetition-covariance[%s,%s]' % (li, ci), sp.eq(cov[li + ci], cov2[li + ci])
                if cshape == ():
                    yield 'repetition-covariance[%s]' % (li,), sp.eq(cov[li], cov2[li])
                continue
            for d in range(D):
                yield 'weighted-mean[%s,%d]' % (li, d), sp.eq(mu[li + (d,)] * den, sp.sum(s[n] * y[li + (n, d)] for n in range(N)))
            dv = [[y[li + (n, d)] - mu[li + (d,)] for d in range(D)] for n in range(N)]
            if ctype == 'full':
                for a in range(D):
                    for b in range(D):
                        yield 'pooled-scatter[%s,%d,%d]' % (li, a, b), sp.eq(cov[li + (a, b)] * den, sp.sum(s[n] * dv[n][a] * dv[n][b] for n in range(N)))
            elif ctype == 'diagonal':
                for a in range(D):
                    yield 'pooled-variance[%s,%d]' % (li, a), sp.eq(cov[li + (a,)] * den, sp.sum(s[n] * dv[n][a] * dv[n][a] for n in range(N)))
            else:
                yield 'pooled-spherical-variance[%s]' % (li,), sp.eq(cov[li] * den * float(D), sp.sum(s[n] * dv[n][a] * dv[n][a] for n in range(N) for a in range(D)))

    name = '%s-lead%s-N%dD%d-%s' % (ctype, lead_name(lead), N, D, 'rep' + ''.join(map(str, repeat)) if repeat is not None else 'sal%d' % int(with_saliency))
    return Instance('C08', DN + 'gaussian:GaussianTrainer._fit', name, make, call, ensures,
                    patches=stubs.make_gaussian_opaque_patches, timeout=20.0)


def ccsg_fit_instance(lead, N, D, with_saliency):
    from pb_bss.distribution import complex_circular_symmetric_gaussian as m
    lead = tuple(lead)

    def make(B):
        inp = {'y': B.cplx('y', lead + (N, D)), 'sal': None}
        if with_saliency:
            inp['sal'] = B.real('s', lead + (N,), lo=0.0, dist=(0.1, 2.0))
            sc = cells(inp['sal'])
            for li in np.ndindex(*lead):
                B.require('saliency-mass-positive', B.sp.gt(B.sp.sum(sc[li + (n,)] for n in range(N)), TINY))
        return inp

    def call(inp):
        return m.ComplexCircularSymmetricGaussianTrainer()._fit(inp['y'], saliency=inp['sal'], covariance_type='full').covariance

    def ensures(sp, inp, out):
        yield 'shape', sp._f(shape_of(out) == lead + (D, D))
        if shape_of(out) != lead + (D, D):
            return
        y, cov = cells(inp['y']), cells(out)
        sal = cells(inp['sal']) if with_saliency else None
        for li in np.ndindex(*lead):
            s = [sal[li + (n,)] if with_saliency else 1.0 for n in range(N)]
            den = sp.sum(s)
            for a in range(D):
                for b in range(D):
                    yield 'outer-product-mean[%s,%d,%d]' % (li, a, b), sp.eq(cov[li + (a, b)] * den, sp.sum(y[li + (n, a)] * sp.conj(y[li + (n, b)]) * s[n] for n in range(N)))

    return Instance('C08', DN + 'complex_circular_symmetric_gaussian:ComplexCircularSymmetricGaussianTrainer._fit',
                    'lead%s-N%dD%d-sal%d' % (lead_name(lead), N, D, int(with_saliency)), make, call, ensures)


# ----------------------------------------------------------------------------- vMF
def vmf_fit_instance(lead, N, D, with_saliency, min_c=1e-10, max_c=500.0):
    from pb_bss.distribution import von_mises_fisher as m
    lead = tuple(lead)

    def make(B):
        sp = B.sp
        inp = {'y': B.real('y', lead + (N, D)), 'sal': None}
        if with_saliency:
            inp['sal'] = B.real('s', lead + (N,), lo=0.0, dist=(0.1, 2.0))
        for li in np.ndindex(*lead):
            s = [cells(inp['sal'])[li + (n,)] if with_saliency else 1.0 for n in range(N)]
            B.require('saliency-mass-positive', sp.gt(sp.sum(s), 0.0))
            # r_bar < 1 : excluded only when all unit vectors coincide (concentration formula has a pole)
            r = [sp.sum(s[n] * cells(inp['y'])[li + (n, d)] for n in range(N)) for d in range(D)]
            B.require('mean-resultant-length-below-one', sp.lt(sp.sum(x * x for x in r), sp.sum(s) * sp.sum(s)))
        return inp

    def call(inp):
        mod = m.VonMisesFisherTrainer()._fit(inp['y'], saliency=inp['sal'], min_concentration=min_c, max_concentration=max_c)
        return {'mean': mod.mean, 'kappa': mod.concentration}

    def ensures(sp, inp, out):
        ok = shape_of(out['mean']) == lead + (D,) and shape_of(out['kappa']) == lead
        yield 'shapes', sp._f(ok)
        if not ok:
            return
        y, mu, kap = cells(inp['y']), cells(out['mean']), cells(out['kappa'])
        for li in np.ndindex(*lead):
            s = [cells(inp['sal'])[li + (n,)] if with_saliency else 1.0 for n in range(N)]
            r = [sp.sum(s[n] * y[li + (n, d)] for n in range(N)) for d in range(D)]
            norm = sp.sqrt(sp.sum(x * x for x in r))
            for d in range(D):
                yield 'normalised-resultant[%s,%d]' % (li, d), sp.eq(mu[li + (d,)] * sp.max(norm, TINY), r[d])
            rbar = norm / sp.sum(s)
            banerjee = (rbar * float(D) - rbar * rbar * rbar) / (1.0 - rbar * rbar)
            yield 'clipped-banerjee-concentration[%s]' % (li,), sp.eq(kap[li], sp.min(sp.max(banerjee, min_c), max_c))

    return Instance('C08', DN + 'von_mises_fisher:VonMisesFisherTrainer._fit', 'lead%s-N%dD%d-sal%d' % (lead_name(lead), N, D, int(with_saliency)),
                    make, call, ensures, timeout=30.0)


# ----------------------------------------------------------------------------- eigen-solver boundary (Watson, cACG)
def eigh_recorder_patches(rec):
    def patches():
        rec.real = symnp.HANDLED[np.linalg.eigh] if False else np.linalg.eigh
        rec.clear()
        return [(np.linalg, 'eigh', rec)]
    return patches


def watson_fit_instance(lead, N, D, with_saliency):
    from pb_bss.distribution import complex_watson as m
    lead = tuple(lead)
    rec = stubs.Recorder(np.linalg.eigh)
    orig_inv = m.ComplexWatsonTrainer.hypergeometric_ratio_inverse
    inv = stubs.uf_stub('watson_inv', lambda ev: np.asarray(orig_inv(m.ComplexWatsonTrainer(D), ev)),
                        'ComplexWatsonTrainer.hypergeometric_ratio_inverse: uninterpreted (spline inverse)', positive=False)

    def patches():
        rec.clear()
        return [(np.linalg, 'eigh', rec), (m.ComplexWatsonTrainer, 'hypergeometric_ratio_inverse', lambda self, ev: inv(ev))]

    def make(B):
        inp = {'y': B.cplx('y', lead + (N, D)), 'sal': None}
        if with_saliency:
            inp['sal'] = B.real('s', lead + (N,), lo=0.0, dist=(0.1, 2.0))
            for li in np.ndindex(*lead):
                B.require('saliency-mass-nonzero', B.sp.gt(B.sp.sum(cells(inp['sal'])[li + (n,)] for n in range(N)), 0.0))
        return inp

    def call(inp):
        rec.clear()
        mod = m.ComplexWatsonTrainer(D)._fit(inp['y'], saliency=inp['sal'])
        return {'mode': mod.mode, 'kappa': mod.concentration, 'calls': list(rec.calls)}

    def ensures(sp, inp, out):
        calls = out['calls']
        yield 'one-eigen-decomposition', sp._f(len(calls) == 1)
        if len(calls) != 1:
            return
        (args, kw, (w, V)) = calls[0]
        A = cells(args[0])
        nlead = int(np.prod(lead)) if lead else 1
        yield 'eigh-argument-shape', sp._f(shape_of(args[0]) == (nlead, D, D))
        if shape_of(args[0]) != (nlead, D, D):
            return
        y = cells(inp['y'])
        mode, kap, wv, Vv = cells(out['mode']), cells(out['kappa']), cells(w), cells(V)
        for flat, li in enumerate(np.ndindex(*lead)):
            s = [cells(inp['sal'])[li + (n,)] if with_saliency else 1.0 for n in range(N)]
            den = sp.sum(s)
            for a in range(D):
                for b in range(D):
                    yield 'scatter-handed-to-eigh[%s,%d,%d]' % (li, a, b), sp.eq(A[flat, a, b] * den, sp.sum(y[li + (n, a)] * sp.conj(y[li + (n, b)]) * s[n] for n in range(N)))
            for a in range(D):
                yield 'mode-is-principal-eigenvector[%s,%d]' % (li, a), sp.eq(mode[li + (a,)], Vv[flat, a, D - 1])
            if sp.symbolic:
                exp_k = S.R(S.uf_app('watson_inv', (S.num(wv[flat, D - 1]).term(),)))
            else:
                exp_k = float(np.asarray(orig_inv(m.ComplexWatsonTrainer(D), float(wv[flat, D - 1]))))
            yield 'concentration-from-top-eigenvalue[%s]' % (li,), sp.eq(kap[li], exp_k)

    return Instance('C08', DN + 'complex_watson:ComplexWatsonTrainer._fit', 'lead%s-N%dD%d-sal%d' % (lead_name(lead), N, D, int(with_saliency)),
                    make, call, ensures, patches=patches, crosscheck=False)


def cacg_fit_instance(lead, N, D, with_saliency, cov_norm='eigenvalue', floor=1e-10, hermitize=True):
    from pb_bss.distribution import complex_angular_central_gaussian as m
    lead = tuple(lead)
    rec = stubs.Recorder(np.linalg.eigh)

    def patches():
        rec.clear()
        return [(np.linalg, 'eigh', rec)]

    def make(B):
        sp = B.sp
        inp = {'y': B.cplx('y', lead + (D, N)), 'q': B.real('q', lead + (N,), lo=0.0, lo_strict=True, dist=(0.2, 2.0)), 'sal': None}
        if with_saliency:
            inp['sal'] = B.real('s', lead + (N,), lo=0.0, dist=(0.1, 2.0))
            for li in np.ndindex(*lead):
                B.require('saliency-mass-above-tiny', sp.ge(sp.sum(cells(inp['sal'])[li + (n,)] for n in range(N)), TINY))
        for i in np.ndindex(*(lead + (N,))):
            B.require('quadratic-form-above-clip', sp.ge(cells(inp['q'])[i], 10 * TINY))
        return inp

    def call(inp):
        rec.clear()
        mod = m.ComplexAngularCentralGaussianTrainer()._fit(inp['y'], saliency=inp['sal'], quadratic_form=inp['q'], hermitize=hermitize,
                                                            covariance_norm=cov_norm, eigenvalue_floor=floor)
        return {'V': mod.covariance_eigenvectors, 'lam': mod.covariance_eigenvalues, 'calls': list(rec.calls)}

    def ensures(sp, inp, out):
        calls = out['calls']
        yield 'one-eigen-decomposition', sp._f(len(calls) == 1)
        if len(calls) != 1:
            return
        (args, kw, (w, V)) = calls[0]
        yield 'eigh-argument-shape', sp._f(shape_of(args[0]) == lead + (D, D))
        if shape_of(args[0]) != lead + (D, D):
            return
        A, y, q = cells(args[0]), cells(inp['y']), cells(inp['q'])
        Vo, lo, wv, Vv = cells(out['V']), cells(out['lam']), cells(w), cells(V)
        for li in np.ndindex(*lead):
            s = [cells(inp['sal'])[li + (n,)] if with_saliency else 1.0 for n in range(N)]
            den = sp.sum(s)
            # Tyler update: B = D * sum_n s_n z z^H / q_n / sum_n s_n   (Hermitised)
            T_ = [[sp.sum(y[li + (a, n)] * sp.conj(y[li + (b, n)]) * (s[n] / q[li + (n,)]) for n in range(N)) * float(D) for b in range(D)] for a in range(D)]
            tr = sp.sum(T_[a][a] for a in range(D))
            for a in range(D):
                for b in range(D):
                    herm = (T_[a][b] + sp.conj(T_[b][a])) * 0.5 if hermitize else T_[a][b]
                    if cov_norm == 'trace':
                        # additionally divided by its trace before the decomposition
                        yield 'tyler-update-handed-to-eigh[%s,%d,%d]' % (li, a, b), sp.implies(
                            sp.ge(sp.re(tr), TINY * den), sp.eq(A[li + (a, b)] * sp.re(tr), herm))
                    else:
                        yield 'tyler-update-handed-to-eigh[%s,%d,%d]' % (li, a, b), sp.eq(A[li + (a, b)] * den, herm)
            for a in range(D):
                for b in range(D):
                    yield 'eigenvectors-passed-through[%s,%d,%d]' % (li, a, b), sp.eq(Vo[li + (a, b)], Vv[li + (a, b)])
            wmax = wv[li + (0,)]
            for e in range(1, D):
                wmax = sp.max(wmax, wv[li + (e,)])
            for e in range(D):
                if cov_norm == 'eigenvalue':
                    yield 'eigenvalue-normalisation[%s,%d]' % (li, e), sp.eq(lo[li + (e,)], sp.max(wv[li + (e,)] / sp.max(wmax, TINY), floor))
                else:
                    yield 'eigenvalue-floor[%s,%d]' % (li, e), sp.eq(lo[li + (e,)], sp.max(wv[li + (e,)], wmax * floor))

    name = 'lead%s-N%dD%d-sal%d-%s-herm%d' % (lead_name(lead), N, D, int(with_saliency), cov_norm, int(hermitize))
    return Instance('C08', DN + 'complex_angular_central_gaussian:ComplexAngularCentralGaussianTrainer._fit', name,
                    make, call, ensures, patches=patches, crosscheck=False, timeout=30.0, frame=True,
                    # trace normalisation: resolving the (complex, lexicographic) max against the eps guard is undecided in
                    # the budget -> this variant is evaluated natively only (bounded)
                    mode='bounded' if (cov_norm == 'trace' and not __import__('os').environ.get('C08_TRACE')) else 'proof', bounded_n=40)


# ----------------------------------------------------------------------------- alternation of E and M steps
def alternation_instance(kind, iterations, aligner=False, from_model=False, K=2, prop='C08'):
    """fit() with recording stubs for the M-step and the E-step: call sequence and data flow."""
    from pb_bss.distribution import cacgmm, cwmm, gmm, vmfmm
    from pb_bss.distribution import mixture_model_utils as mmu
    F, N, D = 2, 3, 2
    # mapping[k, f]: K = 2 swaps the classes of bin 0; K = 3 uses a 3-cycle (not an involution) in bin 0 and a swap in bin 1
    fixed_mapping = np.array([[1, 0], [0, 1]]) if K == 2 else np.array([[1, 0], [2, 2], [0, 1]])
    log = []

    class FakeModel:
        def __init__(self, tag):
            self.tag = tag

    def fake_m_step_factory():
        def fake_m_step(self, *a, **k):
            mdl = make_model(len([e for e in log if e[0] == 'M']))
            log.append(('M', a, k, mdl))
            return mdl
        return fake_m_step

    rng = np.random.RandomState(0)
    affs = [rng.dirichlet(np.ones(K), size=(F, N)).transpose(0, 2, 1).copy() for _ in range(6)]
    qfs = [rng.uniform(0.5, 2.0, size=(F, K, N)) for _ in range(6)]

    if kind == 'cacgmm':
        trainer_cls, model_cls, mod = cacgmm.CACGMMTrainer, cacgmm.CACGMM, cacgmm

        def make_model(i):
            from pb_bss.distribution.complex_angular_central_gaussian import ComplexAngularCentralGaussian as _CACG
            mdl = cacgmm.CACGMM(weight=np.full((F, K, 1), 1.0 / K), cacg=_CACG(
                covariance_eigenvectors=np.zeros((F, K, D, D), dtype=complex), covariance_eigenvalues=np.ones((F, K, D))))
            mdl._tag = i
            return mdl

        def fake_predict(self, y, source_activity_mask=None, affiliation_eps=0.):
            i = len([e for e in log if e[0] == 'E'])
            log.append(('E', self, (y, source_activity_mask, affiliation_eps), (affs[i], qfs[i])))
            return affs[i], qfs[i], None
        pred_name = '_predict'
    else:
        trainer_cls = {'cwmm': cwmm.CWMMTrainer, 'gmm': gmm.GMMTrainer, 'vmfmm': vmfmm.VMFMMTrainer}[kind]
        model_cls = {'cwmm': cwmm.CWMM, 'gmm': gmm.GMM, 'vmfmm': vmfmm.VMFMM}[kind]

        def make_model(i):
            mdl = model_cls.__new__(model_cls)
            mdl._tag = i
            return mdl

        def fake_predict(self, y):
            i = len([e for e in log if e[0] == 'E'])
            log.append(('E', self, (y,), (affs[i], None)))
            return affs[i]
        pred_name = 'predict'

    class FixedAligner:
        def calculate_mapping(self, mask, *a, **k):
            # the mapping belongs to the posteriors of an E-step; anything else (e.g. a quadratic form) gets another one
            m_ = np.asarray(mask)
            if any(m_.shape == (K, F, N) and np.array_equal(np.transpose(m_, (1, 0, 2)), a_) for a_ in affs):
                return fixed_mapping.copy()
            return np.roll(fixed_mapping, 1, axis=0)

        @staticmethod
        def apply_mapping(mask, mapping):
            from pb_bss.permutation_alignment import apply_mapping
            return apply_mapping(mask, mapping)

    def patches():
        return [(trainer_cls, '_m_step', fake_m_step_factory()), (model_cls, pred_name, fake_predict)]

    cplx = kind in ('cacgmm', 'cwmm')
    y0 = (rng.normal(size=(F, N, D)) + 1j * rng.normal(size=(F, N, D))) if cplx else rng.normal(size=(F, N, D))

    def make(B):
        return {'y': B.given('y', y0, wrap=False), 'init': B.given('init', affs[5], wrap=False)}

    def call(inp):
        del log[:]
        kw = {}
        if kind in ('cacgmm', 'cwmm'):
            kw['weight_constant_axis'] = (-3,) if aligner else (-1,)
            if aligner:
                kw['inline_permutation_aligner'] = FixedAligner()
        init = inp['init']
        if from_model:
            init = make_model(99)
        tr = trainer_cls()
        res = tr.fit(np.asarray(inp['y']) if not hasattr(inp['y'], 'data') else inp['y'], initialization=init, iterations=iterations, **kw)
        return {'result': res, 'log': list(log)}

    def ensures(sp, inp, out):
        lg = out['log']
        seq = ''.join(e[0] for e in lg)
        exp = ('EM' * iterations) if from_model else ('M' + 'EM' * (iterations - 1))
        yield 'call-sequence-is-%s' % exp, sp._f(seq == exp)
        if seq != exp:
            return
        ms = [e for e in lg if e[0] == 'M']
        es = [e for e in lg if e[0] == 'E']
        yield 'returned-model-is-last-m-step', sp._f(out['result'] is ms[-1][3])
        # E-step i is evaluated on the model of the preceding M-step
        for i, e in enumerate(es):
            prev_model = None
            j = next(ii for ii, x in enumerate(lg) if x is e)
            prevm = [x for x in lg[:j] if x[0] == 'M']
            if prevm:
                yield 'e-step-%d-uses-preceding-model' % i, sp._f(e[1] is prevm[-1][3])
            elif from_model:
                yield 'e-step-0-uses-given-model', sp._f(getattr(e[1], '_tag', None) == 99)
            if kind == 'cacgmm':
                yield 'e-step-%d-clips-with-affiliation-eps' % i, sp._f(e[2][2] == 1e-10)
        # every M-step works on the caller's observation, projected on the unit sphere by the directional models (frames first for
        # the cACG family); the internal E-step of the cACGMM gets the same tensor
        yv = np.asarray(inp['y'])
        unit = yv / np.linalg.norm(yv, axis=-1, keepdims=True)
        want_obs = {'gmm': yv, 'vmfmm': unit, 'cwmm': unit, 'cacgmm': np.swapaxes(unit, -1, -2)}[kind]
        for i, mcall in enumerate(ms):
            got = np.asarray(mcall[1][0]) if mcall[1] else None
            yield 'm-step-%d-observation-is-the-(unit-norm)-input' % i, sp._f(got is not None and got.shape == want_obs.shape and bool(np.allclose(got, want_obs, rtol=1e-12, atol=0)))
        if kind == 'cacgmm':
            for i, e in enumerate(es):
                got = np.asarray(e[2][0])
                yield 'e-step-%d-observation-is-the-unit-norm-input' % i, sp._f(got.shape == want_obs.shape and bool(np.allclose(got, want_obs, rtol=1e-12, atol=0)))
        # M-step i receives the affiliation (and quadratic form) of the preceding E-step, after inline alignment
        for i, mcall in enumerate(ms):
            a, k = mcall[1], mcall[2]
            aff = k.get('affiliation')
            j = next(ii for ii, x in enumerate(lg) if x is mcall)
            preve = [x for x in lg[:j] if x[0] == 'E']
            if not preve:
                yield 'first-m-step-uses-initialization', sp._f(np.array_equal(np.asarray(aff), np.broadcast_to(affs[5], np.shape(aff))))
                if kind == 'cacgmm':
                    yield 'first-m-step-quadratic-form-is-one', sp._f(bool(np.all(np.asarray(a[1]) == 1.0)))
                continue
            eaff, eqf = preve[-1][3]
            if aligner:
                mp = fixed_mapping
                eaff = np.transpose(np.transpose(eaff, (1, 0, 2))[mp, range(F)], (1, 0, 2))
                if eqf is not None:
                    eqf = np.transpose(np.transpose(eqf, (1, 0, 2))[mp, range(F)], (1, 0, 2))
            yield 'm-step-%d-affiliation-from-preceding-e-step' % i, sp._f(np.array_equal(np.asarray(aff), eaff))
            if kind == 'cacgmm':
                yield 'm-step-%d-quadratic-form-from-preceding-e-step' % i, sp._f(np.array_equal(np.asarray(a[1]), eqf))

    name = '%s-it%d%s%s%s' % (kind, iterations, '-aligner' if aligner else '', '-from-model' if from_model else '', '-K3' if K == 3 else '')
    func = {'cacgmm': 'cacgmm:CACGMMTrainer.fit', 'cwmm': 'cwmm:CWMMTrainer.fit', 'gmm': 'gmm:GMMTrainer.fit', 'vmfmm': 'vmfmm:VMFMMTrainer.fit'}[kind]
    return Instance(prop, DN + func, name, make, call, ensures, patches=patches, crosscheck=False, native_n=1, frame=False)


def instances(tier):
    th = tier == 'thorough'
    out = []
    for lead, K, N in [((), 2, 2), ((), 3, 2), ((2,), 2, 2)]:
        for wca in ((-1,), -1, -2) + (((-3,), (-3, -1), -3, [-3, -1]) if lead else ()):
            for sal in (False, True):
                out.append(weight_instance(lead, K, N, wca, sal))
    out.append(weight_instance((2, 2), 2, 2, (-4, -1), True))
    # non-negative axis numbers on affiliations of rank 2, 3 and 4 (the class axis is the last but one)
    for lead, wca in [((), 1), ((), 0), ((), (1,)), ((2,), 2), ((2,), 1), ((2,), (0, 2)), ((2, 2), 2), ((2, 2), 3), ((2, 2), (0, 3))]:
        for sal in (False, True):
            out.append(weight_instance(lead, 2, 2, wca, sal))
    for ct in ('full', 'diagonal', 'spherical'):
        out.append(gaussian_fit_instance(ct, (), 3, 2, False))
        out.append(gaussian_fit_instance(ct, (), 3, 2, True))
        out.append(gaussian_fit_instance(ct, (2,), 3, 2, True))
        out.append(gaussian_fit_instance(ct, (2,), 3, 2, False))
        out.append(gaussian_fit_instance(ct, (), 2, 1, True))
        out.append(gaussian_fit_instance(ct, (), 3, 2, True, repeat=(1, 2, 3)))
    out.append(ccsg_fit_instance((), 3, 2, False))
    out.append(ccsg_fit_instance((), 3, 2, True))
    out.append(ccsg_fit_instance((2,), 2, 2, True))
    out.append(ccsg_fit_instance((2,), 2, 2, False))
    out.append(vmf_fit_instance((), 3, 2, False))
    out.append(vmf_fit_instance((), 3, 2, True))
    out.append(vmf_fit_instance((2,), 2, 3, True))
    out.append(vmf_fit_instance((2,), 2, 3, False))
    out.append(watson_fit_instance((), 3, 2, False))
    out.append(watson_fit_instance((), 3, 2, True))
    out.append(watson_fit_instance((2,), 2, 2, True))
    out.append(watson_fit_instance((2,), 2, 2, False))
    out.append(cacg_fit_instance((), 3, 2, False))
    out.append(cacg_fit_instance((), 3, 2, True))
    out.append(cacg_fit_instance((2,), 2, 2, True))
    out.append(cacg_fit_instance((2,), 2, 2, False))
    out.append(cacg_fit_instance((), 3, 2, True, cov_norm='trace'))
    out.append(cacg_fit_instance((), 3, 2, True, cov_norm=False, hermitize=False))
    for kind in ('cacgmm', 'cwmm', 'gmm', 'vmfmm'):
        for it in (1, 2, 3):
            out.append(alternation_instance(kind, it))
    out.append(alternation_instance('cacgmm', 3, aligner=True))
    out.append(alternation_instance('cwmm', 3, aligner=True))
    out.append(alternation_instance('cacgmm', 2, from_model=True))
    out.append(alternation_instance('cacgmm', 3, aligner=True, from_model=True))
    out.append(alternation_instance('cacgmm', 3, aligner=True, K=3))
    out.append(alternation_instance('cwmm', 2, aligner=True, K=3))
    return out


# ----------------------------------------------------------------------------- M-steps (callees by recording stubs)
def mstep_instance(kind, wca=(-1,), with_saliency=True):
    """_m_step of a mixture trainer: the weight routine gets the raw posterior and the raw saliency, the component
    estimator gets the observations with a class axis and posterior x saliency as weights (and the quadratic forms of
    the E-step for the cACG based models); the integration models' inline weights are the saliency-weighted mean
    affiliation over the tied axes renormalised over classes."""
    from pb_bss.distribution import cacgmm, cwmm, cbmm, gmm, vmfmm, gcacgmm, vmfcacgmm
    from pb_bss.distribution import complex_angular_central_gaussian as cacg_mod, gaussian as gauss_mod
    from pb_bss.distribution import von_mises_fisher as vmf_mod, complex_watson as cw_mod, complex_bingham as cb_mod
    F, K, N, D, Ed = 2, 2, 2, 2, 2
    mod = {'cacgmm': cacgmm, 'cwmm': cwmm, 'cbmm': cbmm, 'gmm': gmm, 'vmfmm': vmfmm, 'gcacgmm': gcacgmm, 'vmfcacgmm': vmfcacgmm}[kind]
    integration = kind in ('gcacgmm', 'vmfcacgmm')
    cplx = kind in ('cacgmm', 'cwmm', 'cbmm', 'gcacgmm', 'vmfcacgmm')
    log = []
    SENT = {}

    def rec(name):
        def f(*a, **k):
            log.append((name, a, k))
            SENT.setdefault(name, object())
            return SENT[name]
        return f

    def rec_method(name):
        def f(self, *a, **k):
            log.append((name, a, k))
            SENT.setdefault(name, object())
            return SENT[name]
        return f

    # non-default option values: every option of the M-step that the component estimator has a parameter for must arrive there
    OPT = {'hermitize': False, 'covariance_norm': 'trace', 'eigenvalue_floor': 1e-7, 'covariance_type': 'diagonal', 'fixed_covariance': None,
           'min_concentration': 1e-3, 'max_concentration': 77.0}
    REAL_FIT = {'cacg': cacg_mod.ComplexAngularCentralGaussianTrainer._fit, 'gaussian': gauss_mod.GaussianTrainer._fit,
                'vmf': vmf_mod.VonMisesFisherTrainer._fit, 'watson': cw_mod.ComplexWatsonTrainer._fit, 'bingham': cb_mod.ComplexBinghamTrainer._fit}

    def option_checks(sp, lg, comp, given):
        import inspect
        _, a, k = lg[comp]
        try:
            bound = inspect.signature(REAL_FIT[comp]).bind(None, *a, **k).arguments
        except TypeError as e:
            yield 'component-estimator-call-matches-its-signature[%s]' % comp, sp._f(False)
            return
        for name in given:
            if name in inspect.signature(REAL_FIT[comp]).parameters:
                yield 'option-%s-forwarded-to-%s' % (name, comp), sp._f(name in bound and (bound[name] is OPT[name] or bound[name] == OPT[name]))

    def patches():
        ps = []
        if not integration:
            ps.append((mod, 'estimate_mixture_weight', rec('weight')))
        if kind in ('cacgmm', 'gcacgmm', 'vmfcacgmm'):
            ps.append((cacg_mod.ComplexAngularCentralGaussianTrainer, '_fit', rec_method('cacg')))
        if kind in ('gmm', 'gcacgmm'):
            ps.append((gauss_mod.GaussianTrainer, '_fit', rec_method('gaussian')))
        if kind in ('vmfmm', 'vmfcacgmm'):
            ps.append((vmf_mod.VonMisesFisherTrainer, '_fit', rec_method('vmf')))
        if kind == 'cwmm':
            ps.append((cw_mod.ComplexWatsonTrainer, '_fit', rec_method('watson')))
        if kind == 'cbmm':
            ps.append((cb_mod.ComplexBinghamTrainer, '_fit', rec_method('bingham')))
        return ps

    def make(B):
        # strictly positive posterior and saliency: every tied group has positive mass (the integration models' inline
        # weight code has no 0/0 guard for groups of zero saliency mass; estimate_mixture_weight has)
        inp = {'aff': B.real('g', (F, K, N), lo=0.0, lo_strict=True, dist=(0.05, 1.0)),
               'sal': B.real('s', (F, N), lo=0.0, lo_strict=True, dist=(0.2, 2.0)) if with_saliency else None,
               'y': B.cplx('y', (F, N, D)) if cplx else B.real('y', (F, N, D)), 'q': B.real('q', (F, K, N), lo=0.0, dist='pos')}
        if integration:
            inp['emb'] = B.real('e', (F, N, Ed))
        if not with_saliency and integration:
            inp['sal'] = B.given('s', np.ones((F, N)))
        return inp

    def call(inp):
        del log[:]
        SENT.clear()
        tr = {'cacgmm': cacgmm.CACGMMTrainer, 'cwmm': cwmm.CWMMTrainer, 'cbmm': cbmm.CBMMTrainer, 'gmm': gmm.GMMTrainer,
              'vmfmm': vmfmm.VMFMMTrainer, 'gcacgmm': gcacgmm.GCACGMMTrainer, 'vmfcacgmm': vmfcacgmm.VMFCACGMMTrainer}[kind]()
        if kind == 'cacgmm':
            m = tr._m_step(np.swapaxes(inp['y'], -1, -2), inp['q'], affiliation=inp['aff'], saliency=inp['sal'], hermitize=OPT['hermitize'],
                           covariance_norm=OPT['covariance_norm'], eigenvalue_floor=OPT['eigenvalue_floor'], weight_constant_axis=wca)
        elif kind in ('cwmm', 'cbmm'):
            tr.dimension = D
            m = tr._m_step(inp['y'], affiliation=inp['aff'], saliency=inp['sal'], weight_constant_axis=wca)
        elif kind == 'gmm':
            m = tr._m_step(inp['y'], affiliation=inp['aff'], saliency=inp['sal'], weight_constant_axis=wca, covariance_type=OPT['covariance_type'],
                           fixed_covariance=OPT['fixed_covariance'])
        elif kind == 'vmfmm':
            m = tr._m_step(inp['y'], affiliation=inp['aff'], saliency=inp['sal'], weight_constant_axis=wca, min_concentration=OPT['min_concentration'],
                           max_concentration=OPT['max_concentration'])
        elif kind == 'gcacgmm':
            m = tr._m_step(inp['y'], inp['emb'], inp['q'], affiliation=inp['aff'], saliency=inp['sal'], hermitize=OPT['hermitize'],
                           covariance_norm=OPT['covariance_norm'], eigenvalue_floor=OPT['eigenvalue_floor'], covariance_type='spherical',
                           fixed_covariance=OPT['fixed_covariance'], weight_constant_axis=wca, spatial_weight=1., spectral_weight=1.)
        else:
            m = tr._m_step(inp['y'], inp['emb'], inp['q'], affiliation=inp['aff'], saliency=inp['sal'], min_concentration=OPT['min_concentration'],
                           max_concentration=OPT['max_concentration'], hermitize=OPT['hermitize'], covariance_norm=OPT['covariance_norm'],
                           eigenvalue_floor=OPT['eigenvalue_floor'], weight_constant_axis=wca, spatial_weight=1., spectral_weight=1.)
        return {'model': m, 'log': list(log), 'sent': dict(SENT)}

    def masked(sp, inp):
        g = cells(inp['aff'])
        s = cells(inp['sal']) if inp['sal'] is not None else None
        return {(f, k, n): (g[f, k, n] * s[f, n] if s is not None else g[f, k, n]) for f in range(F) for k in range(K) for n in range(N)}

    def ensures(sp, inp, out):
        lg = {e[0]: e for e in out['log']}
        m = out['model']
        ma = masked(sp, inp)
        if not integration:
            ok = 'weight' in lg
            yield 'weight-routine-called', sp._f(ok)
            if ok:
                k = lg['weight'][2]
                yield 'weight-routine-gets-raw-posterior-and-raw-saliency', sp._f(
                    k.get('affiliation') is inp['aff'] and k.get('saliency') is inp['sal'] and k.get('weight_constant_axis') == wca)
                yield 'weight-stored-in-model', sp._f(m.weight is out['sent'].get('weight'))
        comp = {'cacgmm': 'cacg', 'cwmm': 'watson', 'cbmm': 'bingham', 'gmm': 'gaussian', 'vmfmm': 'vmf'}.get(kind)
        if comp is not None:
            ok = comp in lg
            yield 'component-estimator-called', sp._f(ok)
            if not ok:
                return
            _, a, k = lg[comp]
            y = k.get('y', a[0] if a else None)
            sal = k.get('saliency')
            want_y = (F, 1, D, N) if kind == 'cacgmm' else (F, 1, N, D)
            yield 'observation-with-class-axis', sp._f(shape_of(y) == want_y)
            yield 'posterior-times-saliency-as-weights', (sp.FALSE if shape_of(sal) != (F, K, N) else
                                                          sp.all(sp.eq(cells(sal)[i], ma[i]) for i in np.ndindex(F, K, N)))
            if kind == 'cacgmm':
                yield 'quadratic-form-of-e-step-passed', sp._f(k.get('quadratic_form') is inp['q'])
            given = {'cacgmm': ['hermitize', 'covariance_norm', 'eigenvalue_floor'], 'gmm': ['covariance_type', 'fixed_covariance'],
                     'vmfmm': ['min_concentration', 'max_concentration']}.get(kind, [])
            yield from option_checks(sp, lg, comp, given)
            return
        # integration models: inline weights
        w = m.weight
        axes = tuple(a % 3 for a in wca)
        if 1 in axes:
            yield 'uniform-weight', sp._f(isinstance(w, float) and w == 1 / K)
        else:
            wshape = tuple(n for a, n in enumerate((F, K, N)) if a not in axes)
            yield 'weight-shape-squeezed-along-tied-axes', sp._f(shape_of(w) == wshape)
            if shape_of(w) == wshape:
                wc = cells(w)
                for wi in np.ndindex(*wshape):
                    full_idx = []
                    it = iter(wi)
                    for a in range(3):
                        full_idx.append(None if a in axes else next(it))

                    def mass(kk):
                        rng_ = [range((F, K, N)[a]) if full_idx[a] is None else [full_idx[a]] for a in range(3)]
                        rng_[1] = [kk]
                        return sp.sum(ma[i] for i in itertools.product(*rng_))
                    kk = full_idx[1]
                    tot = sp.sum(mass(j) for j in range(K))
                    yield 'weight-is-renormalised-weighted-mean-affiliation[%s]' % (wi,), sp.implies(sp.gt(tot, 0.0), sp.eq(wc[wi] * tot, mass(kk)))
        ok = 'cacg' in lg and ('gaussian' in lg or 'vmf' in lg)
        yield 'both-stream-estimators-called', sp._f(ok)
        if not ok:
            return
        _, a, k = lg['cacg']
        yield 'spatial-estimator-arguments', sp.and_(sp._f(shape_of(k.get('y')) == (F, 1, D, N) and k.get('quadratic_form') is inp['q']),
                                                     sp.FALSE if shape_of(k.get('saliency')) != (F, K, N) else
                                                     sp.all(sp.eq(cells(k['saliency'])[i], ma[i]) for i in np.ndindex(F, K, N)))
        yield from option_checks(sp, lg, 'cacg', ['hermitize', 'covariance_norm', 'eigenvalue_floor'])
        if 'gaussian' in lg:
            yield from option_checks(sp, lg, 'gaussian', ['fixed_covariance'])
            _g = lg['gaussian']
            yield 'option-covariance_type-forwarded-to-gaussian', sp._f(_g[2].get('covariance_type') == 'spherical')
        else:
            yield from option_checks(sp, lg, 'vmf', ['min_concentration', 'max_concentration'])
        _, a2, k2 = lg['gaussian'] if 'gaussian' in lg else lg['vmf']
        ys, ss = k2.get('y'), k2.get('saliency')
        okshape = shape_of(ys) == (1, F * N, Ed) and shape_of(ss) == (K, F * N)
        yield 'spectral-estimator-shapes', sp._f(okshape)
        if okshape:
            e = cells(inp['emb'])
            yield 'embedding-flattened-frequency-major', sp.all(sp.eq(cells(ys)[0, f * N + n, d] * (1.0 if kind == 'gcacgmm' else 1.0), e[f, n, d])
                                                                 for f in range(F) for n in range(N) for d in range(Ed)) if kind == 'gcacgmm' else sp.TRUE
            yield 'spectral-weights-flattened-consistently', sp.all(sp.eq(cells(ss)[k_, f * N + n], ma[(f, k_, n)]) for f in range(F) for k_ in range(K) for n in range(N))

    name = 'mstep-%s-wca%s-sal%d' % (kind, ''.join(map(str, wca)).replace('-', 'm') if not isinstance(wca, int) else str(wca), int(with_saliency))
    func = {'cacgmm': 'cacgmm:CACGMMTrainer', 'cwmm': 'cwmm:CWMMTrainer', 'cbmm': 'cbmm:CBMMTrainer', 'gmm': 'gmm:GMMTrainer', 'vmfmm': 'vmfmm:VMFMMTrainer',
            'gcacgmm': 'gcacgmm:GCACGMMTrainer', 'vmfcacgmm': 'vmfcacgmm:VMFCACGMMTrainer'}[kind]
    return Instance('C08', DN + func + '._m_step', name, make, call, ensures, patches=patches, crosscheck=False, timeout=20.0)


_c08_base = instances


def instances(tier):       # noqa: F811
    out = _c08_base(tier)
    for kind in ('cacgmm', 'cwmm', 'cbmm', 'gmm', 'vmfmm'):
        out.append(mstep_instance(kind, (-1,), True))
    out.append(mstep_instance('cacgmm', (-3,), True))
    out.append(mstep_instance('cacgmm', (-1,), False))
    for kind in ('gcacgmm', 'vmfcacgmm'):
        for wca in ((-1,), (-3,), (-3, -1), (-3, -2, -1)):
            out.append(mstep_instance(kind, wca, True))
    return out


_instances_base = instances


def instances(tier):       # noqa: F811
    from . import loopinv
    return _instances_base(tier) + loopinv.all_instances('C08', tier)


_inst_before_spline = instances


def instances(tier):       # noqa: F811
    from .common import watson_spline_bounded_instance
    from .common import bingham_trainer_bounded_instance
    return _inst_before_spline(tier) + [watson_spline_bounded_instance('C08'), bingham_trainer_bounded_instance('C08')]


# ----------------------------------------------------------------------------- hard one-hot initialisation of any dtype
def init_dtype_bounded_instance():
    """A hard one-hot initial affiliation given as bool / int array is the same affiliation as its float version: the fitted
    parameters of every mixture trainer agree (the estimators are weighted sums, not logical reductions)."""
    from pb_bss.distribution import (CACGMMTrainer, CWMMTrainer, CBMMTrainer, GMMTrainer, VMFMMTrainer, GCACGMMTrainer, VMFCACGMMTrainer)

    def make(B):
        return {'model': B.choose('model', ['cacgmm', 'cwmm', 'cbmm', 'gmm', 'vmfmm', 'gcacgmm', 'vmfcacgmm']), 'dt': B.choose('dt', ['bool', 'int64', 'float32']),
                'it': B.choose('it', [1, 2, 3]), 'seed': B.choose('seed', list(range(2000))), 'd': B.given('d', np.zeros(1))}

    def call(inp):
        rng = np.random.RandomState(inp['seed'])
        model, it = inp['model'], inp['it']
        F, N, D, K = (1, 12, 3, 2) if model == 'cbmm' else (2, 24, 3, 2)
        if model == 'cbmm':
            it = 1
        lab = rng.randint(0, K, size=(F, N))
        lab[:, :K] = np.arange(K)
        if model == 'cbmm':
            # every class needs more than D frames: with the default max_concentration = inf a rank deficient class scatter
            # has no finite Bingham ML estimate and the trainer raises
            lab = np.stack([rng.permutation(np.arange(N) % K) for _ in range(F)])
        onehot = np.stack([lab == k for k in range(K)], axis=1)
        cplx = model not in ('gmm', 'vmfmm')
        y = rng.normal(size=(F, N, D)) + 2.0 * np.eye(D)[lab % D] + (1j * rng.normal(size=(F, N, D)) if cplx else 0)
        emb = rng.normal(size=(F, N, 3)) + 2.0 * np.eye(3)[lab % 3]

        def fit(init):
            if model in ('gcacgmm', 'vmfcacgmm'):
                m = (GCACGMMTrainer if model == 'gcacgmm' else VMFCACGMMTrainer)().fit(y, emb, initialization=init, iterations=it)
                other = m.gaussian.mean if model == 'gcacgmm' else m.vmf.mean
                return [np.asarray(m.weight), np.asarray(m.cacg.covariance_eigenvalues), np.asarray(other)]
            cls = {'cacgmm': CACGMMTrainer, 'cwmm': CWMMTrainer, 'cbmm': CBMMTrainer, 'gmm': GMMTrainer, 'vmfmm': VMFMMTrainer}[model]
            m = cls().fit(y, initialization=init, iterations=it)
            if model == 'cacgmm':
                return [np.asarray(m.weight), np.asarray(m.cacg.covariance_eigenvalues)]
            if model == 'cwmm':
                return [np.asarray(m.weight), np.asarray(m.complex_watson.concentration), np.abs(np.asarray(m.complex_watson.mode))]
            if model == 'cbmm':
                return [np.asarray(m.weight), np.asarray(m.complex_bingham.covariance_eigenvalues)]
            if model == 'gmm':
                return [np.asarray(m.weight), np.asarray(m.gaussian.mean), np.asarray(m.gaussian.covariance)]
            return [np.asarray(m.weight), np.asarray(m.vmf.mean), np.asarray(m.vmf.concentration)]
        return {'ref': fit(onehot.astype(np.float64)), 'got': fit(onehot.astype(inp['dt'])), 'model': model}

    def ensures(sp, inp, out):
        for i, (a, b) in enumerate(zip(out['ref'], out['got'])):
            yield 'same-fit-as-the-float-initialisation[%s,%d]' % (out['model'], i), bool(a.shape == b.shape and np.allclose(a, b, rtol=1e-4, atol=1e-6))

    return Instance('C08', DN + '*Trainer.fit', 'bounded-one-hot-initialisation-of-any-dtype', make, call, ensures, mode='bounded', bounded_n=60, frame=False)


_inst_before_initdtype = instances


def instances(tier):       # noqa: F811
    # the E-step of the integration models with the inline aligner on (a link of their alternation): per bin, independent of the others
    from .c14 import integration_pa_bounded_instance
    return _inst_before_initdtype(tier) + [init_dtype_bounded_instance(), integration_pa_bounded_instance('C08')]


_instances_before_simplex = instances


def offset_data_bounded_instance():
    """The Gaussian estimators on data whose offset is large against its spread (levels in dB, absolute positions, time stamps): the
    weighted mean and the pooled weighted scatter about that mean, for every covariance structure, with and without saliency and
    leading axes, through the stand-alone trainer and one M-step of the mixture -- against a two-pass evaluation in extended
    precision.  (E[y y^T] - m m^T is the same matrix over the reals and loses (offset / spread)^2 eps of it.)"""
    from pb_bss.distribution import GaussianTrainer, GMMTrainer

    def make(B):
        return {'ct': B.choose('ct', ['full', 'diagonal', 'spherical']), 'off': B.choose('off', [0.0, 1e2, 1e4, 1e6]), 'lead': B.choose('lead', [(), (2,)]),
                'sal': B.choose('sal', [False, True]), 'via': B.choose('via', ['trainer', 'gmm']), 'seed': B.choose('seed', list(range(3000))), 'd': B.given('d', np.zeros(1))}

    def call(inp):
        rng = np.random.RandomState(inp['seed'])
        lead, D, N = tuple(inp['lead']), int(rng.randint(1, 5)), 40
        spread = rng.uniform(0.5, 3.0, size=lead + (1, D))
        y = inp['off'] * rng.choice([-1.0, 1.0], size=lead + (1, D)) * rng.uniform(0.5, 2.0, size=lead + (1, D)) + spread * rng.normal(size=lead + (N, D))
        sal = rng.uniform(0.2, 2.0, size=lead + (N,)) if inp['sal'] else None
        if inp['via'] == 'trainer':
            m = GaussianTrainer().fit(y, saliency=sal, covariance_type=inp['ct'])
            w = np.ones(lead + (N,)) if sal is None else sal
            return {'mean': np.asarray(m.mean), 'cov': np.asarray(m.covariance), 'y': y, 'w': w[..., None, :], 'K': None}
        K = 2
        yy = y if lead else y[None]
        ss = None if sal is None else (sal if lead else sal[None])
        g0 = rng.dirichlet(np.ones(K), size=yy.shape[:-1])
        g0 = np.moveaxis(g0, -1, -2).copy()
        m = GMMTrainer().fit(yy, initialization=g0, iterations=1, saliency=ss, covariance_type=inp['ct'])
        w = g0 * (1.0 if ss is None else ss[..., None, :])
        return {'mean': np.asarray(m.gaussian.mean), 'cov': np.asarray(m.gaussian.covariance), 'y': yy, 'w': w, 'K': K}

    def ensures(sp, inp, out):
        y, w = out['y'].astype(np.longdouble), out['w'].astype(np.longdouble)          # w: (..., K or 1, N)
        tot = w.sum(-1)
        mean = (w[..., None] * y[..., None, :, :]).sum(-2) / tot[..., None]           # (..., K, D)
        c = y[..., None, :, :] - mean[..., None, :]
        scat = np.einsum('...n,...nd,...ne->...de', w, c, c) / tot[..., None, None]     # (..., K, D, D)
        D = y.shape[-1]
        if inp['ct'] == 'diagonal':
            want = np.diagonal(scat, axis1=-1, axis2=-2)
        elif inp['ct'] == 'spherical':
            want = np.trace(scat, axis1=-1, axis2=-2) / D
        else:
            want = scat
        got_m, got_c = out['mean'], out['cov']
        if out['K'] is None:
            mean, want = mean[..., 0, :], want[..., 0, :, :] if inp['ct'] == 'full' else (want[..., 0, :] if inp['ct'] == 'diagonal' else want[..., 0])
        scale = float(np.max(np.abs(want)))
        yield 'weighted-mean[offset=%g]' % inp['off'], bool(got_m.shape == mean.shape and np.allclose(got_m, mean.astype(float), rtol=1e-12, atol=1e-12))
        yield 'pooled-weighted-scatter-about-the-mean[%s,offset=%g]' % (inp['ct'], inp['off']), bool(got_c.shape == want.shape and np.allclose(got_c, want.astype(float), rtol=1e-7, atol=1e-7 * scale))

    return Instance('C08', DN + 'gaussian:GaussianTrainer.fit', 'bounded-data-with-a-large-offset', make, call, ensures, mode='bounded', bounded_n=100, frame=False)


def instances(tier):       # noqa: F811
    from .common import simplex_lemma_instances
    return _instances_before_simplex(tier) + [offset_data_bounded_instance()] + simplex_lemma_instances('C08')
