"""C09 - fitted parameters stay inside their documented domain."""
import itertools

import numpy as np

from pbv import expr as E
from pbv import scalar as S
from pbv.instance import Instance
from pbv.spec import cells, shape_of
from . import stubs
from .c08 import lead_name, TINY

META = {
    'level': 'proof',
    'min_obligations': 80,
    'explanation': 'cACG from_covariance (eigenvalue range, maximum one, unit trace before flooring, unitary eigenvectors, '
                   'Hermitian covariance), mixture weights (non-negative, sum to one, singleton along tied axes), vMF mean '
                   'norm and concentration clip, Watson mode norm and concentration range, Gaussian covariance symmetry: '
                   'discharged for all data at the listed shapes; degenerate data, no-NaN/Inf and Bingham are bounded',
    'assumptions': ['np.linalg.eigh by contract (unitary V, ascending real w)',
                    'hypergeometric_ratio_inverse returns values in [0, max_concentration] (interp1d fill values / monotone '
                    'data): assumed, checked natively in the bounded part'],
}
DN = 'pb_bss.distribution.'


def from_cov_instance(lead, D, cov_norm, floor):
    from pb_bss.distribution import complex_angular_central_gaussian as m
    lead = tuple(lead)

    from .c11 import herm_pd
    rec = stubs.Recorder(np.linalg.eigh)

    def patches():
        rec.clear()
        return [(np.linalg, 'eigh', rec)]

    def make(B):
        # a Hermitian positive definite matrix (generic weighted scatter after force_hermitian); singular and zero
        # scatters are in the bounded part
        return {'cov': herm_pd(B, 'c', D, lead)}

    def call(inp):
        rec.clear()
        mod = m.ComplexAngularCentralGaussian.from_covariance(inp['cov'], eigenvalue_floor=floor, covariance_norm=cov_norm)
        return {'V': mod.covariance_eigenvectors, 'lam': mod.covariance_eigenvalues, 'cov': mod.covariance, 'calls': list(rec.calls)}

    def ensures(sp, inp, out):
        ok = shape_of(out['V']) == lead + (D, D) and shape_of(out['lam']) == lead + (D,)
        yield 'shapes', sp._f(ok)
        if not ok:
            return
        V, lam, C_ = cells(out['V']), cells(out['lam']), cells(out['cov'])
        for li in np.ndindex(*lead):
            for a in range(D):
                for b in range(a, D):
                    ip = sp.sum(sp.conj(V[li + (k, a)]) * V[li + (k, b)] for k in range(D))
                    yield 'eigenvectors-unitary[%s,%d,%d]' % (li, a, b), sp.eq(ip, 1.0 if a == b else 0.0)
                    yield 'covariance-hermitian[%s,%d,%d]' % (li, a, b), sp.eq(C_[li + (a, b)], sp.conj(C_[li + (b, a)]))
            for e in range(D):
                if cov_norm == 'eigenvalue':
                    yield 'eigenvalue-in-[floor,1][%s,%d]' % (li, e), sp.and_(sp.ge(lam[li + (e,)], floor), sp.le(lam[li + (e,)], 1.0))
                elif len(out['calls']) == 1:
                    # relative floor; for a positive semidefinite input (largest raw eigenvalue >= 0)
                    wtop = cells(out['calls'][0][2][0])[li + (D - 1,)]
                    yield 'eigenvalue-above-relative-floor[%s,%d]' % (li, e), sp.implies(
                        sp.ge(wtop, 0.0), sp.ge(lam[li + (e,)], lam[li + (D - 1,)] * floor))
            if len(out['calls']) == 1:
                # exact value: the floor of a matrix is relative to the largest raw eigenvalue of the same matrix
                wr = cells(out['calls'][0][2][0])
                wmax = wr[li + (0,)]
                for e2 in range(1, D):
                    wmax = sp.max(wmax, wr[li + (e2,)])
                for e in range(D):
                    if cov_norm == 'eigenvalue':
                        want = sp.max(wr[li + (e,)] / sp.max(wmax, TINY), floor)
                    else:
                        want = sp.max(wr[li + (e,)], wmax * floor)
                    yield 'eigenvalue-value[%s,%d]' % (li, e), sp.eq(lam[li + (e,)], want)
            if cov_norm == 'eigenvalue':
                # the largest eigenvalue is one whenever the input has a largest eigenvalue >= tiny:
                # (otherwise everything is floored)
                top = lam[li + (D - 1,)]
                if len(out['calls']) == 1:
                    wraw = cells(out['calls'][0][2][0])
                    yield 'largest-eigenvalue-is-one[%s]' % (li,), sp.implies(sp.ge(wraw[li + (D - 1,)], TINY), sp.eq(top, 1.0))

    name = 'lead%s-D%d-%s-floor%g' % (lead_name(lead), D, cov_norm, floor)
    return Instance('C09', DN + 'complex_angular_central_gaussian:ComplexAngularCentralGaussian.from_covariance', name,
                    make, call, ensures, patches=patches, crosscheck=False, timeout=30.0)


def weight_domain_instance(lead, K, N, wca, with_saliency):
    from pb_bss.distribution import mixture_model_utils as mmu
    lead = tuple(lead)
    full = lead + (K, N)
    nd = len(full)

    def make(B):
        sp = B.sp
        # a posterior, parametrised linearly over the simplex: K-1 free non-negative coordinates with sum <= 1, the last class
        # takes the remaining mass (no division: keeps the obligations within the linear / low-degree fragment)
        u = cells(B.real('u', lead + (K - 1, N), lo=0.0, dist=(0.0, 1.0 / K)))
        gc = np.empty(full, dtype=object)
        for i in np.ndindex(*(lead + (N,))):
            tot = sp.sum(u[i[:-1] + (k, i[-1])] for k in range(K - 1))
            B.require('column-on-the-simplex', sp.le(tot, 1.0))
            for k in range(K - 1):
                gc[i[:-1] + (k, i[-1])] = u[i[:-1] + (k, i[-1])]
            gc[i[:-1] + (K - 1, i[-1])] = 1.0 - tot
        aff = B.derived('g', gc, np.float64)
        inp = {'aff': aff, 'sal': None}
        if with_saliency:
            inp['sal'] = B.real('s', lead + (N,), lo=0.0, dist=(0.1, 2.0))
            # every tied group has positive saliency mass
            sc = cells(inp['sal'])
            axes = tuple(a % nd for a in ((wca,) if isinstance(wca, int) else tuple(wca)))
            sal_axes = [a for a in range(nd) if a != nd - 2]
            groups = {}
            for i in np.ndindex(*(lead + (N,))):
                fi = i[:-1] + (0, i[-1])
                key = tuple(0 if a in axes else fi[a] for a in range(nd))
                groups.setdefault(key, []).append(sc[i])
            for key, vals in groups.items():
                B.require('saliency-mass-positive', sp.gt(sp.sum(vals), 0.0))
        return inp

    def call(inp):
        return mmu.estimate_mixture_weight(inp['aff'], saliency=inp['sal'], weight_constant_axis=wca)

    axes = tuple(a % nd for a in ((wca,) if isinstance(wca, int) else tuple(wca)))

    def ensures(sp, inp, out):
        if isinstance(wca, int) and wca % nd - nd == -2:
            wshape = (K, 1)
        else:
            wshape = tuple(1 if i in axes else full[i] for i in range(nd))
        yield 'documented-shape-singleton-along-tied-axes', sp._f(shape_of(out) == wshape)
        if shape_of(out) != wshape:
            return
        w = cells(out)
        for i in np.ndindex(*wshape):
            yield 'non-negative[%s]' % (i,), sp.ge(w[i], 0.0)
        kax = len(wshape) - 2
        rest = [range(n) for a, n in enumerate(wshape) if a != kax]
        for r in itertools.product(*rest):
            idx = lambda k: r[:kax] + (k,) + r[kax:]      # noqa
            yield 'sums-to-one-over-classes[%s]' % (r,), sp.eq(sp.sum(w[idx(k)] for k in range(K)), 1.0)

    name = 'lead%s-K%dN%d-wca%s-sal%d' % (lead_name(lead), K, N, str(wca).replace(' ', ''), int(with_saliency))
    return Instance('C09', DN + 'mixture_model_utils:estimate_mixture_weight', name, make, call, ensures, timeout=20.0)


def vmf_domain_instance(lead, N, D, min_c, max_c):
    from pb_bss.distribution import von_mises_fisher as m
    lead = tuple(lead)

    def make(B):
        sp = B.sp
        inp = {'y': B.real('y', lead + (N, D)), 'sal': B.real('s', lead + (N,), lo=0.0, dist=(0.1, 2.0))}
        for li in np.ndindex(*lead):
            s = [cells(inp['sal'])[li + (n,)] for n in range(N)]
            B.require('saliency-mass-positive', sp.gt(sp.sum(s), 0.0))
            r = [sp.sum(s[n] * cells(inp['y'])[li + (n, d)] for n in range(N)) for d in range(D)]
            B.require('mean-resultant-length-below-one', sp.lt(sp.sum(x * x for x in r), sp.sum(s) * sp.sum(s)))
        return inp

    def call(inp):
        mod = m.VonMisesFisherTrainer()._fit(inp['y'], saliency=inp['sal'], min_concentration=min_c, max_concentration=max_c)
        return {'mean': mod.mean, 'kappa': mod.concentration}

    def ensures(sp, inp, out):
        mu, kap, y = cells(out['mean']), cells(out['kappa']), cells(inp['y'])
        for li in np.ndindex(*lead):
            s = [cells(inp['sal'])[li + (n,)] for n in range(N)]
            r2 = sp.sum(sp.sum(s[n] * y[li + (n, d)] for n in range(N)) * sp.sum(s[n] * y[li + (n, d)] for n in range(N)) for d in range(D))
            n2 = sp.sum(mu[li + (d,)] * mu[li + (d,)] for d in range(D))
            # unit norm whenever the resultant is at least tiny; never longer than one
            yield 'mean-norm-at-most-one[%s]' % (li,), sp.le(n2, 1.0)
            yield 'mean-unit-norm-for-nonzero-resultant[%s]' % (li,), sp.implies(sp.ge(sp.sqrt(r2), TINY), sp.eq(n2, 1.0))
            yield 'concentration-within-clip[%s]' % (li,), sp.and_(sp.ge(kap[li], min_c), sp.le(kap[li], max_c))

    return Instance('C09', DN + 'von_mises_fisher:VonMisesFisherTrainer._fit', 'lead%s-N%dD%d-clip%g-%g' % (lead_name(lead), N, D, min_c, max_c),
                    make, call, ensures, timeout=30.0)


def watson_domain_instance(lead, N, D):
    from pb_bss.distribution import complex_watson as m
    lead = tuple(lead)
    orig_inv = m.ComplexWatsonTrainer.hypergeometric_ratio_inverse
    MAXC = 500.0

    def inv_stub(self, ev):
        if not stubs._is_sym(ev):
            return orig_inv(self, ev)
        r = stubs.uf_stub('watson_inv', lambda e: np.asarray(orig_inv(m.ComplexWatsonTrainer(D), e)),
                          'hypergeometric_ratio_inverse in [0, max_concentration] (assumed)', positive=False)(ev)
        c = S.ctx()
        for v in np.asarray(cells(r), dtype=object).reshape(-1):
            c.add_def([v.n], E.and_(E.cmp('>=', v.n, E.ZERO), E.cmp('<=', v.n, E.const(MAXC))))
        return r

    def patches():
        return [(m.ComplexWatsonTrainer, 'hypergeometric_ratio_inverse', inv_stub)]

    def make(B):
        inp = {'y': B.cplx('y', lead + (N, D)), 'sal': B.real('s', lead + (N,), lo=0.0, dist=(0.1, 2.0))}
        for li in np.ndindex(*lead):
            B.require('saliency-mass-nonzero', B.sp.gt(B.sp.sum(cells(inp['sal'])[li + (n,)] for n in range(N)), 0.0))
        return inp

    def call(inp):
        mod = m.ComplexWatsonTrainer(D)._fit(inp['y'], saliency=inp['sal'])
        return {'mode': mod.mode, 'kappa': mod.concentration}

    def ensures(sp, inp, out):
        ok = shape_of(out['mode']) == lead + (D,) and shape_of(out['kappa']) == lead
        yield 'shapes', sp._f(ok)
        if not ok:
            return
        w, kap = cells(out['mode']), cells(out['kappa'])
        for li in np.ndindex(*lead):
            yield 'mode-unit-norm[%s]' % (li,), sp.eq(sp.sum(sp.abs2(w[li + (d,)]) for d in range(D)), 1.0)
            yield 'concentration-in-[0,max][%s]' % (li,), sp.and_(sp.ge(kap[li], 0.0), sp.le(kap[li], MAXC))

    return Instance('C09', DN + 'complex_watson:ComplexWatsonTrainer._fit', 'lead%s-N%dD%d' % (lead_name(lead), N, D),
                    make, call, ensures, patches=patches, crosscheck=False)


def gaussian_symmetry_instance(lead, N, D):
    from pb_bss.distribution import gaussian as g
    lead = tuple(lead)

    def make(B):
        inp = {'y': B.real('y', lead + (N, D)), 'sal': B.real('s', lead + (N,), lo=0.0, dist=(0.1, 2.0))}
        for li in np.ndindex(*lead):
            B.require('saliency-mass-positive', B.sp.gt(B.sp.sum(cells(inp['sal'])[li + (n,)] for n in range(N)), TINY))
        return inp

    def call(inp):
        return g.GaussianTrainer()._fit(inp['y'], saliency=inp['sal'], covariance_type='full').covariance

    def ensures(sp, inp, out):
        c = cells(out)
        for li in np.ndindex(*lead):
            for a in range(D):
                for b in range(a + 1, D):
                    yield 'covariance-symmetric[%s,%d,%d]' % (li, a, b), sp.eq(c[li + (a, b)], c[li + (b, a)])
            # positive semidefinite: v^T C v * den = sum_n s_n (v^T d_n)^2 (certificate identity; closing lemma as in C10)
    return Instance('C09', DN + 'gaussian:GaussianTrainer._fit', 'lead%s-N%dD%d' % (lead_name(lead), N, D), make, call, ensures,
                    patches=stubs.make_gaussian_opaque_patches)


def integration_weight_instance(kind, K, N, wca):
    """The integration trainers (GCACGMM, vMF-cACGMM) carry their own weight update, stored with the tied axes removed."""
    from pb_bss.distribution import gcacgmm, vmfcacgmm
    F, D, Ed = 2, 2, 2

    def patches():
        return stubs.make_gaussian_opaque_patches() if kind == 'gcacgmm' else []

    def make(B):
        return {'y': B.cplx('y', (F, N, D)), 'e': B.real('e', (F, N, Ed)),
                'g': B.real('g', (F, K, N), lo=0.0, lo_strict=True, dist=(0.05, 1.0)),
                's': B.real('s', (F, N), lo=0.0, lo_strict=True, dist=(0.2, 2.0)),
                'q': B.real('q', (F, K, N), lo=0.0, lo_strict=True, dist=(0.5, 2.0))}

    def call(a):
        if kind == 'gcacgmm':
            m = gcacgmm.GCACGMMTrainer()._m_step(a['y'], a['e'], a['q'], affiliation=a['g'], saliency=a['s'], hermitize=True,
                                                 covariance_norm='eigenvalue', eigenvalue_floor=1e-10, covariance_type='spherical',
                                                 fixed_covariance=None, weight_constant_axis=wca, spatial_weight=1., spectral_weight=1.)
        else:
            m = vmfcacgmm.VMFCACGMMTrainer()._m_step(a['y'], a['e'], a['q'], affiliation=a['g'], saliency=a['s'], min_concentration=1e-10,
                                                     max_concentration=500, hermitize=True, covariance_norm='eigenvalue',
                                                     eigenvalue_floor=1e-10, weight_constant_axis=wca, spatial_weight=1., spectral_weight=1.)
        return {'weight': m.weight, 'wca': tuple(m.weight_constant_axis)}

    def ensures(sp, inp, out):
        want = {(-1,): (F, K), (-3,): (K, N), (-3, -1): (K,), (-3, -2, -1): ()}[tuple(wca)]
        kax = {(-1,): 1, (-3,): 0, (-3, -1): 0}.get(tuple(wca))
        yield 'tying-recorded-in-the-model', sp._f(out['wca'] == tuple(wca))
        w = out['weight']
        if want == ():
            yield 'uniform-weight-one-over-K', sp._f(np.ndim(w) == 0 and abs(float(w) * K - 1.0) < 1e-15)
            return
        yield 'documented-shape-tied-axes-removed', sp._f(shape_of(w) == want)
        if shape_of(w) != want:
            return
        wc = cells(w)
        for i in np.ndindex(*want):
            yield 'non-negative[%s]' % (i,), sp.ge(wc[i], 0.0)
        rest = [range(n) for a, n in enumerate(want) if a != kax]
        for r in itertools.product(*rest):
            idx = lambda k: r[:kax] + (k,) + r[kax:]      # noqa
            yield 'sums-to-one-over-classes[%s]' % (r,), sp.eq(sp.sum(wc[idx(k)] for k in range(K)), 1.0)

    func = {'gcacgmm': 'gcacgmm:GCACGMMTrainer', 'vmfcacgmm': 'vmfcacgmm:VMFCACGMMTrainer'}[kind]
    return Instance('C09', DN + func + '._m_step', 'weights-K%dN%d-wca%s' % (K, N, str(tuple(wca)).replace(' ', '')), make, call, ensures,
                    patches=patches, definedness=False, crosscheck=False, timeout=30.0, native_n=3)


def fit_floor_instance(kind, cov_norm, floor, aeps, iterations=1):
    """One public fit of a cACG-family trainer: the eigenvalue floor asked for is the one in force, whatever the clipping constant."""
    from pb_bss.distribution import cacgmm, gcacgmm, vmfcacgmm
    F, K, N, D, Ed = 1, 2, 3, 2, 2

    def patches():
        return stubs.make_gaussian_opaque_patches() if kind == 'gcacgmm' else []

    def make(B):
        return {'y': B.cplx('y', (F, N, D), dist=(0.3, 2.0)), 'e': B.real('e', (F, N, Ed)),
                'g': B.real('g', (F, K, N), lo=0.0, lo_strict=True, dist=(0.05, 1.0))}

    def call(a):
        if kind == 'cacg':
            # the stand-alone trainer of the component distribution (no classes: the spectrum has shape (F, D))
            from pb_bss.distribution import complex_angular_central_gaussian as cacg_
            m = cacg_.ComplexAngularCentralGaussianTrainer().fit(a['y'], eigenvalue_floor=floor, covariance_norm=cov_norm, iterations=iterations)
            return {'lam': m.covariance_eigenvalues[:, None, :][:, [0] * K, :]}
        kw = dict(initialization=a['g'], iterations=1, eigenvalue_floor=floor, covariance_norm=cov_norm, affiliation_eps=aeps)
        if kind == 'cacgmm':
            m = cacgmm.CACGMMTrainer().fit(a['y'], **kw)
        elif kind == 'gcacgmm':
            m = gcacgmm.GCACGMMTrainer().fit(a['y'], a['e'], **kw)
        else:
            m = vmfcacgmm.VMFCACGMMTrainer().fit(a['y'], a['e'], **kw)
        return {'lam': m.cacg.covariance_eigenvalues}

    def ensures(sp, inp, out):
        ok = shape_of(out['lam']) == (F, K, D)
        yield 'shape', sp._f(ok)
        if not ok:
            return
        lam = cells(out['lam'])
        for i in np.ndindex(F, K):
            top = lam[i + (0,)]
            for e in range(1, D):
                top = sp.max(top, lam[i + (e,)])
            for e in range(D):
                if cov_norm == 'eigenvalue':
                    # (the upper end of the range is from_covariance's own obligation above)
                    yield 'eigenvalue-at-least-floor[%s,%d]' % (i, e), sp.ge(lam[i + (e,)], floor)
                else:
                    yield 'eigenvalue-at-least-floor-times-largest[%s,%d]' % (i, e), sp.implies(sp.ge(top, 0.0), sp.ge(lam[i + (e,)], top * floor))

    func = {'cacgmm': 'cacgmm:CACGMMTrainer', 'gcacgmm': 'gcacgmm:GCACGMMTrainer', 'vmfcacgmm': 'vmfcacgmm:VMFCACGMMTrainer',
            'cacg': 'complex_angular_central_gaussian:ComplexAngularCentralGaussianTrainer'}[kind]
    return Instance('C09', DN + func + '.fit', 'floor-in-force-%s-floor%g-eps%g%s' % (cov_norm, floor, aeps, '' if iterations == 1 else '-it%d' % iterations), make, call, ensures,
                    patches=patches, definedness=False, crosscheck=False, timeout=30.0, native_n=3)


def gaussian_constructor_instance():
    """The mechanism of the property for the Gaussians: the constructor refuses a covariance that is not positive definite (explicit
    exception), for every covariance structure, with and without leading axes -- decided by evaluation on a fixed list of cases."""
    from pb_bss.distribution import gaussian as g

    def make(B):
        return {'d': B.given('d', np.zeros(1))}

    def call(inp):
        res = []
        for lead in ((), (2,), (2, 3)):
            D = 3
            mean = np.zeros(lead + (D,))
            for kind, bad in (('zero', 0.0), ('negative', -1e-3), ('minus-zero', -0.0)):
                for ctype in ('full', 'diagonal', 'spherical'):
                    if ctype == 'full':
                        cov = np.broadcast_to(np.eye(D), lead + (D, D)).copy()
                        cov[..., 1, 1] = bad
                        cls = g.Gaussian
                    elif ctype == 'diagonal':
                        cov = np.ones(lead + (D,))
                        cov[..., 1] = bad
                        cls = g.DiagonalGaussian
                    else:
                        cov = np.ones(lead)
                        cov[...] = bad
                        cls = g.SphericalGaussian
                        if lead:
                            cov = np.ones(lead)
                            cov[(0,) * len(lead)] = bad           # one class of the stack only
                    try:
                        m = cls(mean=mean, covariance=cov)
                        res.append((ctype, kind, len(lead), 'accepted', bool(np.all(np.isfinite(m.log_pdf(np.ones(lead + (4, D))))))))
                    except (ValueError, np.linalg.LinAlgError) as e:
                        res.append((ctype, kind, len(lead), 'rejected', True))
            # a positive covariance is accepted and gives a finite density
            for ctype, cls, cov in (('full', g.Gaussian, np.broadcast_to(np.eye(D) * 1e-6, lead + (D, D)).copy()),
                                    ('diagonal', g.DiagonalGaussian, np.full(lead + (D,), 1e-6)), ('spherical', g.SphericalGaussian, np.full(lead, 1e-6))):
                m = cls(mean=mean, covariance=cov)
                res.append((ctype, 'positive', len(lead), 'accepted', bool(np.all(np.isfinite(m.log_pdf(np.ones(lead + (4, D))))))))
        return {'cases': res}

    def ensures(sp, inp, out):
        for ctype, kind, nl, verdict, finite in out['cases']:
            if kind == 'positive':
                yield 'positive-covariance-accepted-with-finite-density[%s,lead%d]' % (ctype, nl), verdict == 'accepted' and finite
            else:
                yield 'non-positive-covariance-rejected[%s,%s,lead%d]' % (ctype, kind, nl), verdict == 'rejected'

    return Instance('C09', DN + 'gaussian:*Gaussian.__post_init__', 'constructor-rejects-non-positive-covariances', make, call, ensures, mode='bounded',
                    bounded_n=1, frame=False, fixed_seed=True)


def hard_start_tying_bounded_instance():
    """Hard one-hot starts of every element type (bool / small integers / single precision: the output of label maps) under every
    weight-tying option, through the weight update itself and through the trainers that hand the start over as it is."""
    from pb_bss.distribution import mixture_model_utils as mmu
    from pb_bss.distribution import CACGMMTrainer, CWMMTrainer, GMMTrainer, VMFMMTrainer

    def make(B):
        return {'K': B.choose('K', [2, 3, 4]), 'dt': B.choose('dt', ['bool', 'int8', 'int64', 'uint8', 'float32', 'float64']),
                'wca': B.choose('wca', [-1, -2, (-1,), (-2,), (-2, -1), 1, 0]), 'trainer': B.choose('trainer', ['fn', 'fn', 'gmm', 'vmfmm', 'cwmm', 'cacgmm']),
                'its': B.choose('its', [1, 2, 3]), 'seed': B.choose('seed', list(range(2000))), 'd': B.given('d', np.zeros(1))}

    def call(inp):
        rng = np.random.RandomState(inp['seed'])
        K, N, D = inp['K'], 40, 3
        lab = np.arange(N) % K
        rng.shuffle(lab)
        onehot = (lab[None, :] == np.arange(K)[:, None]).astype(inp['dt'])
        wca = inp['wca']
        wca = tuple(wca) if isinstance(wca, (list, tuple)) else wca
        res = {'K': K, 'which': inp['trainer']}
        centres = rng.normal(size=(K, D)) * 4
        x = centres[lab] + rng.normal(size=(N, D)) * 0.3
        if inp['trainer'] == 'fn':
            res['weight'] = np.asarray(mmu.estimate_mixture_weight(onehot, weight_constant_axis=wca))
            sal = rng.uniform(0.5, 2.0, size=N)
            res['weight_sal'] = np.asarray(mmu.estimate_mixture_weight(onehot, saliency=sal, weight_constant_axis=wca))
            return res
        if wca in (0, 1):
            wca = wca - 2
        try:
            if inp['trainer'] == 'gmm':
                m = GMMTrainer().fit(x, initialization=onehot, iterations=inp['its'], weight_constant_axis=wca, covariance_type='diagonal')
            elif inp['trainer'] == 'vmfmm':
                m = VMFMMTrainer().fit(x, initialization=onehot, iterations=inp['its'], weight_constant_axis=wca)
            elif inp['trainer'] == 'cwmm':
                z = x + 1j * rng.normal(size=(N, D)) * 0.3
                m = CWMMTrainer().fit(z, initialization=onehot, iterations=inp['its'], weight_constant_axis=wca)
            else:
                z = x + 1j * rng.normal(size=(N, D)) * 0.3
                m = CACGMMTrainer().fit(z, initialization=onehot, iterations=inp['its'], weight_constant_axis=wca)
        except (ValueError, np.linalg.LinAlgError, AssertionError) as e:
            res['raised'] = repr(e)[:200]
            return res
        res['weight'] = np.asarray(m.weight)
        params = []
        for obj in (m, getattr(m, 'gaussian', None), getattr(m, 'vmf', None), getattr(m, 'complex_watson', None), getattr(m, 'cacg', None)):
            if obj is None:
                continue
            for f_ in getattr(obj, '__dataclass_fields__', {}):
                v = getattr(obj, f_, None)
                if isinstance(v, np.ndarray) and v.dtype.kind in 'fc':
                    params.append(bool(np.all(np.isfinite(v))))
        res['finite'] = all(params)
        return res

    def ensures(sp, inp, out):
        if 'raised' in out:
            yield 'explicit-exception', True
            return
        K = out['K']
        for key in ('weight', 'weight_sal'):
            if key not in out:
                continue
            w = out[key]
            yield key + '-floating-point', bool(w.dtype.kind == 'f')
            yield key + '-non-negative-finite', bool(np.all(np.isfinite(w)) and np.all(w >= 0))
            kax = w.ndim - 2
            # (a weight tied over the class axis is stored once and broadcast over the K classes)
            tot = np.sum(w.astype(float), axis=kax) * (K if w.shape[kax] == 1 and K > 1 else 1)
            yield key + '-sums-to-one-over-classes[%s,wca=%s]' % (inp['dt'], inp['wca']), bool(w.ndim >= 2 and w.shape[kax] in (1, K) and np.allclose(tot, 1.0, atol=1e-6))
        if 'finite' in out:
            yield 'fitted-parameters-finite', out['finite']

    return Instance('C09', DN + 'mixture_model_utils:estimate_mixture_weight', 'bounded-hard-starts-of-any-type-under-every-tying-option', make, call, ensures,
                    mode='bounded', bounded_n=150, frame=False)


def high_caps_bounded_instance():
    """Concentration caps chosen by the caller far above the defaults (vMF: up to 1e4; Watson: up to 700), on tightly clustered data
    that reaches them: the fitted model stays finite and inside [min, max], modes have unit norm, weights sum to one, and predict on
    the training data returns finite posteriors."""
    from pb_bss.distribution import VMFMMTrainer, VonMisesFisherTrainer, CWMMTrainer

    def make(B):
        return {'which': B.choose('which', ['vmfmm', 'vmfmm', 'vmf', 'cwmm']), 'cap': B.choose('cap', [600.0, 800.0, 2000.0, 1e4]), 'it': B.choose('it', [1, 2, 3, 5]),
                'tight': B.choose('tight', [1e-2, 1e-3, 1e-5]), 'seed': B.choose('seed', list(range(3000))), 'd': B.given('d', np.zeros(1))}

    def call(inp):
        rng = np.random.RandomState(inp['seed'])
        K, N, D = 2, 30, int(rng.randint(3, 7))
        lab = np.arange(N) % K
        cplx = inp['which'] == 'cwmm'
        cent = rng.normal(size=(K, D)) + (1j * rng.normal(size=(K, D)) if cplx else 0)
        y = cent[lab] + inp['tight'] * (rng.normal(size=(N, D)) + (1j * rng.normal(size=(N, D)) if cplx else 0))
        init = 0.9 * (lab[None, :] == np.arange(K)[:, None]) + 0.05
        res = {'which': inp['which'], 'K': K}
        if inp['which'] == 'vmfmm':
            m = VMFMMTrainer().fit(y, initialization=init, iterations=inp['it'], max_concentration=inp['cap'])
            res.update(weight=np.asarray(m.weight), mean=np.asarray(m.vmf.mean), kappa=np.asarray(m.vmf.concentration), post=np.asarray(m.predict(y)), cap=inp['cap'])
        elif inp['which'] == 'vmf':
            m = VonMisesFisherTrainer().fit(y[lab == 0], max_concentration=inp['cap'])
            res.update(mean=np.asarray(m.mean), kappa=np.asarray(m.concentration), post=np.asarray(m.log_pdf(y[lab == 0] / np.linalg.norm(y[lab == 0], axis=-1, keepdims=True))), cap=inp['cap'])
        else:
            cap = min(inp['cap'], 700.0)
            m = CWMMTrainer(max_concentration=cap).fit(y[None], initialization=init[None], iterations=inp['it'])
            res.update(weight=np.asarray(m.weight), mean=np.asarray(m.complex_watson.mode), kappa=np.asarray(m.complex_watson.concentration),
                       post=np.asarray(m.predict(y[None])), cap=cap)
        return res

    def ensures(sp, inp, out):
        for key in ('weight', 'mean', 'kappa', 'post'):
            if key in out:
                yield '%s-finite[%s,cap=%g]' % (key, out['which'], out['cap']), bool(np.all(np.isfinite(out[key])))
        if np.all(np.isfinite(out['kappa'])):
            yield 'concentration-within-the-cap', bool(np.all(out['kappa'] >= 0) and np.all(out['kappa'] <= out['cap'] * (1 + 1e-12)))
        if np.all(np.isfinite(out['mean'])):
            yield 'modes-unit-norm', bool(np.allclose(np.linalg.norm(out['mean'], axis=-1), 1.0, atol=1e-9))
        if 'weight' in out and np.all(np.isfinite(out['weight'])):
            yield 'weights-sum-to-one', bool(np.allclose(out['weight'].sum(-2), 1.0, atol=1e-9))
        if out['which'] != 'vmf' and np.all(np.isfinite(out['post'])):
            yield 'posterior-sums-to-one', bool(np.allclose(out['post'].sum(-2), 1.0, atol=1e-9))

    return Instance('C09', DN + 'vmfmm:VMFMMTrainer.fit', 'bounded-concentration-caps-far-above-the-defaults', make, call, ensures, mode='bounded', bounded_n=80, frame=False,
                    raises=(ValueError, np.linalg.LinAlgError))


def degenerate_bounded_instance():
    """Fits on degenerate data: finite parameters inside their domain (bounded stand-in)."""
    from pb_bss.distribution import (CACGMMTrainer, CWMMTrainer, GMMTrainer, VMFMMTrainer, ComplexAngularCentralGaussianTrainer,
                                     VonMisesFisherTrainer, ComplexWatsonTrainer, GaussianTrainer)

    def make(B):
        return {'model': B.choose('model', ['cacgmm', 'cwmm', 'gmm-full', 'gmm-diagonal', 'gmm-spherical', 'vmfmm', 'cacg', 'vmf', 'watson',
                                            'cacgmm-opts', 'gcacgmm', 'vmfcacgmm', 'cacgmm-opts', 'gcacgmm', 'vmfcacgmm', 'cacgmm-mask']),
                'data': B.choose('data', ['generic', 'zero-frames', 'duplicated', 'collinear', 'few-frames', 'one-hot', 'offset']),
                'K': B.choose('K', [2, 3]), 'D': B.choose('D', [2, 3, 4]), 'it': B.choose('it', [1, 2, 5]),
                'wca': B.choose('wca', [(-1,), -2, (-3,), (-3, -1)]), 'seed': B.choose('seed', list(range(500))),
                'dummy': B.given('d', np.zeros(1))}

    def call(inp):
        rng = np.random.RandomState(inp['seed'])
        K, D, model, data = inp['K'], inp['D'], inp['model'], inp['data']
        F = 2
        N = D - 1 if data == 'few-frames' else 12
        N = max(N, 2)
        cplx = model in ('cacgmm', 'cwmm', 'cacg', 'watson', 'cacgmm-opts', 'gcacgmm', 'vmfcacgmm', 'cacgmm-mask')
        y = rng.normal(size=(F, N, D)) + (1j * rng.normal(size=(F, N, D)) if cplx else 0)
        if data == 'zero-frames':
            y[:, ::3] = 0
        elif data == 'duplicated':
            y[:, 1::2] = y[:, ::2][:, :y[:, 1::2].shape[1]]
        elif data == 'collinear':
            y = y[:, :1] * rng.normal(size=(F, N, 1))
        init = rng.dirichlet(np.ones(K), size=(F, N)).transpose(0, 2, 1).copy()
        if data == 'one-hot':
            lab = rng.randint(0, K, size=(F, N))
            lab[:, :K] = np.arange(K)
            init = np.stack([(lab == k).astype(float) for k in range(K)], axis=1)
        wca = inp['wca']
        res = {'model': model}
        if inp['seed'] % 4 == 0 and (model.startswith('gmm') or model in ('vmfmm', 'cwmm')) and data != 'one-hot':
            # positive class masses that are not normalised over the classes (the saliency-weighted weight update renormalises)
            init = init * rng.uniform(0.5, 2.0, size=(F, 1, init.shape[-1]))
        if inp['seed'] % 3 == 0 and model in ('cacgmm', 'cwmm', 'vmfmm', 'gmm-full', 'gmm-diagonal', 'gmm-spherical') and data in ('generic', 'one-hot', 'offset'):
            # the start drawn by the library itself (num_classes instead of an initialization), one iteration: the first M-step's weights
            np.random.seed(inp['seed'])
            kw_ = {'covariance_type': model[4:]} if model.startswith('gmm') else {}
            cls_ = {'cacgmm': CACGMMTrainer, 'cwmm': CWMMTrainer, 'vmfmm': VMFMMTrainer}.get(model, GMMTrainer)
            m = cls_().fit(y, num_classes=K, iterations=1, weight_constant_axis=wca, **kw_)
            res.update(weight=m.weight, K=K)
            return res
        if model == 'cacgmm-mask':
            # a source-activity mask (every class active somewhere, at least one class active everywhere)
            if data != 'generic':
                # (rank-deficient classes next to a mask reach the known C01 finding -- an inactive class whose density exceeds every
                # active one by more than 745 nats zeroes the frame; the masked scenes of this family use data in general position)
                y = rng.normal(size=(F, 12, D)) + 1j * rng.normal(size=(F, 12, D))
                init = rng.dirichlet(np.ones(K), size=(F, 12)).transpose(0, 2, 1).copy()
            act = rng.rand(F, K, init.shape[-1]) < 0.7
            act[:, 0, :] = True
            act[:, :, :K] = True
            m = CACGMMTrainer().fit(y, initialization=init * act, iterations=max(inp['it'], 2), weight_constant_axis=wca, source_activity_mask=act)
            res.update(weight=m.weight, lam=m.cacg.covariance_eigenvalues, V=m.cacg.covariance_eigenvectors, K=K)
        elif model == 'cacgmm':
            m = CACGMMTrainer().fit(y, initialization=init, iterations=inp['it'], weight_constant_axis=wca)
            res.update(weight=m.weight, lam=m.cacg.covariance_eigenvalues, V=m.cacg.covariance_eigenvectors, K=K)
        elif model in ('cacgmm-opts', 'gcacgmm', 'vmfcacgmm'):
            # the trainers of the cACG family with every option off its default: the eigenvalue floor asked for is the one in force
            # (absolute under the 'eigenvalue' norm, relative to the largest eigenvalue otherwise), whatever the clipping constant
            floor = [1e-6, 1e-3, 1e-8][inp['seed'] % 3]
            norm = ['eigenvalue', 'trace', False][(inp['seed'] // 3) % 3]
            aeps = [1e-10, 1e-12, 1e-5][(inp['seed'] // 9) % 3]
            if data == 'zero-frames' and norm != 'eigenvalue':
                y[:, 1::3] = y[:, 2::3][:, :y[:, 1::3].shape[1]]
            if model == 'cacgmm-opts':
                m = CACGMMTrainer().fit(y, initialization=init, iterations=inp['it'], weight_constant_axis=wca, eigenvalue_floor=floor,
                                        covariance_norm=norm, affiliation_eps=aeps, hermitize=bool(inp['seed'] % 2))
                w = m.weight
            else:
                from pb_bss.distribution import GCACGMMTrainer, VMFCACGMMTrainer
                from pb_bss.utils import unsqueeze
                emb = rng.normal(size=(F, N, 4))
                wca_ = {(-1,): (-1,), -2: (-3, -2, -1), (-3,): (-3,), (-3, -1): (-3, -1)}[wca]
                cls = GCACGMMTrainer if model == 'gcacgmm' else VMFCACGMMTrainer
                m = cls().fit(y, emb, initialization=init, iterations=inp['it'], weight_constant_axis=wca_, eigenvalue_floor=floor,
                              covariance_norm=norm, affiliation_eps=aeps)
                # the stored weight has the tied axes removed and says which: (F, K), (K, T), (K,) or the scalar 1 / K
                w = np.asarray(m.weight, dtype=float)
                res['weight_shape'] = (w.shape, {(-1,): (F, K), (-3, -2, -1): (), (-3,): (K, N), (-3, -1): (K,)}[wca_])
                w = np.full((1, K, 1), float(w)) if w.ndim == 0 else unsqueeze(w, m.weight_constant_axis)
            res.update(weight=w, lam=m.cacg.covariance_eigenvalues, V=m.cacg.covariance_eigenvectors, K=K, floor=floor, norm=norm)
        elif model == 'cwmm':
            m = CWMMTrainer().fit(y, initialization=init, iterations=inp['it'], weight_constant_axis=wca)
            res.update(weight=m.weight, mode=m.complex_watson.mode, kappa=m.complex_watson.concentration, K=K)
        elif model.startswith('gmm'):
            if data in ('collinear', 'few-frames', 'duplicated', 'zero-frames') and model == 'gmm-full':
                data = 'generic'
                y = rng.normal(size=(F, N if N > D else 12, D))
                init = rng.dirichlet(np.ones(K), size=(F, y.shape[1])).transpose(0, 2, 1).copy()
            if inp['data'] == 'offset':
                # a common offset many standard deviations away from zero (finite observations of any location): one class,
                # one M-step, so that the fitted variance has a closed form (two-pass weighted variance)
                y = y + 10.0 ** rng.uniform(6, 9) * (1 + rng.rand(D))
                init1 = np.ones((F, 1, y.shape[1]))
                m = GMMTrainer().fit(y, initialization=init1, iterations=1, weight_constant_axis=wca, covariance_type=model[4:])
                res.update(weight=m.weight, cov=m.gaussian.covariance, mean=m.gaussian.mean, K=1, ctype=model[4:],
                           ref_var=np.var(y - y.mean(-2, keepdims=True), axis=-2))
                return res
            m = GMMTrainer().fit(y, initialization=init, iterations=inp['it'], weight_constant_axis=wca, covariance_type=model[4:])
            res.update(weight=m.weight, cov=m.gaussian.covariance, mean=m.gaussian.mean, K=K, ctype=model[4:])
        elif model == 'vmfmm':
            lo_, hi_ = [(1e-10, 500), (2.0, 50.0), (0.5, 5.0), (1e-10, 1e4), (100.0, 2e3)][inp['seed'] % 5]       # (the cap is the caller's choice, also far above the default)
            m = VMFMMTrainer().fit(y, initialization=init, iterations=inp['it'], weight_constant_axis=wca, min_concentration=lo_, max_concentration=hi_)
            res.update(weight=m.weight, mean=m.vmf.mean, kappa=m.vmf.concentration, K=K, vmf=True, clip=(lo_, hi_))
        elif model == 'cacg':
            m = ComplexAngularCentralGaussianTrainer().fit(y, iterations=inp['it'])
            res.update(lam=m.covariance_eigenvalues, V=m.covariance_eigenvectors)
        elif model == 'vmf':
            lo_, hi_ = [(1e-10, 500), (2.0, 50.0), (0.5, 5.0), (1e-10, 1e4), (100.0, 2e3)][inp['seed'] % 5]
            m = VonMisesFisherTrainer().fit(y, min_concentration=lo_, max_concentration=hi_)
            res.update(mean=m.mean, kappa=m.concentration, vmf=True, clip=(lo_, hi_))
        else:
            m = ComplexWatsonTrainer().fit(y)
            res.update(mode=m.mode, kappa=m.concentration)
        return res

    def ensures(sp, inp, out):
        for key in ('weight', 'lam', 'V', 'mode', 'kappa', 'cov', 'mean'):
            if key in out:
                yield 'finite[%s]' % key, bool(np.all(np.isfinite(np.asarray(out[key]))))
        if 'weight' in out:
            w = np.asarray(out['weight'])
            yield 'weights-non-negative', bool(np.all(w >= 0))
            kax = -2
            yield 'weights-sum-to-one', bool(np.allclose(w.sum(kax), 1.0, atol=out['K'] * 1e-9 + 1e-9))
        if 'weight_shape' in out:
            yield 'weights-have-the-documented-shape', out['weight_shape'][0] == out['weight_shape'][1]
        if 'lam' in out and 'norm' in out:
            lam, floor, norm = np.asarray(out['lam']), out['floor'], out['norm']
            top = lam.max(-1, keepdims=True)
            if norm == 'eigenvalue':
                yield 'cacg-eigenvalues-in-[floor,1]', bool(np.all(lam >= floor * (1 - 1e-12)) and np.all(lam <= 1 + 1e-12))
                yield 'cacg-largest-eigenvalue-one', bool(np.allclose(top, 1.0))
            else:
                yield 'cacg-eigenvalues-at-least-floor-times-largest', bool(np.all(lam >= floor * top * (1 - 1e-12)) and np.all(top > 0))
                if norm == 'trace':
                    D_ = lam.shape[-1]
                    yield 'cacg-unit-trace-up-to-flooring', bool(np.all(lam.sum(-1) >= 1 - 1e-9) and np.all(lam.sum(-1) <= 1 + D_ * floor + 1e-9))
            V = np.asarray(out['V'])
            yield 'cacg-eigenvectors-unitary', bool(np.allclose(np.conj(np.swapaxes(V, -1, -2)) @ V, np.eye(V.shape[-1]), atol=1e-8))
        elif 'lam' in out:
            lam = np.asarray(out['lam'])
            yield 'cacg-eigenvalues-in-[floor,1]', bool(np.all(lam >= 1e-10 * (1 - 1e-12)) and np.all(lam <= 1 + 1e-12))
            yield 'cacg-largest-eigenvalue-one', bool(np.allclose(lam.max(-1), 1.0))
            V = np.asarray(out['V'])
            yield 'cacg-eigenvectors-unitary', bool(np.allclose(np.conj(np.swapaxes(V, -1, -2)) @ V, np.eye(V.shape[-1]), atol=1e-8))
        if 'mode' in out:
            yield 'watson-mode-unit-norm', bool(np.allclose(np.linalg.norm(np.asarray(out['mode']), axis=-1), 1.0, atol=1e-8))
            yield 'watson-concentration-in-[0,max]', bool(np.all(np.asarray(out['kappa']) >= 0) and np.all(np.asarray(out['kappa']) <= 500 + 1e-9))
        if out.get('vmf'):
            nrm = np.linalg.norm(np.asarray(out['mean']), axis=-1)
            yield 'vmf-mean-unit-norm-or-zero', bool(np.all((np.abs(nrm - 1) < 1e-8) | (nrm < 1e-8)))
            lo_, hi_ = out.get('clip', (1e-10, 500))
            yield 'vmf-concentration-within-[min,max]', bool(np.all(np.asarray(out['kappa']) >= lo_ * (1 - 1e-12)) and np.all(np.asarray(out['kappa']) <= hi_ * (1 + 1e-12)))
        if 'ref_var' in out:
            c, rv = np.asarray(out['cov']), out['ref_var']          # rv: (F, D)
            if out['ctype'] == 'full':
                got = np.einsum('fkdd->fd', c)
            elif out['ctype'] == 'diagonal':
                got = c[:, 0, :]
            else:
                got, rv = c[:, 0], rv.mean(-1)
            yield 'gaussian-variance-positive-and-equal-to-the-two-pass-variance[%s]' % out['ctype'], bool(np.all(got > 0) and np.allclose(got, rv, rtol=1e-3))
        if 'cov' in out and out.get('ctype') in ('diagonal', 'spherical'):
            # a variance that is not positive is rejected by the constructor (explicit exception), never stored
            yield 'gaussian-variances-positive[%s]' % out['ctype'], bool(np.all(np.asarray(out['cov']) > 0))
        if 'cov' in out and out.get('ctype') == 'full':
            c = np.asarray(out['cov'])
            yield 'gaussian-covariance-symmetric', bool(np.allclose(c, np.swapaxes(c, -1, -2), rtol=1e-9, atol=1e-12))
            # a class that collapsed onto fewer than D + 1 frames has a covariance that is singular up to rounding (smallest
            # eigenvalue like -1e-17) and still passes the constructor's Cholesky factorisation: positive definite up to rounding
            ev_ = np.linalg.eigvalsh(0.5 * (c + np.swapaxes(c, -1, -2)))
            yield 'gaussian-covariance-positive-definite', bool(np.all(ev_[..., 0] > -1e-12 * ev_[..., -1]) and np.all(ev_[..., -1] > 0))

    return Instance('C09', DN + '*Trainer.fit', 'bounded-degenerate-data', make, call, ensures, mode='bounded', bounded_n=320, frame=False,
                    raises=(ValueError, np.linalg.LinAlgError))      # explicit rejection of an ill-defined covariance is allowed


def instances(tier):
    th = tier == 'thorough'
    out = []
    for D in (2,) + ((3,) if th else ()):
        out.append(from_cov_instance((), D, 'eigenvalue', 1e-10))
        out.append(from_cov_instance((2,), D, 'eigenvalue', 1e-10))
        out.append(from_cov_instance((), D, False, 1e-10))
        out.append(from_cov_instance((2,), D, False, 1e-3))
        out.append(from_cov_instance((2,), D, 'trace', 1e-3))
        out.append(from_cov_instance((2, 2), D, 'trace', 1e-10))
    for lead, K, N in [((), 2, 2), ((), 3, 2), ((2,), 2, 2)]:
        for wca in ((-1,), -2) + (((-3,), (-3, -1)) if lead else ()):
            for sal in (False, True):
                out.append(weight_domain_instance(lead, K, N, wca, sal))
    for lead, wca, sal in [((), 1, True), ((2, 2), 2, True), ((2, 2), (0, 3), False), ((2,), 2, True)]:
        out.append(weight_domain_instance(lead, 2, 2, wca, sal))          # non-negative axis numbers, rank 2..4
    out.append(vmf_domain_instance((), 3, 2, 1e-10, 500.0))
    out.append(vmf_domain_instance((2,), 2, 2, 0.5, 100.0))
    out.append(watson_domain_instance((), 3, 2))
    out.append(watson_domain_instance((2,), 2, 2))
    out.append(gaussian_symmetry_instance((), 3, 2))
    out.append(gaussian_symmetry_instance((2,), 3, 2))
    for kind in ('gcacgmm', 'vmfcacgmm'):
        for wca in ((-1,), (-3,), (-3, -1), (-3, -2, -1)):
            out.append(integration_weight_instance(kind, 2, 3, wca))
        out.append(integration_weight_instance(kind, 3, 2, (-3,)))
    for kind in ('cacgmm', 'gcacgmm', 'vmfcacgmm'):
        out.append(fit_floor_instance(kind, 'eigenvalue', 1e-3, 1e-10))
        out.append(fit_floor_instance(kind, 'trace', 1e-6, 1e-3))
    out.append(fit_floor_instance('cacgmm', False, 1e-3, 1e-8))
    # the stand-alone cACG trainer: the floor asked for is in force after one fixed-point step and after two
    out.append(fit_floor_instance('cacg', 'eigenvalue', 1e-2, 0.0))
    out.append(fit_floor_instance('cacg', 'trace', 1e-3, 0.0))
    out.append(fit_floor_instance('cacg', 'eigenvalue', 0.5, 0.0, iterations=2))
    out.append(gaussian_constructor_instance())
    out.append(degenerate_bounded_instance())
    return out


_inst_before_spline = instances


def instances(tier):       # noqa: F811
    from .common import watson_spline_bounded_instance
    from .common import bingham_trainer_bounded_instance
    return _inst_before_spline(tier) + [watson_spline_bounded_instance('C09'), bingham_trainer_bounded_instance('C09')]


_instances_before_simplex = instances


def instances(tier):       # noqa: F811
    from .common import simplex_lemma_instances
    return _instances_before_simplex(tier) + [hard_start_tying_bounded_instance(), high_caps_bounded_instance()] + simplex_lemma_instances('C09')
