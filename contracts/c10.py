"""C10 - get_power_spectral_density_matrix is the mask-weighted mean outer product; condition_covariance."""
import itertools

import numpy as np

from pbv import expr as E
from pbv import scalar as S
from pbv.instance import Instance
from pbv.spec import cells, shape_of

META = {
    'level': 'proof',
    'min_obligations': 200,
    'explanation': 'value / Hermitian / PSD-certificate / scale-invariance / zero-mask / frame obligations of '
                   'get_power_spectral_density_matrix in every supported axis layout, condition_covariance value+trace',
}

F_PSD = 'pb_bss.extraction.beamformer:get_power_spectral_density_matrix'
F_CC = 'pb_bss.extraction.beamformer:condition_covariance'


def _move_last_to(arr_ndim, positions):
    """permutation placing the trailing len(positions) canonical axes at the given (non-negative) positions."""
    n = arr_ndim
    k = len(positions)
    rest = [i for i in range(n) if i not in positions]
    perm = [None] * n
    lead_axes = list(range(n - k))
    for p, a in zip(rest, lead_axes):
        perm[p] = a
    for j, p in enumerate(positions):
        perm[p] = n - k + j
    return perm


def psd_instance(lead, D, T, K, mask_kind, sensor_dim=-2, source_dim=-2, time_dim=-1, normalize=True,
                 variant='value', mask_values=None, dtype_mask=np.float64):
    """mask_kind: 'none' | 'nosrc' (mask (..., T)) | 'src' (mask with source axis).

    variant: 'value' (value + Hermitian + PSD certificate), 'scale' (invariance under m -> c m),
             'concrete' (mask_values given: zero / boolean masks)."""
    from pb_bss.extraction import beamformer as bf
    lead = tuple(lead)
    nd = len(lead) + 2
    sd, kd, td = sensor_dim % nd, source_dim % nd, time_dim % nd

    def make(B):
        sp = B.sp
        Xc = B.cplx('x', lead + (D, T))                     # canonical (..., D, T)
        X = np.transpose(Xc, _move_last_to(nd, [sd, td])) if (sd, td) != (nd - 2, nd - 1) else Xc
        inp = {'Xc': Xc, 'X': X, 'mask': None, 'Mc': None, 'c': None}
        if mask_kind != 'none':
            mshape = lead + ((K, T) if mask_kind == 'src' else (T,))
            if mask_values is not None:
                Mc = B.given('m', np.asarray(mask_values, dtype=dtype_mask).reshape(mshape))
            else:
                # 'signed': any real mask (phase-sensitive masks, a rest class 1 - m0 - m1 with a rounding residue below zero): the value is
                # still the mask-weighted sum over the guarded mask sum; positive semidefiniteness is claimed for non-negative masks only
                Mc = B.real('m', mshape, dist=(-1.0, 1.0)) if variant == 'signed' else B.real('m', mshape, lo=0.0, dist=(0.0, 1.0))
            if mask_kind == 'src':
                M = np.transpose(Mc, _move_last_to(nd, [kd, td])) if (kd, td) != (nd - 2, nd - 1) else Mc
            else:
                M = Mc
            inp['mask'], inp['Mc'] = M, Mc
            if variant == 'scale':
                inp['c'] = B.real('c', (), lo=0.0, lo_strict=True, dist=(0.1, 10.0))
        return inp

    def kwargs():
        return dict(sensor_dim=sensor_dim, source_dim=source_dim, time_dim=time_dim, normalize=normalize)

    def call(inp):
        r = bf.get_power_spectral_density_matrix(inp['X'], inp['mask'], **kwargs())
        if variant == 'scale':
            r2 = bf.get_power_spectral_density_matrix(inp['X'], inp['mask'] * inp['c'], **kwargs())
            return r, r2
        return r

    # canonical result shape (lead..., [K,] D, D) and its physical arrangement
    has_k = mask_kind == 'src'
    cshape = lead + ((K,) if has_k else ()) + (D, D)
    ids = np.arange(int(np.prod(cshape))).reshape(cshape)
    if has_k and (source_dim % nd - nd) < -2:
        ids = np.rollaxis(ids, -3, source_dim % nd)
    pshape = ids.shape

    def phys(cidx):
        flat = int(np.ravel_multi_index(cidx, cshape))
        return tuple(int(v[0]) for v in np.nonzero(ids == flat))

    def mval(inp, li, k, t):
        v = cells(inp['Mc'])[li + ((k, t) if has_k else (t,))]
        return float(v) if isinstance(v, (bool, np.bool_)) else v

    def msum(sp, inp, li, k):
        return sp.sum(mval(inp, li, k, t) for t in range(T))

    def expected(sp, inp, li, k, d, e):
        """numerator sum_t m x_d conj(x_e) and divisor"""
        Xc = cells(inp['Xc'])
        if mask_kind == 'none':
            num = sp.sum(Xc[li + (d, t)] * sp.conj(Xc[li + (e, t)]) for t in range(T))
            return num, float(T)
        num = sp.sum(Xc[li + (d, t)] * sp.conj(Xc[li + (e, t)]) * mval(inp, li, k, t) for t in range(T))
        if not normalize:
            return num, 1.0
        return num, sp.max(msum(sp, inp, li, k), 1e-10)

    def ensures(sp, inp, out):
        res = out[0] if variant == 'scale' else out
        yield 'shape', sp._f(shape_of(res) == pshape)
        if shape_of(res) != pshape:
            return
        g = cells(res)
        ks = range(K) if has_k else [None]
        for li in np.ndindex(*lead):
            for k in ks:
                cpre = li + ((k,) if has_k else ())
                tag = '%s%s' % (li, '' if k is None else ',k=%d' % k)
                if variant == 'scale':
                    g2 = cells(out[1])
                    s1 = msum(sp, inp, li, k)
                    both = sp.and_(sp.ge(s1, 1e-10), sp.ge(s1 * inp['c'], 1e-10))
                    for d in range(D):
                        for e in range(D):
                            i = phys(cpre + (d, e))
                            yield 'scale-invariant[%s,%d,%d]' % (tag, d, e), sp.implies(both, sp.eq(g[i], g2[i]))
                    continue
                for d in range(D):
                    for e in range(D):
                        num, div = expected(sp, inp, li, k, d, e)
                        yield 'value[%s,%d,%d]' % (tag, d, e), sp.eq(g[phys(cpre + (d, e))] * div, num)
                        if e >= d:
                            yield 'hermitian[%s,%d,%d]' % (tag, d, e), sp.eq(g[phys(cpre + (d, e))],
                                                                              sp.conj(g[phys(cpre + (e, d))]))
                if mask_values is not None and not np.any(np.asarray(mask_values)):
                    for d in range(D):
                        for e in range(D):
                            yield 'zero-mask-zero[%s,%d,%d]' % (tag, d, e), sp.eq(g[phys(cpre + (d, e))], 0.0)
                # positive semidefiniteness by certificate: v^H Psi v * div = sum_t m_t |v^H x_t|^2
                if variant == 'value' and sp.symbolic:
                    Xc = cells(inp['Xc'])
                    v = [sp.cplx(S.R(S.ctx().new_var('probe_re')), S.R(S.ctx().new_var('probe_im'))) for _ in range(D)]
                    quad = sp.sum(sp.conj(v[d]) * g[phys(cpre + (d, e))] * v[e] for d in range(D) for e in range(D))
                    _, div = expected(sp, inp, li, k, 0, 0)
                    terms = []
                    for t in range(T):
                        ip = sp.sum(sp.conj(v[d]) * Xc[li + (d, t)] for d in range(D))
                        w = 1.0 if mask_kind == 'none' else mval(inp, li, k, t)
                        terms.append(sp.abs2(ip) * w)
                    yield 'psd-certificate-identity[%s]' % tag, sp.and_(sp.eq(sp.re(quad) * div, sp.sum(terms)),
                                                                       sp.eq(sp.im(quad), 0.0))
        if variant == 'value' and sp.symbolic:
            # abstract lemma closing the certificate: G*dd = sum m_t s_t, m,s >= 0, dd > 0  =>  G >= 0
            c = S.ctx()
            G, dd = S.R(c.new_var('G')), S.R(c.new_var('dd'))
            ms = [S.R(c.new_var('m')) for _ in range(T)]
            ss = [S.R(c.new_var('s')) for _ in range(T)]
            prem = [sp.eq(G * dd, sp.sum(m * s for m, s in zip(ms, ss))), sp.gt(dd, 0.0)]
            prem += [sp.ge(m, 0.0) for m in ms] + [sp.ge(s, 0.0) for s in ss]
            yield 'psd-certificate-lemma[T=%d]' % T, sp.implies(sp.and_(*prem), sp.ge(G, 0.0))
            a, b = S.R(c.new_var('a')), S.R(c.new_var('b'))
            yield 'psd-certificate-square-nonneg', sp.ge(a * a + b * b, 0.0)

    name = 'lead%s-D%dT%dK%d-%s-sens%d-src%d-time%d-norm%d-%s%s' % (
        'x'.join(map(str, lead)) or '0', D, T, K, mask_kind, sensor_dim, source_dim, time_dim, int(normalize), variant,
        '' if mask_values is None else '-mask' + ''.join(str(int(v)) for v in np.asarray(mask_values).reshape(-1))
        + ('b' if np.dtype(dtype_mask) == bool else 'f'))
    return Instance('C10', F_PSD, name, make, call, ensures, timeout=20.0)


def cc_instance(lead, D):
    from pb_bss.extraction import beamformer as bf
    lead = tuple(lead)

    def make(B):
        return {'x': B.cplx('p', lead + (D, D)), 'gamma': B.real('gamma', (), lo=0.0, dist=(0.0, 2.0))}

    def call(inp):
        return bf.condition_covariance(inp['x'], inp['gamma'])

    def ensures(sp, inp, out):
        yield 'shape', sp._f(shape_of(out) == lead + (D, D))
        if shape_of(out) != lead + (D, D):
            return
        g, x, gam = cells(out), cells(inp['x']), inp['gamma']
        for li in np.ndindex(*lead):
            tr = sp.sum(x[li + (d, d)] for d in range(D))
            for d in range(D):
                for e in range(D):
                    exp = x[li + (d, e)] + (tr * gam / D if d == e else 0.0)
                    yield 'value[%s,%d,%d]' % (li, d, e), sp.eq(g[li + (d, e)] * (1.0 + gam), exp)
            yield 'trace-preserved[%s]' % (li,), sp.eq(sp.sum(g[li + (d, d)] for d in range(D)), tr)

    return Instance('C10', F_CC, 'lead%s-D%d' % ('x'.join(map(str, lead)) or '0', D), make, call, ensures)


def instances(tier):
    out = []
    th = tier == 'thorough'
    # default layout, all mask kinds
    for lead in [(), (2,)] + ([(1, 2)] if th else []):
        for D, T in [(1, 2), (2, 2), (2, 3), (3, 2)] + ([(3, 3)] if th else []):
            out.append(psd_instance(lead, D, T, 1, 'none'))
            out.append(psd_instance(lead, D, T, 1, 'nosrc'))
            for K in (1, 2):
                out.append(psd_instance(lead, D, T, K, 'src'))
    out.append(psd_instance((2,), 2, 2, 2, 'src', normalize=False))
    out.append(psd_instance((2,), 2, 2, 1, 'nosrc', normalize=False))
    # axis layouts with one leading axis (ndim 3): every valid sensor_dim / source_dim; time_dim != -1
    for sens, src in itertools.product((0, 1, -2, -3), (0, 1, -2, -3)):
        if (sens, src) == (-2, -2):
            continue
        if sens in (0, -3) and src in (1, -2) and sens % 3 == 0 and False:
            continue
        out.append(psd_instance((2,), 2, 2, 2, 'src', sensor_dim=sens, source_dim=src))
    for sens in (0, -3):
        out.append(psd_instance((2,), 2, 3, 1, 'none', sensor_dim=sens))
        out.append(psd_instance((2,), 2, 3, 1, 'nosrc', sensor_dim=sens))
    # time axis elsewhere (mask-free and source-axis masks)
    out.append(psd_instance((2,), 2, 3, 1, 'none', sensor_dim=-1, time_dim=0))
    out.append(psd_instance((2,), 2, 3, 1, 'none', sensor_dim=-1, time_dim=1))
    # every (sensor_dim, source_dim, time_dim) of a rank-3 observation with a source-axis mask, both spellings alternating
    n3 = 0
    for sd, kd, td in itertools.product(range(3), repeat=3):
        if sd == td or kd == td or (sd, kd, td) == (1, 1, 2):
            continue
        neg = n3 % 2 == 0
        n3 += 1
        out.append(psd_instance((3,), 2, 2, 2, 'src', sensor_dim=sd - 3 * neg, source_dim=kd - 3 * neg, time_dim=td - 3 * neg))
    # rank 4: a spread of layouts in the quick tier, all 36 in the thorough tier
    n4 = 0
    for sd, kd, td in itertools.product(range(4), repeat=3):
        if sd == td or kd == td:
            continue
        n4 += 1
        if th or n4 % 5 == 0:
            neg = n4 % 2 == 0
            out.append(psd_instance((2, 3), 2, 2, 2, 'src', sensor_dim=sd - 4 * neg, source_dim=kd - 4 * neg, time_dim=td - 4 * neg))
    # two leading axes, source axis in front / in the middle
    out.append(psd_instance((2, 2), 2, 2, 2, 'src', source_dim=0))
    out.append(psd_instance((2, 2), 2, 2, 2, 'src', source_dim=1))
    if th:
        out.append(psd_instance((2, 2), 2, 2, 2, 'src', sensor_dim=0, source_dim=1))
    # real masks of either sign
    out.append(psd_instance((2,), 2, 2, 2, 'src', variant='signed'))
    out.append(psd_instance((), 2, 3, 1, 'nosrc', variant='signed'))
    out.append(psd_instance((2,), 2, 2, 2, 'src', variant='signed', sensor_dim=0, source_dim=1, normalize=False))
    # scale invariance of a normalised mask
    out.append(psd_instance((), 2, 2, 1, 'nosrc', variant='scale'))
    out.append(psd_instance((2,), 2, 2, 2, 'src', variant='scale'))
    # zero and boolean masks
    out.append(psd_instance((), 2, 2, 2, 'src', variant='concrete', mask_values=np.zeros((2, 2))))
    out.append(psd_instance((), 2, 3, 1, 'nosrc', variant='concrete', mask_values=np.zeros((3,))))
    for bits in ([1, 0, 1, 1, 1, 0], [1, 1, 0, 0, 1, 0]):  # dyadic row sums: the concrete float division in the code is exact
        out.append(psd_instance((), 2, 3, 2, 'src', variant='concrete', mask_values=bits, dtype_mask=bool))
    out.append(psd_instance((), 2, 3, 1, 'nosrc', variant='concrete', mask_values=[1, 0, 1], dtype_mask=bool))
    # boolean masks without any active frame (a source that is never active): a finite, zero matrix
    out.append(psd_instance((), 2, 3, 1, 'nosrc', variant='concrete', mask_values=[0, 0, 0], dtype_mask=bool))
    out.append(psd_instance((), 2, 2, 2, 'src', variant='concrete', mask_values=[0, 0, 1, 1], dtype_mask=bool))
    out.append(psd_instance((2,), 2, 2, 1, 'nosrc', variant='concrete', mask_values=[0, 0, 1, 0], dtype_mask=bool))
    # condition_covariance
    for lead in [(), (2,)]:
        for D in (1, 2, 3):
            out.append(cc_instance(lead, D))
    return out


_inst_before_lemmas = instances


def instances(tier):       # noqa: F811
    from .common import lemma_instance
    return _inst_before_lemmas(tier) + [lemma_instance('C10', 'psd', 'lemma:weighted-outer-products-are-psd'),
                                         lemma_instance('C10', 'beam', 'lemma:condition_covariance-preserves-trace-and-psd-for-every-D',
                                                        ['condition_covariance_trace', 'condition_covariance_posSemidef', 'condition_covariance_isHermitian'])]


# ----------------------------------------------------------------------------- bounded: the whole range of the quantifier
def psd_range_bounded_instance():
    """Default-layout PSD over the sizes of the quantifier (0..3 leading axes, D 1..8, T 1..64, K 1..5), element types (complex128 /
    complex64 / real observations; float64 / float32 / bool / int masks; zero masks), memory orders, against the defining sum
    evaluated with explicit loops; plus condition_covariance."""
    from pb_bss.extraction import beamformer as bf

    def make(B):
        return {'lead': B.choose('lead', [(), (3,), (2, 2), (2, 1, 2)]), 'D': B.choose('D', [1, 2, 3, 5, 8]), 'T': B.choose('T', [1, 2, 7, 64]),
                'K': B.choose('K', [None, None, 1, 2, 5]), 'odt': B.choose('odt', ['c128', 'c128', 'c64', 'f64']),
                'mdt': B.choose('mdt', ['none', 'f64', 'f64', 'f32', 'bool', 'zero', 'zero32', 'partly-zero32']), 'norm': B.choose('norm', [True, True, False]),
                'order': B.choose('order', ['C', 'F']), 'seed': B.choose('seed', list(range(5000))), 'd': B.given('d', np.zeros(1))}

    def call(inp):
        rng = np.random.RandomState(inp['seed'])
        lead, D, T, K = tuple(inp['lead']), inp['D'], inp['T'], inp['K']
        x = rng.normal(size=lead + (D, T)) + 1j * rng.normal(size=lead + (D, T))
        x = {'c128': x, 'c64': x.astype(np.complex64), 'f64': x.real.copy()}[inp['odt']]
        mshape = lead + ((T,) if K is None else (K, T))
        m = rng.uniform(0.0, 1.0, size=mshape)
        mdt = inp['mdt']
        if mdt == 'none':
            mask = None
        elif mdt == 'bool':
            mask = m > 0.4
        elif mdt == 'int':
            mask = (m > 0.4).astype(np.int64) * 2
        elif mdt == 'zero':
            mask = np.zeros(mshape)
        elif mdt == 'zero32':
            mask = np.zeros(mshape, dtype=np.float32)
        elif mdt == 'partly-zero32':
            mask = m.astype(np.float32)
            mask[(0,) * (mask.ndim - 1)] = 0          # one silent source / bin
        else:
            mask = m.astype(np.float32 if mdt == 'f32' else np.float64)
        if inp['order'] == 'F':
            x = np.asfortranarray(x)
            mask = None if mask is None else np.asfortranarray(mask)
        x0 = x.copy()
        m0 = None if mask is None else mask.copy()
        with np.errstate(all='ignore'):
            psd = bf.get_power_spectral_density_matrix(x, mask, normalize=inp['norm'])
            cond = bf.condition_covariance(psd, 0.1) if psd.ndim >= 2 else None
        return {'psd': np.asarray(psd), 'x': x0, 'mask': m0, 'untouched': bool(np.array_equal(x, x0) and (mask is None or np.array_equal(mask, m0))),
                'cond': None if cond is None else np.asarray(cond)}

    def ensures(sp, inp, out):
        lead, D, T, K = tuple(inp['lead']), inp['D'], inp['T'], inp['K']
        x, mask, psd = out['x'].astype(np.complex128), out['mask'], out['psd']
        want = lead + ((D, D) if (K is None or mask is None) else (K, D, D))
        yield 'shape', bool(psd.shape == want)
        yield 'arguments-untouched', out['untouched']
        if psd.shape != want:
            return
        tol = 1e-4 if inp['odt'] == 'c64' or inp['mdt'] in ('f32', 'partly-zero32') else 1e-10
        ref = np.zeros(want, dtype=complex)
        for li in np.ndindex(*lead):
            for k in range(1 if (K is None or mask is None) else K):
                if mask is None:
                    mm = np.ones(T) / T
                else:
                    mm = np.asarray(mask[li] if K is None else mask[li + (k,)], dtype=float)
                    if inp['norm']:
                        mm = mm / max(mm.sum(), 1e-10)
                acc = np.zeros((D, D), dtype=complex)
                for t in range(T):
                    acc += mm[t] * np.outer(x[li][:, t], np.conj(x[li][:, t]))
                ref[li + (() if (K is None or mask is None) else (k,))] = acc
        yield 'equals-mask-weighted-mean-outer-product', bool(np.all(np.isfinite(psd)) and np.allclose(psd, ref, rtol=tol, atol=tol))
        yield 'hermitian', bool(np.allclose(psd, np.conj(np.swapaxes(psd, -1, -2)), rtol=tol, atol=tol))
        ev = np.linalg.eigvalsh(0.5 * (ref + np.conj(np.swapaxes(ref, -1, -2))))
        yield 'positive-semidefinite', bool(np.all(np.linalg.eigvalsh(0.5 * (psd + np.conj(np.swapaxes(psd, -1, -2)))) >= -1e-6 * max(1.0, float(np.max(np.abs(ev))))))
        if out['cond'] is not None:
            tr = np.trace(psd, axis1=-1, axis2=-2)[..., None, None]
            want_c = (psd + 0.1 * tr / D * np.eye(D)) / 1.1
            yield 'condition_covariance-formula-and-trace', bool(np.allclose(out['cond'], want_c, rtol=max(tol, 1e-9), atol=max(tol, 1e-9))
                                                                 and np.allclose(np.trace(out['cond'], axis1=-1, axis2=-2), tr[..., 0, 0], rtol=max(tol, 1e-9), atol=max(tol, 1e-9)))

    return Instance('C10', 'pb_bss.extraction.beamformer:get_power_spectral_density_matrix', 'bounded-sizes-and-element-types', make, call, ensures,
                    mode='bounded', bounded_n=150, frame=False)


_inst_before_range = instances


def instances(tier):       # noqa: F811
    return _inst_before_range(tier) + [psd_range_bounded_instance()]


_instances_before_simplex = instances


def instances(tier):       # noqa: F811
    from .common import simplex_lemma_instances
    return _instances_before_simplex(tier) + simplex_lemma_instances('C10')


_instances_before_history4 = instances


def instances(tier):       # noqa: F811
    from .common import with_history
    from pb_bss.extraction import beamformer as bf

    def warm():
        rng = np.random.RandomState(5)
        for shape, mshape, kw in (((3, 4, 6), (3, 2, 6), {}), ((4, 6), (6,), {}), ((6, 4, 3), (6, 2, 3), {'sensor_dim': 1, 'source_dim': 1, 'time_dim': 0}),
                                  ((2, 3, 4, 6), (2, 2, 3, 6), {'source_dim': 1})):
            x = rng.normal(size=shape) + 1j * rng.normal(size=shape)
            bf.get_power_spectral_density_matrix(x, rng.uniform(size=mshape), **kw)
            bf.get_power_spectral_density_matrix(x, **{k: v for k, v in kw.items() if k != 'source_dim'})
        bf.condition_covariance(np.eye(3) + 0j, 0.1)
    extra = [with_history(psd_instance((2,), 2, 2, 2, 'src'), warm, 'other-layouts'),
             with_history(psd_instance((2,), 2, 2, 2, 'src', sensor_dim=0, source_dim=-2), warm, 'other-layouts'),
             with_history(psd_instance((), 2, 3, 1, 'nosrc'), warm, 'other-layouts'),
             with_history(cc_instance((2,), 2), warm, 'other-layouts')]
    return _instances_before_history4(tier) + extra

