"""C11 - MVDR, LCMV and Wiener beamformers satisfy their constraints and optimality."""
import itertools

import numpy as np

from pbv import expr as E
from pbv import scalar as S
from pbv import symnp
from pbv.instance import Instance
from pbv.spec import cells, shape_of

META = {
    'level': 'proof',
    'min_obligations': 100,
    'explanation': 'distortionless / linear constraints, closed-form minimum and optimality certificate of MVDR; LCMV '
                   'constraints; Souden MVDR and WMWF on rank-one targets (normal equations, scaling laws, mu = 0); the '
                   'automatic reference channel maximises the library criterion',
    'assumptions': ['np.linalg.solve is replaced by its contract (exact inverse by adjugate/determinant); in these '
                    'instances a singular matrix is a definedness obligation (no LinAlgError fork)',
                    'for D >= 3 the fact a^H Phi^-1 a != 0 for positive definite Phi and a != 0 is a precondition '
                    '(inverse of a positive definite matrix is positive definite); for D = 2 it is proved',
                    'optimality for every dimension: lean/Mvdr.lean (mvdr_optimal, machine-checked every run) from the two facts '
                    'discharged per shape on the real code (Phi w c = a, w^H a = 1); instantiating the lemma with the code output '
                    'is by construction'],
}
BF = 'pb_bss.extraction.beamformer:'
TINY = float(np.finfo(np.float64).tiny)
NOFORK = lambda: [(symnp.SolveStub, 'fork_singular', False)]      # noqa


# ----------------------------------------------------------------------------- helpers (mode generic)
def herm_pd(B, name, D, lead=()):
    """Free Hermitian matrix with positive leading principal minors (Sylvester: positive definite)."""
    sp = B.sp
    out = np.empty(tuple(lead) + (D, D), dtype=object)
    for li in np.ndindex(*lead):
        tag = name + ''.join('_%d' % i for i in li)
        M = [[None] * D for _ in range(D)]
        for i in range(D):
            M[i][i] = sp.cplx(B.real('%s_d%d' % (tag, i), lo=0.0, lo_strict=True, dist=(1.0, 3.0)), 0.0)
            for j in range(i + 1, D):
                z = B.cplx('%s_o%d%d' % (tag, i, j), (), dist=(-0.4, 0.4))
                M[i][j] = z
                M[j][i] = sp.conj(z)
        for n in range(1, D + 1):
            minor = det([[M[i][j] for j in range(n)] for i in range(n)])
            B.require('leading-minor-%d-positive' % n, sp.gt(sp.re(minor), 0.0))
        for i in range(D):
            for j in range(D):
                out[li + (i, j)] = M[i][j]
    return B.derived(name, out, np.complex128)


def det(M):
    n = len(M)
    if n == 1:
        return M[0][0]
    if n == 2:
        return M[0][0] * M[1][1] - M[0][1] * M[1][0]
    acc = None
    for j in range(n):
        minor = [[M[r][c] for c in range(n) if c != j] for r in range(1, n)]
        t = M[0][j] * det(minor)
        if j % 2:
            t = -t
        acc = t if acc is None else acc + t
    return acc


def adj(M, one=1.0):
    n = len(M)
    if n == 1:
        return [[one]]
    A = [[None] * n for _ in range(n)]
    for i in range(n):
        for j in range(n):
            minor = [[M[r][c] for c in range(n) if c != j] for r in range(n) if r != i]
            t = det(minor)
            if (i + j) % 2:
                t = -t
            A[j][i] = t
    return A


def mat(a, li, D):
    c = cells(a)
    return [[c[li + (i, j)] for j in range(D)] for i in range(D)]


def vecs(a, li, D):
    c = cells(a)
    return [c[li + (i,)] for i in range(D)]


def quad(sp, x, M, y):
    """x^H M y"""
    return sp.sum(sp.conj(x[i]) * M[i][j] * y[j] for i in range(len(x)) for j in range(len(y)))


def matvec(sp, M, x):
    return [sp.sum(M[i][j] * x[j] for j in range(len(x))) for i in range(len(M))]


def inner(sp, x, y):
    """x^H y"""
    return sp.sum(sp.conj(a) * b for a, b in zip(x, y))


# ----------------------------------------------------------------------------- MVDR
def mvdr_instance(D, F, K=None, single=False):
    from pb_bss.extraction import beamformer as bf
    alead = () if single else ((F,) if K is None else (K, F))

    def make(B):
        sp = B.sp
        noise = herm_pd(B, 'n', D, () if single else (F,))
        a = B.cplx('a', alead + (D,))
        for li in np.ndindex(*alead):
            av = vecs(a, li, D)
            B.require('steering-vector-nonzero', sp.gt(sp.sum(sp.abs2(x) for x in av), 0.0))
            if D >= 3:
                Pn = mat(noise, () if single else (li[-1],), D)
                B.require('a^H adj(Phi) a != 0 (positive definite inverse)', sp.ne(sp.re(quad(sp, av, adj(Pn), av)), 0.0))
        return {'a': a, 'noise': noise}

    def call(inp):
        return bf.get_mvdr_vector(inp['a'], inp['noise'])

    def ensures(sp, inp, out):
        yield 'shape', sp._f(shape_of(out) == alead + (D,))
        if shape_of(out) != alead + (D,):
            return
        for li in np.ndindex(*alead):
            w, a = vecs(out, li, D), vecs(inp['a'], li, D)
            Pn = mat(inp['noise'], () if single else (li[-1],), D)
            yield 'distortionless[%s]' % (li,), sp.eq(inner(sp, w, a), 1.0)
            # closed form: Phi w * (a^H Phi^-1 a) = a, with c = a^H adj(Phi) a / det(Phi)
            cnum, dt = quad(sp, a, adj(Pn), a), det(Pn)
            Pw = matvec(sp, Pn, w)
            for i in range(D):
                yield 'normal-equation[%s,%d]' % (li, i), sp.eq(Pw[i] * cnum, a[i] * dt)
            yield 'minimum-value[%s]' % (li,), sp.eq(quad(sp, w, Pn, w) * cnum, dt)
        # optimality for every dimension follows from `distortionless` + `normal-equation` by the machine-checked lemma
        # lean/Mvdr.lean (mvdr_optimal), see the lemma instance of this module

    name = 'D%d-%s' % (D, 'single' if single else ('F%d' % F if K is None else 'K%dF%d' % (K, F)))
    return Instance('C11', BF + 'get_mvdr_vector', name, make, call, ensures, patches=NOFORK, timeout=40.0, weight=D ** 3)


# ----------------------------------------------------------------------------- LCMV
def lcmv_instance(D, K, F):
    from pb_bss.extraction import beamformer as bf

    def make(B):
        sp = B.sp
        noise = herm_pd(B, 'n', D, (F,))
        A = B.cplx('a', (K, F, D))
        resp = [1.0] + [0.0] * (K - 1)
        for f in range(F):
            Pn = mat(noise, (f,), D)
            ad = adj(Pn)
            cols = [vecs(A, (k, f), D) for k in range(K)]
            G = [[quad(sp, cols[i], ad, cols[j]) for j in range(K)] for i in range(K)]
            g = det(G)
            B.require('steering vectors independent: det(A^H adj(Phi) A) != 0', sp.or_(sp.ne(sp.re(g), 0.0), sp.ne(sp.im(g), 0.0)))
        return {'a': A, 'noise': noise, 'resp': resp}

    def call(inp):
        return bf.get_lcmv_vector(inp['a'], inp['resp'], inp['noise'])

    def ensures(sp, inp, out):
        yield 'shape', sp._f(shape_of(out) == (F, D))
        if shape_of(out) != (F, D):
            return
        for f in range(F):
            w = vecs(out, (f,), D)
            for k in range(K):
                yield 'constraint[f=%d,k=%d]' % (f, k), sp.eq(inner(sp, w, vecs(inp['a'], (k, f), D)), inp['resp'][k])

    return Instance('C11', BF + 'get_lcmv_vector', 'D%dK%dF%d' % (D, K, F), make, call, ensures, patches=NOFORK,
                    timeout=60.0, weight=D ** 3 * K, rtol=1e-4)


# ----------------------------------------------------------------------------- Souden MVDR / WMWF on rank-one targets
def rank1_inputs(B, D, F, need_eps_guard=True):
    sp = B.sp
    noise = herm_pd(B, 'n', D, (F,))
    a = B.cplx('a', (F, D))
    sig = B.real('sigma', (F,), lo=0.0, lo_strict=True, dist=(0.5, 2.0))
    tgt = np.empty((F, D, D), dtype=object)
    for f in range(F):
        av = vecs(a, (f,), D)
        B.require('steering-vector-nonzero', sp.gt(sp.sum(sp.abs2(x) for x in av), 0.0))
        for i in range(D):
            for j in range(D):
                tgt[f, i, j] = av[i] * sp.conj(av[j]) * cells(sig)[f]
        if need_eps_guard:
            Pn = mat(noise, (f,), D)
            lam_num = sp.re(quad(sp, av, adj(Pn), av)) * cells(sig)[f]      # trace(Phi_n^-1 Phi_x) * det(Phi_n)
            B.require('trace(Phi_n^-1 Phi_x) >= eps', sp.ge(lam_num, TINY * sp.re(det(Pn))))
    return {'noise': noise, 'a': a, 'sigma': sig, 'target': B.derived('target', tgt, np.complex128)}


def souden_instance(D, F, variant='value', ref=0):
    from pb_bss.extraction import beamformer as bf

    def make(B):
        inp = rank1_inputs(B, D, F)
        if variant in ('scale-target', 'scale-noise'):
            inp['c'] = B.real('c', (), lo=0.0, lo_strict=True, dist=(0.5, 2.0))
            sp = B.sp
            if variant == 'scale-target':       # keep the eps guard inactive for the scaled call too
                for f in range(F):
                    av = vecs(inp['a'], (f,), D)
                    Pn = mat(inp['noise'], (f,), D)
                    B.require('scaled trace >= eps', sp.ge(sp.re(quad(sp, av, adj(Pn), av)) * cells(inp['sigma'])[f] * inp['c'],
                                                           TINY * sp.re(det(Pn))))
            else:
                for f in range(F):
                    av = vecs(inp['a'], (f,), D)
                    Pn = mat(inp['noise'], (f,), D)
                    B.require('scaled trace >= eps', sp.ge(sp.re(quad(sp, av, adj(Pn), av)) * cells(inp['sigma'])[f],
                                                           TINY * sp.re(det(Pn)) * inp['c']))
        return inp

    def call(inp):
        w = bf.get_mvdr_vector_souden(inp['target'], inp['noise'], ref_channel=ref)
        if variant == 'value':
            return {'w': w, 'mvdr': bf.get_mvdr_vector(inp['a'], inp['noise'])}
        if variant == 'scale-target':
            return {'w': w, 'w2': bf.get_mvdr_vector_souden(inp['target'] * inp['c'], inp['noise'], ref_channel=ref)}
        return {'w': w, 'w2': bf.get_mvdr_vector_souden(inp['target'], inp['noise'] * inp['c'], ref_channel=ref)}

    def ensures(sp, inp, out):
        yield 'shape', sp._f(shape_of(out['w']) == (F, D))
        if shape_of(out['w']) != (F, D):
            return
        for f in range(F):
            w, a = vecs(out['w'], (f,), D), vecs(inp['a'], (f,), D)
            if variant == 'value':
                m = vecs(out['mvdr'], (f,), D)
                yield 'reproduces-target-at-reference[f=%d]' % f, sp.eq(inner(sp, w, a), a[ref])
                for i in range(D):
                    yield 'equals-scaled-mvdr[f=%d,%d]' % (f, i), sp.eq(w[i], m[i] * sp.conj(a[ref]))
            else:
                w2 = vecs(out['w2'], (f,), D)
                for i in range(D):
                    yield '%s-invariant[f=%d,%d]' % (variant, f, i), sp.eq(w[i], w2[i])

    return Instance('C11', BF + 'get_mvdr_vector_souden', 'D%dF%d-%s-ref%d' % (D, F, variant, ref), make, call, ensures,
                    patches=NOFORK, timeout=60.0, weight=D ** 3, rtol=1e-5)


def wmwf_instance(D, F, variant='value', ref=0):
    from pb_bss.extraction import beamformer as bf

    def make(B):
        inp = rank1_inputs(B, D, F, need_eps_guard=(variant == 'mu0'))
        inp['mu'] = 0.0 if variant == 'mu0' else B.real('mu', (), lo=0.0, hi=100.0, dist=(0.0, 5.0))
        if variant in ('csv', 'csv-per-bin'):
            inp['u'] = B.real('u', (D,) if variant == 'csv' else (F, D))
        if variant == 'scale-both':
            inp['c'] = B.real('c', (), lo=0.0, lo_strict=True, dist=(0.5, 2.0))
        return inp

    def call(inp):
        if variant in ('csv', 'csv-per-bin'):
            return {'w': bf.get_wmwf_vector(inp['target'], inp['noise'], channel_selection_vector=inp['u'], distortion_weight=inp['mu'])}
        w = bf.get_wmwf_vector(inp['target'], inp['noise'], reference_channel=ref, distortion_weight=inp['mu'])
        if variant == 'value':
            return {'w': w}
        if variant == 'mu0':
            return {'w': w, 'w2': bf.get_mvdr_vector_souden(inp['target'], inp['noise'], ref_channel=ref)}
        return {'w': w, 'w2': bf.get_wmwf_vector(inp['target'] * inp['c'], inp['noise'] * inp['c'], reference_channel=ref,
                                                  distortion_weight=inp['mu'])}

    def ensures(sp, inp, out):
        yield 'shape', sp._f(shape_of(out['w']) == (F, D))
        if shape_of(out['w']) != (F, D):
            return
        for f in range(F):
            w = vecs(out['w'], (f,), D)
            if variant == 'value':
                Px, Pn = mat(inp['target'], (f,), D), mat(inp['noise'], (f,), D)
                lhs_x, lhs_n = matvec(sp, Px, w), matvec(sp, Pn, w)
                for i in range(D):
                    # (Phi_xx + mu Phi_nn) w = Phi_xx e_ref
                    yield 'wiener-normal-equation[f=%d,%d]' % (f, i), sp.eq(lhs_x[i] + lhs_n[i] * inp['mu'], Px[i][ref])
            elif variant in ('csv', 'csv-per-bin'):
                # (Phi_xx + mu Phi_nn) w = Phi_xx u : the selection vector picks a weighted reference (a combination of columns)
                Px, Pn = mat(inp['target'], (f,), D), mat(inp['noise'], (f,), D)
                lhs_x, lhs_n = matvec(sp, Px, w), matvec(sp, Pn, w)
                u = [cells(inp['u'])[(c_,) if variant == 'csv' else (f, c_)] for c_ in range(D)]
                for i in range(D):
                    yield 'wiener-normal-equation-selection-vector[f=%d,%d]' % (f, i), sp.eq(lhs_x[i] + lhs_n[i] * inp['mu'],
                                                                                              sp.sum(Px[i][c_] * u[c_] for c_ in range(D)))
            else:
                w2 = vecs(out['w2'], (f,), D)
                tag = 'mu0-equals-souden' if variant == 'mu0' else 'joint-scale-invariant'
                for i in range(D):
                    yield '%s[f=%d,%d]' % (tag, f, i), sp.eq(w[i], w2[i])

    return Instance('C11', BF + 'get_wmwf_vector', 'D%dF%d-%s-ref%d' % (D, F, variant, ref), make, call, ensures,
                    patches=NOFORK, timeout=60.0, weight=D ** 3, rtol=1e-5)


# ----------------------------------------------------------------------------- reference channel
def refchannel_instance(D, F):
    """get_optimal_reference_channel returns an arg-max of the library's own criterion
    SNR_r = sum_f w_r^H Phi_x w_r / max(sum_f w_r^H Phi_n w_r, eps).

    Certificate structure (symbolic mode): the vector handed to np.argmax is observed (rec); obligations
      link[r]   : rec[r] * d_r = n_r  with n_r, d_r the criterion recomputed by the contract (explicit loops),
      chosen[r] : rec[r*] >= rec[r]   (from the arg-max path condition),
      lemma     : rec0 >= rec1, rec0 d0 = n0, rec1 d1 = n1, d0, d1 > 0  =>  n0 d1 >= n1 d0   (abstract symbols);
    their composition (n_{r*}/d_{r*} >= n_r/d_r) is by instantiation."""
    from pb_bss.extraction import beamformer as bf
    seen = {}

    def patches():
        real_argmax = np.argmax

        def recording(a, *args, **kw):
            seen['arg'] = a
            return real_argmax(a, *args, **kw)
        return [(np, 'argmax', recording)]

    def make(B):
        return {'w': B.cplx('w', (F, D, D)), 'target': herm_pd(B, 't', D, (F,)), 'noise': herm_pd(B, 'n', D, (F,))}

    def call(inp):
        seen.clear()
        r = bf.get_optimal_reference_channel(inp['w'], inp['target'], inp['noise'])
        return {'ref': r, 'rec': seen.get('arg')}

    def crit(sp, inp, r):
        W = cells(inp['w'])
        num = sp.sum(quad(sp, [W[f, d, r] for d in range(D)], mat(inp['target'], (f,), D), [W[f, d, r] for d in range(D)]) for f in range(F))
        den = sp.sum(quad(sp, [W[f, d, r] for d in range(D)], mat(inp['noise'], (f,), D), [W[f, d, r] for d in range(D)]) for f in range(F))
        return num, den

    def ensures(sp, inp, out):
        ref = out['ref']
        ok = isinstance(ref, (int, np.integer)) and 0 <= int(ref) < D
        yield 'returns-channel-index', sp._f(ok)
        if not ok:
            return
        ref = int(ref)
        cr = [crit(sp, inp, r) for r in range(D)]
        if not sp.symbolic or out['rec'] is None:
            vals = [sp.re(n) / sp.max(sp.re(d), TINY) for n, d in cr]
            for r in range(D):
                if r != ref:
                    yield 'criterion[%d]>=criterion[%d]' % (ref, r), sp.ge(vals[ref], vals[r])
            return
        rec = cells(out['rec'])
        for r in range(D):
            n, d = cr[r]
            yield 'criterion-is-real[%d]' % r, sp.and_(sp.eq(sp.im(n), 0.0), sp.eq(sp.im(d), 0.0))
            yield 'link[%d]' % r, sp.eq(rec[r] * sp.max(sp.re(d), TINY), sp.re(n))
            if r != ref:
                yield 'chosen[%d]>=[%d]' % (ref, r), sp.ge(rec[ref], rec[r])
        c = S.ctx()
        r0, r1, n0, n1, d0, d1 = [S.R(c.new_var(t)) for t in ('lr0', 'lr1', 'ln0', 'ln1', 'ld0', 'ld1')]
        yield 'ratio-lemma', sp.implies(sp.and_(sp.ge(r0, r1), sp.eq(r0 * d0, n0), sp.eq(r1 * d1, n1), sp.gt(d0, 0.0), sp.gt(d1, 0.0)),
                                        sp.ge(n0 * d1, n1 * d0))

    def hints(sp, inp, out):
        if not sp.symbolic:
            return []
        hs = []
        for r in range(D):
            n, d = crit(sp, inp, r)
            hs += [sp.eq(sp.im(n), 0.0), sp.eq(sp.im(d), 0.0)]       # discharged above as criterion-is-real[r]
        return hs

    return Instance('C11', BF + 'get_optimal_reference_channel', 'D%dF%d' % (D, F), make, call, ensures, hints=hints,
                    patches=patches, timeout=30.0, crosscheck=False)


def autoref_instance(kind, D, F):
    """With ref_channel=None the criterion is evaluated on the normalised filter matrix of all channels and the
    chosen column is returned (observed by wrapping get_optimal_reference_channel)."""
    from pb_bss.extraction import beamformer as bf
    seen = {}

    def patches():
        real = bf.get_optimal_reference_channel

        def recording(w_mat, target_psd_matrix, noise_psd_matrix, eps=None):
            r = real(w_mat, target_psd_matrix, noise_psd_matrix, eps=eps) if eps is not None else real(w_mat, target_psd_matrix, noise_psd_matrix)
            seen['args'] = (w_mat, target_psd_matrix, noise_psd_matrix)
            seen['ref'] = r
            return r
        return [(symnp.SolveStub, 'fork_singular', False), (bf, 'get_optimal_reference_channel', recording)]

    def make(B):
        inp = rank1_inputs(B, D, F, need_eps_guard=(kind == 'souden'))
        inp['mu'] = B.real('mu', (), lo=0.0, hi=100.0, dist=(0.0, 5.0)) if kind == 'wmwf' else None
        return inp

    def call(inp):
        seen.clear()
        if kind == 'souden':
            w = bf.get_mvdr_vector_souden(inp['target'], inp['noise'])
        else:
            w = bf.get_wmwf_vector(inp['target'], inp['noise'], distortion_weight=inp['mu'])
        # native runs do not go through `patches`: observe by direct wrapping too
        return {'w': w, 'seen': dict(seen)}

    def ensures(sp, inp, out):
        sn = out['seen']
        if not sn:
            # native mode: recompute the explicit-reference results and the criterion
            best = None
            for r in range(D):
                wr = (bf.get_mvdr_vector_souden(inp['target'], inp['noise'], ref_channel=r) if kind == 'souden'
                      else bf.get_wmwf_vector(inp['target'], inp['noise'], reference_channel=r, distortion_weight=inp['mu']))
                num = sum(np.real(np.conj(wr[f]) @ np.asarray(inp['target'])[f] @ wr[f]) for f in range(F))
                den = max(sum(np.real(np.conj(wr[f]) @ np.asarray(inp['noise'])[f] @ wr[f]) for f in range(F)), TINY)
                if best is None or num / den > best[0] * (1 + 1e-9):
                    best = (num / den, r, wr)
            ok = any(np.allclose(np.asarray(out['w']), (bf.get_mvdr_vector_souden(inp['target'], inp['noise'], ref_channel=r) if kind == 'souden'
                                                        else bf.get_wmwf_vector(inp['target'], inp['noise'], reference_channel=r, distortion_weight=inp['mu'])),
                                 rtol=1e-7, atol=1e-12)
                     and True for r in range(D))
            yield 'result-is-a-reference-column', ok
            wsel = np.asarray(out['w'])
            num = sum(np.real(np.conj(wsel[f]) @ np.asarray(inp['target'])[f] @ wsel[f]) for f in range(F))
            den = max(sum(np.real(np.conj(wsel[f]) @ np.asarray(inp['noise'])[f] @ wsel[f]) for f in range(F)), TINY)
            yield 'chosen-reference-maximises-criterion', bool(num / den >= best[0] * (1 - 1e-6))
            return
        W, T_, N_ = sn['args']
        r = int(sn['ref'])
        yield 'criterion-evaluated-on-the-input-psds', sp._f(T_ is inp['target'] and N_ is inp['noise'])
        # the matrix handed to the criterion is Phi_n^-1 Phi_x / max(trace, eps)   (Souden)   or  /(mu + trace)  (WMWF)
        Wc, g = cells(W), cells(out['w'])
        for f in range(F):
            Pn, Px = mat(inp['noise'], (f,), D), mat(inp['target'], (f,), D)
            ad, dt = adj(Pn), det(Pn)
            phi = [[sp.sum(ad[i][k] * Px[k][j] for k in range(D)) for j in range(D)] for i in range(D)]      # times det
            tr = sp.sum(phi[i][i] for i in range(D))
            for i in range(D):
                for j in range(D):
                    if kind == 'souden':
                        # W = phi / max(trace, eps): resolving the max needs the eps precondition inside a large
                        # non-linear query (undecided in the budget); the matrix is checked in the WMWF instance and
                        # by the native evaluations of this one
                        pass
                    else:
                        yield 'criterion-matrix[f=%d,%d,%d]' % (f, i, j), sp.eq(Wc[f, i, j] * (dt * inp['mu'] + tr), phi[i][j])
                yield 'result-is-chosen-column[f=%d,%d]' % (f, i), sp.eq(g[f, i], Wc[f, i, r])

    return Instance('C11', BF + ('get_mvdr_vector_souden' if kind == 'souden' else 'get_wmwf_vector'),
                    'D%dF%d-auto-reference' % (D, F), make, call, ensures, patches=patches, timeout=60.0, crosscheck=False,
                    rtol=1e-5)


def instances(tier):
    th = tier == 'thorough'
    out = []
    out.append(mvdr_instance(2, 1, single=True))
    out.append(mvdr_instance(2, 1))
    out.append(mvdr_instance(2, 2))
    out.append(mvdr_instance(2, 2, K=2))
    if th:
        out.append(mvdr_instance(3, 1))
        # (D = 3 with F == D and D = 4 do not decide within the thorough budget on a loaded machine: those shapes -- F == D is
        # the one on which NumPy 2 solve silently misreads a stack -- are covered by the native stand-in of C13 / C11 only)
    out.append(mvdr_instance(2, 2, K=1))
    out.append(lcmv_instance(2, 1, 1))
    out.append(lcmv_instance(2, 1, 2))
    out.append(lcmv_instance(2, 2, 1))
    if th:
        out.append(lcmv_instance(3, 2, 1))
        # (D = 3 with two constraints and two bins does not decide in any back end within the thorough budget -- 60 obligations
        # undecided after 35 minutes in session 4; the shape is in the bounded family)
    for v in ('value', 'scale-target', 'scale-noise'):
        out.append(souden_instance(2, 1, v, ref=0))
    out.append(souden_instance(2, 2, 'value', ref=1))
    for v in ('value', 'mu0', 'scale-both'):
        out.append(wmwf_instance(2, 1, v, ref=0))
    out.append(wmwf_instance(2, 2, 'value', ref=1))
    # reference channel counted from the end (Python convention, as for every other axis / index argument of the library)
    out.append(wmwf_instance(2, 2, 'value', ref=-1))
    out.append(wmwf_instance(2, 1, 'mu0', ref=-1))
    out.append(souden_instance(2, 1, 'value', ref=-1))
    out.append(souden_instance(2, 2, 'value', ref=-2))
    out.append(wmwf_instance(2, 1, 'csv'))
    out.append(wmwf_instance(2, 2, 'csv-per-bin'))
    # (D = 3 Souden / WMWF: the 'equals scaled MVDR' obligations time out in every back end when the machine is busy -- 48 undecided
    # after 21 minutes at the end of session 4, none in an earlier sweep; unstable, so the shape is left to the bounded family)
    out.append(refchannel_instance(2, 1))
    out.append(refchannel_instance(2, 2))
    out.append(autoref_instance('souden', 2, 2))
    out.append(autoref_instance('wmwf', 2, 2))
    return out


_inst_before_lemmas = instances


def instances(tier):       # noqa: F811
    from .common import lemma_instance
    return _inst_before_lemmas(tier) + [lemma_instance('C11', 'mvdr', 'lemma:mvdr-optimality-from-the-normal-equation'),
                                         lemma_instance('C11', 'beam', 'lemma:lcmv-constraints-mvdr-normal-equation-souden-rank-one-for-every-D',
                                                        ['lcmv_constraints', 'mvdr_constraint', 'souden_rank_one', 'souden_is_scaled_mvdr']),
                                         lemma_instance('C11', 'cacgmm', 'lemma:wmwf-is-the-minimiser-of-the-weighted-wiener-cost-for-every-D',
                                                        ['quadratic_minimiser', 'wmwf_cost_expand', 'wmwf_minimiser'])]


# ----------------------------------------------------------------------------- bounded: all shapes of the quantifier against
# explicit per-bin linear algebra (D 2..8, F 1..32 including F == D, K 1..3, condition numbers up to 1e6)
def shapes_bounded_instance():
    from pb_bss.extraction import beamformer as bf

    def make(B):
        return {'fn': B.choose('fn', ['mvdr', 'mvdr', 'lcmv', 'souden', 'wmwf', 'souden-auto', 'wmwf-auto']), 'D': B.choose('D', [2, 3, 4, 6, 8]), 'F': B.choose('F', ['1', 'D', '5', '32']),
                'K': B.choose('K', [None, 1, 2, 3]), 'cond': B.choose('cond', [1e1, 1e3, 1e6, 1e9]), 'mu': B.choose('mu', [0, 0.0, 0.5, 1.0, 100.0]),
                'seed': B.choose('seed', list(range(5000))), 'd': B.given('d', np.zeros(1)),
                'real': B.choose('real', ['none', 'none', 'steering', 'noise', 'both'])}

    def hpd(rng, F, D, cond):
        A = rng.normal(size=(F, D, D)) + 1j * rng.normal(size=(F, D, D))
        Q = np.linalg.qr(A)[0]
        ev = np.exp(rng.uniform(0, np.log(cond), size=(F, D)))
        ev[:, 0], ev[:, -1] = 1.0, cond
        return (Q * ev[:, None, :]) @ np.conj(np.swapaxes(Q, -1, -2))

    def call(inp):
        rng = np.random.RandomState(inp['seed'])
        D = inp['D']
        F = {'1': 1, 'D': D, '5': 5, '32': 32}[inp['F']]
        K, fn = inp['K'], inp['fn']
        # (the very ill-conditioned noise PSDs -- a strong interferer over weak sensor noise -- only for the MVDR constraint, which holds to
        # rounding whatever the conditioning; the other closed forms are compared at tolerances that assume cond <= 1e6)
        Pn = hpd(rng, F, D, inp['cond'] if fn == 'mvdr' else min(inp['cond'], 1e6))
        if inp['real'] in ('noise', 'both'):
            Pn = np.ascontiguousarray(Pn.real)             # real symmetric positive definite, float dtype
        res = {'fn': fn, 'Pn': Pn}
        if fn == 'mvdr':
            a = rng.normal(size=((F, D) if K is None else (K, F, D))) + 1j * rng.normal(size=((F, D) if K is None else (K, F, D)))
            if inp['real'] in ('steering', 'both'):
                a = np.ascontiguousarray(a.real)           # a steering vector given as a float array
            res.update(a=a, w=bf.get_mvdr_vector(a, Pn))
        elif fn == 'lcmv':
            Kc = K or 2
            Kc = min(Kc, D)
            a = rng.normal(size=(Kc, F, D)) + 1j * rng.normal(size=(Kc, F, D))
            r = rng.normal(size=(Kc,))
            # steering vectors and desired responses of any numeric element type (real-valued room models, integer test patterns,
            # complex desired responses): the response is an argument of its own, whatever the type of the steering vectors
            kind = (inp['seed'] // 3) % 4
            if kind == 1:
                a = np.ascontiguousarray(a.real)
            elif kind == 2:
                a = np.ascontiguousarray(a.real)
                r = r + 1j * rng.normal(size=(Kc,))
            elif kind == 3:
                for _ in range(20):
                    ai = rng.randint(-4, 5, size=(Kc, F, D))
                    if all(np.linalg.matrix_rank(ai[:, f].astype(float)) == Kc for f in range(F)):
                        a = ai
                        r = rng.uniform(-1, 1, size=(Kc,))
                        break
            res.update(a=a, r=r, w=bf.get_lcmv_vector(a, r, Pn))
        else:
            a = rng.normal(size=(F, D)) + 1j * rng.normal(size=(F, D))
            sig = rng.uniform(0.5, 2.0, size=(F,))
            Px = sig[:, None, None] * a[:, :, None] * np.conj(a[:, None, :])
            ref = int(rng.randint(0, D))
            if fn.endswith('-auto'):
                # automatic reference channel; steering vectors may have a silent microphone (zero coefficient) and the level of the
                # target relative to the noise is arbitrary (output SNR above or below 0 dB)
                if rng.rand() < 0.5:
                    a[:, int(rng.randint(0, D))] = 0
                sig = sig * 10.0 ** rng.uniform(-4, 2)
                Px = sig[:, None, None] * a[:, :, None] * np.conj(a[:, None, :])
                mu = inp['mu'] if fn == 'wmwf-auto' else 0.0
                res.update(a=a, Px=Px, mu=mu)
                if fn == 'souden-auto':
                    res['w'] = bf.get_mvdr_vector_souden(Px, Pn)
                else:
                    res['w'] = bf.get_wmwf_vector(Px, Pn, distortion_weight=mu)
                return res
            res.update(a=a, Px=Px, ref=ref)
            if K is not None:
                # a leading source axis (..., bins, sensors, sensors): K independent problems, each with its own noise matrix
                aK = rng.normal(size=(K, F, D)) + 1j * rng.normal(size=(K, F, D))
                PxK = rng.uniform(0.5, 2.0, size=(K, F, 1, 1)) * aK[..., :, None] * np.conj(aK[..., None, :])
                PnK = np.stack([hpd(rng, F, D, inp['cond']) for _ in range(K)])
                res.update(aK=aK, PxK=PxK, PnK=PnK)
                if fn == 'souden':
                    res['wK'] = bf.get_mvdr_vector_souden(PxK, PnK, ref_channel=ref)
                else:
                    res['wK'] = bf.get_wmwf_vector(PxK, PnK, reference_channel=ref, distortion_weight=inp['mu'])
            if fn == 'souden':
                res['w'] = bf.get_mvdr_vector_souden(Px, Pn, ref_channel=ref)
            else:
                res['mu'] = inp['mu']
                res['w'] = bf.get_wmwf_vector(Px, Pn, reference_channel=ref, distortion_weight=inp['mu'])
        return res

    def ensures(sp, inp, out):
        fn, Pn, w = out['fn'], out['Pn'], np.asarray(out['w'])
        F, D = Pn.shape[0], Pn.shape[-1]
        tol = dict(rtol=1e-6, atol=1e-9)
        if fn == 'mvdr':
            a = out['a']
            yield 'shape', bool(w.shape == a.shape)
            if w.shape != a.shape:
                return
            a2, w2 = a.reshape(-1, F, D), w.reshape(-1, F, D)
            ok_c = ok_v = ok_opt = True
            rng = np.random.RandomState(0)
            for k in range(a2.shape[0]):
                for f in range(F):
                    x = np.linalg.solve(Pn[f], a2[k, f])
                    ref = x / (np.conj(a2[k, f]) @ x)
                    ok_v &= bool(np.allclose(w2[k, f], ref, **tol))
                    # (the constraint is met to rounding whatever the conditioning: w is the solved vector divided by its own inner product with a)
                    ok_c &= bool(abs(np.conj(w2[k, f]) @ a2[k, f] - 1) < 1e-11)
                    # a competing distortionless vector has no less noise power
                    v = rng.normal(size=D) + 1j * rng.normal(size=D)
                    v = w2[k, f] + (v - a2[k, f] * (np.conj(a2[k, f]) @ v) / (np.conj(a2[k, f]) @ a2[k, f]))     # v^H a = 1 kept
                    pw, pv = (np.conj(w2[k, f]) @ Pn[f] @ w2[k, f]).real, (np.conj(v) @ Pn[f] @ v).real
                    ok_opt &= bool(pw <= pv * (1 + 1e-9))
            yield 'distortionless', ok_c
            yield 'equals-per-bin-closed-form (own noise PSD of the bin)', ok_v
            yield 'no-distortionless-competitor-has-less-noise-power', ok_opt
        elif fn == 'lcmv':
            a, r = out['a'], out['r']
            yield 'shape', bool(w.shape == (F, D))
            if w.shape != (F, D):
                return
            ok = True
            for f in range(F):
                # (accuracy of the constraint: the response is stored in single precision by the library, and the K x K system
                # A^H Phi^-1 A amplifies rounding by its condition number)
                Af = np.asarray(a[:, f, :], dtype=complex).T
                kap = np.linalg.cond(np.conj(Af.T) @ np.linalg.solve(Pn[f], Af))
                for k in range(a.shape[0]):
                    got = np.conj(w[f]) @ a[k, f]
                    # (for a complex desired response either side of the conjugate is accepted: w^H a_k = r_k or a_k^H w = r_k)
                    ok &= bool(min(abs(got - r[k]), abs(np.conj(got) - r[k])) < (1e-6 + 1e-14 * kap) * max(1.0, float(np.max(np.abs(r)))))
            yield 'every-linear-constraint-met[%s steering, %s response]' % (np.asarray(a).dtype, np.asarray(r).dtype), ok
        elif fn.endswith('-auto'):
            Px, mu = out['Px'], out['mu']
            yield 'shape', bool(w.shape == (F, D))
            if w.shape != (F, D):
                return
            # candidates for every reference channel in closed form; the library criterion: sum_f w^H Phi_x w / sum_f w^H Phi_n w
            cand, crit = [], []
            for r in range(D):
                wr = np.empty((F, D), dtype=complex)
                for f in range(F):
                    M = np.linalg.solve(Pn[f], Px[f])
                    wr[f] = M[:, r] / (np.trace(M) + mu)
                num = np.real(np.einsum('fa,fab,fb->', np.conj(wr), Px, wr))
                den = np.real(np.einsum('fa,fab,fb->', np.conj(wr), Pn, wr))
                cand.append(wr)
                crit.append(num / max(den, np.finfo(float).tiny))
            best = max(crit)
            hit = [r for r in range(D) if np.allclose(w, cand[r], rtol=1e-5, atol=1e-300 + 1e-8 * np.max(np.abs(cand[r])))]
            yield 'returned-vector-is-the-filter-of-some-reference-channel', bool(hit)
            yield 'chosen-reference-maximises-the-output-snr-criterion', bool(hit and max(crit[r] for r in hit) >= best * (1 - 1e-6))
        else:
            a, Px, refc = out['a'], out['Px'], out['ref']
            yield 'shape', bool(w.shape == (F, D))
            if w.shape != (F, D):
                return
            ok = True
            for f in range(F):
                M = np.linalg.solve(Pn[f], Px[f])
                if fn == 'souden':
                    refv = M[:, refc] / np.trace(M)
                else:
                    refv = np.linalg.solve(Px[f] + out['mu'] * Pn[f], Px[f])[:, refc] if out['mu'] != 0 else M[:, refc] / np.trace(M)
                ok &= bool(np.allclose(w[f], refv, rtol=1e-5, atol=1e-8))
                if fn == 'souden':
                    ok &= bool(abs(np.conj(w[f]) @ a[f] - a[f][refc]) < 1e-6 * max(1.0, abs(a[f][refc])))      # w^H a = a_ref
            yield 'equals-per-bin-closed-form[%s]' % fn, ok
            if 'wK' in out:
                wK, PxK, PnK, aK = np.asarray(out['wK']), out['PxK'], out['PnK'], out['aK']
                yield 'shape[leading-source-axis]', bool(wK.shape == aK.shape)
                if wK.shape != aK.shape:
                    return
                ok = True
                mu_ = out.get('mu', 0.0)
                for k in range(aK.shape[0]):
                    for f in range(F):
                        M = np.linalg.solve(PnK[k, f], PxK[k, f])
                        refv = M[:, refc] / (np.trace(M) + (0.0 if fn == 'souden' else mu_))
                        ok &= bool(np.allclose(wK[k, f], refv, rtol=1e-5, atol=1e-8))
                yield 'equals-per-bin-closed-form[%s,leading-source-axis]' % fn, ok

    return Instance('C11', BF + 'get_*_vector', 'bounded-all-shapes-against-per-bin-linear-algebra', make, call, ensures, mode='bounded',
                    bounded_n=150, frame=False)


_inst_before_bounded = instances


def instances(tier):       # noqa: F811
    return _inst_before_bounded(tier) + [shapes_bounded_instance()]


_instances_before_history4 = instances


def instances(tier):       # noqa: F811
    from .common import with_history
    from pb_bss.extraction import beamformer as bf

    def warm():
        rng = np.random.RandomState(6)
        for F, D in ((3, 4), (1, 3), (5, 2)):
            a = rng.normal(size=(F, D, D)) + 1j * rng.normal(size=(F, D, D))
            tgt = a @ np.conj(np.swapaxes(a, -1, -2))
            b = rng.normal(size=(F, D, D)) + 1j * rng.normal(size=(F, D, D))
            noi = b @ np.conj(np.swapaxes(b, -1, -2)) + np.eye(D)
            bf.get_mvdr_vector_souden(tgt, noi, ref_channel=D - 1)
            bf.get_mvdr_vector_souden(tgt, noi)
            bf.get_wmwf_vector(tgt, noi, reference_channel=0, distortion_weight=2.0)
            bf.get_mvdr_vector(a[..., 0], noi)
            bf.get_lcmv_vector(np.moveaxis(a[..., :2], -1, 0), [1, 0], noi)
    extra = [with_history(souden_instance(2, 2, 'value', ref=1), warm, 'other-sizes'),
             with_history(wmwf_instance(2, 1, 'value', ref=0), warm, 'other-sizes'),
             with_history(mvdr_instance(2, 2), warm, 'other-sizes'),
             with_history(lcmv_instance(2, 2, 1), warm, 'other-sizes')]
    return _instances_before_history4(tier) + extra

