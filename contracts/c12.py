"""C12 - GEV and PCA beamformers maximise their Rayleigh quotients; BAN only rescales."""
import itertools

import numpy as np

from pbv import expr as E
from pbv import scalar as S
from pbv import symnp
from pbv.instance import Instance
from pbv.scalar import R, C
from pbv.spec import cells, shape_of
from pbv.symnp import SymArray
from . import stubs
from .c11 import herm_pd, det, adj, mat, vecs, quad, matvec, inner

META = {
    'level': 'proof',
    'min_obligations': 60,
    'explanation': 'function-level contracts: the generalised eigen-solver receives (target, noise) in this order and the '
                   'returned vector is the eigenvector column of the largest eigenvalue on every arg-max path; get_pca_vector is '
                   'the principal eigenvector times the documented positive factor; rank-one estimates are Hermitian, of rank '
                   'one and trace preserving; the GEV ATF vector is Phi_nn w; BAN output is parallel to its input. Rayleigh '
                   'maximality then follows from the spectral theorem (assumed lemma; bounded check with random probes).',
    'assumptions': ['scipy.linalg.eigh(A, B) / eig(A, B) = (w, V) with A V = B V diag(w) (columns are generalised eigenvectors); '
                    'np.linalg.eigh by contract',
                    'spectral theorem: the eigenvector of the largest (generalised) eigenvalue maximises the Rayleigh quotient '
                    '(not machine checked; bounded evaluation with random probe vectors)',
                    'the Cython variant of get_gev_vector is not built in this environment and not covered'],
}
BF = 'pb_bss.extraction.beamformer:'
BW = 'pb_bss.extraction.beamformer_wrapper:'
GEIG = 'scipy.linalg.eigh(A, B) / eig(A, B): havoc result (w real, V complex); obligations only use which column is selected'


def geig_stub(rec):
    """Generalised eigen-solver by contract: fresh eigenvalues (real) and eigenvector matrix; calls are recorded."""
    def f(a, b=None, *args, **kw):
        if not isinstance(a, (SymArray,)):
            import scipy.linalg
            r = scipy.linalg.eigh(a, b) if rec.kind == 'eigh' else scipy.linalg.eig(a, b)
            rec.calls.append((a, b, r))
            return r
        c = S.ctx()
        c.assumptions_used.add(GEIG)
        n = a.shape[-1]
        w = np.empty((n,), dtype=object)
        V = np.empty((n, n), dtype=object)
        for i in range(n):
            v = c.new_var('geigval')
            c.evalfn[v.args[0]] = (lambda ev: 0.0)
            w[i] = R(v)
            for j in range(n):
                vr, vi = c.new_var('geigvec_re'), c.new_var('geigvec_im')
                c.evalfn[vr.args[0]] = (lambda ev: 0.0)
                c.evalfn[vi.args[0]] = (lambda ev: 0.0)
                V[i, j] = C(R(vr), R(vi))
        for j in range(n):      # eigenvectors are non-zero (LAPACK returns normalised columns)
            nz = None
            for i in range(n):
                t = V[i, j].re * V[i, j].re + V[i, j].im * V[i, j].im
                nz = t if nz is None else nz + t
            c.add_def([V[0, j].re.n], E.cmp('>', nz.term(), E.ZERO))
            if b is not None:
                # b is positive definite (required by the solver): b v_j != 0
                bo = symnp.obj(b)
                acc = None
                for i in range(n):
                    comp = None
                    for k in range(n):
                        t = C.lift(S.num(bo[i, k])) * V[k, j]
                        comp = t if comp is None else comp + t
                    t2 = comp.re * comp.re + comp.im * comp.im
                    acc = t2 if acc is None else acc + t2
                c.add_def([V[0, j].im.n], E.cmp('>', acc.term(), E.ZERO))
        r = (SymArray(w, np.float64), SymArray(V, np.complex128))
        rec.calls.append((a, b, r))
        return r
    return f


class _Rec:
    def __init__(self, kind):
        self.kind = kind
        self.calls = []


def gev_instance(D, lead, use_eig):
    from pb_bss.extraction import beamformer as bf
    lead = tuple(lead)
    rec = _Rec('eig' if use_eig else 'eigh')

    def patches():
        return [(bf, 'eig' if use_eig else 'eigh', geig_stub(rec))]

    def make(B):
        return {'target': herm_pd(B, 't', D, lead), 'noise': herm_pd(B, 'n', D, lead)}

    def call(inp):
        rec.calls = []
        w = bf.get_gev_vector(inp['target'], inp['noise'], use_eig=use_eig)
        return {'w': w, 'calls': list(rec.calls)}

    def ensures(sp, inp, out):
        nb = int(np.prod(lead)) if lead else 1
        yield 'shape', sp._f(shape_of(out['w']) == lead + (D,))
        yield 'one-decomposition-per-bin', sp._f(len(out['calls']) == nb)
        if shape_of(out['w']) != lead + (D,) or len(out['calls']) != nb:
            return
        g, T_, N_ = cells(out['w']), cells(inp['target']), cells(inp['noise'])
        for flat, li in enumerate(np.ndindex(*lead)):
            a, b, (w, V) = out['calls'][flat]
            ac, bc = cells(a), cells(b)
            yield 'solver-receives-target-then-noise[%s]' % (li,), sp.and_(
                sp._f(shape_of(a) == (D, D) and shape_of(b) == (D, D)),
                *[sp.and_(sp.eq(ac[i, j], T_[li + (i, j)]), sp.eq(bc[i, j], N_[li + (i, j)])) for i in range(D) for j in range(D)])
            wv, Vv = cells(w), cells(V)
            # the returned vector is a column of V whose eigenvalue is >= every eigenvalue
            alts = []
            for j in range(D):
                alts.append(sp.and_(*[sp.eq(g[li + (i,)], Vv[i, j]) for i in range(D)],
                                    *[sp.ge(sp.re(wv[j]), sp.re(wv[k])) for k in range(D) if k != j]))
            yield 'principal-generalised-eigenvector-selected[%s]' % (li,), sp.or_(*alts)

    return Instance('C12', BF + 'get_gev_vector', 'D%d-lead%s-use_eig%d' % (D, 'x'.join(map(str, lead)) or '0', int(use_eig)),
                    make, call, ensures, patches=patches, crosscheck=False, native_n=4)


def pca_instance(D, lead, scaling):
    from pb_bss.extraction import beamformer as bf
    lead = tuple(lead)
    rec = stubs.Recorder(np.linalg.eigh)

    def patches():
        rec.clear()
        return [(np.linalg, 'eigh', rec)]

    def make(B):
        return {'target': herm_pd(B, 't', D, lead)}

    def call(inp):
        rec.clear()
        return {'w': bf.get_pca_vector(inp['target'], scaling=scaling), 'calls': list(rec.calls)}

    def ensures(sp, inp, out):
        nb = int(np.prod(lead)) if lead else 1
        yield 'shape', sp._f(shape_of(out['w']) == lead + (D,))
        yield 'one-decomposition', sp._f(len(out['calls']) == 1)
        if shape_of(out['w']) != lead + (D,) or len(out['calls']) != 1:
            return
        (args, kw, (w, V)) = out['calls'][0]
        yield 'eigh-argument-shape', sp._f(shape_of(args[0]) == (nb, D, D))
        if shape_of(args[0]) != (nb, D, D):
            return
        A, g, T_, wv, Vv = cells(args[0]), cells(out['w']), cells(inp['target']), cells(w), cells(V)
        for flat, li in enumerate(np.ndindex(*lead)):
            for i in range(D):
                for j in range(D):
                    yield 'target-handed-to-eigh[%s,%d,%d]' % (li, i, j), sp.eq(A[flat, i, j], T_[li + (i, j)])
            v = [Vv[flat, i, D - 1] for i in range(D)]        # eigh: ascending order, last column is principal
            nrm = sp.sqrt(sp.sum(sp.abs2(x) for x in v))
            if scaling is None:
                fac = 1.0
            elif scaling == 'trace':
                fac = sp.sqrt(sp.re(sp.sum(T_[li + (i, i)] for i in range(D)))) / nrm
            else:
                fac = wv[flat, D - 1] / nrm
            for i in range(D):
                yield 'principal-eigenvector-times-documented-factor[%s,%d]' % (li, i), sp.eq(g[li + (i,)], v[i] * fac)
            yield 'principal-eigenvector-unit-norm[%s]' % (li,), sp.eq(sp.sum(sp.abs2(x) for x in v), 1.0)

    return Instance('C12', BF + 'get_pca_vector', 'D%d-lead%s-%s' % (D, 'x'.join(map(str, lead)) or '0', scaling),
                    make, call, ensures, patches=patches, crosscheck=False, timeout=30.0)


def rank1_instance(kind, D, lead, scaling=None):
    """rank-one PSD estimates: Hermitian, all 2x2 minors vanish, trace preserved; GEV ATF vector = Phi_nn w."""
    from pb_bss.extraction import beamformer as bf, beamformer_wrapper as bw
    lead = tuple(lead)
    rec = _Rec('eigh')

    def patches():
        if kind == 'gev':
            return [(bf, 'eigh', geig_stub(rec))]
        return []

    def make(B):
        inp = {'target': herm_pd(B, 't', D, lead)}
        if kind == 'gev':
            inp['noise'] = herm_pd(B, 'n', D, lead)
        return inp

    def call(inp):
        rec.calls = []
        if kind == 'pca':
            kw = {} if scaling is None else {'scaling': scaling}
            return {'r1': bw.get_pca_rank_one_estimate(inp['target'], **kw)}
        atf = bw._get_gev_atf_vector(inp['target'], inp['noise'])
        calls = list(rec.calls)
        return {'r1': bw.get_gev_rank_one_estimate(inp['target'], inp['noise']), 'atf': atf, 'calls': calls}

    def ensures(sp, inp, out):
        yield 'shape', sp._f(shape_of(out['r1']) == lead + (D, D))
        if shape_of(out['r1']) != lead + (D, D):
            return
        r1, T_ = cells(out['r1']), cells(inp['target'])
        nb = int(np.prod(lead)) if lead else 1
        for flat, li in enumerate(np.ndindex(*lead)):
            for i in range(D):
                for j in range(i, D):
                    yield 'hermitian[%s,%d,%d]' % (li, i, j), sp.eq(r1[li + (i, j)], sp.conj(r1[li + (j, i)]))
            for i, j, k, l in itertools.product(range(D), repeat=4):
                if i < k and j < l:
                    yield 'rank-one-minor[%s,%d%d%d%d]' % (li, i, j, k, l), sp.eq(r1[li + (i, j)] * r1[li + (k, l)], r1[li + (i, l)] * r1[li + (k, j)])
            yield 'trace-preserved[%s]' % (li,), sp.eq(sp.sum(r1[li + (i, i)] for i in range(D)), sp.sum(T_[li + (i, i)] for i in range(D)))
            if kind == 'gev' and sp.symbolic:
                for hi, h in enumerate(hints(sp, inp, out)):
                    yield 'hint-identity-adjugate[%d]' % hi, h
            if kind == 'gev' and len(out.get('calls', [])) == nb:
                a, b, (w, V) = out['calls'][flat]
                N_ = mat(inp['noise'], li, D)
                atf = cells(out['atf'])
                Vv, wv = cells(V), cells(w)
                alts = []
                for j in range(D):
                    col = [Vv[i, j] for i in range(D)]
                    pw = matvec(sp, N_, col)
                    alts.append(sp.and_(*[sp.eq(atf[li + (i,)], pw[i]) for i in range(D)],
                                        *[sp.ge(sp.re(wv[j]), sp.re(wv[k])) for k in range(D) if k != j]))
                yield 'atf-is-noise-psd-times-principal-gev-vector[%s]' % (li,), sp.or_(*alts)

    def hints(sp, inp, out):
        """adj(Phi_nn) (Phi_nn v) = det(Phi_nn) v for every eigenvector column v (polynomial identities, also emitted as
        obligations): with det != 0 and v != 0 this gives Phi_nn v != 0, i.e. the rank-one scale is defined."""
        if not sp.symbolic or kind != 'gev':
            return []
        hs = []
        for flat, li in enumerate(np.ndindex(*lead)):
            if flat >= len(out.get('calls', [])):
                break
            a, b, (w, V) = out['calls'][flat]
            N_ = mat(inp['noise'], li, D)
            ad, dt = adj(N_), det(N_)
            Vv = cells(V)
            for j in range(D):
                col = [Vv[i, j] for i in range(D)]
                pw = matvec(sp, N_, col)
                back = matvec(sp, ad, pw)
                hs += [sp.eq(back[i], dt * col[i]) for i in range(D)]
        return hs

    inst = Instance('C12', BW + ('get_pca_rank_one_estimate' if kind == 'pca' else 'get_gev_rank_one_estimate'),
                    'D%d-lead%s%s' % (D, 'x'.join(map(str, lead)) or '0', '' if scaling is None else '-' + scaling),
                    make, call, ensures, hints=hints, patches=patches, crosscheck=False, timeout=30.0, native_n=4)
    if kind == 'gev':
        # the generalised eigenvector is havoc: the rank-one estimate needs a^H a != 0 for a = Phi_nn w
        base_ens = ensures
        inst.raises = ()
    return inst


def ban_instance(D, lead):
    from pb_bss.extraction import beamformer as bf
    lead = tuple(lead)

    def make(B):
        sp = B.sp
        w = B.cplx('w', lead + (D,))
        for li in np.ndindex(*lead):
            B.require('vector-nonzero', sp.gt(sp.sum(sp.abs2(x) for x in vecs(w, li, D)), 0.0))
        return {'w': w, 'noise': herm_pd(B, 'n', D, lead)}

    def call(inp):
        return bf.blind_analytic_normalization(inp['w'], inp['noise'])

    def ensures(sp, inp, out):
        yield 'shape', sp._f(shape_of(out) == lead + (D,))
        if shape_of(out) != lead + (D,):
            return
        g, w = cells(out), cells(inp['w'])
        for li in np.ndindex(*lead):
            for i in range(D):
                for j in range(i + 1, D):
                    yield 'direction-untouched[%s,%d,%d]' % (li, i, j), sp.eq(g[li + (i,)] * w[li + (j,)], g[li + (j,)] * w[li + (i,)])
            # the factor: g = w * u / t with u = sqrt(w^H Phi Phi w), t = |w^H Phi w|.  Ghost intermediates: the two Hermitian forms
            # and their square roots recomputed with the code's own NumPy calls (purified roots are memoised per argument, so the
            # ghosts are the code's values); the lemmas relate them to the defining real quantities and are cut in.
            N_arr = np.einsum('...a,...ab,...bc,...c->...', np.conj(inp['w']), inp['noise'], inp['noise'], inp['w'])
            D_arr = np.einsum('...a,...ab,...b->...', np.conj(inp['w']), inp['noise'], inp['w'])
            Nn, Dn = cells(N_arr)[li], cells(D_arr)[li]
            if sp.symbolic and all(i_ == 0 for i_ in li):          # (stacked input: the chain is spelled out for the first index, the others are evaluated natively)
                P = [[cells(inp['noise'])[li + (i, j)] for j in range(D)] for i in range(D)]
                wv = [w[li + (i,)] for i in range(D)]
                Pw = [sp.sum(P[i][j] * wv[j] for j in range(D)) for i in range(D)]
                yield 'lemma:numerator-form-is-|Phi w|^2[%s]' % (li,), sp.and_(sp.eq(sp.im(Nn), 0.0), sp.eq(sp.re(Nn), sp.sum(sp.abs2(x) for x in Pw)))
                yield 'lemma:numerator-form-nonnegative[%s]' % (li,), sp.ge(sp.re(Nn), 0.0)
                s_ = cells(np.sqrt(N_arr))[li]
                t_ = cells(np.sqrt(D_arr * np.conj(D_arr)))[li]
                yield 'lemma:complex-root-is-the-real-root[%s]' % (li,), sp.and_(sp.eq(sp.im(s_), 0.0), sp.ge(sp.re(s_), 0.0),
                                                                                 sp.eq(sp.re(s_) * sp.re(s_), sp.re(Nn)))
                yield 'lemma:denominator-root[%s]' % (li,), sp.and_(sp.eq(sp.im(t_), 0.0), sp.ge(sp.re(t_), 0.0), sp.eq(sp.re(t_) * sp.re(t_), sp.abs2(Dn)))
                yield 'lemma:denominator-form-nonzero[%s]' % (li,), sp.gt(sp.re(t_), 0.0)
                with np.errstate(all='ignore'):
                    sn, sd = np.sqrt(N_arr), np.sqrt(D_arr * np.conj(D_arr))
                    qg = np.divide(sn, sd, out=np.zeros_like(sn), where=sd != 0)      # the code's guarded quotient
                    qp = sn / sd
                    a_, a_p = cells(np.abs(qg))[li], cells(np.abs(qp))[li]
                yield 'lemma:guard-inactive[%s]' % (li,), sp.eq(cells(qg)[li], cells(qp)[li])
                yield 'lemma:plain-factor[%s]' % (li,), sp.eq(a_p * sp.re(t_), sp.re(s_))
                yield 'lemma:modulus-of-guarded-quotient[%s]' % (li,), sp.eq(a_, a_p)
                # a = |s / t| = u / t  (u, t real, t > 0): the factor is sqrt(w^H Phi Phi w) / |w^H Phi w|
                yield 'factor-is-root-of-numerator-over-denominator[%s]' % (li,), sp.eq(a_ * sp.re(t_), sp.re(s_))
                for i in range(D):
                    yield 'output-is-vector-times-factor[%s,%d]' % (li, i), sp.eq(g[li + (i,)], w[li + (i,)] * a_)
            if not sp.symbolic:
                # the positive real factor sqrt(w^H Phi Phi w)/(w^H Phi w)  (float evaluation: bounded)
                P = np.asarray(inp['noise'])[li]
                wv = np.asarray(inp['w'])[li]
                fac = np.sqrt(np.real(np.conj(wv) @ P @ P @ wv)) / np.real(np.conj(wv) @ P @ wv)
                for i in range(D):
                    yield 'factor[%s,%d]' % (li, i), sp.eq(g[li + (i,)], wv[i] * fac)

    return Instance('C12', BF + 'blind_analytic_normalization', 'D%d-lead%s' % (D, 'x'.join(map(str, lead)) or '0'),
                    make, call, ensures, crosscheck=False, timeout=30.0, scales=(1.0, 1e-4, 1e3, 1e-7, 1e-2, 1e-9, 1e5, 1e-5))


def rayleigh_bounded_instance():
    """Rayleigh maximality, BAN invariances, rank-one recovery against random probes (bounded stand-in)."""
    from pb_bss.extraction import beamformer as bf, beamformer_wrapper as bw

    def make(B):
        return {'D': B.choose('D', [2, 3, 4, 6, 8]), 'lead': B.choose('lead', [(), (3,), (2, 3), (2, 3)]),
                'use_eig': B.choose('use_eig', [False, True]), 'scaling': B.choose('scaling', [None, 'trace', 'eigenvalue']),
                'seed': B.choose('seed', list(range(1000))), 'd': B.given('d', np.zeros(1)),
                'real': B.choose('real', ['none', 'none', 'target', 'noise', 'both']), 'zero_bin': B.choose('zero_bin', [False, False, True])}

    def call(inp):
        rng = np.random.RandomState(inp['seed'])
        D, lead = inp['D'], tuple(inp['lead'])

        def cn(*s):
            return rng.normal(size=s) + 1j * rng.normal(size=s)
        A = cn(*lead, D, D)
        Bm = cn(*lead, D, D)
        tgt = A @ np.conj(np.swapaxes(A, -1, -2)) + 0.05 * np.eye(D)
        noi = Bm @ np.conj(np.swapaxes(Bm, -1, -2)) + 0.1 * np.eye(D)
        # PSD matrices given as float arrays (real symmetric) next to complex Hermitian ones
        if inp['real'] in ('target', 'both'):
            tgt = np.ascontiguousarray(tgt.real)
        if inp['real'] in ('noise', 'both'):
            noi = np.ascontiguousarray(noi.real)
        if inp['seed'] % 3 == 0:
            # sensor axes in column-major memory (Hermitian-transposed views, MATLAB-style arrays): same values
            tgt = np.conj(np.swapaxes(np.ascontiguousarray(np.conj(np.swapaxes(tgt, -1, -2))), -1, -2))
            noi = np.conj(np.swapaxes(np.ascontiguousarray(np.conj(np.swapaxes(noi, -1, -2))), -1, -2))
        elif inp['seed'] % 3 == 1:
            # whole arrays in Fortran order (leading axes fastest last), one or both of them
            tgt = np.asfortranarray(tgt)
            if inp['seed'] % 2:
                noi = np.asfortranarray(noi)
        t0, n0 = tgt.copy(), noi.copy()
        res = {'tgt': t0, 'noi': n0, 'probes': cn(20, *lead, D)}
        res['gev'] = bf.get_gev_vector(tgt, noi, use_eig=inp['use_eig'])
        res['untouched'] = bool(np.array_equal(tgt, t0) and np.array_equal(noi, n0))
        tgt, noi = t0, n0
        res['pca'] = bf.get_pca_vector(tgt, scaling=inp['scaling'])
        res['ban'] = bf.blind_analytic_normalization(res['gev'], noi)
        res['ban_scaled'] = bf.blind_analytic_normalization(res['gev'] * 7.3, noi)
        # through the wrapper, with the solver option forwarded: the core vector, its normalised version, other beamformers
        res['w_pca'] = bw.get_bf_vector('pca', tgt, noi, scaling=inp['scaling']) if inp['scaling'] is not None else bw.get_bf_vector('pca', tgt, noi)
        res['w_gev'] = bw.get_bf_vector('gev', tgt, noi, use_eig=inp['use_eig'])
        res['w_gev_ban'] = bw.get_bf_vector('gev+ban', tgt, noi, use_eig=inp['use_eig'])
        res['w_r1_gev_ban'] = bw.get_bf_vector('rank1_gev+gev+ban', tgt, noi, use_eig=inp['use_eig'], atf_kwargs={'use_eig': inp['use_eig']})
        okw = {'mvdr_souden': {'ref_channel': 0}, 'wmwf': {'reference_channel': 0}, 'wmwf+ban': {'reference_channel': D - 1}}
        res['w_others'] = {n: bw.get_bf_vector(n, tgt, noi, **okw.get(n, {})) for n in ('pca', 'mvdr_souden', 'wmwf', 'pca+mvdr', 'rank1_pca+gev', 'wmwf+ban')}
        steer = cn(*lead, D)
        r1 = steer[..., :, None] * np.conj(steer[..., None, :]) * 2.5
        if inp['zero_bin'] and lead:
            r1[(0,) * len(lead)] = 0          # a silent bin: the rank-one estimate of the zero matrix is the zero matrix
        res['steer'] = steer
        res['r1_pca'] = bw.get_pca_rank_one_estimate(r1)
        res['r1_gev'] = bw.get_gev_rank_one_estimate(r1 + 0.0, noi)
        res['r1'] = r1
        return res

    def q(w, P):
        return np.real(np.einsum('...a,...ab,...b->...', np.conj(w), P, w))

    def ensures(sp, inp, out):
        tgt, noi = out['tgt'], out['noi']
        snr = q(out['gev'], tgt) / q(out['gev'], noi)
        lam = np.max(np.real(np.linalg.eigvals(np.linalg.solve(noi, tgt))), axis=-1)
        yield 'psd-arguments-untouched', out['untouched']
        yield 'gev-snr-equals-largest-generalised-eigenvalue', bool(np.allclose(snr, lam, rtol=1e-6))
        ps = q(out['probes'], tgt) / q(out['probes'], noi)
        yield 'gev-snr-not-exceeded-by-probes', bool(np.all(ps <= snr * (1 + 1e-9)))
        pr = q(out['pca'], tgt) / q(out['pca'], np.eye(inp['D']))
        lam_p = np.linalg.eigvalsh(tgt)[..., -1]
        yield 'pca-rayleigh-equals-largest-eigenvalue', bool(np.allclose(pr, lam_p, rtol=1e-8))
        nrm = np.linalg.norm(out['pca'], axis=-1)
        exp = {None: np.ones_like(lam_p), 'trace': np.sqrt(np.real(np.trace(tgt, axis1=-1, axis2=-2))), 'eigenvalue': lam_p}[inp['scaling']]
        yield 'pca-scaling-factor', bool(np.allclose(nrm, exp, rtol=1e-8))
        fac = np.sqrt(q(out['gev'], noi @ noi)) / q(out['gev'], noi)
        yield 'ban-is-positive-real-factor', bool(np.allclose(out['ban'], out['gev'] * fac[..., None], rtol=1e-8))
        yield 'ban-independent-of-input-magnitude', bool(np.allclose(out['ban'], out['ban_scaled'], rtol=1e-8))
        yield 'wrapper-pca-carries-the-scaling-option[%s]' % inp['scaling'], bool(np.allclose(np.linalg.norm(out['w_pca'], axis=-1), exp, rtol=1e-8))
        wg = out['w_gev']
        wfac = np.sqrt(q(wg, noi @ noi)) / q(wg, noi)
        yield 'wrapper-gev+ban-is-the-ban-factor-times-the-wrapper-gev-vector[use_eig=%s]' % inp['use_eig'], bool(np.allclose(out['w_gev_ban'], wg * wfac[..., None], rtol=1e-8))
        yield 'wrapper-gev+ban-snr-equals-largest-generalised-eigenvalue', bool(np.allclose(q(out['w_gev_ban'], tgt) / q(out['w_gev_ban'], noi), lam, rtol=1e-6))
        wr = out['w_r1_gev_ban']
        yield 'wrapper-rank1_gev+gev+ban-unit-ban-gain', bool(np.allclose(np.sqrt(q(wr, noi @ noi)) / q(wr, noi), 1.0, rtol=1e-6))
        for n, w in out['w_others'].items():
            yield 'gev-snr-not-exceeded-by-wrapper[%s]' % n, bool(np.all(q(w, tgt) / q(w, noi) <= snr * (1 + 1e-8)))
        for key in ('r1_pca', 'r1_gev'):
            r = out[key]
            yield key + '-hermitian', bool(np.allclose(r, np.conj(np.swapaxes(r, -1, -2)), atol=1e-9))
            yield key + '-trace-preserved', bool(np.allclose(np.trace(r, axis1=-1, axis2=-2), np.trace(out['r1'], axis1=-1, axis2=-2), rtol=1e-8))
            yield key + '-finite', bool(np.all(np.isfinite(r)))
            if np.all(np.isfinite(r)):
                sv = np.linalg.svd(r, compute_uv=False)
                yield key + '-rank-one', bool(np.all(sv[..., 1] <= 1e-8 * sv[..., 0]))
        yield 'pca-rank-one-recovers-exact-rank-one-target', bool(np.allclose(out['r1_pca'], out['r1'], rtol=1e-7, atol=1e-9))

    return Instance('C12', BF + 'get_gev_vector', 'bounded-rayleigh-probes', make, call, ensures, mode='bounded', bounded_n=120, frame=False)


def instances(tier):
    th = tier == 'thorough'
    out = []
    for ue in (False, True):
        out.append(gev_instance(2, (), ue))
        out.append(gev_instance(2, (2,), ue))
        out.append(gev_instance(3, (), ue))
    for sc in (None, 'trace', 'eigenvalue'):
        out.append(pca_instance(2, (), sc))
        out.append(pca_instance(2, (2,), sc))
    out.append(rank1_instance('pca', 2, ()))
    out.append(rank1_instance('pca', 2, (2,), 'trace'))
    out.append(rank1_instance('pca', 2, (), 'eigenvalue'))
    out.append(rank1_instance('gev', 2, ()))
    out.append(ban_instance(2, ()))
    out.append(ban_instance(2, (2,)))
    if th:
        out.append(rank1_instance('pca', 3, ()))
        out.append(pca_instance(3, (), 'trace'))
    out.append(rayleigh_bounded_instance())
    return out


_inst_before_lemmas = instances


def instances(tier):       # noqa: F811
    from .common import lemma_instance
    return _inst_before_lemmas(tier) + [lemma_instance('C12', 'rayleigh', 'lemma:rayleigh-maximality-from-the-eigh-contract'),
                                         lemma_instance('C12', 'beam', 'lemma:rayleigh-quotient-invariant-under-rescaling-for-every-D',
                                                        ['quad_smul', 'rayleigh_scale_invariant']),
                                         lemma_instance('C12', 'cacgmm', 'lemma:rank-one-estimate-hermitian-psd-trace-preserving-for-every-D',
                                                        ['rank_one_posSemidef', 'rank_one_isHermitian', 'rank_one_trace'])]
