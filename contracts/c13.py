"""C13 - beamforming helpers agree with their primitives and act per leading index."""
import itertools

import numpy as np

from pbv import expr as E
from pbv import scalar as S
from pbv import symnp
from pbv.instance import Instance
from pbv.scalar import R, C
from pbv.spec import cells, shape_of
from pbv.symnp import SymArray
from .c11 import herm_pd, det, adj, mat, vecs, quad, matvec, inner, NOFORK
from . import c12

META = {
    'level': 'proof',
    'min_obligations': 100,
    'explanation': 'get_bf_vector(name) equals the composition of primitives spelled by the name for every supported name '
                   '(+ban, explicit reference channels, chN); apply_beamforming_vector = w^H x; every beamforming function on a '
                   'stack equals the stack of its per-bin results (eigen-solvers are deterministic externals, memoised per '
                   'matrix); phase_correction aligns consecutive bins without changing magnitudes, per leading index; '
                   'stable_solve returns exact solutions for regular matrices next to singular ones (LinAlgError fork)',
    'assumptions': ['eigen-solvers are deterministic functions of their matrix argument (same matrix -> same result)',
                    'np.linalg.solve raises LinAlgError exactly for det = 0 (fork); lstsq is an unconstrained havoc',
                    'finiteness on singular / zero PSDs under IEEE arithmetic is bounded (native evaluations)'],
}
BF = 'pb_bss.extraction.beamformer:'
BW = 'pb_bss.extraction.beamformer_wrapper:'


class _GRec:
    def __init__(self):
        self.kind = 'eigh'
        self.calls = []
        self.memo = {}


def memo_geig(rec):
    inner_stub = c12.geig_stub(rec)

    def f(a, b=None, *args, **kw):
        if not isinstance(a, SymArray):
            return inner_stub(a, b, *args, **kw)
        key = tuple((C.lift(S.num(x)).re.term().id, C.lift(S.num(x)).im.term().id) for x in list(symnp.obj(a).reshape(-1)) + list(symnp.obj(b).reshape(-1)))
        memo = S.ctx().names.setdefault('geig-memo', {})
        if key not in memo:
            memo[key] = inner_stub(a, b, *args, **kw)
        w, V = memo[key]
        return SymArray(w.data.copy(), w.dt), SymArray(V.data.copy(), V.dt)
    return f


def compose(name, bf, bw, target, noise, kw):
    """The composition of primitives spelled by a beamformer name (from the documentation of get_bf_vector)."""
    ban = name.endswith('+ban')
    core = name[:-4] if ban else name
    kw = dict(kw)
    atf_kwargs = kw.pop('atf_kwargs', {})
    if core == 'pca':
        w = bf.get_pca_vector(target, **kw)
    elif core in ('pca+mvdr', 'scaled_gev_atf+mvdr'):
        atf = bf.get_pca_vector(target, **atf_kwargs) if core.startswith('pca') else bw._get_gev_atf_vector(target, noise, **atf_kwargs)
        w = bf.get_mvdr_vector(atf, noise)
    else:
        parts = core.split('+')
        tgt = target
        if len(parts) == 2:
            tgt = bw.get_pca_rank_one_estimate(target, **atf_kwargs) if parts[0] == 'rank1_pca' else bw.get_gev_rank_one_estimate(target, noise, **atf_kwargs)
        last = parts[-1]
        if last == 'mvdr_souden':
            w = bf.get_mvdr_vector_souden(tgt, noise, **kw)
        elif last == 'gev':
            w = bf.get_gev_vector(tgt, noise, **kw)
        elif last == 'wmwf':
            w = bf.get_wmwf_vector(tgt, noise, **kw)
        elif last.startswith('ch') and last[2:].isdigit():
            D = target.shape[-1]
            e = np.zeros(D)
            e[int(last[2:])] = 1
            w = np.broadcast_to(e, target.shape[:-1])
        else:
            raise ValueError(name)
    if ban:
        w = bf.blind_analytic_normalization(w, noise)
    return w


def wrapper_instance(name, D, F, kw=None):
    """Modular data-flow contract of the wrapper: the primitives it may call are replaced by recording stubs that
    return fresh arrays (uninterpreted, deterministic); the wrapper must make exactly the calls spelled by the name,
    with the right arguments, and return the last result.  Everything is concrete: decided by evaluation."""
    from pb_bss.extraction import beamformer as bf, beamformer_wrapper as bw
    kw = kw or {}
    rng = np.random.RandomState(abs(hash(name)) % 1000)

    def cn(*s_):
        return rng.normal(size=s_) + 1j * rng.normal(size=s_)
    A0, B0 = cn(F, D, D), cn(F, D, D)
    TGT = A0 @ np.conj(np.swapaxes(A0, -1, -2))
    NOI = B0 @ np.conj(np.swapaxes(B0, -1, -2)) + np.eye(D)
    SENT = {n: cn(F, D) for n in ('get_pca_vector', 'get_gev_vector', 'get_mvdr_vector', 'get_mvdr_vector_souden', 'get_wmwf_vector',
                                  'blind_analytic_normalization')}
    log = []

    def stub(fname):
        def f(*a, **k):
            log.append((fname, a, k))
            return SENT[fname]
        return f

    def patches():
        return [(bw, n, stub(n)) for n in SENT]

    def make(B):
        return {'target': B.given('target', TGT, wrap=False), 'noise': B.given('noise', NOI, wrap=False)}

    def call(inp):
        del log[:]
        r = bw.get_bf_vector(name, inp['target'], inp['noise'], **{k: (dict(v) if isinstance(v, dict) else v) for k, v in kw.items()})
        return {'result': r, 'log': list(log)}

    def rank1(vec, cov):
        r1 = vec[..., :, None] * np.conj(vec[..., None, :])
        return (np.trace(cov, axis1=-1, axis2=-2) / np.trace(r1, axis1=-1, axis2=-2))[..., None, None] * r1

    def ensures(sp, inp, out):
        lg = out['log']
        ban = name.endswith('+ban')
        core = name[:-4] if ban else name
        kwr = dict(kw)
        atf_kwargs = kwr.pop('atf_kwargs', {})
        exp = []            # (primitive, check(args, kwargs) -> bool)
        tgt, noi = inp['target'], inp['noise']

        def same(x, y):
            return x is y or (np.shape(x) == np.shape(y) and np.allclose(x, y, rtol=1e-12, atol=0))
        parts = core.split('+')
        cur_target = [tgt]
        if core == 'pca':
            exp.append(('get_pca_vector', lambda a, k: same(a[0], tgt) and k == kwr))
        elif core in ('pca+mvdr', 'scaled_gev_atf+mvdr'):
            if parts[0] == 'pca':
                exp.append(('get_pca_vector', lambda a, k: same(a[0], tgt) and k == atf_kwargs))
                atf = SENT['get_pca_vector']
            else:
                exp.append(('get_gev_vector', lambda a, k: same(a[0], tgt) and same(a[1], noi) and k == atf_kwargs))
                atf = np.einsum('...dD,...D->...d', NOI, SENT['get_gev_vector'])
            exp.append(('get_mvdr_vector', lambda a, k, atf=atf: len(a) == 2 and not k and same(a[0], atf) and same(a[1], noi)))
        elif parts[-1].startswith('ch') and parts[-1][2:].isdigit():
            pass
        else:
            if len(parts) == 2:
                if parts[0] == 'rank1_pca':
                    exp.append(('get_pca_vector', lambda a, k: same(a[0], tgt) and k == atf_kwargs))
                    cur_target[0] = rank1(SENT['get_pca_vector'], TGT)
                else:
                    exp.append(('get_gev_vector', lambda a, k: same(a[0], tgt) and same(a[1], noi) and k == atf_kwargs))
                    cur_target[0] = rank1(np.einsum('...dD,...D->...d', NOI, SENT['get_gev_vector']), TGT)
            prim = {'mvdr_souden': 'get_mvdr_vector_souden', 'gev': 'get_gev_vector', 'wmwf': 'get_wmwf_vector'}[parts[-1]]
            exp.append((prim, lambda a, k, t=cur_target[0]: same(a[0], t) and same(a[1], noi) and k == kwr))
        if ban:
            prev = exp[-1][0] if exp else None
            # exactly (vector, noise PSD): an option handed to the callee would select behaviour its contract does not cover
            exp.append(('blind_analytic_normalization', lambda a, k, prev=prev: len(a) == 2 and not k and (prev is None or same(a[0], SENT[prev])) and same(a[1], noi)))
        yield 'primitive-call-sequence', sp._f([e[0] for e in lg] == [e[0] for e in exp])
        if [e[0] for e in lg] != [e[0] for e in exp]:
            return
        for i, ((fn, a, k), (_, chk)) in enumerate(zip(lg, exp)):
            yield 'call-%d-%s-arguments' % (i, fn), sp._f(bool(chk(a, k)))
        if exp:
            yield 'returns-last-primitive-result', sp._f(out['result'] is SENT[exp[-1][0]])
        else:
            ch = int(parts[-1][2:])
            e = np.zeros(D)
            e[ch] = 1
            yield 'channel-selection-vector', sp._f(np.shape(out['result']) == (F, D) and bool(np.all(np.asarray(out['result']) == e)))

    kws = '' if not kw else '-' + '-'.join('%s=%s' % (k, v) for k, v in sorted(kw.items())).replace(' ', '')
    return Instance('C13', BW + 'get_bf_vector', '%s-D%dF%d%s' % (name, D, F, kws), make, call, ensures, patches=patches,
                    crosscheck=False, native_n=1, frame=True)


def apply_instance(lead, D, T):
    from pb_bss.extraction import beamformer as bf
    lead = tuple(lead)

    def make(B):
        return {'w': B.cplx('w', lead + (D,)), 'x': B.cplx('x', lead + (D, T))}

    def call(inp):
        return bf.apply_beamforming_vector(inp['w'], inp['x'])

    def ensures(sp, inp, out):
        yield 'shape', sp._f(shape_of(out) == lead + (T,))
        if shape_of(out) != lead + (T,):
            return
        g, w, x = cells(out), cells(inp['w']), cells(inp['x'])
        for li in np.ndindex(*lead):
            for t in range(T):
                yield 'w^H x[%s,%d]' % (li, t), sp.eq(g[li + (t,)], sp.sum(sp.conj(w[li + (d,)]) * x[li + (d, t)] for d in range(D)))

    return Instance('C13', BF + 'apply_beamforming_vector', 'lead%s-D%dT%d' % ('x'.join(map(str, lead)) or '0', D, T), make, call, ensures)


def apply_broadcast_instance(wlead, xlead, D, T):
    """Filter and signal with different leading axes (one filter per bin applied to the images of all sources, or a stack of filters
    applied to one observation): NumPy broadcasting of the leading axes, w^H x at every broadcast index."""
    from pb_bss.extraction import beamformer as bf
    wlead, xlead = tuple(wlead), tuple(xlead)
    olead = np.broadcast_shapes(wlead, xlead)

    def make(B):
        return {'w': B.cplx('w', wlead + (D,)), 'x': B.cplx('x', xlead + (D, T))}

    def call(inp):
        return bf.apply_beamforming_vector(inp['w'], inp['x'])

    def ensures(sp, inp, out):
        yield 'shape', sp._f(shape_of(out) == olead + (T,))
        if shape_of(out) != olead + (T,):
            return
        g = cells(out)
        w = np.broadcast_to(cells(inp['w']), olead + (D,))
        x = np.broadcast_to(cells(inp['x']), olead + (D, T))
        for li in np.ndindex(*olead):
            for t in range(T):
                yield 'w^H x[%s,%d]' % (li, t), sp.eq(g[li + (t,)], sp.sum(sp.conj(w[li + (d,)]) * x[li + (d, t)] for d in range(D)))

    name = 'w%s-x%s-D%dT%d' % ('x'.join(map(str, wlead)) or '0', 'x'.join(map(str, xlead)) or '0', D, T)
    return Instance('C13', BF + 'apply_beamforming_vector', 'broadcast-' + name, make, call, ensures)


def stack_instance(fname, D, F, lead=()):
    """f(stack)[i] == f(stack[i]) for every bin / leading index."""
    from pb_bss.extraction import beamformer as bf, beamformer_wrapper as bw
    rec = _GRec()
    lead = tuple(lead)

    def patches():
        return [(symnp.SolveStub, 'fork_singular', False), (bf, 'eigh', memo_geig(rec))]

    def make(B):
        inp = {'target': herm_pd(B, 't', D, lead + (F,)), 'noise': herm_pd(B, 'n', D, lead + (F,))}
        if fname in ('mvdr', 'ban'):
            inp['vec'] = B.cplx('a', lead + (F, D))
            for li in np.ndindex(*(lead + (F,))):
                B.require('vector-nonzero', B.sp.gt(B.sp.sum(B.sp.abs2(x) for x in vecs(inp['vec'], li, D)), 0.0))
        return inp

    def f(inp, tgt, noi, vec):
        if fname == 'mvdr':
            return bf.get_mvdr_vector(vec, noi)
        if fname == 'souden':
            return bf.get_mvdr_vector_souden(tgt, noi, ref_channel=0)
        if fname == 'wmwf':
            return bf.get_wmwf_vector(tgt, noi, reference_channel=1, distortion_weight=0.5)
        if fname == 'wmwf-fd':
            return bf.get_wmwf_vector(tgt, noi, reference_channel=1, distortion_weight='frequency_dependent')
        if fname == 'gev':
            return bf.get_gev_vector(tgt, noi)
        if fname == 'pca':
            return bf.get_pca_vector(tgt)
        if fname == 'ban':
            return bf.blind_analytic_normalization(vec, noi)
        if fname == 'rank1_pca':
            return bw.get_pca_rank_one_estimate(tgt)
        raise ValueError(fname)

    def call(inp):
        vec = inp.get('vec')
        full = f(inp, inp['target'], inp['noise'], vec)
        parts = {}
        for li in np.ndindex(*(lead + (F,))):
            # one bin alone (souden / wmwf document a frequency axis: keep it as a length-one axis)
            sl = li[:-1] + (slice(li[-1], li[-1] + 1),)
            parts[li] = f(inp, inp['target'][sl], inp['noise'][sl], None if vec is None else vec[sl])
        return {'full': full, 'parts': parts}

    def ensures(sp, inp, out):
        full = out['full']
        cf = cells(full)
        tail = shape_of(full)[len(lead) + 1:]
        for li in np.ndindex(*(lead + (F,))):
            cp = cells(out['parts'][li])
            want = (1,) + tail
            yield 'single-bin-shape[%s]' % (li,), sp._f(cp.shape == want)
            if cp.shape != want:
                continue
            for ti in np.ndindex(*tail):
                yield 'stacked-equals-single[%s,%s]' % (li, ti), sp.eq(cf[li + ti], cp[(0,) + ti])

    return Instance('C13', BF + {'mvdr': 'get_mvdr_vector', 'souden': 'get_mvdr_vector_souden', 'wmwf': 'get_wmwf_vector', 'wmwf-fd': 'get_wmwf_vector', 'gev': 'get_gev_vector',
                                 'pca': 'get_pca_vector', 'ban': 'blind_analytic_normalization', 'rank1_pca': 'get_pca_vector'}[fname],
                    'stack-%s-D%dF%d-lead%s' % (fname, D, F, 'x'.join(map(str, lead)) or '0'), make, call, ensures, patches=patches,
                    crosscheck=False, timeout=20.0, max_paths=64, native_n=3, check_feasible=False)


def phase_instance(lead, F, D, prove=None):
    from pb_bss.extraction import beamformer as bf
    lead = tuple(lead)

    def make(B):
        sp = B.sp
        w = B.cplx('w', lead + (F, D))
        return {'w': w}

    def call(inp):
        return bf.phase_correction(inp['w'])

    def ensures(sp, inp, out):
        yield 'shape', sp._f(shape_of(out) == lead + (F, D))
        if shape_of(out) != lead + (F, D):
            return
        g, w = cells(out), cells(inp['w'])
        if sp.symbolic and D >= 2 and F >= 2:
            # ghost intermediates, recomputed with the code's own NumPy calls (purified angles / roots are memoised per argument):
            # S_f = w_f^H-like inner product of neighbouring bins, U_f = exp(i angle S_f), P_f = prod_{j <= f} U_j; lemmas are cut in
            W_ = inp['w']
            S_arr = np.sum(np.conj(W_[..., 1:, :]) * W_[..., :-1, :], axis=-1, keepdims=True)
            TH_arr = np.angle(S_arr)
            TH_ = cells(TH_arr)
            U_arr = np.exp(1j * TH_arr)
            P_arr = np.cumprod(U_arr, axis=-2)
            S_, U_, P_ = cells(S_arr), cells(U_arr), cells(P_arr)
            for li in np.ndindex(*lead):
                for f in range(1, F):
                    u, s_, pf = U_[li + (f - 1, 0)], S_[li + (f - 1, 0)], P_[li + (f - 1, 0)]
                    yield 'lemma:unit-phasor[%s,%d]' % (li, f), sp.eq(sp.abs2(u), 1.0)
                    # modulus r and unit vector (c, s) of the purified angle:  c r = Re S, s r = Im S, c^2 + s^2 = 1, r >= 0
                    th = TH_[li + (f - 1, 0)]
                    cv, sv, rt = S.ctx().angles[S.num(th).term().args[0]]
                    cR, sR, rR = S.R(cv), S.R(sv), S.R(rt)
                    yield 'lemma:angle-decomposition[%s,%d]' % (li, f), sp.and_(sp.eq(cR * rR, sp.re(s_)), sp.eq(sR * rR, sp.im(s_)), sp.ge(rR, 0.0),
                                                                               sp.eq(sp.re(u), cR), sp.eq(sp.im(u), sR))
                    # products of the decomposition with c and s (one multiplication each), then the rotation is linear in them
                    P_re, Q_im = sp.re(s_), sp.im(s_)
                    yield 'lemma:decomposition-times-c[%s,%d]' % (li, f), sp.and_(sp.eq(cR * P_re, cR * cR * rR), sp.eq(cR * Q_im, cR * sR * rR))
                    yield 'lemma:decomposition-times-s[%s,%d]' % (li, f), sp.and_(sp.eq(sR * P_re, sR * cR * rR), sp.eq(sR * Q_im, sR * sR * rR))
                    yield 'lemma:unit-times-r[%s,%d]' % (li, f), sp.eq(cR * cR * rR + sR * sR * rR, rR)
                    al = sp.conj(u) * s_
                    yield 'lemma:phasor-rotates-the-inner-product-onto-the-non-negative-reals[%s,%d]' % (li, f), sp.and_(sp.eq(sp.im(al), 0.0), sp.eq(sp.re(al), rR))
                    yield 'lemma:cumulative-phasor-is-unit[%s,%d]' % (li, f), sp.eq(sp.abs2(pf), 1.0)
                    for d in range(D):
                        yield 'lemma:output-is-input-times-cumulative-phasor[%s,%d,%d]' % (li, f, d), sp.eq(g[li + (f, d)], w[li + (f, d)] * pf)
                    prev = P_[li + (f - 2, 0)] if f >= 2 else 1.0
                    yield 'lemma:cumulative-phasor-step[%s,%d]' % (li, f), sp.eq(sp.conj(pf) * prev, sp.conj(u))
                    ip = sp.sum(sp.conj(g[li + (f, d)]) * g[li + (f - 1, d)] for d in range(D))
                    yield 'lemma:aligned-inner-product-factorises[%s,%d]' % (li, f), sp.eq(ip, sp.conj(pf) * prev * s_)
        for li in np.ndindex(*lead):
            for d in range(D):
                yield 'first-bin-untouched[%s,%d]' % (li, d), sp.eq(g[li + (0, d)], w[li + (0, d)])
            for f in range(F):
                for d in range(D):
                    yield 'magnitude-unchanged[%s,%d,%d]' % (li, f, d), sp.eq(sp.abs2(g[li + (f, d)]), sp.abs2(w[li + (f, d)]))
            for f in range(1, F):
                ip = sp.sum(sp.conj(g[li + (f, d)]) * g[li + (f - 1, d)] for d in range(D))
                yield 'consecutive-bins-phase-aligned[%s,%d]' % (li, f), sp.and_(sp.eq(sp.im(ip), 0.0), sp.ge(sp.re(ip), 0.0))

    return Instance('C13', BF + 'phase_correction', 'lead%s-F%dD%d' % ('x'.join(map(str, lead)) or '0', F, D), make, call, ensures,
                    timeout=40.0, rtol=1e-6, atol=1e-9,
                    # D >= 2 is discharged through the chain of cut lemmas about the ghost phasors (angle decomposition, its
                    # products with c and s, cumulative phasor); the large stacked shape only in the thorough tier (30 s obligations)
                    mode='proof' if (D == 1 or prove or (prove is None and F <= 3 and D <= 2)) else 'bounded', bounded_n=60)


def stable_solve_instance(n, D):
    """stable_solve on a stack: every regular matrix gets its exact solution, whatever its neighbours are."""
    from pb_bss.math import solve as ms

    def make(B):
        return {'A': B.cplx('A', (n, D, D)), 'B': B.cplx('B', (n, D, D))}

    def call(inp):
        return ms.stable_solve(inp['A'], inp['B'])

    def ensures(sp, inp, out):
        yield 'shape', sp._f(shape_of(out) == (n, D, D))
        if shape_of(out) != (n, D, D):
            return
        X = cells(out)
        for i in range(n):
            A, Bm = mat(inp['A'], (i,), D), mat(inp['B'], (i,), D)
            dt = det(A)
            regular = sp.or_(sp.ne(sp.re(dt), 0.0), sp.ne(sp.im(dt), 0.0))
            for r in range(D):
                for c_ in range(D):
                    yield 'regular-matrix-solved-exactly[%d,%d,%d]' % (i, r, c_), sp.implies(
                        regular, sp.eq(sp.sum(A[r][k] * X[i, k, c_] for k in range(D)), Bm[r][c_]))

    return Instance('C13', 'pb_bss.math.solve:stable_solve', 'n%dD%d' % (n, D), make, call, ensures, crosscheck=False, timeout=30.0,
                    max_paths=200, native_n=2)


def stable_solve_bounded_instance():
    """stable_solve on stacks with singular / zero neighbours, for every combination of real and complex A and B (bounded)."""
    from pb_bss.math import solve as ms

    def make(B):
        return {'D': B.choose('D', [1, 2, 3, 5]), 'lead': B.choose('lead', [(), (4,), (2, 3)]), 'ca': B.choose('ca', [False, True]),
                'cb': B.choose('cb', [False, True]), 'sing': B.choose('sing', ['none', 'zero', 'rank', 'both']), 'vec': B.choose('vec', [False, True]),
                'seed': B.choose('seed', list(range(2000))), 'd': B.given('d', np.zeros(1))}

    def call(inp):
        rng = np.random.RandomState(inp['seed'])
        D, lead = inp['D'], tuple(inp['lead'])
        A = rng.normal(size=lead + (D, D)) + (1j * rng.normal(size=lead + (D, D)) if inp['ca'] else 0)
        bshape = lead + ((D, 2) if not inp['vec'] else (D, D))
        Bm = rng.normal(size=bshape) + (1j * rng.normal(size=bshape) if inp['cb'] else 0)
        singular = np.zeros(lead, dtype=bool)
        if lead and inp['sing'] != 'none':
            flat = [i for i in np.ndindex(*lead)]
            if inp['sing'] in ('zero', 'both'):
                A[flat[0]] = 0
                singular[flat[0]] = True
            if inp['sing'] in ('rank', 'both') and D > 1:
                A[flat[-1]][:, -1] = A[flat[-1]][:, 0]              # two equal columns: exactly singular
                singular[flat[-1]] = True
        A0, B0 = A.copy(), Bm.copy()
        X = ms.stable_solve(A, Bm)
        return {'X': np.asarray(X), 'A': A0, 'B': B0, 'singular': singular, 'untouched': bool(np.array_equal(A, A0) and np.array_equal(Bm, B0))}

    def ensures(sp, inp, out):
        X, A, Bm = out['X'], out['A'], out['B']
        yield 'shape', bool(X.shape == Bm.shape)
        yield 'arguments-untouched', out['untouched']
        if X.shape != Bm.shape:
            return
        ok = True
        for i in np.ndindex(*A.shape[:-2]):
            if out['singular'][i] if out['singular'].shape else False:
                continue
            ref = np.linalg.solve(A[i], Bm[i])
            if not (np.all(np.isfinite(X[i])) and np.allclose(X[i], ref, rtol=1e-8, atol=1e-10)):
                ok = False
        yield 'regular-bins-solved-whatever-the-neighbours-and-dtypes', ok
        yield 'complex-input-gives-complex-result', bool(np.iscomplexobj(X) == (np.iscomplexobj(A) or np.iscomplexobj(Bm)))

    return Instance('C13', 'pb_bss.math.solve:stable_solve', 'bounded-dtypes-and-singular-neighbours', make, call, ensures, mode='bounded',
                    bounded_n=150, frame=False)


def singular_bounded_instance(modes, tag, pinned=False):
    from pb_bss.extraction import beamformer as bf, beamformer_wrapper as bw

    def make(B):
        if pinned:           # the input of a known finding, evaluated on every run
            return {'D': 2, 'F': 2, 'mode': 'zero', 'fn': 'wmwf', 'seed': 0, 'mu': 0.0, 'd': B.given('d', np.zeros(1))}
        return {'D': B.choose('D', [2, 3, 5, 8]), 'F': B.choose('F', [1, 2, 5, 32]), 'mode': B.choose('mode', modes),
                'fn': B.choose('fn', ['mvdr_souden', 'wmwf', 'mvdr_souden+ban', 'wmwf+ban']), 'seed': B.choose('seed', list(range(1000))),
                'mu': B.choose('mu', [None, None, 0.0, 0.25, 4.0, 'frequency_dependent']), 'd': B.given('d', np.zeros(1)),
                'prec': B.choose('prec', ['c128', 'c128', 'c64']), 'ref': B.choose('ref', [0, 0, 'auto'])}

    def call(inp):
        rng = np.random.RandomState(inp['seed'])
        D, F = inp['D'], inp['F']

        def cn(*s):
            return rng.normal(size=s) + 1j * rng.normal(size=s)
        A, Bm = cn(F, D, D), cn(F, D, D)
        tgt = A @ np.conj(np.swapaxes(A, -1, -2))
        noi = Bm @ np.conj(np.swapaxes(Bm, -1, -2)) + 0.1 * np.eye(D)
        sing = rng.rand(F) < 0.5
        sing[0] = True
        for f in np.nonzero(sing)[0]:
            if inp['mode'] == 'zero':
                noi[f] = 0
                tgt[f] = 0
            elif inp['mode'] == 'zero-noise':
                noi[f] = 0
            elif inp['mode'] == 'zero-row-and-column':          # exactly singular: LAPACK reports it
                noi[f, 0, :] = 0
                noi[f, :, 0] = 0
            else:                                                # numerically rank deficient (v v^H in floating point)
                v = cn(D, 1)
                noi[f] = v @ np.conj(v.T)
        kw = {'ref_channel': 0} if 'souden' in inp['fn'] else {'reference_channel': 0}
        if inp.get('ref') == 'auto' and inp['mode'] in ('zero', 'zero-noise', 'zero-row-and-column') and ('souden' in inp['fn'] or inp['mu'] is None):
            # (not combined with the non-default distortion weights of the known finding: their NaN filter fails the selector's assertion)
            kw = {}                                       # the reference channel is estimated by the library from the same PSDs
        if inp.get('prec') == 'c64':
            tgt, noi = tgt.astype(np.complex64), noi.astype(np.complex64)      # single-precision pipeline
        if 'wmwf' in inp['fn'] and inp['mu'] is not None:
            kw['distortion_weight'] = inp['mu']          # the speech-distortion trade-off, forwarded by the wrapper (0: Souden MVDR)
        w = bw.get_bf_vector(inp['fn'], tgt, noi, **kw)
        clean = ~sing
        ref = None
        if clean.any():
            ref = bw.get_bf_vector(inp['fn'], tgt[clean], noi[clean], **kw)
        return {'w': w, 'clean': clean, 'ref': ref}

    def ensures(sp, inp, out):
        tag_ = ''
        if 'wmwf' in inp['fn'] and inp['mu'] is not None:
            tag_ = '[%s,mu=%s,%s]' % (inp['fn'], inp['mu'], inp['mode'])
        yield 'finite-on-singular-and-zero-psds' + tag_, bool(np.all(np.isfinite(out['w'])))
        yield 'finite-on-regular-bins', bool(np.all(np.isfinite(np.asarray(out['w'])[out['clean']])))
        if out['ref'] is not None and not (inp.get('ref') == 'auto' and inp['mode'] in ('zero', 'zero-noise', 'zero-row-and-column')
                                           and ('souden' in inp['fn'] or inp['mu'] is None)):
            # (the automatically chosen reference channel is one choice for the whole stack, so it may depend on the neighbours by design)
            tol = (1e-3, 1e-5) if inp.get('prec') == 'c64' else (1e-9, 1e-12)
            yield 'regular-bins-unaffected-by-singular-neighbours', bool(np.allclose(out['w'][out['clean']], out['ref'], rtol=tol[0], atol=tol[1]))

    return Instance('C13', BW + 'get_bf_vector', 'bounded-%s-psds' % tag + ('-pinned-known-finding-wmwf-zero-distortion-weight' if pinned else ''),
                    make, call, ensures, mode='bounded', bounded_n=1 if pinned else 150, frame=False,
                    fixed_seed=(tag == 'numerically-rank-deficient') or bool(pinned))


NAMES = ['pca', 'pca+mvdr', 'scaled_gev_atf+mvdr', 'mvdr_souden', 'rank1_pca+mvdr_souden', 'rank1_gev+mvdr_souden', 'gev', 'rank1_pca+gev',
         'rank1_gev+gev', 'wmwf', 'rank1_pca+wmwf', 'rank1_gev+wmwf', 'ch0', 'ch1']


def wrapper_layouts_bounded_instance():
    """Every wrapper name on PSD stacks in every memory layout a caller may hold them in (C order, MATLAB-style (D, D, F) column-major
    moved to (F, D, D), Hermitian-transposed views, Fortran order): the result equals the one for plain C-ordered copies, the
    arguments are bit-identical afterwards, and a second call gives the same result (so no step of the chain consumed its input)."""
    from pb_bss.extraction import beamformer_wrapper as bw

    def make(B):
        return {'name': B.choose('name', NAMES[:-2] + [n + '+ban' for n in NAMES[:-2]]), 'layout': B.choose('layout', ['C', 'matlab', 'hermitian-view', 'F']),
                'D': B.choose('D', [2, 3, 5]), 'F': B.choose('F', [1, 4, 9]), 'use_eig': B.choose('use_eig', [False, True]),
                'seed': B.choose('seed', list(range(3000))), 'd': B.given('d', np.zeros(1))}

    def call(inp):
        rng = np.random.RandomState(inp['seed'])
        D, F, name = inp['D'], inp['F'], inp['name']

        def cn(*s_):
            return rng.normal(size=s_) + 1j * rng.normal(size=s_)
        a, b = cn(F, D, D), cn(F, D, D)
        tgt = a @ np.conj(np.swapaxes(a, -1, -2)) + 0.05 * np.eye(D)
        noi = b @ np.conj(np.swapaxes(b, -1, -2)) + 0.1 * np.eye(D)

        def relayout(m):
            if inp['layout'] == 'matlab':
                return np.moveaxis(np.asfortranarray(np.moveaxis(m, 0, -1)), -1, 0)          # (D, D, F) column-major -> (F, D, D) view
            if inp['layout'] == 'hermitian-view':
                return np.conj(np.swapaxes(np.ascontiguousarray(np.conj(np.swapaxes(m, -1, -2))), -1, -2))
            if inp['layout'] == 'F':
                return np.asfortranarray(m)
            return m
        kw = {}
        core = name.replace('+ban', '')
        if core.endswith('gev') or core == 'scaled_gev_atf+mvdr':
            kw = {'use_eig': inp['use_eig']} if core.endswith('gev') and '+' not in core else {}
        if 'rank1_gev' in core or core == 'scaled_gev_atf+mvdr':
            kw['atf_kwargs'] = {'use_eig': inp['use_eig']}
        if core.endswith('mvdr_souden'):
            kw['ref_channel'] = 0
        if core.endswith('wmwf'):
            kw['reference_channel'] = D - 1
        t1, n1 = relayout(tgt), relayout(noi)
        t0, n0 = t1.copy(), n1.copy()
        w = np.asarray(bw.get_bf_vector(name, t1, n1, **kw))
        untouched = bool(np.array_equal(t1, t0) and np.array_equal(n1, n0))
        w_again = np.asarray(bw.get_bf_vector(name, t1, n1, **kw))
        ref = np.asarray(bw.get_bf_vector(name, np.ascontiguousarray(tgt), np.ascontiguousarray(noi), **kw))
        return {'w': w, 'again': w_again, 'ref': ref, 'untouched': untouched}

    def ensures(sp, inp, out):
        def same_up_to_phase(x, y):
            # eigenvectors are defined up to a unit factor per bin; everything else is compared directly first
            if np.allclose(x, y, rtol=1e-7, atol=1e-9):
                return True
            ph = np.sum(np.conj(y) * x, axis=-1, keepdims=True)
            ph = ph / np.maximum(np.abs(ph), 1e-300)
            return bool(np.allclose(x, y * ph, rtol=1e-6, atol=1e-8))
        yield 'arguments-untouched[%s,%s]' % (inp['name'], inp['layout']), out['untouched']
        yield 'finite', bool(np.all(np.isfinite(out['w'])))
        yield 'same-result-as-for-c-ordered-copies[%s,%s]' % (inp['name'], inp['layout']), bool(out['w'].shape == out['ref'].shape and same_up_to_phase(out['w'], out['ref']))
        yield 'second-call-same-result', bool(same_up_to_phase(out['again'], out['w']))

    return Instance('C13', BW + 'get_bf_vector', 'bounded-every-name-in-every-memory-layout', make, call, ensures, mode='bounded', bounded_n=150, frame=False)


def instances(tier):
    th = tier == 'thorough'
    out = []
    for name in NAMES:
        for ban in (False, True):
            nm = name + ('+ban' if ban else '')
            kw = {}
            if 'souden' in name:
                kw = {'ref_channel': 0}
            elif 'wmwf' in name:
                kw = {'reference_channel': 1}
            out.append(wrapper_instance(nm, 2, 2, kw))
    out.append(wrapper_instance('mvdr_souden', 2, 2, {'ref_channel': 1}))
    out.append(wrapper_instance('mvdr_souden', 2, 2, {}))                 # automatic reference channel
    out.append(wrapper_instance('mvdr_souden+ban', 2, 2, {'ref_channel': 0, 'eps': 1e-12}))
    out.append(wrapper_instance('rank1_gev+wmwf+ban', 2, 3, {'reference_channel': 0, 'atf_kwargs': {'use_eig': True}}))
    out.append(wrapper_instance('wmwf', 2, 2, {'reference_channel': 0, 'distortion_weight': 2.0}))
    out.append(wrapper_instance('pca', 2, 2, {'scaling': 'trace'}))
    out.append(wrapper_instance('rank1_pca+mvdr_souden', 2, 2, {'ref_channel': 0, 'atf_kwargs': {'scaling': 'eigenvalue'}}))
    out.append(wrapper_instance('gev', 2, 2, {'use_eig': False}))
    out.append(wrapper_instance('pca+mvdr', 2, 2, {'atf_kwargs': {'scaling': 'trace'}}))
    out.append(wrapper_instance('scaled_gev_atf+mvdr', 2, 2, {'atf_kwargs': {'use_eig': True}}))
    out.append(wrapper_instance('rank1_pca+wmwf', 2, 2, {'reference_channel': 1, 'atf_kwargs': {'scaling': 'trace'}}))
    out.append(apply_instance((), 2, 2))
    out.append(apply_instance((2,), 2, 2))
    out.append(apply_instance((2, 2), 2, 1))
    out.append(apply_broadcast_instance((2,), (2, 2), 2, 1))         # filters (F, D) on images (K, F, D, T)
    out.append(apply_broadcast_instance((2, 2), (2,), 2, 1))         # filters (K, F, D) on one observation (F, D, T)
    for fn in ('mvdr', 'souden', 'wmwf'):      # eigen-solver based functions: per-bin solver calls are C12 obligations
        out.append(stack_instance(fn, 2, 2))
    out.append(stack_instance('mvdr', 2, 2, (2,)))
    out.append(stack_instance('wmwf', 2, 2, (2,)))
    out.append(stack_instance('wmwf-fd', 2, 2, (2,)))
    out.append(stack_instance('souden', 2, 2, (2,)))
    out.append(phase_instance((), 1, 2))            # a single bin: nothing to align, the vector comes back unchanged
    out.append(phase_instance((2,), 1, 1))
    out.append(phase_instance((), 2, 1))
    out.append(phase_instance((), 3, 1))
    out.append(phase_instance((2,), 3, 1))
    out.append(phase_instance((2, 2), 3, 1))
    out.append(phase_instance((), 2, 2))
    out.append(phase_instance((), 3, 2))
    out.append(phase_instance((3,), 4, 3, prove=(tier == 'thorough')))
    out.append(stable_solve_instance(2, 1))
    out.append(stable_solve_instance(2, 2))
    out.append(stable_solve_bounded_instance())
    out.append(singular_bounded_instance(['zero', 'zero-noise', 'zero-row-and-column'], 'zero-or-exactly-singular'))
    out.append(singular_bounded_instance(['rank-deficient'], 'numerically-rank-deficient'))
    out.append(singular_bounded_instance(['zero'], 'zero-or-exactly-singular', pinned=True))
    return out


_instances_before_simplex = instances


def instances(tier):       # noqa: F811
    from .common import simplex_lemma_instances
    return _instances_before_simplex(tier) + simplex_lemma_instances('C13')


_instances_before_layouts = instances


def instances(tier):       # noqa: F811
    return _instances_before_layouts(tier) + [wrapper_layouts_bounded_instance()]
