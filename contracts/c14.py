"""C14 - permutation alignment only reorders classes."""
import itertools

import numpy as np

from pbv import expr as E
from pbv import scalar as S
from pbv.instance import Instance
from pbv.spec import cells, shape_of

META = {
    'level': 'proof',
    'min_obligations': 100,
    'explanation': 'apply_mapping = row selection for every mapping; _mapping_from_score_matrix returns a permutation on '
                   'every path (ties included); greedy / DHTV / oracle calculate_mapping columns are permutations and '
                   '__call__ returns the rows in mapped order; inline alignment permutes posteriors and quadratic forms '
                   'together; integration-model inline PA is never worse than the identity under its own criterion',
}
PA = 'pb_bss.permutation_alignment:'


def is_perm(col, K):
    return sorted(int(v) for v in col) == list(range(K))


# ----------------------------------------------------------------------------- apply_mapping
def apply_mapping_instance(K, F, T, mapping):
    from pb_bss import permutation_alignment as pa
    mapping = np.array(mapping, dtype=np.int64).reshape(K, F)

    def make(B):
        return {'mask': B.real('m', (K, F, T) if T else (K, F)), 'mapping': B.given('mapping', mapping)}

    def call(inp):
        return pa.apply_mapping(inp['mask'], inp['mapping'])

    def ensures(sp, inp, out):
        shp = (K, F, T) if T else (K, F)
        yield 'shape', sp._f(shape_of(out) == shp)
        if shape_of(out) != shp:
            return
        g, m = cells(out), cells(inp['mask'])
        for k in range(K):
            for f in range(F):
                src = int(mapping[k, f])
                if T:
                    yield 'row[%d,%d]' % (k, f), sp.all(sp.eq(g[k, f, t], m[src, f, t]) for t in range(T))
                else:
                    yield 'row[%d,%d]' % (k, f), sp.eq(g[k, f], m[src, f])
        # consequence: sums over the class axis are preserved per bin
        for f in range(F):
            for t in (range(T) if T else [None]):
                i = (f,) if t is None else (f, t)
                yield 'class-sum-preserved[%s]' % (i,), sp.eq(sp.sum(g[(k,) + i] for k in range(K)), sp.sum(m[(k,) + i] for k in range(K)))

    name = 'K%dF%dT%d-map%s' % (K, F, T, ''.join(map(str, mapping.reshape(-1))))
    return Instance('C14', PA + 'apply_mapping', name, make, call, ensures)


# ----------------------------------------------------------------------------- _mapping_from_score_matrix
def score_instance(K, lead, algorithm, int_grid=None):
    """Symbolic real scores (ties included): the result is a permutation on every path; greedy picks are maxima."""
    from pb_bss import permutation_alignment as pa
    lead = tuple(lead)

    def make(B):
        if int_grid is not None:
            return {'score': B.given('score', np.array(int_grid, dtype=np.int64).reshape(lead + (K, K)))}
        return {'score': B.real('s', lead + (K, K))}

    def call(inp):
        return pa._mapping_from_score_matrix(inp['score'], algorithm=algorithm)

    def ensures(sp, inp, out):
        shp = (K,) + lead
        yield 'shape', sp._f(np.shape(out) == shp)
        if np.shape(out) != shp:
            return
        out = np.asarray(out)
        s = cells(inp['score'])
        for li in np.ndindex(*lead):
            col = [int(out[(k,) + li]) for k in range(K)]
            yield 'is-permutation[%s]' % (li,), sp._f(is_perm(col, K))
            if not is_perm(col, K):
                continue
            if algorithm == 'optimal':
                tot = sp.sum(s[li + (k, col[k])] for k in range(K))
                for perm in itertools.permutations(range(K)):
                    yield 'optimal>=perm%s[%s]' % (''.join(map(str, perm)), li), sp.ge(tot, sp.sum(s[li + (k, perm[k])] for k in range(K)))
            elif K <= 3:
                # greedy: some order of the rows in which every pick is a maximum of the remaining sub-matrix
                alts = []
                for order in itertools.permutations(range(K)):
                    fs = []
                    rows, cols = set(range(K)), set(range(K))
                    for i in order:
                        j = col[i]
                        fs += [sp.ge(s[li + (i, j)], s[li + (a, b)]) for a in rows for b in cols if (a, b) != (i, j)]
                        rows.discard(i)
                        cols.discard(j)
                    alts.append(sp.and_(*fs))
                yield 'greedy-picks-are-maxima[%s]' % (li,), sp.or_(*alts)

    name = 'K%d-lead%s-%s%s' % (K, 'x'.join(map(str, lead)) or '0', algorithm,
                                '' if int_grid is None else '-int' + ''.join(map(str, np.asarray(int_grid).reshape(-1))))
    return Instance('C14', PA + '_mapping_from_score_matrix', name, make, call, ensures, max_paths=4000, timeout=20.0,
                    weight=K ** 3, crosscheck=False)


# ----------------------------------------------------------------------------- aligners (__call__)
def aligner_instance(kind, K, F, T, metric, algorithm='greedy', dhtv=None):
    from pb_bss import permutation_alignment as pa

    def make(B):
        inp = {'mask': B.real('m', (K, F, T), lo=0.0, dist=(0.0, 1.0))}
        if kind == 'oracle':
            inp['ref'] = B.real('r', (K, F, T), lo=0.0, dist=(0.0, 1.0))
        return inp

    def aligner():
        if kind == 'greedy':
            return pa.GreedyPermutationAlignment(similarity_metric=metric, algorithm=algorithm)
        if kind == 'oracle':
            return pa.OraclePermutationAlignment(similarity_metric=metric, algorithm=algorithm)
        return pa.DHTVPermutationAlignment(similarity_metric=metric, algorithm=algorithm, **dhtv)

    def call(inp):
        al = aligner()
        extra = (inp['ref'],) if kind == 'oracle' else ()
        seen = {}
        orig = al.calculate_mapping

        def recording(*a, **k):        # observe the mapping computed inside __call__ (one exploration, not two)
            seen['mapping'] = orig(*a, **k)
            return seen['mapping']
        al.calculate_mapping = recording
        aligned = al(inp['mask'], *extra)
        return {'mapping': seen['mapping'], 'aligned': aligned}

    def ensures(sp, inp, out):
        mp = np.asarray(out['mapping'])
        yield 'mapping-shape', sp._f(mp.shape == (K, F))
        if mp.shape != (K, F):
            return
        for f in range(F):
            yield 'column-is-permutation[%d]' % f, sp._f(is_perm(mp[:, f], K))
        g, m = cells(out['aligned']), cells(inp['mask'])
        yield 'aligned-shape', sp._f(shape_of(out['aligned']) == (K, F, T))
        if shape_of(out['aligned']) != (K, F, T) or not all(is_perm(mp[:, f], K) for f in range(F)):
            return
        for k in range(K):
            for f in range(F):
                yield 'aligned-row[%d,%d]' % (k, f), sp.all(sp.eq(g[k, f, t], m[int(mp[k, f]), f, t]) for t in range(T))

    name = '%s-K%dF%dT%d-%s-%s%s' % (kind, K, F, T, metric, algorithm, '' if dhtv is None else '-it%d' % dhtv['main_iterations'])
    cls = {'greedy': 'GreedyPermutationAlignment', 'oracle': 'OraclePermutationAlignment', 'dhtv': 'DHTVPermutationAlignment'}[kind]
    return Instance('C14', PA + cls + '.calculate_mapping', name, make, call, ensures, max_paths=3000, timeout=20.0,
                    weight=K * K * F * (50 if kind == 'dhtv' else 1), crosscheck=False, check_feasible=False,
                    shard_depth=3 if kind == 'dhtv' or K >= 3 else 0)


# ----------------------------------------------------------------------------- inline alignment inside EM
def inline_instance(K, F, T, mapping):
    from pb_bss.distribution import mixture_model_utils as mmu
    from pb_bss import permutation_alignment as pa
    mapping = np.array(mapping, dtype=np.int64).reshape(K, F)

    calls = []

    class FixedAligner(pa._PermutationAlignment):
        # the mapping belongs to the posteriors: the first consultation returns it, any further consultation (e.g. on the
        # quadratic form) would get a different one
        def calculate_mapping(self, mask, *a, **k):
            calls.append(mask)
            if len(calls) == 1:
                return mapping.copy()
            return np.roll(mapping, 1, axis=0)

    def make(B):
        return {'aff': B.real('a', (F, K, T), lo=0.0, dist=(0.0, 1.0)), 'qf': B.real('q', (F, K, T), lo=0.0, dist='pos')}

    def call(inp):
        del calls[:]
        res = mmu.apply_inline_permutation_alignment(inp['aff'], quadratic_form=inp['qf'], weight_constant_axis=(-3,),
                                                     aligner=FixedAligner())
        return res + (len(calls), calls[0] if calls else None) if isinstance(res, tuple) else res

    def ensures(sp, inp, out):
        ok = isinstance(out, tuple) and len(out) == 4 and shape_of(out[0]) == (F, K, T) and shape_of(out[1]) == (F, K, T)
        yield 'returns-pair-of-shape-FKT', sp._f(ok)
        if not ok:
            return
        yield 'aligner-consulted-once', sp._f(out[2] == 1)
        first = out[3]
        okf = shape_of(first) == (K, F, T)
        yield 'aligner-consulted-on-the-posteriors', (sp.all(sp.eq(cells(first)[k, f, t], cells(inp['aff'])[f, k, t]) for f in range(F) for k in range(K) for t in range(T))
                                                      if okf else sp._f(False))
        a2, q2, a, q = cells(out[0]), cells(out[1]), cells(inp['aff']), cells(inp['qf'])
        for f in range(F):
            for k in range(K):
                src = int(mapping[k, f])
                yield 'affiliation-row[%d,%d]' % (f, k), sp.all(sp.eq(a2[f, k, t], a[f, src, t]) for t in range(T))
                yield 'quadratic-form-row[%d,%d]' % (f, k), sp.all(sp.eq(q2[f, k, t], q[f, src, t]) for t in range(T))

    name = 'K%dF%dT%d-map%s' % (K, F, T, ''.join(map(str, mapping.reshape(-1))))
    return Instance('C14', 'pb_bss.distribution.mixture_model_utils:apply_inline_permutation_alignment', name, make, call, ensures)


def assignment_extremes_bounded_instance():
    """Assignments from finite score matrices of any magnitude and element type (float64 up to 2**60, float32 up to 1e30, integer
    types near their limits, stacked bins): always a permutation per bin, through the function and through the aligners."""
    from pb_bss import permutation_alignment as pa

    def make(B):
        return {'K': B.choose('K', [2, 3, 4, 5]), 'F': B.choose('F', [None, 1, 3]), 'alg': B.choose('alg', ['greedy', 'optimal']),
                'kind': B.choose('kind', ['shift54', 'scale1e300', 'f32-large', 'f32-shift', 'int8', 'int64-large', 'tiny', 'ties-shifted']),
                'seed': B.choose('seed', list(range(3000))), 'd': B.given('d', np.zeros(1))}

    def call(inp):
        rng = np.random.RandomState(inp['seed'])
        K, F, kind = inp['K'], inp['F'], inp['kind']
        shape = (K, K) if F is None else (F, K, K)
        base = rng.randint(-3, 4, size=shape).astype(np.float64)
        s = {'shift54': base + 2.0 ** 54 * rng.choice([-1, 1]), 'scale1e300': rng.normal(size=shape) * 1e300,
             'f32-large': (rng.normal(size=shape) * 1e30).astype(np.float32), 'f32-shift': (base + 2.0 ** 25).astype(np.float32),
             'int8': rng.randint(-128, 128, size=shape).astype(np.int8),
             'int64-large': (np.iinfo(np.int64).max - rng.randint(0, 5, size=shape)).astype(np.int64),
             'tiny': rng.normal(size=shape) * 1e-300, 'ties-shifted': np.round(rng.normal(size=shape)) - 2.0 ** 53}[kind]
        if inp['alg'] == 'optimal' and K > 4:
            K = 4
            s = s[..., :4, :4]
        # any memory layout of the score matrix: C order, transposed storage of the two class axes, Fortran order, a strided slice
        lay = ['C', 'T', 'F', 'strided'][(inp['seed'] // 3) % 4]
        if lay == 'T':
            s = np.swapaxes(np.ascontiguousarray(np.swapaxes(s, -1, -2)), -1, -2)
        elif lay == 'F':
            s = np.asfortranarray(s)
        elif lay == 'strided':
            big = np.zeros(s.shape[:-1] + (2 * s.shape[-1],), dtype=s.dtype)
            big[..., ::2] = s
            s = big[..., ::2]
        s0 = s.copy()
        m = pa._mapping_from_score_matrix(s, inp['alg'])
        res = {'m': np.asarray(m), 'K': K, 'F': F, 'untouched': bool(np.array_equal(s, s0))}
        # through the aligners: hard masks of every element type (bool, int8, float), stored bin-major and handed over as a
        # transposed view, every metric; the aligned mask has the rows of the input in every bin
        Fm, T = 5, int(rng.randint(K + 2, 40))
        lab = rng.randint(0, K, size=(Fm, T))
        store = np.stack([(lab == k) for k in range(K)], axis=1)                       # (F, K, T)
        if inp['seed'] % 2:
            store = store | (rng.rand(Fm, K, T) < 0.2)                                   # overlapping supports
        mdt = [bool, np.int8, np.float64][(inp['seed'] // 2) % 3]
        metric = ['multiply', 'cos', 'euclidean'][(inp['seed'] // 5) % 3]
        if (inp['seed'] // 7) % 2 and mdt is np.float64:
            # soft posteriors; the reference below is an exactly shuffled copy (distance exactly zero for the matching rows)
            store = rng.uniform(0.05, 1.0, size=(Fm, K, T))
            store /= store.sum(1, keepdims=True)
        mask = np.transpose(store.astype(mdt), (1, 0, 2))                               # (K, F, T) view
        ref = np.ascontiguousarray(mask[rng.permutation(K)])
        try:
            if inp['seed'] % 4 < 2:
                al = pa.GreedyPermutationAlignment(metric, inp['alg'])
                res['aligned'] = (np.asarray(al(mask)), np.array(mask, copy=True))
            else:
                al = pa.OraclePermutationAlignment(metric, inp['alg'])
                res['aligned'] = (np.asarray(al(mask, ref)), np.array(mask, copy=True))
        except TypeError:
            pass              # boolean masks and the euclidean metric: explicit rejection by NumPy (boolean subtract)
        return res

    def ensures(sp, inp, out):
        m, K, F = out['m'], out['K'], out['F']
        yield 'shape', bool(m.shape == ((K,) if F is None else (K, F)))
        cols = m.reshape(K, -1)
        yield 'assignment-is-a-permutation-in-every-bin', bool(all(sorted(cols[:, f].tolist()) == list(range(K)) for f in range(cols.shape[1])))
        yield 'score-matrix-untouched', out['untouched']
        if 'aligned' in out:
            got, src = out['aligned']
            ok = got.shape == src.shape
            if ok:
                for f in range(src.shape[1]):
                    a = sorted(map(tuple, np.asarray(got[:, f], dtype=float).tolist()))
                    b = sorted(map(tuple, np.asarray(src[:, f], dtype=float).tolist()))
                    ok &= a == b
            yield 'aligned-mask-has-the-rows-of-the-input-in-every-bin', bool(ok)

    return Instance('C14', 'pb_bss.permutation_alignment:_mapping_from_score_matrix', 'bounded-extreme-magnitudes-and-element-types', make, call, ensures,
                    mode='bounded', bounded_n=120, frame=False)


def apply_mapping_types_bounded_instance():
    """apply_mapping with mappings of every integer element type (a mapping stored compactly, or returned by a user aligner) and
    bands wider than the range of the small types: aligned[k, f] = mask[mapping[k, f], f] exactly, for masks with and without
    trailing axes, through the function, the method and the inline EM call site."""
    from pb_bss import permutation_alignment as pa
    from pb_bss.distribution import mixture_model_utils as mmu

    def make(B):
        return {'K': B.choose('K', [2, 3, 4, 6]), 'F': B.choose('F', [1, 5, 65, 129, 257, 300]),
                'dt': B.choose('dt', ['int8', 'uint8', 'int16', 'uint16', 'int32', 'uint32', 'int64', 'intp']),
                'trail': B.choose('trail', [(), (3,), (2, 2)]), 'seed': B.choose('seed', list(range(2000))), 'd': B.given('d', np.zeros(1))}

    def call(inp):
        rng = np.random.RandomState(inp['seed'])
        K, F = inp['K'], inp['F']
        mapping = np.stack([rng.permutation(K) for _ in range(F)], axis=1).astype(inp['dt'])
        mask = rng.uniform(size=(K, F) + tuple(inp['trail']))
        m0, mp0 = mask.copy(), mapping.copy()
        got = pa.apply_mapping(mask, mapping)
        got2 = pa.GreedyPermutationAlignment.apply_mapping(mask, mapping)
        return {'got': np.asarray(got), 'got2': np.asarray(got2), 'mask': m0, 'mapping': mp0,
                'untouched': bool(np.array_equal(mask, m0) and np.array_equal(mapping, mp0) and mapping.dtype == mp0.dtype)}

    def ensures(sp, inp, out):
        mask, mapping = out['mask'], out['mapping'].astype(np.int64)
        K, F = mapping.shape
        want = np.empty_like(mask)
        for k in range(K):
            for f in range(F):
                want[k, f] = mask[mapping[k, f], f]
        yield 'aligned[k,f]=mask[mapping[k,f],f][%s]' % inp['dt'], bool(out['got'].shape == want.shape and np.array_equal(out['got'], want))
        yield 'method-agrees-with-function', bool(out['got2'].shape == want.shape and np.array_equal(out['got2'], want))
        yield 'class-sums-preserved', bool(np.allclose(out['got'].sum(0), mask.sum(0)))
        yield 'arguments-untouched', out['untouched']

    return Instance('C14', 'pb_bss.permutation_alignment:apply_mapping', 'bounded-mappings-of-every-integer-type-wide-bands', make, call, ensures,
                    mode='bounded', bounded_n=80, frame=False)


def integration_pa_bounded_instance(prop='C14'):
    """Inline PA of the integration models on several bins: in every bin the result is the posterior of some pairing that is not
    worse than the identity under the criterion (recomputed independently), and a bin processed alone gives the same result."""
    from pb_bss.distribution import mixture_model_utils as mmu
    from scipy.special import logsumexp

    def make(B):
        return {'K': B.choose('K', [2, 3]), 'F': B.choose('F', [2, 4]), 'T': B.choose('T', [3, 6]), 'seed': B.choose('seed', list(range(3000))),
                'd': B.given('d', np.zeros(1))}

    def call(inp):
        rng = np.random.RandomState(inp['seed'])
        K, F, T = inp['K'], inp['F'], inp['T']
        w = rng.dirichlet(np.ones(K) * 3, size=F)[:, :, None]
        # bins of very different scale: the best criterion value differs from bin to bin
        spat = rng.normal(size=(F, K, T)) * rng.uniform(0.5, 6.0, size=(F, 1, 1)) + rng.uniform(-20, 20, size=(F, 1, 1))
        if inp['seed'] % 2:
            # log-densities whose level differs by thousands of nats between the frames of one bin (cACG densities do)
            spat = spat + rng.uniform(-3000, 3000, size=(F, 1, T))
        spec = rng.normal(size=(F, K, T)) * 2.0
        if (inp['seed'] // 3) % 3 == 0:
            # a class with zero likelihood at some points (log-density -inf: a hard-limited or masked stream); the criterion of every
            # pairing is then 0 * -inf there and the documented fallback is the identity pairing
            hit = rng.rand(F, K, T) < 0.08
            hit[:, 0, :] = False
            hit[0, 1, 0] = True
            (spat if inp['seed'] % 2 else spec)[hit] = -np.inf
        with np.errstate(all='ignore'):
            return _ipa_call(mmu, w, spat, spec, F)

    def _ipa_call(mmu, w, spat, spec, F):
        out = mmu.log_pdf_to_affiliation_for_integration_models_with_inline_pa(w, spat, spec)
        alone = np.concatenate([mmu.log_pdf_to_affiliation_for_integration_models_with_inline_pa(w[f:f + 1], spat[f:f + 1], spec[f:f + 1]) for f in range(F)])
        return {'out': np.asarray(out), 'alone': np.asarray(alone), 'w': w, 'spat': spat, 'spec': spec}

    def ensures(sp, inp, out):
        K, F, T = inp['K'], inp['F'], inp['T']
        g, w, a, b = out['out'], out['w'], out['spat'], out['spec']
        yield 'shape', bool(g.shape == (F, K, T))
        if g.shape != (F, K, T):
            return
        ok = True
        for f in range(F):
            found = False
            crit = {}
            for p in itertools.permutations(range(K)):
                joint = a[f, list(p)] + b[f]
                with np.errstate(all='ignore'):
                    post_u = np.exp(joint - logsumexp(joint, axis=0, keepdims=True))
                    crit[p] = float(np.sum(np.where(post_u > 0, post_u * joint, 0.0)))         # (p log p -> 0)
            for p in itertools.permutations(range(K)):
                joint = a[f, list(p)] + b[f]
                with np.errstate(all='ignore'):
                    lw = np.log(w[f]) + joint
                    post = np.exp(lw - logsumexp(lw, axis=0, keepdims=True))
                if np.allclose(g[f], post, rtol=1e-7, atol=1e-10) and crit[p] >= crit[tuple(range(K))] - 1e-9 * max(1.0, abs(crit[p])):
                    found = True
            ok &= found
        yield 'every-bin-uses-a-pairing-not-worse-than-the-identity', ok
        yield 'bin-alone-equals-bin-in-the-stack', bool(np.allclose(g, out['alone'], rtol=1e-9, atol=1e-12))

    return Instance(prop, 'pb_bss.distribution.mixture_model_utils:log_pdf_to_affiliation_for_integration_models_with_inline_pa',
                    'bounded-several-bins', make, call, ensures, mode='bounded', bounded_n=80, frame=False)


def integration_pa_instance(K, F, T):
    """Inline PA of the integration models: the pairing that is used scores at least as high as the identity under the
    function's own criterion (sum of candidate posterior times joint log-pdf), and the result is the posterior of it."""
    from pb_bss.distribution import mixture_model_utils as mmu
    perms = list(itertools.permutations(range(K)))

    def make(B):
        return {'w': B.real('w', (F, K, 1), lo=1e-3, dist=(0.1, 1.0)), 'sp': B.real('a', (F, K, T)), 'se': B.real('g', (F, K, T))}

    def call(inp):
        return mmu.log_pdf_to_affiliation_for_integration_models_with_inline_pa(inp['w'], inp['sp'], inp['se'])

    def criterion(sp, l):
        """l: K x T joint log-pdfs (scalars) -> auxiliary function value, in the code's own terms"""
        tot = None
        for t in range(T):
            mx = l[0][t]
            for k in range(1, K):
                mx = sp.max(mx, l[k][t])
            e = [sp.exp(l[k][t] - mx) for k in range(K)]
            den = sp.max(sp.sum(e), float(np.finfo(np.float64).tiny))
            for k in range(K):
                term = (e[k] / den) * l[k][t]
                tot = term if tot is None else tot + term
        return tot

    def ensures(sp, inp, out):
        yield 'shape', sp._f(shape_of(out) == (F, K, T))
        if shape_of(out) != (F, K, T):
            return
        g, a, b, w = cells(out), cells(inp['sp']), cells(inp['se']), cells(inp['w'])
        for f in range(F):
            joint = {p: [[a[f, p[k], t] + b[f, k, t] for t in range(T)] for k in range(K)] for p in perms}
            crit = {p: criterion(sp, joint[p]) for p in perms}
            ident = tuple(range(K))
            alts = []
            for p in perms:
                fs = [sp.ge(crit[p], crit[ident])]
                for t in range(T):
                    pj = [sp.exp(joint[p][k][t]) for k in range(K)]
                    tot = sp.sum(w[f, k, 0] * pj[k] for k in range(K))
                    fs += [sp.eq(g[f, k, t] * tot, w[f, k, 0] * pj[k]) for k in range(K)]
                alts.append(sp.and_(*fs))
            yield 'chosen-pairing-not-worse-than-identity-and-posterior-of-it[f=%d]' % f, sp.or_(*alts)
            for t in range(T):
                yield 'sum-to-one[%d,%d]' % (f, t), sp.eq(sp.sum(g[f, k, t] for k in range(K)), 1.0)

    def hints(sp, inp, out):
        from .common import exp_shift_hints
        a, b = cells(inp['sp']), cells(inp['se'])
        targets = [a[f, p[k], t] + b[f, k, t] for f in range(F) for p in perms for k in range(K) for t in range(T)]
        return exp_shift_hints(sp, targets)

    return Instance('C14', 'pb_bss.distribution.mixture_model_utils:log_pdf_to_affiliation_for_integration_models_with_inline_pa',
                    'K%dF%dT%d' % (K, F, T), make, call, ensures, hints=hints, timeout=40.0, max_paths=200, crosscheck=True,
                    shard_depth=3, weight=20)


def instances(tier):
    th = tier == 'thorough'
    out = []
    # apply_mapping: every mapping in S_K^F
    for K, F, T in [(2, 2, 2), (3, 1, 2), (3, 2, 1), (2, 3, 0)]:
        perms = list(itertools.permutations(range(K)))
        for cols in itertools.product(perms, repeat=F):
            mp = np.array(cols).T
            out.append(apply_mapping_instance(K, F, T, mp))
    # assignment from a score matrix
    for K in (1, 2, 3, 4):
        out.append(score_instance(K, (), 'greedy'))
    for K in (1, 2, 3):          # K = 4 'optimal': 1e5 paths x 24 permutations, beyond any budget; K <= 6 is bounded in C15
        out.append(score_instance(K, (), 'optimal'))
    out.append(score_instance(2, (2,), 'greedy'))
    out.append(score_instance(2, (2,), 'optimal'))
    if th:
        # (K = 5 greedy has 14 400 decision paths, beyond the path limit of an instance: it ended UNDECIDED in the thorough tier; K <= 4
        # is the deductive range, larger K is in the bounded families)
        pass
        out.append(score_instance(3, (2,), 'greedy'))
    # integer dtype path, exhaustively over {0,1,2} for K = 2 (and a sample for K = 3)
    for grid in itertools.product((0, 1, 2), repeat=4):
        for alg in ('greedy', 'optimal'):
            out.append(score_instance(2, (), alg, int_grid=grid))
    rng = np.random.RandomState(1)
    for _ in range(40 if th else 12):
        grid = tuple(rng.randint(0, 3, size=9))
        for alg in ('greedy', 'optimal'):
            out.append(score_instance(3, (), alg, int_grid=grid))
    # aligners on symbolic masks
    out.append(aligner_instance('greedy', 2, 3, 2, 'multiply'))
    out.append(aligner_instance('greedy', 2, 3, 1, 'euclidean'))
    out.append(aligner_instance('oracle', 2, 1, 2, 'multiply', 'greedy'))
    out.append(aligner_instance('oracle', 2, 1, 2, 'multiply', 'optimal'))
    out.append(aligner_instance('oracle', 3, 1, 2, 'multiply', 'optimal'))
    out.append(aligner_instance('oracle', 2, 1, 2, 'euclidean', 'optimal'))
    dh = dict(stft_size=4, segment_start=0, segment_width=3, segment_shift=1, main_iterations=1, sub_iterations=1)
    out.append(aligner_instance('dhtv', 2, 3, 2, 'multiply', 'greedy', dhtv=dh))
    if th:
        out.append(aligner_instance('greedy', 3, 3, 2, 'multiply'))
        out.append(aligner_instance('dhtv', 2, 3, 2, 'multiply', 'optimal', dhtv=dict(dh, main_iterations=2)))
    # inline alignment inside EM
    for K, F, T in [(2, 2, 1), (3, 1, 2)]:
        perms = list(itertools.permutations(range(K)))
        for cols in itertools.product(perms, repeat=F):
            out.append(inline_instance(K, F, T, np.array(cols).T))
    # the call sites inside the EM loops: what the next M-step receives is the E-step's posterior *and* quadratic form, both
    # reordered by the one mapping the aligner returned for the posteriors (3-cycle: not an involution)
    from .c08 import alternation_instance
    out.append(alternation_instance('cacgmm', 3, aligner=True, K=3, prop='C14'))
    out.append(alternation_instance('cacgmm', 2, aligner=True, from_model=True, prop='C14'))
    out.append(alternation_instance('cwmm', 3, aligner=True, K=3, prop='C14'))
    out.append(integration_pa_instance(2, 1, 1))
    out.append(integration_pa_bounded_instance())
    out.append(assignment_extremes_bounded_instance())
    if th:
        out.append(integration_pa_instance(2, 2, 1))
        # (T = 2: one criterion comparison of the exp / log terms times out in every back end; bounded family)
        # (K = 3: 33 of the criterion comparisons time out in every back end on a loaded machine -- session 4 thorough sweep; K = 3 is in
        # the bounded several-bins family)
    return out


_instances_before_simplex = instances


def instances(tier):       # noqa: F811
    from .common import simplex_lemma_instances
    return _instances_before_simplex(tier) + [apply_mapping_types_bounded_instance()] + simplex_lemma_instances('C14')


_instances_before_history4 = instances


def instances(tier):       # noqa: F811
    from .common import with_history
    from pb_bss import permutation_alignment as pa

    def warm():
        rng = np.random.RandomState(4)
        for K, F, T in ((3, 5, 4), (2, 7, 3), (4, 3, 6)):
            mask = rng.uniform(size=(K, F, T))
            mp = np.stack([rng.permutation(K) for _ in range(F)], axis=1)
            pa.apply_mapping(mask, mp)
            pa.GreedyPermutationAlignment()(mask)
            pa.OraclePermutationAlignment()(mask, mask[::-1].copy())
            pa._mapping_from_score_matrix(rng.normal(size=(F, K, K)), 'optimal')
    extra = [with_history(apply_mapping_instance(2, 2, 2, [[1, 0], [0, 1]]), warm, 'other-sizes'),
             with_history(apply_mapping_instance(3, 1, 2, [[2], [0], [1]]), warm, 'other-sizes'),
             with_history(score_instance(3, (), 'greedy'), warm, 'other-sizes'),
             with_history(score_instance(2, (2,), 'optimal'), warm, 'other-sizes')]
    return _instances_before_history4(tier) + extra

