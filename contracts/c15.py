"""C15 - oracle alignment is optimal and undoes any per-frequency permutation."""
import itertools

import numpy as np

from pbv.instance import Instance
from pbv.spec import cells, shape_of

META = {
    'level': 'proof',
    'min_obligations': 60,
    'explanation': "'optimal' attains the maximum total score over all permutations (hence >= greedy) on every path; the "
                   'oracle aligner returns the reference for every per-frequency permutation of a reference with distinct '
                   'rows (multiply / euclidean / cos, both algorithms); exhaustive integer grids K <= 3; bounded K <= 6 '
                   'against scipy linear_sum_assignment',
}
PA = 'pb_bss.permutation_alignment:'


def optimal_vs_all_instance(K):
    from pb_bss import permutation_alignment as pa

    def make(B):
        return {'score': B.real('s', (K, K))}

    def call(inp):
        return {'optimal': pa._mapping_from_score_matrix(inp['score'], 'optimal'),
                'greedy': pa._mapping_from_score_matrix(inp['score'], 'greedy')}

    def ensures(sp, inp, out):
        s = cells(inp['score'])
        opt, gr = [int(v) for v in np.asarray(out['optimal'])], [int(v) for v in np.asarray(out['greedy'])]
        ok = sorted(opt) == list(range(K)) and sorted(gr) == list(range(K))
        yield 'both-are-permutations', sp._f(ok)
        if not ok:
            return
        tot = sp.sum(s[k, opt[k]] for k in range(K))
        yield 'optimal>=greedy', sp.ge(tot, sp.sum(s[k, gr[k]] for k in range(K)))
        for perm in itertools.permutations(range(K)):
            yield 'optimal>=perm%s' % ''.join(map(str, perm)), sp.ge(tot, sp.sum(s[k, perm[k]] for k in range(K)))

    # (budget: the solver seconds of a shard are wall-clock seconds; on a machine where all cores are busy with the other 200 instances
    # of this check they stretch several times -- the vp check copy needed more than the default 90 s for two obligations of one shard)
    return Instance('C15', PA + '_mapping_from_score_matrix', 'K%d-optimal-vs-all' % K, make, call, ensures,
                    max_paths=20000, crosscheck=False, weight=K ** 4, shard_depth=3 if K >= 3 else 0, budget=1500.0 if K >= 3 else None)


def int_grid_instance(K, values=(0, 1, 2)):
    """Exhaustive over all integer score matrices with entries in `values` (integer dtype path)."""
    from pb_bss import permutation_alignment as pa
    grids = list(itertools.product(values, repeat=K * K))
    perms = list(itertools.permutations(range(K)))

    def make(B):
        return {'dummy': B.given('dummy', np.zeros(1))}

    def call(inp):
        res = []
        for g in grids:
            s = np.array(g, dtype=np.int64).reshape(K, K)
            res.append((pa._mapping_from_score_matrix(s, 'optimal'), pa._mapping_from_score_matrix(s, 'greedy')))
        return {'n': len(res), 'res': res}

    def ensures(sp, inp, out):
        bad = []
        for g, (opt, gr) in zip(grids, out['res']):
            s = np.array(g).reshape(K, K)
            opt, gr = [int(v) for v in opt], [int(v) for v in gr]
            if sorted(opt) != list(range(K)) or sorted(gr) != list(range(K)):
                bad.append(('not-permutation', g))
                continue
            best = max(sum(s[k, p[k]] for k in range(K)) for p in perms)
            if sum(s[k, opt[k]] for k in range(K)) != best:
                bad.append(('optimal-not-maximal', g))
            if sum(s[k, gr[k]] for k in range(K)) > best:
                bad.append(('greedy-above-optimal', g))
        yield 'all-%d-grids-optimal-is-maximal' % len(grids), sp._f(not bad)

    return Instance('C15', PA + '_mapping_from_score_matrix', 'K%d-int-grid-exhaustive' % K, make, call, ensures,
                    crosscheck=False, native_n=1, weight=30)


def score_matrix_instance(metric, K, F, T):
    """The score matrix IS the named similarity of reference row and estimate row: S[f, k_ref, k_est] = sim(ref[k_ref, f], mask[k_est, f]).
    With 'optimal attains the maximum over all permutations' (above) and 'apply_mapping indexes rows by the mapping' (C14) these are the
    hypotheses of lean/Oracle.lean, which gives the inversion for every K and T."""
    from pb_bss import permutation_alignment as pa
    TINY_ = float(np.finfo(np.float64).tiny)

    def make(B):
        sp = B.sp
        inp = {'mask': B.real('m', (K, F, T), lo=0.0, dist=(0.0, 1.0)), 'ref': B.real('r', (K, F, T), lo=0.0, dist=(0.0, 1.0))}
        if metric == 'cos':
            for name in ('mask', 'ref'):
                c = cells(inp[name])
                for k in range(K):
                    for f in range(F):
                        B.require('row-nonzero', sp.gt(sp.sum(c[k, f, t] * c[k, f, t] for t in range(T)), 0.0))
        return inp

    def call(inp):
        return pa._ScoreMatrix.from_name(metric)(inp['mask'], inp['ref'])

    def ensures(sp, inp, out):
        yield 'shape', sp._f(shape_of(out) == (F, K, K))
        if shape_of(out) != (F, K, K):
            return
        S_, m, r = cells(out), cells(inp['mask']), cells(inp['ref'])
        for f in range(F):
            for i in range(K):          # reference class
                for j in range(K):      # estimate class
                    dot = sp.sum(r[i, f, t] * m[j, f, t] for t in range(T))
                    if metric == 'multiply':
                        yield 'score-is-the-inner-product[f=%d,ref=%d,est=%d]' % (f, i, j), sp.eq(S_[f, i, j], dot)
                    elif metric == 'euclidean':
                        d2 = sp.sum((m[j, f, t] - r[i, f, t]) * (m[j, f, t] - r[i, f, t]) for t in range(T))
                        yield 'score-is-minus-the-distance[f=%d,ref=%d,est=%d]' % (f, i, j), sp.and_(sp.le(S_[f, i, j], 0.0), sp.eq(S_[f, i, j] * S_[f, i, j], d2))
                    else:
                        nm = sp.max(sp.sqrt(sp.sum(m[j, f, t] * m[j, f, t] for t in range(T))), TINY_)
                        nr = sp.max(sp.sqrt(sp.sum(r[i, f, t] * r[i, f, t] for t in range(T))), TINY_)
                        yield 'score-is-the-cosine[f=%d,ref=%d,est=%d]' % (f, i, j), sp.eq(S_[f, i, j] * nm * nr, dot)

    return Instance('C15', PA + '_ScoreMatrix.%s' % metric, 'K%dF%dT%d-score-matrix-is-the-named-similarity' % (K, F, T), make, call, ensures,
                    timeout=30.0, weight=K * K * F)


def oracle_instance(K, F, T, metric, algorithm, perm_field, two_d=False):
    """Oracle aligner applied to a per-frequency permutation of a symbolic reference returns the reference."""
    from pb_bss import permutation_alignment as pa
    pf = np.array(perm_field, dtype=np.int64).reshape(K, F)      # mask[k, f] = ref[pf[k, f], f]

    def make(B):
        sp = B.sp
        shape = (K, T) if two_d else (K, F, T)
        ref = B.real('r', shape, lo=0.0, dist=(0.0, 1.0))
        r = cells(ref)
        for f in range(F):
            rows = [[r[(k, t) if two_d else (k, f, t)] for t in range(T)] for k in range(K)]
            if metric == 'cos':
                # distinct normalised rows: non-zero rows that are not positive multiples of each other
                for a in range(K):
                    B.require('row-nonzero', sp.gt(sp.sum(x * x for x in rows[a]), 0.0))
                for a in range(K):
                    for b in range(a + 1, K):
                        aa = sp.sum(x * x for x in rows[a])
                        bb = sp.sum(x * x for x in rows[b])
                        ab = sp.sum(x * y for x, y in zip(rows[a], rows[b]))
                        B.require('rows-not-parallel', sp.gt(aa * bb - ab * ab, 0.0))
            else:
                for a in range(K):
                    for b in range(a + 1, K):
                        B.require('rows-distinct', sp.any(sp.ne(x, y) for x, y in zip(rows[a], rows[b])))
        if two_d:
            mask = ref[pf[:, 0]]
        else:
            mask = ref[pf, np.arange(F)]
        return {'ref': ref, 'mask': mask}

    def call(inp):
        al = pa.OraclePermutationAlignment(similarity_metric=metric, algorithm=algorithm)
        if two_d:
            mapping = al.calculate_mapping(inp['mask'], inp['ref'])
            return inp['mask'][mapping]
        return al(inp['mask'], inp['ref'])

    def ensures(sp, inp, out):
        shape = (K, T) if two_d else (K, F, T)
        yield 'shape', sp._f(shape_of(out) == shape)
        if shape_of(out) != shape:
            return
        g, r = cells(out), cells(inp['ref'])
        for i in np.ndindex(*shape[:-1]):
            yield 'row-restored[%s]' % (i,), sp.all(sp.eq(g[i + (t,)], r[i + (t,)]) for t in range(T))

    name = 'K%dF%dT%d-%s-%s-perm%s%s' % (K, F, T, metric, algorithm, ''.join(map(str, pf.reshape(-1))), '-global2d' if two_d else '')
    return Instance('C15', PA + 'OraclePermutationAlignment.calculate_mapping', name, make, call, ensures,
                    max_paths=3000, timeout=30.0, crosscheck=False, check_feasible=False, weight=K ** 3 * F,
                    shard_depth=2 if K >= 3 else 0, frame=False)


def lsa_bounded_instance():
    """K <= 6 against scipy.optimize.linear_sum_assignment (bounded stand-in)."""
    from pb_bss import permutation_alignment as pa

    def make(B):
        K = B.choose('K', [1, 2, 3, 4, 5, 6])
        kind = B.choose('kind', ['normal', 'ties'])
        if kind == 'normal':
            s = B.real('s', (K, K))
        else:
            s = np.array(B.real('s', (K, K), dist=lambda r: float(r.randrange(0, 3))))
        return {'score': s, 'K': K}

    def call(inp):
        return {'optimal': pa._mapping_from_score_matrix(inp['score'], 'optimal'),
                'greedy': pa._mapping_from_score_matrix(inp['score'], 'greedy')}

    def ensures(sp, inp, out):
        from scipy.optimize import linear_sum_assignment
        K, s = inp['K'], np.asarray(inp['score'])
        opt, gr = np.asarray(out['optimal']), np.asarray(out['greedy'])
        yield 'permutations', sorted(opt.tolist()) == list(range(K)) and sorted(gr.tolist()) == list(range(K))
        r, c = linear_sum_assignment(-s)
        best = s[r, c].sum()
        yield 'optimal-equals-linear-sum-assignment-optimum', sp.eq(s[np.arange(K), opt].sum(), best)
        yield 'greedy<=optimal', sp.le(s[np.arange(K), gr].sum(), best)

    return Instance('C15', PA + '_mapping_from_score_matrix', 'bounded-K1..6-vs-linear_sum_assignment', make, call, ensures,
                    mode='bounded', bounded_n=300)


def oracle_bounded_instance():
    from pb_bss import permutation_alignment as pa

    def make(B):
        K = B.choose('K', [2, 3, 4, 5, 6])
        F = B.choose('F', [1, 3, 5])
        T = B.choose('T', [2, 3, 8])
        metric = B.choose('metric', ['cos', 'euclidean', 'multiply'])
        alg = B.choose('alg', ['optimal', 'greedy'])
        flat = B.choose('flat', [False, True, True])        # True: frequency and time flattened, one global permutation
        if flat:
            F = 1
        ref = np.array(B.real('r', (K, F, T), dist=(0.05, 1.0)))
        field = np.zeros((K, F), dtype=int)
        for f in range(F):
            col = B.rng.sample(range(K), K)
            for k in range(K):
                key = '#pf_%d_%d' % (k, f)
                field[k, f] = int(B.env[key]) if key in B.env else col[k]
                B.used_env[key] = int(field[k, f])
        mask = ref[field, np.arange(F)]
        history = B.choose('history', [0, 0, 11, 12, 13])
        if flat:
            return {'ref': ref[:, 0, :], 'mask': mask[:, 0, :], 'metric': metric, 'alg': alg, 'flat': True, 'soft': True, 'history': history}
        return {'ref': ref, 'mask': mask, 'metric': metric, 'alg': alg, 'flat': False, 'soft': True, 'history': history}

    def call(inp):
        al = pa.OraclePermutationAlignment(inp['metric'], inp['alg'])
        mask, ref = np.array(inp['mask'], copy=True), np.array(inp['ref'], copy=True)      # the library gets its own copies
        if inp['soft']:
            mask, ref = mask.astype(np.float64), ref.astype(np.float64)
        if inp.get('history'):
            # the same aligner object and the same buffers served an unrelated scene before; the buffers are refilled in place
            rng = np.random.RandomState(int(inp['history']))
            real_mask, real_ref = mask, ref
            ref = rng.uniform(0.05, 1.0, size=real_ref.shape)
            mask = np.ascontiguousarray(ref[::-1])
            if inp['flat']:
                mask[al.calculate_mapping(mask, ref)]
            else:
                al(mask, ref)
            np.copyto(ref, real_ref)
            np.copyto(mask, real_mask)
        m0, r0 = mask.copy(), ref.copy()
        if inp['flat']:
            res = mask[al.calculate_mapping(mask, ref)]
        else:
            res = al(mask, ref)
        return {'res': np.asarray(res), 'pristine_ref': r0, 'untouched': bool(np.array_equal(mask, m0) and np.array_equal(ref, r0))}

    def ensures(sp, inp, out):
        yield 'reference-restored-exactly', bool(np.array_equal(out['res'], out['pristine_ref']))
        yield 'arguments-untouched', out['untouched']

    return Instance('C15', PA + 'OraclePermutationAlignment.calculate_mapping', 'bounded-oracle-inversion', make, call, ensures,
                    mode='bounded', bounded_n=300, frame=False)


def int_types_bounded_instance():
    """Score matrices of every signed integer element type with entries up to the ends of the type's range: the totals of the
    optimal search are mathematical integers, not numbers of the element type."""
    from pb_bss import permutation_alignment as pa

    def make(B):
        return {'K': B.choose('K', [2, 3, 4, 5]), 'dt': B.choose('dt', ['int8', 'int16', 'int32', 'int64']),
                'seed': B.choose('seed', list(range(4000))), 'd': B.given('d', np.zeros(1))}

    def call(inp):
        rng = np.random.RandomState(inp['seed'])
        K, dt = inp['K'], np.dtype(inp['dt'])
        info = np.iinfo(dt)
        hi = min(int(info.max), 2 ** 40)
        lo = max(int(info.min), -2 ** 40)
        kind = inp['seed'] % 3
        if kind == 0:
            s = rng.randint(lo // 1, hi, size=(K, K), dtype=np.int64)
        elif kind == 1:
            s = rng.randint(hi // 2, hi, size=(K, K), dtype=np.int64)           # every total leaves the range of a small type
        else:
            s = rng.randint(0, 3, size=(K, K), dtype=np.int64) * (hi // 2)
        s = s.astype(dt)
        # any memory layout of the score matrix (column-major, the transposed view of a matrix computed the other way round)
        lay = (inp['seed'] // 3) % 3
        if lay == 1:
            s = np.asfortranarray(s)
        elif lay == 2:
            s = np.ascontiguousarray(s.T).T
        s0 = s.copy()
        res = {'optimal': pa._mapping_from_score_matrix(s, 'optimal'), 'greedy': pa._mapping_from_score_matrix(s, 'greedy'),
               'score': s0, 'untouched': bool(np.array_equal(s, s0) and s.dtype == dt)}
        # hard masks of a small integer type (or bool) through the oracle aligner: the inner products go up to T = 400, beyond int8,
        # with one dominant class for every other seed
        T = int(rng.randint(K + 1, 400))
        lab = rng.randint(0, K, size=T)
        if inp['seed'] % 2:
            lab[rng.rand(T) < 0.8] = 0
        lab[:K] = np.arange(K)
        mdt = np.dtype(bool) if inp['seed'] % 5 == 0 else dt
        ref = np.stack([(lab == k) for k in range(K)]).astype(mdt)[:, None, :]            # (K, 1, T)
        perm = rng.permutation(K)
        al = pa.OraclePermutationAlignment('multiply', ['optimal', 'greedy'][inp['seed'] % 2])
        est = ref[perm].copy()
        if (inp['seed'] // 7) % 2:
            # estimate and reference in different memory layouts: the estimate is the (K, F, T) view of an (F, K, T) array
            est = np.ascontiguousarray(np.transpose(est, (1, 0, 2))).transpose(1, 0, 2)
        res['oracle'] = (np.asarray(al(est, ref.copy())), ref)
        return res

    def ensures(sp, inp, out):
        from scipy.optimize import linear_sum_assignment
        K = inp['K']
        s = np.asarray(out['score']).astype(object)                # exact integer arithmetic
        opt, gr = np.asarray(out['optimal']), np.asarray(out['greedy'])
        yield 'permutations', sorted(opt.tolist()) == list(range(K)) and sorted(gr.tolist()) == list(range(K))
        best = max(sum(s[i, p[i]] for i in range(K)) for p in itertools.permutations(range(K)))
        yield 'optimal-attains-the-maximum-total-over-all-permutations', sum(s[i, opt[i]] for i in range(K)) == best
        r, c = linear_sum_assignment(-np.asarray(out['score'], dtype=np.float64))
        yield 'optimal-equals-linear-sum-assignment-optimum', abs(float(best) - float(np.asarray(out['score'], dtype=np.float64)[r, c].sum())) <= 1e-9 * max(1.0, abs(float(best)))
        yield 'greedy<=optimal', sum(s[i, gr[i]] for i in range(K)) <= best
        yield 'score-matrix-untouched', out['untouched']
        got, ref = out['oracle']
        yield 'oracle-restores-integer-reference', bool(np.array_equal(got, ref))

    return Instance('C15', PA + '_mapping_from_score_matrix', 'bounded-integer-element-types', make, call, ensures,
                    mode='bounded', bounded_n=200, frame=False)


def instances(tier):
    th = tier == 'thorough'
    out = []
    for K in (1, 2, 3):          # K = 4: 1.6e5 paths x 24 permutations = 4e6 obligations, beyond any budget; K <= 6 is bounded below
        out.append(optimal_vs_all_instance(K))
    out.append(int_grid_instance(2))
    out.append(int_grid_instance(3))
    perms2, perms3 = list(itertools.permutations(range(2))), list(itertools.permutations(range(3)))
    for alg in ('optimal', 'greedy'):
        for p in perms2:
            out.append(oracle_instance(2, 1, 2, 'multiply', alg, np.array([p]).T))
            out.append(oracle_instance(2, 1, 2, 'euclidean', alg, np.array([p]).T))
            out.append(oracle_instance(2, 1, 2, 'cos', alg, np.array([p]).T))
        for p in perms3:
            out.append(oracle_instance(3, 1, 2, 'multiply', alg, np.array([p]).T))
    # F = 3, K = 2: all 8 permutation fields
    for cols in itertools.product(perms2, repeat=3):
        out.append(oracle_instance(2, 3, 2, 'multiply', 'optimal', np.array(cols).T))
    # global permutation with frequency and time flattened into one vector axis
    for p in perms2:
        out.append(oracle_instance(2, 1, 3, 'multiply', 'optimal', np.array([p]).T, two_d=True))
    for p in perms3:
        out.append(oracle_instance(3, 1, 2, 'multiply', 'optimal', np.array([p]).T, two_d=True))
    if th:
        for p in perms3:
            out.append(oracle_instance(3, 1, 3, 'multiply', 'greedy', np.array([p]).T))
    for metric in ('multiply', 'euclidean', 'cos'):
        out.append(score_matrix_instance(metric, 2, 2, 2))
        out.append(score_matrix_instance(metric, 3, 1, 2))
    from .common import lemma_instance
    out.append(lemma_instance('C15', 'oracle', 'lemma:any-maximal-assignment-restores-the-reference-for-every-K'))
    out.append(lsa_bounded_instance())
    out.append(oracle_bounded_instance())
    out.append(int_types_bounded_instance())
    return out
