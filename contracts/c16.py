"""C16 - blind alignment restores a frequency-consistent class order."""
import itertools
import json
import os
import time

import numpy as np

from pbv.instance import Instance
from pbv.spec import cells, shape_of

META = {
    'level': 'exploration',
    'min_obligations': 1,
    'explanation': 'DHTV alignment plan, UNBOUNDED: the AST of the real alignment_plan getter is interpreted over mathematical integers and '
                   'symbolic-length lists on every run (pbv/intvc.py) and z3 discharges, for every stft size / start / width / shift with '
                   'shift <= width: every bin is covered, every segment lies inside the band, iteration counts, ValueError exactly when '
                   'start + width exceeds the band, no IndexError (interleave by an assumed permutation contract, checked bounded). '
                   'Also: exhaustive enumeration of every configuration with STFT size <= 64 (coverage for '
                   'shift <= width, documented ValueError, 2/3 overlap for shift <= width/3 and the two shipped defaults); '
                   'net-reordering clause: calculate_mapping of both aligners equals an independent loop-level transcription '
                   'of the documented procedure on continuous random masks (bounded); restoration on jittered near-orthogonal '
                   'patterns and identity on consistent masks (bounded).  No unbounded proof is claimed for this property.',
}
PA = 'pb_bss.permutation_alignment:'


def plan_exhaustive_instance(max_stft=64, lo=1):
    """All (stft_size, start, width, shift) with stft_size in lo..max_stft: exhaustive."""
    from pb_bss import permutation_alignment as pa

    def make(B):
        return {'d': B.given('d', np.zeros(1))}

    def call(inp):
        bad = []
        n = n_cov = n_err = n_third = 0
        for stft in range(lo, max_stft + 1):
            F = stft // 2 + 1
            for start in range(0, F + 1):
                for width in range(1, F + 2):
                    for shift in range(1, width + 1):
                        n += 1
                        al = pa.DHTVPermutationAlignment(stft_size=stft, segment_start=start, segment_width=width, segment_shift=shift,
                                                         main_iterations=3, sub_iterations=2)
                        try:
                            plan = al.alignment_plan
                        except ValueError:
                            n_err += 1
                            if not start + width > F:
                                bad.append(('unexpected ValueError', stft, start, width, shift))
                            continue
                        if start + width > F:
                            bad.append(('missing ValueError', stft, start, width, shift))
                            continue
                        n_cov += 1
                        covered = np.zeros(F, dtype=bool)
                        ok_overlap = True
                        for i, (it, a, b) in enumerate(plan):
                            if not (0 <= a < b <= F):
                                bad.append(('segment out of range', stft, start, width, shift))
                                break
                            if i > 0 and 3 * shift <= width:
                                # every later segment overlaps the already aligned band by at least two thirds of its width
                                ov = int(covered[a:b].sum())
                                if 3 * ov < 2 * min(width, b - a):
                                    ok_overlap = False
                            covered[a:b] = True
                        if not covered.all():
                            bad.append(('bins not covered', stft, start, width, shift, np.nonzero(~covered)[0][:5].tolist()))
                        if plan[0][0] != 3 or any(p[0] != 2 for p in plan[1:]):
                            bad.append(('iteration counts', stft, start, width, shift))
                        if 3 * shift <= width:
                            n_third += 1
                            if not ok_overlap:
                                bad.append(('overlap below two thirds', stft, start, width, shift))
        return {'n': n, 'covered': n_cov, 'errors': n_err, 'third': n_third, 'bad': bad[:10], 'nbad': len(bad)}

    def ensures(sp, inp, out):
        yield 'every-configuration-covers-all-bins-or-raises[%d configurations]' % out['n'], sp._f(out['nbad'] == 0)
        yield 'enumeration-non-trivial', sp._f(out['covered'] > 1000 and out['errors'] > 1000 and out['third'] > 100)

    return Instance('C16', PA + 'DHTVPermutationAlignment.alignment_plan', 'exhaustive-stft%d..%d' % (lo, max_stft), make, call, ensures,
                    crosscheck=False, native_n=0, weight=100, wall=800)


def defaults_instance():
    from pb_bss import permutation_alignment as pa

    def make(B):
        return {'d': B.given('d', np.zeros(1))}

    def call(inp):
        res = {s: pa.DHTVPermutationAlignment.from_stft_size(s).alignment_plan for s in (512, 1024)}
        # the option of the shipped defaults reaches the aligner: metric stored and the score function in use is the one it names
        opt = {}
        for s in (512, 1024):
            for metric in ('cos', 'euclidean', 'multiply'):
                al = pa.DHTVPermutationAlignment.from_stft_size(s, similarity_metric=metric)
                want = getattr(pa._ScoreMatrix, 'multiply' if metric == 'cos' else metric)
                opt[(s, metric)] = (al.similarity_metric, getattr(al.get_score_matrix, '__func__', al.get_score_matrix) is getattr(want, '__func__', want),
                                    al.alignment_plan == res[s])
        res['options'] = opt
        return res

    def ensures(sp, inp, out):
        for (s, metric), (stored, same_fn, same_plan) in out.pop('options').items():
            yield 'default-%d-forwards-similarity-metric[%s]' % (s, metric), sp._f(stored == metric and bool(same_fn) and bool(same_plan))
        for s, plan in out.items():
            F = s // 2 + 1
            covered = np.zeros(F, dtype=bool)
            ok = True
            for i, (it, a, b) in enumerate(plan):
                if i > 0 and 3 * int(covered[a:b].sum()) < 2 * 100:
                    ok = False
                covered[a:b] = True
            yield 'default-%d-covers-all-bins' % s, sp._f(bool(covered.all()))
            yield 'default-%d-two-thirds-overlap' % s, sp._f(ok)
            yield 'default-%d-main-segment-first' % s, sp._f(plan[0][0] == 20 and all(p[0] == 2 for p in plan[1:]))

    return Instance('C16', PA + 'DHTVPermutationAlignment.from_stft_size', 'shipped-defaults-512-1024', make, call, ensures, crosscheck=False, native_n=0)


# ----------------------------------------------------------------------------- independent transcriptions of the procedures
def _norm_rows(a):
    n = np.linalg.norm(a, axis=-1, keepdims=True)
    return a / np.maximum(n, np.finfo(n.dtype).tiny)


def _score(metric, mask_f, ref_f):
    """score[k_ref, k_est] between rows of mask_f (estimates) and ref_f (prototypes), shapes (K, T)."""
    K = mask_f.shape[0]
    s = np.zeros((K, K))
    for kr in range(K):
        for ke in range(K):
            if metric == 'euclidean':
                s[kr, ke] = -np.sqrt(np.sum(np.abs(mask_f[ke] - ref_f[kr]) ** 2))
            elif metric == 'cos':
                s[kr, ke] = np.sum(_norm_rows(mask_f)[ke] * _norm_rows(ref_f)[kr])
            else:
                s[kr, ke] = np.sum(mask_f[ke] * ref_f[kr])
    return s


def _assign(score, algorithm):
    K = score.shape[0]
    if algorithm == 'optimal':
        best, bp = -np.inf, None
        for p in itertools.permutations(range(K)):
            v = sum(score[k, p[k]] for k in range(K))
            if v > best:
                best, bp = v, p
        return np.array(bp)
    s = score.copy()
    out = np.zeros(K, dtype=int)
    for _ in range(K):
        i, j = np.unravel_index(np.argmax(s), s.shape)
        s[i, :] = -np.inf
        s[:, j] = -np.inf
        out[i] = j
    return out


def greedy_transcription(mask, metric):
    """chain of adjacent-bin greedy assignments (the commented loop in the library documentation)"""
    K, F, T = mask.shape
    mapping = np.zeros((K, F), dtype=int)
    mapping[:, 0] = np.arange(K)
    for f in range(1, F):
        m = _assign(_score(metric, mask[:, f], mask[:, f - 1]), 'greedy')
        mapping[:, f] = m[mapping[:, f - 1]]
    return mapping


def dhtv_transcription(mask, plan, metric, algorithm):
    K, F, T = mask.shape
    feats = _norm_rows(mask) if metric == 'cos' else mask.astype(float).copy()
    mapping = np.tile(np.arange(K)[:, None], (1, F))
    m2 = 'multiply' if metric == 'cos' else metric
    for iters, a, b in plan:
        for _ in range(iters):
            cen = feats[:, a:b].mean(axis=1)
            if metric == 'cos':
                cen = _norm_rows(cen)
            changed = False
            for f in range(a, b):
                rp = _assign(_score(m2, feats[:, f], cen), algorithm)
                if not np.array_equal(rp, np.arange(K)):
                    changed = True
                    feats[:, f] = feats[rp, f]
                    mapping[:, f] = mapping[rp, f]
            if not changed:
                break
    return mapping


def transcription_bounded_instance():
    from pb_bss import permutation_alignment as pa

    def make(B):
        return {'K': B.choose('K', [1, 2, 3, 4, 5]), 'F': B.choose('F', [1, 3, 5, 9, 17, 33, 61]), 'T': B.choose('T', [1, 2, 5, 12]),
                'which': B.choose('which', ['greedy', 'dhtv', 'dhtv']), 'metric': B.choose('metric', ['cos', 'euclidean', 'multiply']),
                'alg': B.choose('alg', ['greedy', 'optimal']), 'seed': B.choose('seed', list(range(5000))), 'd': B.given('d', np.zeros(1))}

    def call(inp):
        rng = np.random.RandomState(inp['seed'])
        K, F, T = inp['K'], inp['F'], inp['T']
        mask = rng.uniform(0.05, 1.0, size=(K, F, T))
        if inp['which'] == 'greedy':
            al = pa.GreedyPermutationAlignment(similarity_metric=inp['metric'])
            return {'mapping': al.calculate_mapping(mask.copy()), 'expected': greedy_transcription(mask, inp['metric']), 'mask': mask,
                    'aligned': al(mask.copy())}
        stft = 2 * (F - 1)
        if F == 1:
            stft = 1
        width = int(rng.randint(1, F + 1))
        start = int(rng.randint(0, F - width + 1))
        shift = int(rng.randint(1, width + 1))
        al = pa.DHTVPermutationAlignment(stft_size=stft, segment_start=start, segment_width=width, segment_shift=shift,
                                         main_iterations=int(rng.randint(1, 6)), sub_iterations=int(rng.randint(1, 3)),
                                         similarity_metric=inp['metric'], algorithm=inp['alg'])
        return {'mapping': al.calculate_mapping(mask.copy()), 'expected': dhtv_transcription(mask, al.alignment_plan, inp['metric'], inp['alg']),
                'mask': mask, 'aligned': al(mask.copy())}

    def ensures(sp, inp, out):
        mp, ex, mask = np.asarray(out['mapping']), out['expected'], out['mask']
        yield 'mapping-is-the-accumulated-net-reordering-of-the-procedure', bool(np.array_equal(mp, ex))
        yield 'applying-the-mapping-reproduces-the-aligned-mask', bool(np.array_equal(np.asarray(out['aligned']), mask[mp, np.arange(mask.shape[1])]))

    return Instance('C16', PA + 'calculate_mapping', 'bounded-transcription-equality', make, call, ensures, mode='bounded', bounded_n=400, frame=False)


def production_size_bounded_instance():
    """Recordings of production size (hundreds of bins, thousands of frames, up to 6 classes: tens of millions of score-matrix entries):
    the greedy aligner still follows the bin-by-bin chain of adjacent-bin assignments over the WHOLE band and restores one class order.
    (The families above use small tensors; anything that depends on the size of the input -- blocking, chunking, caches -- shows only here.)"""
    from pb_bss import permutation_alignment as pa

    def make(B):
        return {'shape': B.choose('shape', [(4, 513, 1500), (6, 257, 1000), (3, 1025, 1200), (5, 129, 4000)]), 'metric': B.choose('metric', ['cos', 'multiply', 'euclidean']),
                'seed': B.choose('seed', list(range(5000))), 'd': B.given('d', np.zeros(1))}

    def call(inp):
        rng = np.random.RandomState(inp['seed'])
        K, F, T = inp['shape']
        owner = rng.randint(0, K, size=T)
        owner[:K] = np.arange(K)
        ref = (owner[None, None, :] == np.arange(K)[:, None, None]) * 0.9 + 0.05
        ref = ref + 0.02 * rng.uniform(size=(K, F, T))
        field = np.stack([rng.permutation(K) for _ in range(F)], axis=1)
        mask = ref[field, np.arange(F)]
        al = pa.GreedyPermutationAlignment(similarity_metric=inp['metric'])
        mp = np.asarray(al.calculate_mapping(mask))
        return {'mapping': mp, 'expected': greedy_transcription(mask, inp['metric']), 'field': field}

    def ensures(sp, inp, out):
        mp, field = out['mapping'], out['field']
        yield 'mapping-is-the-chain-of-adjacent-bin-assignments-over-the-whole-band[%s]' % (tuple(inp['shape']),), bool(np.array_equal(mp, out['expected']))
        comp = field[mp, np.arange(field.shape[1])]
        yield 'class-order-constant-over-frequency', bool(np.all(comp == comp[:, :1]))

    return Instance('C16', PA + 'GreedyPermutationAlignment.calculate_mapping', 'bounded-production-size', make, call, ensures, mode='bounded', bounded_n=3, frame=False)


def restoration_bounded_instance():
    from pb_bss import permutation_alignment as pa

    def make(B):
        return {'K': B.choose('K', [2, 3, 4]), 'F': B.choose('F', [9, 17, 33, 65, 129, 257, 513]), 'T': B.choose('T', [8, 16, 40]),
                'which': B.choose('which', ['greedy', 'dhtv', 'dhtv-default', 'identity']), 'seed': B.choose('seed', list(range(5000))),
                'd': B.given('d', np.zeros(1))}

    def call(inp):
        rng = np.random.RandomState(inp['seed'])
        K, F, T, which = inp['K'], inp['F'], inp['T'], inp['which']
        if which == 'dhtv-default':
            F = int(rng.choice([257, 513]))
        # near-orthogonal activity patterns: disjoint supports plus a small floor (pairwise cosine <= 0.1)
        owner = np.arange(T) % K
        rng.shuffle(owner)
        base = np.full((K, T), 0.02)
        for k in range(K):
            base[k, owner == k] = 1.0
        jitter = 1 + 0.1 * (2 * rng.rand(K, F, T) - 1)
        ref = base[:, None, :] * jitter
        field = np.stack([rng.permutation(K) for _ in range(F)], axis=1)
        if which == 'identity':
            field = np.tile(np.arange(K)[:, None], (1, F))
        if which == 'greedy' or which == 'identity':
            al = pa.GreedyPermutationAlignment(similarity_metric=str(rng.choice(['cos', 'euclidean'])))
        else:
            if which == 'dhtv-default':
                al = pa.DHTVPermutationAlignment.from_stft_size(2 * (F - 1))
            else:
                width = max(3, F // 3)
                al = pa.DHTVPermutationAlignment(stft_size=2 * (F - 1), segment_start=(F - width) // 2, segment_width=width,
                                                 segment_shift=max(1, width // 3), main_iterations=20, sub_iterations=2)
            _, a, b = al.alignment_plan[0]
            # the clause is conditional on the plan: every later segment (after stretching to the band edges) overlaps the
            # already aligned band by at least two thirds; custom plans that do not are outside the property
            lo_, hi_ = a, b
            plan_ok = True
            for _, s_, e_ in al.alignment_plan[1:]:
                inter = max(0, min(e_, hi_) - max(s_, lo_))
                if inter * 3 < 2 * (e_ - s_):
                    plan_ok = False
                lo_, hi_ = min(lo_, s_), max(hi_, e_)
            if not plan_ok and which != 'dhtv-default':
                return {'mapping': None, 'field': field, 'which': 'plan-outside-the-overlap-condition'}
            default_plan_ok = plan_ok
            # at least 70 % of the bins of the first segment share one order
            maj = rng.permutation(K)
            idx = np.arange(a, b)
            rng.shuffle(idx)
            keep = idx[:int(np.ceil(0.75 * len(idx)))]
            field[:, keep] = maj[:, None]
        mask = ref[field, np.arange(F)]
        mapping = al.calculate_mapping(mask.copy())
        res = {'mapping': mapping, 'field': field, 'which': which}
        if which == 'dhtv-default':
            res['default_plan_ok'] = default_plan_ok
        return res

    def ensures(sp, inp, out):
        if out['mapping'] is None:
            yield 'not-applicable[%s]' % out['which'], True
            return
        if 'default_plan_ok' in out:
            yield 'shipped-default-plan-overlaps-the-aligned-band-by-two-thirds', bool(out['default_plan_ok'])
        mp, field = np.asarray(out['mapping']), out['field']
        comp = field[mp, np.arange(field.shape[1])]            # class order after alignment, per bin
        yield 'class-order-constant-over-frequency[%s]' % out['which'], bool(np.all(comp == comp[:, :1]))
        if out['which'] == 'identity':
            yield 'consistent-mask-identity-mapping', bool(np.all(mp == np.arange(mp.shape[0])[:, None]))

    return Instance('C16', PA + 'calculate_mapping', 'bounded-restoration', make, call, ensures, mode='bounded', bounded_n=150, frame=False)


# ----------------------------------------------------------------------------- unbounded: alignment_plan for EVERY stft size
# The AST of the real property getter is interpreted over mathematical integers and symbolic-length lists (pbv/intvc.py); the
# verification conditions are quantifier-free non-linear integer arithmetic, discharged by z3.
PLAN_FIELDS = ('stft_size', 'segment_start', 'segment_width', 'segment_shift', 'main_iterations', 'sub_iterations')


def _native_plan(fields):
    from pb_bss import permutation_alignment as pa
    al = pa.DHTVPermutationAlignment(**{k: int(fields[k]) for k in PLAN_FIELDS})
    try:
        return 'ok', al.alignment_plan
    except Exception as e:  # noqa
        return 'exc', e


def _native_plan_clauses(fields, f=None):
    """The same clauses evaluated on the real function at one configuration: list of failed clause names."""
    F = int(fields['stft_size']) // 2 + 1
    start, width = int(fields['segment_start']), int(fields['segment_width'])
    kind, plan = _native_plan(fields)
    failed = []
    if kind == 'exc':
        if not (isinstance(plan, ValueError) and start + width > F):
            failed.append('raises-only-the-documented-ValueError')
        return failed, repr(plan)
    if start + width > F:
        failed.append('documented-ValueError-raised')
    cov = np.zeros(F, dtype=bool)
    for i, seg in enumerate(plan):
        it, a, b = seg
        if not (0 <= a < b <= F):
            failed.append('segments-inside-the-band')
        cov[max(a, 0):max(b, 0)] = True
        if it != (fields['main_iterations'] if i == 0 else fields['sub_iterations']):
            failed.append('iteration-counts')
    if not cov.all():
        failed.append('every-bin-covered')
    return sorted(set(failed)), plan


def plan_vc_run(inst, tier, seed, replay_dir):
    import z3
    from pbv import intvc as V
    from pb_bss import permutation_alignment as pa
    t0 = time.time()
    budget_ms = 60000 if tier == 'thorough' else 20000
    rep = {'key': inst.key, 'prop': inst.prop, 'func': inst.func, 'name': inst.name, 'obligations': [], 'paths': 0,
           'infeasible': 0, 'undecided': [], 'violations': [], 'assumptions': [], 'crosscheck': {'samples': 0, 'compared': 0, 'mismatch': []},
           'vacuity': {'valid_samples': 1, 'defs_checked': 0, 'defs_bad': []}, 'solver_time': 0.0, 'backends': {},
           'sample_obligation': None, 'error': None, 'tags': list(inst.tags)}

    def undecided_all(reason):
        rep['obligations'].append({'name': 'vc-generation', 'status': 'undecided', 'time': 0.0, 'backend': 'intvc', 'kind': 'ensures', 'nassert': 0})
        rep['undecided'].append({'obligation': 'vc-generation', 'reason': reason[:300]})
        rep['wall'] = round(time.time() - t0, 3)
        return rep

    ctx = V.Ctx()
    fld = {k: ctx.field(k) for k in PLAN_FIELDS}
    stft, start, width, shift = fld['stft_size'], fld['segment_start'], fld['segment_width'], fld['segment_shift']
    # the quantifier of the property: every configuration with shift <= width (sizes are natural numbers, segments non-empty)
    pre = [stft >= 0, start >= 0, width >= 1, shift >= 1, shift <= width]

    def feasible(path):
        r, _, dt = V.solve(pre + ctx.side + list(path), 5000)
        rep['solver_time'] += dt
        return r != 'unsat'

    def interleave_contract(interp, args):
        if not all(V._is_list_value(a) for a in args):
            raise V.Unsupported('interleave of non-lists')
        parts = []
        for a in args:
            parts += a.parts if isinstance(a, V.Bag) else [a]
        return V.Bag(parts, ordered=False)

    callees = {'interleave': {'apply': interleave_contract,
                              'assumption': 'interleave(*lists) yields exactly the elements of its arguments (a permutation of their concatenation): '
                                            'assumed in the plan proof, checked natively for all lists of length <= 5 (bounded) in the same instance'}}
    try:
        fn, src = V.function_ast(pa.DHTVPermutationAlignment.alignment_plan.fget)
        interp = V.Interp(ctx, pre, callees, feasible)
        rest = interp.run(fn.body, {}, [])
        if rest:
            raise V.Unsupported('a path falls off the end of the function')
    except V.Unsupported as e:
        return undecided_all('alignment_plan left the integer/list subset of pbv.intvc: %s' % e)
    rep['assumptions'] = sorted(ctx.assumed) + [
        'pbv.intvc: Python integers are mathematical; floor division and range() encoded with explicit quotient / remainder witnesses; '
        'list displays in a comprehension do not alias (syntactic check); the docstring and the f-string of the exception message are dropped']
    rep['paths'] = len(interp.results)
    F = stft / 2 + 1                      # z3 integer division by the positive literal 2 is floor division
    oblig = []                            # (name, hypotheses, goal, extra model vars)
    for name, path, goal in ctx.oblig:
        oblig.append((name, list(path), goal, []))
    n_ret = 0
    for pi, (path, (kind, val)) in enumerate(interp.results):
        tag = 'path%d' % pi
        if kind == 'raise':
            oblig.append(('raises-only-the-documented-ValueError[%s]' % tag, path, z3.BoolVal(val == 'ValueError'), []))
            oblig.append(('raises-only-when-start+width-exceeds-the-band[%s]' % tag, path, start + width > F, []))
            continue
        n_ret += 1
        oblig.append(('documented-ValueError-raised[%s]' % tag, path, start + width <= F, []))
        if not isinstance(val, V.Bag) or not val.parts or not isinstance(val.parts[0], list) or len(val.parts[0]) != 1:
            return undecided_all('the returned value is not [main segment] + <segments>')
        f = z3.Int('f')
        cover = []
        side = []
        for part_i, part in enumerate(val.parts):
            if isinstance(part, list):
                for seg in part:
                    if not (isinstance(seg, list) and len(seg) == 3):
                        return undecided_all('a segment is not a [iterations, start, end] triple')
                    cover.append(z3.And(seg[1] <= f, f < seg[2]))
                    first = part_i == 0
                    oblig.append(('segments-inside-the-band[%s,%s]' % (tag, 'main' if first else 'part%d' % part_i), path,
                                  z3.And(0 <= seg[1], seg[1] < seg[2], seg[2] <= F), []))
                    oblig.append(('iteration-counts[%s,%s]' % (tag, 'main' if first else 'part%d' % part_i), path,
                                  seg[0] == (fld['main_iterations'] if first else fld['sub_iterations']), []))
            elif isinstance(part, V.GenList):
                if part.arity != 3:
                    return undecided_all('a generated segment is not a triple')
                # ghost witnesses: the element whose generator value is nearest at or below f, the first and the last element
                q, r = ctx.new('w'), ctx.new('wr')
                mag = part.step if part.sign > 0 else -part.step
                if part.sign > 0:
                    side += [f - part.a0 == mag * q + r, r >= 0, r < mag]
                else:
                    side += [part.a0 - f + mag - 1 == mag * q + r, r >= 0, r < mag]
                for cand in (q, z3.IntVal(0), part.n - 1):
                    seg = part.elem(cand)
                    cover.append(z3.And(cand >= 0, cand < part.n, seg[1] <= f, f < seg[2]))
                i = z3.Int('i%d' % part_i)
                seg = part.elem(i)
                hyp_i = [i >= 0, i < part.n]
                oblig.append(('segments-inside-the-band[%s,part%d]' % (tag, part_i), path + hyp_i,
                              z3.And(0 <= seg[1], seg[1] < seg[2], seg[2] <= F), [('i', i)]))
                oblig.append(('iteration-counts[%s,part%d]' % (tag, part_i), path + hyp_i, seg[0] == fld['sub_iterations'], [('i', i)]))
            else:
                return undecided_all('unexpected part of the plan')
        oblig.append(('every-bin-covered[%s]' % tag, path + [f >= 0, f < F] + side, z3.Or(cover), [('f', f)]))
        # ---- cross-check of the interpretation against CPython on this path (guard, not an obligation)
        for k in range(6):
            rng = np.random.RandomState(seed * 131 + pi * 17 + k)
            hint = [stft == int(rng.randint(2, 200)), shift == int(rng.randint(1, 12))] if k % 2 == 0 else [stft <= 40 + 20 * k]
            r, m, dt = V.solve(pre + ctx.side + path + hint, 5000)
            if r != 'sat':
                r, m, dt = V.solve(pre + ctx.side + path, 5000)
            if r != 'sat':
                continue
            conc = V.model_fields(ctx, m)
            sym_plan = V.eval_value(m, val)
            kind_n, nat = _native_plan(conc)
            rep['crosscheck']['samples'] += 1
            if kind_n != 'ok' or sorted(map(list, nat)) != sorted(sym_plan) or list(nat[0]) != sym_plan[0]:
                rep['crosscheck']['mismatch'].append('alignment_plan at %s: CPython %r, interpreted %r' % (conc, nat, sym_plan))
            else:
                rep['crosscheck']['compared'] += len(sym_plan)
    if n_ret == 0:
        return undecided_all('no returning path is feasible under the precondition')
    # ---- the assumed callee contract, bounded
    tok = 0
    for la in range(6):
        for lb in range(6):
            a = [('a', i) for i in range(la)]
            b = [('b', i) for i in range(lb)]
            got = list(pa.interleave(a, b))
            tok += 1
            if sorted(got) != sorted(a + b):
                rep['obligations'].append({'name': 'callee-contract:interleave-keeps-every-element', 'status': 'failed', 'time': 0.0,
                                           'backend': 'native', 'kind': 'ensures', 'nassert': 1})
                rep['violations'].append(_plan_violation(inst, replay_dir, 'callee-contract:interleave-keeps-every-element',
                                                         {'lists': [la, lb]}, None, 'interleave(%r, %r) = %r' % (a, b, got), True))
                rep['wall'] = round(time.time() - t0, 3)
                return rep
    # ---- discharge
    for name, hyps, goal, extra in oblig:
        q = pre + ctx.side + list(hyps) + [z3.Not(goal)]
        r, m, dt = V.solve(q, budget_ms)
        rep['solver_time'] += dt
        ob = {'name': name, 'status': None, 'time': round(dt, 3), 'backend': 'z3-nia', 'kind': 'ensures', 'nassert': len(q)}
        if r == 'unsat':
            ob['status'] = 'discharged'
            rep['backends']['z3-nia(intvc)'] = rep['backends'].get('z3-nia(intvc)', 0) + 1
            if rep['sample_obligation'] is None and name.startswith('every-bin-covered'):
                s = z3.Solver()
                s.add(*q)
                rep['sample_obligation'] = {'instance': inst.key, 'obligation': name, 'assertions': len(q), 'smt2_head': s.to_smt2()[:1500]}
        elif r == 'sat':
            conc = V.model_fields(ctx, m, extra)
            base = name.split('[')[0]
            failed, nat = _native_plan_clauses(conc, conc.get('f'))
            confirmed = base in failed or (base.startswith('definedness') and isinstance(nat, str)) \
                or (base.startswith('raises-only') and isinstance(nat, str) and 'raises-only-the-documented-ValueError' in failed)
            if not confirmed:
                # the configuration of the model does not fail natively: look for a small configuration that does
                found = _search_small_plan_failure(base)
                if found is not None:
                    conc, nat, confirmed = found[0], found[1], True
            if confirmed:
                ob['status'] = 'failed'
                s = z3.Solver()
                s.add(*q)
                rep['violations'].append(_plan_violation(inst, replay_dir, name, conc, s.to_smt2(), nat, True))
            else:
                ob['status'] = 'undecided'
                rep['undecided'].append({'obligation': name, 'reason': 'counter-model %s does not fail on the real function (encoding gap)' % conc})
        else:
            ob['status'] = 'undecided'
            rep['undecided'].append({'obligation': name, 'reason': 'z3 returned unknown within %d ms' % budget_ms})
        rep['obligations'].append(ob)
    # ---- vacuity canary: without shift <= width the coverage clause must be refutable
    canary = [c for c in oblig if c[0].startswith('every-bin-covered')]
    refutable = 0
    for name, hyps, goal, extra in canary:
        r, m, dt = V.solve([stft >= 0, start >= 0, width >= 1, shift >= 1] + ctx.side + list(hyps) + [z3.Not(goal)], 20000)
        rep['vacuity']['defs_checked'] += 1
        refutable += r == 'sat'
    if canary and not refutable:
        rep['vacuity']['defs_bad'].append('coverage canary: no coverage clause is refutable without shift <= width (vacuous encoding?)')
    rep['wall'] = round(time.time() - t0, 3)
    return rep


def _search_small_plan_failure(base):
    for stft in range(0, 41):
        F = stft // 2 + 1
        for start in range(0, F + 1):
            for width in range(1, F + 2):
                for shift in range(1, width + 1):
                    conc = {'stft_size': stft, 'segment_start': start, 'segment_width': width, 'segment_shift': shift,
                            'main_iterations': 7, 'sub_iterations': 3}
                    failed, nat = _native_plan_clauses(conc)
                    if base in failed:
                        return conc, nat
    return None


def _plan_violation(inst, replay_dir, name, conc, smt2, nat, confirmed):
    payload = {'property': inst.prop, 'function': inst.func, 'instance': inst.name, 'obligation': name, 'kind': 'intvc',
               'solver': 'z3-nia', 'inputs': conc, 'native_outcome': repr(nat)[:2000], 'reproduced_by': 'solver model / small-configuration search',
               'smt2': (smt2 or '')[:200000]}
    viol = {'obligation': name, 'kind': 'ensures', 'confirmed': confirmed, 'replay': None, 'no_input': not confirmed, 'has_uf': False,
            'backend': 'z3-nia', 'exception': None, 'engine_origin': False}
    if replay_dir:
        os.makedirs(replay_dir, exist_ok=True)
        fn = os.path.join(replay_dir, 'alignment_plan__%s.json' % ''.join(ch if ch.isalnum() else '_' for ch in name)[:120])
        with open(fn, 'w') as fh:
            json.dump(payload, fh, indent=1)
        viol['replay'] = fn
    return viol


def plan_vc_replay(payload):
    conc = payload['inputs']
    if 'lists' in conc:
        from pb_bss import permutation_alignment as pa
        a = [('a', i) for i in range(conc['lists'][0])]
        b = [('b', i) for i in range(conc['lists'][1])]
        bad = sorted(pa.interleave(a, b)) != sorted(a + b)
        print('replay: interleave on lists of length %s: %s' % (conc['lists'], 'elements lost' if bad else 'ok'))
        return bad
    failed, nat = _native_plan_clauses(conc, conc.get('f'))
    print('replay of %s on the real alignment_plan at %s' % (payload['obligation'], {k: conc[k] for k in PLAN_FIELDS if k in conc}))
    print('  plan / outcome: %r' % (nat,))
    print('  failed clauses: %s' % failed)
    return bool(failed)


def plan_vc_instance():
    return Instance('C16', PA + 'DHTVPermutationAlignment.alignment_plan', 'unbounded-every-stft-size', None, None, None, mode='custom',
                    lemma={'run': plan_vc_run, 'replay': plan_vc_replay}, crosscheck=False, frame=False, weight=50, wall=600)


def instances(tier):
    th = tier == 'thorough'
    out = [plan_vc_instance()]
    # exhaustive plan enumeration, split by STFT size ranges so that it runs on several cores
    for lo, hi in ((1, 30), (31, 42), (43, 50), (51, 56), (57, 61), (62, 64)):
        out.append(plan_exhaustive_instance(hi, lo))
    out.append(defaults_instance())
    out.append(transcription_bounded_instance())
    out.append(restoration_bounded_instance())
    out.append(production_size_bounded_instance())
    return out
