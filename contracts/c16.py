"""C16 - blind alignment restores a frequency-consistent class order."""
import itertools

import numpy as np

from pbv.instance import Instance
from pbv.spec import cells, shape_of

META = {
    'level': 'exploration',
    'min_obligations': 1,
    'explanation': 'DHTV alignment plan: exhaustive enumeration of every configuration with STFT size <= 64 (coverage for '
                   'shift <= width, documented ValueError, 2/3 overlap for shift <= width/3 and the two shipped defaults); '
                   'net-reordering clause: calculate_mapping of both aligners equals an independent loop-level transcription '
                   'of the documented procedure on continuous random masks (bounded); restoration on jittered near-orthogonal '
                   'patterns and identity on consistent masks (bounded).  No unbounded proof is claimed for this property.',
}
PA = 'pb_bss.permutation_alignment:'


def plan_exhaustive_instance(max_stft=64, lo=1):
    """All (stft_size, start, width, shift) with stft_size in lo..max_stft: exhaustive."""
    from pb_bss import permutation_alignment as pa

    def make(B):
        return {'d': B.given('d', np.zeros(1))}

    def call(inp):
        bad = []
        n = n_cov = n_err = n_third = 0
        for stft in range(lo, max_stft + 1):
            F = stft // 2 + 1
            for start in range(0, F + 1):
                for width in range(1, F + 2):
                    for shift in range(1, width + 1):
                        n += 1
                        al = pa.DHTVPermutationAlignment(stft_size=stft, segment_start=start, segment_width=width, segment_shift=shift,
                                                         main_iterations=3, sub_iterations=2)
                        try:
                            plan = al.alignment_plan
                        except ValueError:
                            n_err += 1
                            if not start + width > F:
                                bad.append(('unexpected ValueError', stft, start, width, shift))
                            continue
                        if start + width > F:
                            bad.append(('missing ValueError', stft, start, width, shift))
                            continue
                        n_cov += 1
                        covered = np.zeros(F, dtype=bool)
                        ok_overlap = True
                        for i, (it, a, b) in enumerate(plan):
                            if not (0 <= a < b <= F):
                                bad.append(('segment out of range', stft, start, width, shift))
                                break
                            if i > 0 and 3 * shift <= width:
                                # every later segment overlaps the already aligned band by at least two thirds of its width
                                ov = int(covered[a:b].sum())
                                if 3 * ov < 2 * min(width, b - a):
                                    ok_overlap = False
                            covered[a:b] = True
                        if not covered.all():
                            bad.append(('bins not covered', stft, start, width, shift, np.nonzero(~covered)[0][:5].tolist()))
                        if plan[0][0] != 3 or any(p[0] != 2 for p in plan[1:]):
                            bad.append(('iteration counts', stft, start, width, shift))
                        if 3 * shift <= width:
                            n_third += 1
                            if not ok_overlap:
                                bad.append(('overlap below two thirds', stft, start, width, shift))
        return {'n': n, 'covered': n_cov, 'errors': n_err, 'third': n_third, 'bad': bad[:10], 'nbad': len(bad)}

    def ensures(sp, inp, out):
        yield 'every-configuration-covers-all-bins-or-raises[%d configurations]' % out['n'], sp._f(out['nbad'] == 0)
        yield 'enumeration-non-trivial', sp._f(out['covered'] > 1000 and out['errors'] > 1000 and out['third'] > 100)

    return Instance('C16', PA + 'DHTVPermutationAlignment.alignment_plan', 'exhaustive-stft%d..%d' % (lo, max_stft), make, call, ensures,
                    crosscheck=False, native_n=0, weight=100, wall=800)


def defaults_instance():
    from pb_bss import permutation_alignment as pa

    def make(B):
        return {'d': B.given('d', np.zeros(1))}

    def call(inp):
        res = {s: pa.DHTVPermutationAlignment.from_stft_size(s).alignment_plan for s in (512, 1024)}
        # the option of the shipped defaults reaches the aligner: metric stored and the score function in use is the one it names
        opt = {}
        for s in (512, 1024):
            for metric in ('cos', 'euclidean', 'multiply'):
                al = pa.DHTVPermutationAlignment.from_stft_size(s, similarity_metric=metric)
                want = getattr(pa._ScoreMatrix, 'multiply' if metric == 'cos' else metric)
                opt[(s, metric)] = (al.similarity_metric, getattr(al.get_score_matrix, '__func__', al.get_score_matrix) is getattr(want, '__func__', want),
                                    al.alignment_plan == res[s])
        res['options'] = opt
        return res

    def ensures(sp, inp, out):
        for (s, metric), (stored, same_fn, same_plan) in out.pop('options').items():
            yield 'default-%d-forwards-similarity-metric[%s]' % (s, metric), sp._f(stored == metric and bool(same_fn) and bool(same_plan))
        for s, plan in out.items():
            F = s // 2 + 1
            covered = np.zeros(F, dtype=bool)
            ok = True
            for i, (it, a, b) in enumerate(plan):
                if i > 0 and 3 * int(covered[a:b].sum()) < 2 * 100:
                    ok = False
                covered[a:b] = True
            yield 'default-%d-covers-all-bins' % s, sp._f(bool(covered.all()))
            yield 'default-%d-two-thirds-overlap' % s, sp._f(ok)
            yield 'default-%d-main-segment-first' % s, sp._f(plan[0][0] == 20 and all(p[0] == 2 for p in plan[1:]))

    return Instance('C16', PA + 'DHTVPermutationAlignment.from_stft_size', 'shipped-defaults-512-1024', make, call, ensures, crosscheck=False, native_n=0)


# ----------------------------------------------------------------------------- independent transcriptions of the procedures
def _norm_rows(a):
    n = np.linalg.norm(a, axis=-1, keepdims=True)
    return a / np.maximum(n, np.finfo(n.dtype).tiny)


def _score(metric, mask_f, ref_f):
    """score[k_ref, k_est] between rows of mask_f (estimates) and ref_f (prototypes), shapes (K, T)."""
    K = mask_f.shape[0]
    s = np.zeros((K, K))
    for kr in range(K):
        for ke in range(K):
            if metric == 'euclidean':
                s[kr, ke] = -np.sqrt(np.sum(np.abs(mask_f[ke] - ref_f[kr]) ** 2))
            elif metric == 'cos':
                s[kr, ke] = np.sum(_norm_rows(mask_f)[ke] * _norm_rows(ref_f)[kr])
            else:
                s[kr, ke] = np.sum(mask_f[ke] * ref_f[kr])
    return s


def _assign(score, algorithm):
    K = score.shape[0]
    if algorithm == 'optimal':
        best, bp = -np.inf, None
        for p in itertools.permutations(range(K)):
            v = sum(score[k, p[k]] for k in range(K))
            if v > best:
                best, bp = v, p
        return np.array(bp)
    s = score.copy()
    out = np.zeros(K, dtype=int)
    for _ in range(K):
        i, j = np.unravel_index(np.argmax(s), s.shape)
        s[i, :] = -np.inf
        s[:, j] = -np.inf
        out[i] = j
    return out


def greedy_transcription(mask, metric):
    """chain of adjacent-bin greedy assignments (the commented loop in the library documentation)"""
    K, F, T = mask.shape
    mapping = np.zeros((K, F), dtype=int)
    mapping[:, 0] = np.arange(K)
    for f in range(1, F):
        m = _assign(_score(metric, mask[:, f], mask[:, f - 1]), 'greedy')
        mapping[:, f] = m[mapping[:, f - 1]]
    return mapping


def dhtv_transcription(mask, plan, metric, algorithm):
    K, F, T = mask.shape
    feats = _norm_rows(mask) if metric == 'cos' else mask.astype(float).copy()
    mapping = np.tile(np.arange(K)[:, None], (1, F))
    m2 = 'multiply' if metric == 'cos' else metric
    for iters, a, b in plan:
        for _ in range(iters):
            cen = feats[:, a:b].mean(axis=1)
            if metric == 'cos':
                cen = _norm_rows(cen)
            changed = False
            for f in range(a, b):
                rp = _assign(_score(m2, feats[:, f], cen), algorithm)
                if not np.array_equal(rp, np.arange(K)):
                    changed = True
                    feats[:, f] = feats[rp, f]
                    mapping[:, f] = mapping[rp, f]
            if not changed:
                break
    return mapping


def transcription_bounded_instance():
    from pb_bss import permutation_alignment as pa

    def make(B):
        return {'K': B.choose('K', [1, 2, 3, 4, 5]), 'F': B.choose('F', [1, 3, 5, 9, 17, 33, 61]), 'T': B.choose('T', [1, 2, 5, 12]),
                'which': B.choose('which', ['greedy', 'dhtv', 'dhtv']), 'metric': B.choose('metric', ['cos', 'euclidean', 'multiply']),
                'alg': B.choose('alg', ['greedy', 'optimal']), 'seed': B.choose('seed', list(range(5000))), 'd': B.given('d', np.zeros(1))}

    def call(inp):
        rng = np.random.RandomState(inp['seed'])
        K, F, T = inp['K'], inp['F'], inp['T']
        mask = rng.uniform(0.05, 1.0, size=(K, F, T))
        if inp['which'] == 'greedy':
            al = pa.GreedyPermutationAlignment(similarity_metric=inp['metric'])
            return {'mapping': al.calculate_mapping(mask.copy()), 'expected': greedy_transcription(mask, inp['metric']), 'mask': mask,
                    'aligned': al(mask.copy())}
        stft = 2 * (F - 1)
        if F == 1:
            stft = 1
        width = int(rng.randint(1, F + 1))
        start = int(rng.randint(0, F - width + 1))
        shift = int(rng.randint(1, width + 1))
        al = pa.DHTVPermutationAlignment(stft_size=stft, segment_start=start, segment_width=width, segment_shift=shift,
                                         main_iterations=int(rng.randint(1, 6)), sub_iterations=int(rng.randint(1, 3)),
                                         similarity_metric=inp['metric'], algorithm=inp['alg'])
        return {'mapping': al.calculate_mapping(mask.copy()), 'expected': dhtv_transcription(mask, al.alignment_plan, inp['metric'], inp['alg']),
                'mask': mask, 'aligned': al(mask.copy())}

    def ensures(sp, inp, out):
        mp, ex, mask = np.asarray(out['mapping']), out['expected'], out['mask']
        yield 'mapping-is-the-accumulated-net-reordering-of-the-procedure', bool(np.array_equal(mp, ex))
        yield 'applying-the-mapping-reproduces-the-aligned-mask', bool(np.array_equal(np.asarray(out['aligned']), mask[mp, np.arange(mask.shape[1])]))

    return Instance('C16', PA + 'calculate_mapping', 'bounded-transcription-equality', make, call, ensures, mode='bounded', bounded_n=400, frame=False)


def restoration_bounded_instance():
    from pb_bss import permutation_alignment as pa

    def make(B):
        return {'K': B.choose('K', [2, 3, 4]), 'F': B.choose('F', [9, 17, 33, 65, 129, 257, 513]), 'T': B.choose('T', [8, 16, 40]),
                'which': B.choose('which', ['greedy', 'dhtv', 'dhtv-default', 'identity']), 'seed': B.choose('seed', list(range(5000))),
                'd': B.given('d', np.zeros(1))}

    def call(inp):
        rng = np.random.RandomState(inp['seed'])
        K, F, T, which = inp['K'], inp['F'], inp['T'], inp['which']
        if which == 'dhtv-default':
            F = int(rng.choice([257, 513]))
        # near-orthogonal activity patterns: disjoint supports plus a small floor (pairwise cosine <= 0.1)
        owner = np.arange(T) % K
        rng.shuffle(owner)
        base = np.full((K, T), 0.02)
        for k in range(K):
            base[k, owner == k] = 1.0
        jitter = 1 + 0.1 * (2 * rng.rand(K, F, T) - 1)
        ref = base[:, None, :] * jitter
        field = np.stack([rng.permutation(K) for _ in range(F)], axis=1)
        if which == 'identity':
            field = np.tile(np.arange(K)[:, None], (1, F))
        if which == 'greedy' or which == 'identity':
            al = pa.GreedyPermutationAlignment(similarity_metric=str(rng.choice(['cos', 'euclidean'])))
        else:
            if which == 'dhtv-default':
                al = pa.DHTVPermutationAlignment.from_stft_size(2 * (F - 1))
            else:
                width = max(3, F // 3)
                al = pa.DHTVPermutationAlignment(stft_size=2 * (F - 1), segment_start=(F - width) // 2, segment_width=width,
                                                 segment_shift=max(1, width // 3), main_iterations=20, sub_iterations=2)
            _, a, b = al.alignment_plan[0]
            # the clause is conditional on the plan: every later segment (after stretching to the band edges) overlaps the
            # already aligned band by at least two thirds; custom plans that do not are outside the property
            lo_, hi_ = a, b
            plan_ok = True
            for _, s_, e_ in al.alignment_plan[1:]:
                inter = max(0, min(e_, hi_) - max(s_, lo_))
                if inter * 3 < 2 * (e_ - s_):
                    plan_ok = False
                lo_, hi_ = min(lo_, s_), max(hi_, e_)
            if not plan_ok and which != 'dhtv-default':
                return {'mapping': None, 'field': field, 'which': 'plan-outside-the-overlap-condition'}
            default_plan_ok = plan_ok
            # at least 70 % of the bins of the first segment share one order
            maj = rng.permutation(K)
            idx = np.arange(a, b)
            rng.shuffle(idx)
            keep = idx[:int(np.ceil(0.75 * len(idx)))]
            field[:, keep] = maj[:, None]
        mask = ref[field, np.arange(F)]
        mapping = al.calculate_mapping(mask.copy())
        res = {'mapping': mapping, 'field': field, 'which': which}
        if which == 'dhtv-default':
            res['default_plan_ok'] = default_plan_ok
        return res

    def ensures(sp, inp, out):
        if out['mapping'] is None:
            yield 'not-applicable[%s]' % out['which'], True
            return
        if 'default_plan_ok' in out:
            yield 'shipped-default-plan-overlaps-the-aligned-band-by-two-thirds', bool(out['default_plan_ok'])
        mp, field = np.asarray(out['mapping']), out['field']
        comp = field[mp, np.arange(field.shape[1])]            # class order after alignment, per bin
        yield 'class-order-constant-over-frequency[%s]' % out['which'], bool(np.all(comp == comp[:, :1]))
        if out['which'] == 'identity':
            yield 'consistent-mask-identity-mapping', bool(np.all(mp == np.arange(mp.shape[0])[:, None]))

    return Instance('C16', PA + 'calculate_mapping', 'bounded-restoration', make, call, ensures, mode='bounded', bounded_n=150, frame=False)


def instances(tier):
    th = tier == 'thorough'
    out = []
    # exhaustive plan enumeration, split by STFT size ranges so that it runs on several cores
    for lo, hi in ((1, 30), (31, 42), (43, 50), (51, 56), (57, 61), (62, 64)):
        out.append(plan_exhaustive_instance(hi, lo))
    out.append(defaults_instance())
    out.append(transcription_bounded_instance())
    out.append(restoration_bounded_instance())
    return out
