"""C17 - the documented pipeline separates a separable multi-channel scene."""
import numpy as np

from pbv.instance import Instance

META = {
    'level': 'exploration',
    'min_obligations': 1,
    'explanation': 'statistical end-to-end claim (>= 99 % correct maximum-posterior class, >= 30 dB output SIR): no contract of a '
                   'deductive verifier can express a threshold on the outcome of the whole chain; the stages are under contract '
                   'individually (C01, C08-C15, C19) and the chain is evaluated on seeded synthetic scenes (bounded); the only '
                   'deductive content here is the interface chain (shapes and class bookkeeping), decided by evaluation.',
}


def scene(rng, K, D, F, T):
    """K sources disjoint in time-frequency, random steering vectors per frequency, sensor noise 45 dB below the sources."""
    act = np.zeros((K, F, T), dtype=bool)
    # random activity partition of the frames (the same for all bins: the domain of the blind aligner, C16); every source
    # is active in at least 15 % of the frames
    while True:
        owner = np.broadcast_to(rng.randint(0, K, size=(1, T)), (F, T))
        if all((owner == k).mean() >= 0.15 for k in range(K)):
            break
    for k in range(K):
        act[k] = owner == k
    A = rng.normal(size=(F, K, D)) + 1j * rng.normal(size=(F, K, D))
    S_ = (rng.normal(size=(K, F, T)) + 1j * rng.normal(size=(K, F, T))) * act
    images = np.einsum('fkd,kft->kfdt', A, S_)                 # (K, F, D, T)
    noise = (rng.normal(size=(F, D, T)) + 1j * rng.normal(size=(F, D, T))) * np.sqrt(np.mean(np.abs(images.sum(0)) ** 2)) * 10 ** (-45 / 20)
    return act, images, noise


def pipeline_instance():
    from pb_bss.distribution import CACGMMTrainer, CWMMTrainer
    from pb_bss import permutation_alignment as pa
    from pb_bss.extraction import beamformer as bf
    from pb_bss.extraction.beamformer_wrapper import get_bf_vector
    from pb_bss.evaluation.sxr_module import output_sxr

    def make(B):
        return {'K': B.choose('K', [2, 3, 3]), 'F': B.choose('F', [33, 65, 257]), 'model': B.choose('model', ['cacgmm', 'cwmm']),
                'cycle': B.choose('cycle', [False, True]), 'use_eig': B.choose('use_eig', [False, True]),
                'seed': B.choose('seed', list(range(5000))), 'd': B.given('d', np.zeros(1))}

    def call(inp):
        rng = np.random.RandomState(inp['seed'])
        K, F = inp['K'], inp['F']
        D = int(rng.randint(K + 1, 9))
        T = int(rng.randint(60, 201))
        act, images, noise = scene(rng, K, D, F, T)
        Y = images.sum(0) + noise                                # (F, D, T)
        # DHTV plan and a per-frequency permutation field inside its domain
        if F == 257:
            dhtv = pa.DHTVPermutationAlignment.from_stft_size(512)
        else:
            # the similarity metric of the aligner is an option; so is the segment geometry: a centred first segment with shifted
            # segments on both sides, or a wide first segment close to the upper band edge (no shifted segment fits above it)
            metric = ['cos', 'euclidean', 'cos', 'multiply'][(inp['seed'] // 3) % 4]
            if (inp['seed'] // 5) % 2:
                width = (2 * F) // 3
                start, shift = F - width - 3, max(1, width // 4)
            else:
                width = F // 3
                start, shift = (F - width) // 2, max(1, width // 3)
            dhtv = pa.DHTVPermutationAlignment(stft_size=2 * (F - 1), segment_start=start, segment_width=width, segment_shift=shift,
                                               main_iterations=20, sub_iterations=[2, 1][(inp['seed'] // 11) % 2], similarity_metric=metric)
        _, a, b = dhtv.alignment_plan[0]
        field = np.stack([rng.permutation(K) for _ in range(F)], axis=1)
        maj = rng.permutation(K)
        if inp['cycle']:
            maj = np.roll(np.arange(K), 1)           # the majority order is a K-cycle (not self-inverse for K = 3)
        idx = np.arange(a, b)
        rng.shuffle(idx)
        field[:, idx[:int(np.ceil(0.75 * len(idx)))]] = maj[:, None]
        # blurred, per-frequency permuted partition as the start: init[f, k] = blurred act[field[k, f], f]
        blur = 0.2
        truth = act.astype(float)                                 # (K, F, T)
        start = (1 - blur) * truth + blur / K
        init = np.transpose(start[field, np.arange(F)], (1, 0, 2)).copy()        # (F, K, T)
        Yt = np.transpose(Y, (0, 2, 1))                           # (F, T, D)
        trainer = CACGMMTrainer() if inp['model'] == 'cacgmm' else CWMMTrainer()
        # the recording level is arbitrary (the spatial models see directions only): the observation handed to the model is
        # rescaled by a random overall gain; posteriors come from fit_predict or from fit followed by predict
        level = [1e-4, 1e-3, 1.0, 1e3][(inp['seed'] // 2) % 4] * 10.0 ** rng.uniform(-0.5, 0.5)
        if inp['seed'] % 2:
            post = trainer.fit_predict(Yt * level, initialization=init, iterations=10)        # (F, K, T)
        else:
            post = trainer.fit(Yt * level, initialization=init, iterations=10).predict(Yt * level)
        shapes = {'posterior': post.shape}
        masks = np.transpose(post, (1, 0, 2))                     # (K, F, T)
        aligned = dhtv(masks)
        mapping_global = pa.OraclePermutationAlignment('euclidean').calculate_mapping(
            aligned.reshape(K, F * T), truth.reshape(K, F * T))
        aligned = aligned[mapping_global]
        shapes['aligned'] = aligned.shape
        acc = float(np.mean(np.argmax(aligned, axis=0) == np.argmax(truth, axis=0)))
        if inp['seed'] % 3 == 0:
            # masks in the (K, F, T) layout of the aligners, source axis first
            psd = np.moveaxis(bf.get_power_spectral_density_matrix(Y, aligned, source_dim=0), 0, 1)       # (K, F, D, D) -> (F, K, D, D)
        else:
            psd = bf.get_power_spectral_density_matrix(Y, np.transpose(aligned, (1, 0, 2)))         # (F, K, D, D)
        shapes['psd'] = psd.shape
        sirs = {}
        for name in ('mvdr_souden', 'mvdr_souden+ban', 'gev', 'gev+ban', 'rank1_pca+mvdr_souden', 'rank1_gev+mvdr_souden', 'rank1_pca+gev',
                     'rank1_gev+gev', 'wmwf', 'wmwf+ban', 'rank1_pca+wmwf', 'rank1_gev+wmwf', 'rank1_pca+wmwf+ban', 'wmwf-selection-vector',
                     'wmwf-frequency-dependent'):
            out_img = np.zeros((K, K, F, T), dtype=complex)
            out_noise = np.zeros((K, F, T), dtype=complex)
            # every second scene designs the filters of all sources in one call on (K, F, D, D) stacks (explicit reference channel)
            w_all = None
            if inp['seed'] % 2 and ('souden' in name or name in ('wmwf', 'wmwf+ban', 'rank1_pca+wmwf', 'rank1_gev+wmwf', 'rank1_pca+wmwf+ban')):
                tgt_all = np.ascontiguousarray(np.moveaxis(psd, 1, 0))
                noi_all = psd.sum(1)[None] - tgt_all
                kw_all = {'ref_channel': 0} if 'souden' in name else {'reference_channel': 0}
                if inp['use_eig'] and name.startswith('rank1_gev'):
                    kw_all['atf_kwargs'] = {'use_eig': True}
                w_all = get_bf_vector(name, tgt_all, noi_all, **kw_all)           # (K, F, D)
            for k in range(K):
                tgt = psd[:, k]
                noi = psd.sum(1) - tgt
                kw = {'ref_channel': 0} if 'souden' in name else ({'reference_channel': 0} if 'wmwf' in name else {})
                if inp['use_eig']:
                    if name.startswith('gev'):
                        kw['use_eig'] = True
                    elif name.startswith('rank1_gev'):
                        kw['atf_kwargs'] = {'use_eig': True}
                if name == 'wmwf-frequency-dependent':
                    # the frequency dependent speech-distortion trade-off of the WMWF (an option forwarded by the wrapper)
                    w = get_bf_vector('wmwf', tgt, noi, reference_channel=0, distortion_weight='frequency_dependent')
                elif name == 'wmwf-selection-vector':
                    # the reference given as a (one-hot or weighted) channel selection vector instead of a channel number
                    u = np.zeros(D)
                    u[0] = 1.0
                    w = bf.get_wmwf_vector(tgt, noi, channel_selection_vector=u if k % 2 == 0 else np.broadcast_to(u, (F, D)).copy())
                elif w_all is not None:
                    w = w_all[k]
                else:
                    w = get_bf_vector(name, tgt, noi, **kw)           # (F, D)
                shapes['w'] = w.shape
                if inp['seed'] % 3 == 1:
                    # one filter applied to the stack of all source images in one (broadcast) call
                    out_img[:, k] = bf.apply_beamforming_vector(w, images)
                else:
                    for j in range(K):
                        out_img[j, k] = bf.apply_beamforming_vector(w, images[j])
                out_noise[k] = bf.apply_beamforming_vector(w, noise)
            # time-domain like signals for the metric: real and imaginary parts stacked
            ic = np.concatenate([out_img.real, out_img.imag], axis=-1).reshape(K, K, -1)
            nc = np.concatenate([out_noise.real, out_noise.imag], axis=-1).reshape(K, -1)
            res = output_sxr(ic, nc, average_sources=False)
            sirs[name] = np.asarray(res.sir)
        return {'acc': acc, 'sirs': sirs, 'shapes': shapes, 'dims': (K, D, F, T)}

    def ensures(sp, inp, out):
        K, D, F, T = out['dims']
        sh = out['shapes']
        yield 'interface-shapes', sh['posterior'] == (F, K, T) and sh['aligned'] == (K, F, T) and sh['psd'] == (F, K, D, D) and sh['w'] == (F, D)
        yield 'maximum-posterior-class-correct-in-99-percent', out['acc'] >= 0.99
        for name, sir in out['sirs'].items():
            yield 'output-sir-at-least-30dB[%s]' % name, bool(np.all(sir >= 30.0))

    return Instance('C17', 'pb_bss:documented-pipeline', 'bounded-synthetic-scenes', make, call, ensures, mode='bounded', bounded_n=16, frame=False)


def alignment_stage_instance():
    """The alignment stage of the chain on its own: posteriors of the quality the mixture stage delivers on such scenes (true partition,
    blurred and jittered), permuted per frequency within the aligner's domain, through DHTV and the global oracle alignment --
    at least 99 % of the points keep their true class.  Cheap (no EM), so many scenes with K >= 3, where the order in which
    repeated per-bin permutations are composed matters."""
    from pb_bss import permutation_alignment as pa

    def make(B):
        return {'K': B.choose('K', [3, 3, 4, 5]), 'F': B.choose('F', [65, 129, 257]), 'jitter': B.choose('jitter', [0.05, 0.15, 0.3]),
                'seed': B.choose('seed', list(range(5000))), 'd': B.given('d', np.zeros(1))}

    def call(inp):
        rng = np.random.RandomState(inp['seed'])
        K, F = inp['K'], inp['F']
        T = int(rng.randint(60, 160))
        while True:
            owner = rng.randint(0, K, size=T)
            if all((owner == k).mean() >= 0.1 for k in range(K)):
                break
        truth = np.broadcast_to((owner[None, None, :] == np.arange(K)[:, None, None]), (K, F, T)).astype(float)
        soft = 0.8 * truth + 0.2 / K + inp['jitter'] * rng.uniform(size=(K, F, T))
        soft /= soft.sum(0, keepdims=True)
        if F == 257:
            dhtv = pa.DHTVPermutationAlignment.from_stft_size(512)
        else:
            width = F // 3
            dhtv = pa.DHTVPermutationAlignment(stft_size=2 * (F - 1), segment_start=(F - width) // 2, segment_width=width, segment_shift=max(1, width // 4),
                                               main_iterations=20, sub_iterations=2)
        _, a, b = dhtv.alignment_plan[0]
        field = np.stack([rng.permutation(K) for _ in range(F)], axis=1)
        maj = np.roll(np.arange(K), 1) if inp['seed'] % 2 else rng.permutation(K)
        idx = np.arange(a, b)
        rng.shuffle(idx)
        field[:, idx[:int(np.ceil(0.75 * len(idx)))]] = maj[:, None]
        masks = soft[field, np.arange(F)]
        aligned = dhtv(masks)
        g = pa.OraclePermutationAlignment('euclidean').calculate_mapping(aligned.reshape(K, F * T), truth.reshape(K, F * T))
        aligned = aligned[g]
        return {'acc': float(np.mean(np.argmax(aligned, axis=0) == np.argmax(truth, axis=0))), 'K': K}

    def ensures(sp, inp, out):
        yield 'alignment-stage-keeps-the-true-class-in-99-percent[K=%d]' % out['K'], out['acc'] >= 0.99

    return Instance('C17', 'pb_bss:documented-pipeline', 'bounded-alignment-stage', make, call, ensures, mode='bounded', bounded_n=60, frame=False)


def instances(tier):
    return [pipeline_instance(), alignment_stage_instance()]
