"""C18 - oracle masks satisfy their defining identities in every axis layout."""
import itertools

import numpy as np

from pbv import expr as E
from pbv import scalar as S
from pbv.instance import Instance
from pbv.spec import cells, shape_of

META = {
    'level': 'proof',
    'min_obligations': 150,
    'explanation': 'ideal binary (one-hot at the first arg-max of the pooled power, every arg-max path), Wiener-like, ideal '
                   'ratio, ideal amplitude, ideal complex and phase-sensitive masks against their defining formulas in every '
                   '(source_axis, sensor_axis, keepdims) layout of rank <= 3; quantile and Lorenz masks on 3-4 points over '
                   'every sort order; zero input finite for the eps-guarded masks',
    'assumptions': ['np.percentile = linear interpolation between order statistics (NumPy default)'],
}
MM = 'pb_bss.extraction.mask_module:'
EPS = 1e-18


def layouts(rank):
    out = []
    for src in range(rank):
        out.append((src, None, False))
        for sen in range(rank):
            if sen != src:
                out.append((src, sen, False))
                out.append((src, sen, True))
    return out


def canon_to_phys(shape_c, src, sen):
    """canonical order: (K, [D,] rest...) -> physical axes with source at src and sensor at sen"""
    rank = len(shape_c)
    order = [None] * rank
    order[src] = 0
    nxt = 1
    if sen is not None:
        order[sen] = 1
        nxt = 2
    for i in range(rank):
        if order[i] is None:
            order[i] = nxt
            nxt += 1
    return order       # physical axis i holds canonical axis order[i]


def pooled_mask_instance(fn, K, D, R, src, sen, keepdims):
    """ideal_binary_mask / wiener_like_mask with optional sensor pooling.  Canonical signal (K, D, R) or (K, R)."""
    from pb_bss.extraction import mask_module as mm
    has_sen = sen is not None
    cshape = (K, D, R) if has_sen else (K, R)
    order = canon_to_phys(cshape, src, sen)

    def make(B):
        sc = B.cplx('s', cshape)
        return {'sc': sc, 'signal': np.transpose(sc, order)}

    def call(inp):
        kw = dict(source_axis=src, sensor_axis=sen, keepdims=keepdims)
        f = mm.ideal_binary_mask if fn == 'binary' else mm.wiener_like_mask
        return f(inp['signal'], **kw)

    def ensures(sp, inp, out):
        pshape = tuple(cshape[order[i]] for i in range(len(cshape)))
        if has_sen:
            oshape = tuple(1 if i == sen else n for i, n in enumerate(pshape)) if keepdims else tuple(n for i, n in enumerate(pshape) if i != sen)
        else:
            oshape = pshape
        yield 'shape', sp._f(shape_of(out) == oshape)
        if shape_of(out) != oshape:
            return
        g, s = cells(out), cells(inp['sc'])

        def oidx(k, r):
            c = {0: k, 1: 0, 2: r} if has_sen else {0: k, 1: r}
            full = [c[order[i]] for i in range(len(cshape))]
            if has_sen and not keepdims:
                full = [v for i, v in enumerate(full) if i != sen]
            return tuple(full)
        for r in range(R):
            P = [sp.sum(sp.abs2(s[(k, d, r) if has_sen else (k, r)]) for d in (range(D) if has_sen else [0])) for k in range(K)]
            if fn == 'binary':
                vals = [g[oidx(k, r)] for k in range(K)]
                alts = []
                for k in range(K):
                    alts.append(sp.and_(*[sp.eq(vals[j], 1.0 if j == k else 0.0) for j in range(K)],
                                        *[sp.gt(P[k], P[j]) if j < k else sp.ge(P[k], P[j]) for j in range(K) if j != k]))
                yield 'one-hot-at-first-maximal-power[%d]' % r, sp.or_(*alts)
            else:
                tot = sp.sum(P)
                for k in range(K):
                    yield 'power-ratio[%d,%d]' % (k, r), sp.eq(g[oidx(k, r)] * (tot + EPS), P[k])
                    yield 'in-[0,1][%d,%d]' % (k, r), sp.and_(sp.ge(g[oidx(k, r)], 0.0), sp.le(g[oidx(k, r)], 1.0))
                yield 'sum-over-sources[%d]' % r, sp.eq(sp.sum(g[oidx(k, r)] for k in range(K)) * (tot + EPS), tot)

    name = '%s-K%dD%dR%d-src%d-sen%s-keep%d' % (fn, K, D, R, src, sen, int(keepdims))
    return Instance('C18', MM + ('ideal_binary_mask' if fn == 'binary' else 'wiener_like_mask'), name, make, call, ensures,
                    timeout=20.0, max_paths=64, crosscheck=(fn != 'binary'))


def simple_mask_instance(fn, K, R, src):
    """ideal_ratio_mask / ideal_amplitude_mask / ideal_complex_mask / phase_sensitive_mask on a (K, R) canonical signal."""
    from pb_bss.extraction import mask_module as mm
    cshape = (K, R)
    order = canon_to_phys(cshape, src, None)

    def make(B):
        sp = B.sp
        sc = B.cplx('s', cshape)
        s = cells(sc)
        if fn in ('complex', 'phase'):
            for r in range(R):
                y = sp.sum(s[k, r] for k in range(K))
                B.require('mixture-nonzero', sp.gt(sp.abs2(y), 0.0))
                if fn == 'phase':
                    for k in range(K):
                        B.require('source-nonzero', sp.gt(sp.abs2(s[k, r]), 0.0))
        return {'sc': sc, 'signal': np.transpose(sc, order)}

    def call(inp):
        f = {'ratio': mm.ideal_ratio_mask, 'amplitude': mm.ideal_amplitude_mask, 'complex': mm.ideal_complex_mask, 'phase': mm.phase_sensitive_mask}[fn]
        return f(inp['signal'], source_axis=src)

    def ensures(sp, inp, out):
        pshape = tuple(cshape[order[i]] for i in range(2))
        yield 'shape', sp._f(shape_of(out) == pshape)
        if shape_of(out) != pshape:
            return
        g, s = cells(out), cells(inp['sc'])

        def oidx(k, r):
            return (k, r) if src == 0 else (r, k)
        for r in range(R):
            y = sp.sum(s[k, r] for k in range(K))
            mags = [sp.abs(s[k, r]) for k in range(K)]
            for k in range(K):
                m = g[oidx(k, r)]
                if fn == 'ratio':
                    yield 'magnitude-ratio[%d,%d]' % (k, r), sp.eq(m * (sp.sum(mags) + EPS), mags[k])
                    yield 'in-[0,1][%d,%d]' % (k, r), sp.and_(sp.ge(m, 0.0), sp.le(m, 1.0))
                elif fn == 'amplitude':
                    yield 'amplitude-ratio[%d,%d]' % (k, r), sp.eq(m * (sp.abs(y) + EPS), mags[k])
                elif fn == 'complex':
                    yield 'mask-times-mixture-is-source[%d,%d]' % (k, r), sp.eq(m * y, s[k, r])
                else:
                    # |s|/(|y|+eps) cos(angle s - angle y)  =  Re(s conj y) / (|y| (|y| + eps))
                    ay = sp.abs(y)
                    yield 'real-part-of-complex-mask[%d,%d]' % (k, r), sp.eq(m * ay * (ay + EPS), sp.re(s[k, r] * sp.conj(y)))
            if fn == 'ratio':
                tot = sp.sum(mags)
                yield 'sum-over-sources[%d]' % r, sp.eq(sp.sum(g[oidx(k, r)] for k in range(K)) * (tot + EPS), tot)

    names = {'ratio': 'ideal_ratio_mask', 'amplitude': 'ideal_amplitude_mask', 'complex': 'ideal_complex_mask', 'phase': 'phase_sensitive_mask'}
    return Instance('C18', MM + names[fn], '%s-K%dR%d-src%d' % (fn, K, R, src), make, call, ensures, timeout=30.0)


def zero_input_instance(fn):
    from pb_bss.extraction import mask_module as mm

    def make(B):
        return {'signal': B.given('s', np.zeros((2, 3, 2), dtype=complex), wrap=False)}

    def call(inp):
        f = {'wiener': mm.wiener_like_mask, 'ratio': mm.ideal_ratio_mask, 'amplitude': mm.ideal_amplitude_mask, 'phase': mm.phase_sensitive_mask,
             'binary': mm.ideal_binary_mask}[fn]
        return f(inp['signal'])

    def ensures(sp, inp, out):
        yield 'finite-on-all-zero-input', sp._f(bool(np.all(np.isfinite(np.asarray(out)))))

    return Instance('C18', MM + fn, 'zero-input-%s' % fn, make, call, ensures, crosscheck=False, native_n=1)


def levels(sp, weight):
    """0.5 + weight * (m - 0.5) for m = 1 / 0.  Symbolic mode: exact rational arithmetic on the float constants (the code
    evaluates the expression on symbolic m, i.e. without intermediate rounding)."""
    if sp.symbolic:
        from fractions import Fraction
        h, w = Fraction(0.5), Fraction(weight)
        return S.R(E.const(h + w * (1 - h))), S.R(E.const(h + w * (0 - h)))
    return 0.5 + weight * (1 - 0.5), 0.5 + weight * (0 - 0.5)


def quantile_instance(n, q, weight=0.999):
    """quantile_mask on n magnitudes (one row): high level exactly above the (1-q) quantile (q > 0) / below the |q| quantile."""
    from pb_bss.extraction import mask_module as mm
    import math

    def make(B):
        return {'signal': B.real('x', (n,), lo=0.0, dist=(0.0, 1.0))}

    def call(inp):
        return mm.quantile_mask(inp['signal'], quantile=q, axis=-1, weight=weight)

    def ensures(sp, inp, out):
        yield 'shape', sp._f(shape_of(out) == (n,))
        if shape_of(out) != (n,):
            return
        g, x = cells(out), cells(inp['signal'])
        hi, lo = levels(sp, weight)
        pos = (n - 1) * ((((1 - q) * 100) if q >= 0 else (abs(q) * 100)) / 100.0)      # NumPy: (n-1) * (q/100)
        i0 = int(math.floor(pos))
        i1 = min(i0 + 1, n - 1)
        t = pos - i0
        # under every total order of the magnitudes: threshold = linear interpolation of the order statistics
        alts = []
        for perm in itertools.permutations(range(n)):
            ordered = sp.and_(*[sp.le(x[perm[i]], x[perm[i + 1]]) for i in range(n - 1)])
            thr = x[perm[i0]] + (x[perm[i1]] - x[perm[i0]]) * t
            body = []
            for i in range(n):
                above = sp.gt(x[i], thr) if q >= 0 else sp.lt(x[i], thr)
                body.append(sp.and_(sp.implies(above, sp.eq(g[i], hi)), sp.implies(sp.not_(above), sp.eq(g[i], lo))))
            alts.append(sp.implies(ordered, sp.and_(*body)))
        yield 'high-level-exactly-beyond-quantile', sp.and_(*alts)

    return Instance('C18', MM + 'quantile_mask', 'n%d-q%g' % (n, q), make, call, ensures, timeout=30.0, max_paths=200, crosscheck=False)


def lorenz_instance(n, frac, weight=0.999):
    from pb_bss.extraction import mask_module as mm

    def make(B):
        sp = B.sp
        x = B.cplx('x', (1, n))
        # no single point carries the Lorenz fraction of the total power (the mask is undefined otherwise)
        xs = cells(x)
        P = [sp.abs2(xs[0, i]) for i in range(n)]
        tot = sp.sum(P)
        for i in range(n):
            B.require('no-point-carries-the-lorenz-fraction', sp.lt(P[i], tot * frac))
        return {'signal': x}

    def call(inp):
        return mm.lorenz_mask(inp['signal'], lorenz_fraction=frac, weight=weight)

    def ensures(sp, inp, out):
        yield 'shape', sp._f(shape_of(out) == (1, n))
        if shape_of(out) != (1, n):
            return
        g, xs = cells(out), cells(inp['signal'])
        P = [sp.abs2(xs[0, i]) for i in range(n)]
        tot = sp.sum(P)
        hi, lo = levels(sp, weight)
        alts = []
        for perm in itertools.permutations(range(n)):      # descending order of power
            ordered = sp.and_(*[sp.ge(P[perm[i]], P[perm[i + 1]]) for i in range(n - 1)])
            cum = []
            acc = None
            for i in range(n):
                acc = P[perm[i]] if acc is None else acc + P[perm[i]]
                cum.append(acc)
            # m = number of strongest points whose cumulative share stays below the fraction (>= 1 by the precondition)
            for m in range(1, n + 1):
                cond = sp.and_(ordered, *[sp.lt(cum[i], tot * frac) for i in range(m)],
                               *([sp.ge(cum[m], tot * frac)] if m < n else []))
                thr = P[perm[m - 1]]          # the weakest of those strongest points
                body = [sp.and_(sp.implies(sp.gt(P[i], thr), sp.eq(g[0, i], hi)), sp.implies(sp.le(P[i], thr), sp.eq(g[0, i], lo))) for i in range(n)]
                alts.append((''.join(map(str, perm)), m, sp.implies(cond, sp.and_(*body))))
        if n <= 3:
            yield 'high-level-exactly-stronger-than-weakest-of-the-strongest', sp.and_(*[a[2] for a in alts])
        else:
            # one obligation per (order of the powers, number of strongest points): each is decided against the path
            # condition on its own (mostly by the linear abstraction), which the monolithic conjunction is not within budget
            for pn, m, f in alts:
                yield 'high-level-exactly-stronger-than-weakest-of-the-strongest[order%s,m%d]' % (pn, m), f

    return Instance('C18', MM + 'lorenz_mask', 'n%d-frac%g' % (n, frac), make, call, ensures, timeout=40.0, max_paths=500, crosscheck=False, shard_depth=2, weight=50,
                    check_feasible=False)


def bounded_masks_instance():
    from pb_bss.extraction import mask_module as mm

    def make(B):
        return {'rank': B.choose('rank', [2, 3, 4]), 'fn': B.choose('fn', ['binary', 'wiener', 'ratio', 'amplitude', 'complex', 'phase', 'quantile', 'lorenz', 'lorenz-options', 'quantile-options']),
                'seed': B.choose('seed', list(range(2000))), 'ties': B.choose('ties', [False, True]), 'neg': B.choose('neg', [False, True]),
                'd': B.given('d', np.zeros(1))}

    def call(inp):
        rng = np.random.RandomState(inp['seed'])
        rank, fn = inp['rank'], inp['fn']
        shape = tuple(rng.randint(1, 6, size=rank))
        s = rng.normal(size=shape) + 1j * rng.normal(size=shape)
        if inp['ties']:
            s = np.round(s.real) + 1j * np.round(s.imag)
        if inp['seed'] % 3 == 1:
            s = s.astype(np.complex64)              # single-precision STFTs
        res = {'fn': fn, 's': s}
        if fn in ('binary', 'wiener'):
            src = rng.randint(0, rank)
            sen = None if rank == 1 or rng.rand() < 0.4 else int(rng.choice([a for a in range(rank) if a != src]))
            if inp['neg']:
                src = src - rank
                sen = None if sen is None else sen - rank
            keep = bool(rng.rand() < 0.5)
            f = mm.ideal_binary_mask if fn == 'binary' else mm.wiener_like_mask
            res.update(src=src, sen=sen, keep=keep, out=f(s, source_axis=src, sensor_axis=sen, keepdims=keep))
        elif fn in ('ratio', 'amplitude', 'complex', 'phase'):
            src = rng.randint(0, rank) - (rank if inp['neg'] else 0)
            f = {'ratio': mm.ideal_ratio_mask, 'amplitude': mm.ideal_amplitude_mask, 'complex': mm.ideal_complex_mask, 'phase': mm.phase_sensitive_mask}[fn]
            with np.errstate(all='ignore'):
                res.update(src=src, out=f(s, source_axis=src))
        elif fn == 'quantile':
            x = rng.normal(size=(3, rng.randint(8, 40))) + 1j * rng.normal(size=(3, 1))
            q = float(rng.choice([0.1, 0.25, -0.9, -0.5, 0.5]))
            res.update(s=x, q=q, out=mm.quantile_mask(x, quantile=q, axis=-1))
        elif fn == 'lorenz-options':
            # sensor pooling, keepdims, one or two pooled sample axes at arbitrary positions, leading independent axes
            shp = [int(rng.randint(2, 4)), int(rng.randint(2, 4)), int(rng.randint(3, 6)), int(rng.randint(3, 6))]
            x = rng.normal(size=shp) + 1j * rng.normal(size=shp)
            if inp['ties']:
                x = rng.randint(-2, 3, size=shp).astype(float) + 0j
                x[..., 0, 0] = 2.0
            sen = None if rng.rand() < 0.3 else int(rng.randint(0, 2))
            cand = [a for a in range(4) if a != sen]
            nax = int(rng.randint(1, 3))
            ax = tuple(int(a) for a in rng.choice(cand, size=nax, replace=False))
            if inp['neg']:
                ax = tuple(a - 4 for a in ax)
                sen = None if sen is None else sen - 4
            keep = bool(rng.rand() < 0.5)
            fr = float(rng.choice([0.9, 0.5, 0.7]))
            axis_arg = ax if (len(ax) > 1 or rng.rand() < 0.5) else ax[0]
            # precondition of the mask: in no independent slice a single point carries the Lorenz fraction of the power
            Pp = np.abs(x) ** 2
            if sen is not None:
                Pp = Pp.sum(sen % 4, keepdims=True)
            axp = tuple(a % 4 for a in ax)
            if np.any(Pp.max(axis=axp) >= fr * Pp.sum(axis=axp)):
                fr = 0.98
            if np.any(Pp.max(axis=axp) >= fr * Pp.sum(axis=axp)):
                return {'fn': 'skip', 's': x, 'out': np.zeros(1)}
            wgt = float(rng.choice([0.999, 1.0, 0.5, 0.0]))
            res.update(s=x, frac=fr, sen=sen, ax=ax, keep=keep, wgt=wgt, out=mm.lorenz_mask(x, sensor_axis=sen, axis=axis_arg, lorenz_fraction=fr, keepdims=keep, weight=wgt))
        elif fn == 'quantile-options':
            shp = [int(rng.randint(2, 4)), int(rng.randint(4, 9)), int(rng.randint(4, 9))]
            x = rng.normal(size=shp) + 1j * rng.normal(size=shp)
            nax = int(rng.randint(1, 3))
            ax = tuple(int(a) for a in rng.choice(3, size=nax, replace=False))
            if inp['neg']:
                ax = tuple(a - 3 for a in ax)
            qs = [float(q) for q in rng.choice([0.1, 0.25, -0.9, -0.5, 0.5, -0.25], size=int(rng.randint(1, 4)), replace=False)]
            q_arg = tuple(qs) if (len(qs) > 1 or rng.rand() < 0.5) else qs[0]
            axis_arg = ax if (len(ax) > 1 or rng.rand() < 0.5) else ax[0]
            wgt = float(rng.choice([0.999, 1.0, 0.5, 0.0]))
            res.update(s=x, qs=qs, q_is_seq=isinstance(q_arg, tuple), ax=ax, wgt=wgt, out=mm.quantile_mask(x, quantile=q_arg, axis=axis_arg, weight=wgt))
        else:
            x = rng.normal(size=(rng.randint(8, 20), rng.randint(2, 6))) + 1j * rng.normal(size=(1, 1))
            if inp['ties']:
                # small integers: many points of exactly equal power (|x|^2 is exact), at least one non-zero
                x = rng.randint(-3, 4, size=x.shape).astype(float) + 0j
                x[0, 0] = 2.0
            fr = float(rng.choice([0.98, 0.9, 0.5]))
            res.update(s=x, frac=fr, out=mm.lorenz_mask(x, lorenz_fraction=fr))
        return res

    def ensures(sp, inp, out):
        fn, s, o = out['fn'], out['s'], np.asarray(out['out'])
        if fn == 'skip':
            yield 'not-applicable (a single point carries the Lorenz fraction)', True
            return
        if fn in ('binary', 'wiener'):
            src, sen, keep = out['src'], out['sen'], out['keep']
            single = s.dtype == np.complex64
            s = s.astype(np.complex128)
            P = s.real ** 2 + s.imag ** 2          # exact on integer-valued ties (np.abs()**2 rounds)
            if sen is not None:
                P = P.sum(sen, keepdims=True)
            srcp = src % s.ndim
            if fn == 'binary':
                exp = (np.expand_dims(np.argmax(P, axis=srcp), srcp) == np.arange(s.shape[srcp]).reshape([-1 if i == srcp else 1 for i in range(s.ndim)])).astype(float)
            else:
                exp = P / (P.sum(srcp, keepdims=True) + EPS)
            if sen is not None and not keep:
                exp = np.squeeze(exp, sen)
            tol_ = dict(rtol=1e-4, atol=1e-6) if single else dict(rtol=1e-9, atol=1e-12)
            if single and fn == 'binary' and not inp['ties']:
                # single precision may order two nearly equal powers differently: compare where the winner is clear
                srt = np.sort(P, axis=srcp)
                clear = (srt.take(-1, axis=srcp) > srt.take(-2, axis=srcp) * (1 + 1e-4)) if P.shape[srcp] > 1 else np.ones(srt.take(-1, axis=srcp).shape, bool)
                clear = np.expand_dims(clear, srcp)
                if sen is not None and not keep:
                    clear = np.squeeze(clear, sen)
                clear = np.broadcast_to(clear, exp.shape) if clear.shape != exp.shape and exp.shape == o.shape else clear
                yield 'matches-definition[%s]' % fn, bool(exp.shape == o.shape and np.isrealobj(o) and np.allclose(np.where(clear, o, exp), exp, **tol_))
            else:
                yield 'matches-definition[%s]' % fn, bool(exp.shape == o.shape and np.isrealobj(o) and np.allclose(o, exp, **tol_))
        elif fn in ('ratio', 'amplitude', 'complex', 'phase'):
            single = s.dtype == np.complex64
            s = s.astype(np.complex128)
            srcp = out['src'] % s.ndim
            y = s.sum(srcp, keepdims=True)
            with np.errstate(all='ignore'):
                exp = {'ratio': np.abs(s) / (np.abs(s).sum(srcp, keepdims=True) + EPS), 'amplitude': np.abs(s) / (np.abs(y) + EPS),
                       'complex': s / y, 'phase': np.real(s * np.conj(y)) / (np.abs(y) * (np.abs(y) + EPS))}[fn]
            ok = np.isfinite(exp)
            tol_ = dict(rtol=2e-3, atol=1e-5) if single else dict(rtol=1e-7, atol=1e-10)
            yield 'matches-definition[%s]' % fn, bool(exp.shape == o.shape and np.allclose(o[ok], exp[ok], **tol_))
        elif fn == 'lorenz-options':
            # loop-level transcription of the definition: per independent index, points strictly stronger than the weakest of
            # the strongest points whose cumulative share of the (sensor-pooled) power stays below the fraction
            P = np.abs(s) ** 2
            sen, ax, keep = out['sen'], tuple(a % s.ndim for a in out['ax']), out['keep']
            if sen is not None:
                P = P.sum(sen % s.ndim, keepdims=True)
            exp = np.empty(P.shape)
            rest = [a for a in range(P.ndim) if a not in ax]
            ok_def = True
            for idx in np.ndindex(*[P.shape[a] for a in rest]):
                sl = [slice(None)] * P.ndim
                for a, i in zip(rest, idx):
                    sl[a] = i
                v = P[tuple(sl)]
                srt = np.sort(v.reshape(-1))[::-1]
                cum = np.cumsum(srt) / np.sum(srt)
                sel = srt[cum < out['frac']]
                if sel.size == 0:
                    ok_def = False
                    break
                exp[tuple(sl)] = np.where(v > sel.min(), 0.5 + out['wgt'] * 0.5, 0.5 - out['wgt'] * 0.5)
            if ok_def:
                if sen is not None and not keep:
                    exp = np.squeeze(exp, sen % s.ndim)
                yield 'matches-definition[lorenz-options]', bool(exp.shape == o.shape and np.allclose(o, exp))
        elif fn == 'quantile-options':
            mag = np.abs(s)
            ax = tuple(a % s.ndim for a in out['ax'])
            rest = [a for a in range(s.ndim) if a not in ax]
            exps, margins = [], []
            for q in out['qs']:
                exp = np.empty(mag.shape)
                margin = np.empty(mag.shape, dtype=bool)
                for idx in np.ndindex(*[mag.shape[a] for a in rest]):
                    sl = [slice(None)] * mag.ndim
                    for a, i in zip(rest, idx):
                        sl[a] = i
                    v = mag[tuple(sl)]
                    srt = np.sort(v.reshape(-1))
                    n = srt.size
                    pos = (n - 1) * ((1 - q) if q >= 0 else abs(q))
                    i0 = int(np.floor(pos))
                    i1 = min(i0 + 1, n - 1)
                    thr = srt[i0] + (srt[i1] - srt[i0]) * (pos - i0)
                    high = (v > thr) if q >= 0 else (v < thr)
                    exp[tuple(sl)] = np.where(high, 0.5 + out['wgt'] * 0.5, 0.5 - out['wgt'] * 0.5)
                    margin[tuple(sl)] = np.abs(v - thr) > 1e-9
                exps.append(exp)
                margins.append(margin)
            exp, margin = (np.stack(exps), np.stack(margins)) if out['q_is_seq'] else (exps[0], margins[0])
            yield 'matches-definition[quantile-options]', bool(exp.shape == o.shape and np.allclose(o[margin], exp[margin]))
        elif fn == 'quantile':
            q = out['q']
            mag = np.abs(s)
            srt = np.sort(mag, axis=-1)
            n = mag.shape[-1]
            pos = (n - 1) * ((1 - q) if q >= 0 else abs(q))
            i0 = int(np.floor(pos))
            i1 = min(i0 + 1, n - 1)
            thr = srt[:, i0] + (srt[:, i1] - srt[:, i0]) * (pos - i0)
            margin = np.abs(mag - thr[:, None]) > 1e-9
            high = (mag > thr[:, None]) if q >= 0 else (mag < thr[:, None])
            exp = np.where(high, 0.5 + 0.999 * 0.5, 0.5 - 0.999 * 0.5)
            yield 'matches-definition[quantile]', bool(np.allclose(o[margin], exp[margin]))
        else:
            P = (np.abs(s) ** 2).reshape(-1)
            srt = np.sort(P)[::-1]
            cum = np.cumsum(srt) / P.sum()
            if srt[0] / P.sum() < out['frac']:
                thr = srt[cum < out['frac']].min()
                exp = np.where(np.abs(s) ** 2 > thr, 0.5 + 0.999 * 0.5, 0.5 - 0.999 * 0.5)
                yield 'matches-definition[lorenz]', bool(np.allclose(o, exp))

    return Instance('C18', MM + '*', 'bounded-all-masks-ranks-1-4', make, call, ensures, mode='bounded', bounded_n=400, frame=False,
                    raises=())


def extreme_levels_bounded_instance():
    """Masks whose definition is a ratio of magnitudes (ideal ratio / amplitude / complex / phase-sensitive mask) on signals of any
    representable level -- raw integer PCM next to normalised audio, 1e+200 .. 1e-200: the mask of c * s is the mask of s (the eps
    guard switched off for the tiny levels).  (sqrt(|s|^2) is |s| over the reals; its square leaves the range of the type.)"""
    from pb_bss.extraction import mask_module as mm

    def make(B):
        return {'fn': B.choose('fn', ['ratio', 'ratio', 'amplitude', 'complex', 'phase']), 'level': B.choose('level', [200, 160, 100, -100, -165, -200]),
                'dt': B.choose('dt', ['c128', 'c128', 'c64']), 'src': B.choose('src', [0, 1, -1]), 'seed': B.choose('seed', list(range(3000))), 'd': B.given('d', np.zeros(1))}

    def call(inp):
        rng = np.random.RandomState(inp['seed'])
        shape = (3, 4, 5)
        s_ = rng.normal(size=shape) + 1j * rng.normal(size=shape)
        level = inp['level']
        if inp['dt'] == 'c64':
            level = int(np.sign(level)) * min(abs(level), 30) // 2          # inside the range of single precision
            s_ = s_.astype(np.complex64)
        c = s_.dtype.type(10.0) ** level if inp['dt'] == 'c128' else np.complex64(10.0 ** level)
        fn = {'ratio': mm.ideal_ratio_mask, 'amplitude': mm.ideal_amplitude_mask, 'complex': mm.ideal_complex_mask, 'phase': mm.phase_sensitive_mask}[inp['fn']]
        kw = {'source_axis': inp['src']}
        if inp['fn'] != 'complex':
            kw['eps'] = 0.0
        with np.errstate(all='ignore'):
            return {'base': np.asarray(fn(s_, **kw)), 'scaled': np.asarray(fn(s_ * c, **kw)), 'single': inp['dt'] == 'c64'}

    def ensures(sp, inp, out):
        tol = 1e-4 if out['single'] else 1e-10
        yield 'finite-at-level-1e%d[%s]' % (inp['level'], inp['fn']), bool(np.all(np.isfinite(out['scaled'])))
        yield 'mask-independent-of-the-level[%s]' % inp['fn'], bool(out['base'].shape == out['scaled'].shape and np.allclose(out['scaled'], out['base'], rtol=tol, atol=tol))

    return Instance('C18', MM + 'ideal_ratio_mask', 'bounded-signals-of-any-representable-level', make, call, ensures, mode='bounded', bounded_n=100, frame=False)


def instances(tier):
    th = tier == 'thorough'
    out = []
    # rank-2 (no sensor axis) and rank-3 layouts
    for fn in ('binary', 'wiener'):
        for src in (0, 1):
            out.append(pooled_mask_instance(fn, 2, 1, 2, src, None, False))
        for src, sen, keep in layouts(3):
            if sen is None:
                continue
            out.append(pooled_mask_instance(fn, 2, 2, 2, src, sen, keep))
        out.append(pooled_mask_instance(fn, 3, 1, 1, 0, None, False))
    for fn in ('ratio', 'amplitude', 'complex', 'phase'):
        for src in (0, 1):
            out.append(simple_mask_instance(fn, 2, 2, src))
    out.append(simple_mask_instance('ratio', 3, 1, 0))
    out.append(simple_mask_instance('complex', 3, 1, 0))
    for fn in ('wiener', 'ratio', 'amplitude', 'phase', 'binary'):
        out.append(zero_input_instance(fn))
    out.append(quantile_instance(3, 0.5))
    out.append(quantile_instance(3, -0.5))
    out.append(quantile_instance(4, 0.1))
    out.append(quantile_instance(4, -0.9))
    out.append(lorenz_instance(3, 0.9))
    if th:
        out.append(lorenz_instance(4, 0.98))
        out.append(quantile_instance(5, 0.1))
    out.append(bounded_masks_instance())
    return out


_instances_before_simplex = instances


def instances(tier):       # noqa: F811
    from .common import simplex_lemma_instances
    return _instances_before_simplex(tier) + simplex_lemma_instances('C18')


_instances_before_history4 = instances


def instances(tier):       # noqa: F811
    # history: the same contracts after calls with other shapes / axes / options in the same process (results are functions of the arguments)
    from .common import with_history
    from pb_bss.extraction import mask_module as mm

    def warm():
        rng = np.random.RandomState(3)
        for shape, kw in (((3, 4, 5), {}), ((2, 3, 4, 5), {'sensor_axis': 1}), ((4, 6), {}), ((5, 2, 3), {'source_axis': 1})):
            s_ = rng.normal(size=shape) + 1j * rng.normal(size=shape)
            for fn in (mm.ideal_binary_mask, mm.wiener_like_mask):
                fn(s_, **kw)
            for fn in (mm.ideal_ratio_mask, mm.ideal_amplitude_mask, mm.ideal_complex_mask, mm.phase_sensitive_mask):
                fn(s_, **{k: v for k, v in kw.items() if k == 'source_axis'})
        mm.quantile_mask(rng.normal(size=(4, 7)) + 0j, quantile=0.3)
        mm.lorenz_mask(rng.normal(size=(4, 7)) + 0j)
    extra = [with_history(pooled_mask_instance('binary', 2, 2, 2, 0, 1, False), warm, 'other-shapes'),
             with_history(pooled_mask_instance('wiener', 2, 2, 2, 1, 0, False), warm, 'other-shapes'),
             with_history(simple_mask_instance('ratio', 2, 2, 0), warm, 'other-shapes'),
             with_history(simple_mask_instance('complex', 2, 2, 1), warm, 'other-shapes'),
             with_history(quantile_instance(3, 0.4), warm, 'other-shapes')]
    return _instances_before_history4(tier) + extra + [extreme_levels_bounded_instance()]

