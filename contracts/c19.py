"""C19 - SI-SDR and invasive SXR metrics obey their defining identities."""
import itertools

import numpy as np

from pbv import expr as E
from pbv import scalar as S
from pbv.instance import Instance
from pbv.spec import cells, shape_of

META = {
    'level': 'proof',
    'min_obligations': 100,
    'explanation': 'si_sdr / input_sxr / output_sxr / set_snr+get_snr: obligations on the arguments of the log10 '
                   'applications (so no transcendental reasoning is needed), scaling laws, selection optimality',
    'assumptions': ['log10 is treated as an uninterpreted strictly increasing function with log10(1)=0, '
                    'log10(10**t)=t and the ground product-rule instances stated as hints; an obligation "the argument of '
                    'the log10 equals the spec ratio" stands for "the dB value equals 10 log10(spec ratio)"'],
}

F_SISDR = 'pb_bss.evaluation.module_si_sdr:si_sdr'
F_IN = 'pb_bss.evaluation.sxr_module:input_sxr'
F_OUT = 'pb_bss.evaluation.sxr_module:output_sxr'
F_SNR = 'pb_bss.evaluation.sxr_module:set_snr'
SCALES = (1.0, 1e-5, 1e-2, 0.3, 1e2, 1e5)       # magnitudes of the native (bounded) evaluations


def unlog10(sp, x, factor=10.0):
    """The argument a of x = factor*log10(a).  Symbolic: looks the application up; concrete: 10**(x/factor)."""
    if not sp.symbolic:
        x = float(x)
        if np.isnan(x):
            return float('nan')
        try:
            return 10.0 ** (x / factor)
        except OverflowError:
            return float('inf')
    t = (S.R.lift(x) / factor)
    if t.conc() or t.d is not None:
        return None
    for (a,), v in S.ctx().apps.get('log10', []):
        if v is t.n:
            return S.R(a)
    return None


def eq_arg(sp, x, num, den, factor=10.0):
    """x == factor*log10(num/den), stated on the argument."""
    a = unlog10(sp, x, factor)
    if a is None:
        return sp.FALSE
    return sp.eq(a * den, num)


# ----------------------------------------------------------------------------- si_sdr
def sisdr_instance(lead, T, variant, lead_e=None):
    """lead_e: leading shape of the estimate when it differs from the reference's (broadcast against each other)"""
    from pb_bss.evaluation.module_si_sdr import si_sdr
    lead_s = tuple(lead)
    lead_e = lead_s if lead_e is None else tuple(lead_e)
    lead = tuple(np.broadcast_shapes(lead_s, lead_e))

    def bi(li, shp):
        # index into an operand of leading shape shp for the broadcast index li
        off = len(li) - len(shp)
        return tuple(0 if n == 1 else li[off + a] for a, n in enumerate(shp))

    def make(B):
        sp = B.sp
        s = B.real('s', lead_s + (T,))
        e = B.real('e', lead_e + (T,))
        inp = {'s': s, 'e': e}
        sc, ec = cells(s), cells(e)
        for li in np.ndindex(*lead):
            ls_, le_ = bi(li, lead_s), bi(li, lead_e)
            ss = sp.sum(sc[ls_ + (t,)] * sc[ls_ + (t,)] for t in range(T))
            ee = sp.sum(ec[le_ + (t,)] * ec[le_ + (t,)] for t in range(T))
            se = sp.sum(sc[ls_ + (t,)] * ec[le_ + (t,)] for t in range(T))
            B.require('reference-nonzero', sp.gt(ss, 0.0))
            B.require('estimate-not-orthogonal', sp.ne(se, 0.0))
            B.require('estimate-not-collinear', sp.gt(ss * ee - se * se, 0.0))
        if variant in ('scale-est', 'scale-ref'):
            inp['c'] = B.real('c', (), dist=(0.2, 5.0))
            B.require('scale-nonzero', sp.ne(inp['c'], 0.0))
        return inp

    def call(inp):
        r = si_sdr(inp['s'], inp['e'])
        if variant == 'scale-est':
            return r, si_sdr(inp['s'], inp['e'] * inp['c'])
        if variant == 'scale-ref':
            return r, si_sdr(inp['s'] * inp['c'], inp['e'])
        return r

    def ensures(sp, inp, out):
        r = out[0] if variant != 'value' else out
        yield 'shape', sp._f(shape_of(r) == lead)
        if shape_of(r) != lead:
            return
        sc, ec, g = cells(inp['s']), cells(inp['e']), cells(r)
        for li in np.ndindex(*lead):
            ls_, le_ = bi(li, lead_s), bi(li, lead_e)
            ss = sp.sum(sc[ls_ + (t,)] * sc[ls_ + (t,)] for t in range(T))
            se = sp.sum(sc[ls_ + (t,)] * ec[le_ + (t,)] for t in range(T))
            alpha = se / ss
            tgt = sp.sum((alpha * sc[ls_ + (t,)]) * (alpha * sc[ls_ + (t,)]) for t in range(T))
            res = sp.sum((ec[le_ + (t,)] - alpha * sc[ls_ + (t,)]) * (ec[le_ + (t,)] - alpha * sc[ls_ + (t,)]) for t in range(T))
            if variant == 'value':
                yield 'value[%s]' % (li,), eq_arg(sp, g[li], tgt, res)
            else:
                g2 = cells(out[1])
                a1, a2 = unlog10(sp, g[li]), unlog10(sp, g2[li])
                yield '%s-invariant[%s]' % (variant, li), (sp.FALSE if a1 is None or a2 is None else sp.eq(a1, a2))

    return Instance('C19', F_SISDR, 'lead%s%s-T%d-%s' % ('x'.join(map(str, lead_s)) or '0', '' if lead_e == lead_s else '-vs-' + 'x'.join(map(str, lead_e)), T, variant), make, call, ensures,
                    timeout=30.0, scales=SCALES)


# ----------------------------------------------------------------------------- input_sxr
def _powers(sp, arr, lead_shape, T):
    a = cells(arr)
    out = {}
    for i in np.ndindex(*lead_shape):
        out[i] = sp.sum(a[i + (t,)] * a[i + (t,)] for t in range(T)) / T
    return out


def insxr_instance(K, D, T, average_channels, variant='value', return_dict=False):
    from pb_bss.evaluation import sxr_module as sx

    def make(B):
        sp = B.sp
        im = B.real('im', (K, D, T))
        no = B.real('no', (D, T))
        inp = {'im': im, 'no': no}
        S_ = _powers(sp, im, (K, D), T)
        N_ = _powers(sp, no, (D,), T)
        for v in list(S_.values()) + list(N_.values()):
            B.require('positive-power', sp.gt(v, 0.0))
        if variant in ('scale-all', 'scale-images'):
            inp['c'] = B.real('c', (), dist=(0.2, 5.0))
            B.require('scale-nonzero', sp.ne(inp['c'], 0.0))
        return inp

    def call(inp):
        kw = dict(average_sources=False, average_channels=average_channels)
        if variant == 'value':
            return sx.input_sxr(inp['im'], inp['no'], return_dict=return_dict, **kw)
        if variant == 'average':
            return (sx.input_sxr(inp['im'], inp['no'], **kw),
                    sx.input_sxr(inp['im'], inp['no'], average_sources=True, average_channels=average_channels, return_dict=return_dict))
        if variant == 'scale-all':
            return (sx.input_sxr(inp['im'], inp['no'], **kw),
                    sx.input_sxr(inp['im'] * inp['c'], inp['no'] * inp['c'], **kw))
        if variant == 'scale-images':
            return (sx.input_sxr(inp['im'], inp['no'], **kw), sx.input_sxr(inp['im'] * inp['c'], inp['no'], **kw))

    def get3(o, prefix=''):
        if isinstance(o, dict):
            return o[prefix + 'sdr'], o[prefix + 'sir'], o[prefix + 'snr']
        return o.sdr, o.sir, o.snr

    def ensures(sp, inp, out):
        S_ = _powers(sp, inp['im'], (K, D), T)
        N_ = _powers(sp, inp['no'], (D,), T)
        if average_channels:
            Sx = {(k,): sp.sum(S_[(k, d)] for d in range(D)) / D for k in range(K)}
            Nx = {(k,): sp.sum(N_[(d,)] for d in range(D)) / D for k in range(K)}
            Ix = {(k,): sp.sum(S_[(j, d)] for j in range(K) if j != k for d in range(D)) / D for k in range(K)}
            idxs = [(k,) for k in range(K)]
        else:
            Sx = {(k, d): S_[(k, d)] for k in range(K) for d in range(D)}
            Nx = {(k, d): N_[(d,)] for k in range(K) for d in range(D)}
            Ix = {(k, d): sp.sum(S_[(j, d)] for j in range(K) if j != k) for k in range(K) for d in range(D)}
            idxs = [(k, d) for k in range(K) for d in range(D)]
        if variant == 'value':
            if return_dict:
                prefix = '' if return_dict is True else return_dict
                ok = isinstance(out, dict) and set(out) == {prefix + 'sdr', prefix + 'sir', prefix + 'snr'}
                yield 'returns-dict-with-keys', sp._f(ok)
                if not ok:
                    return
                sdr, sir, snr = get3(out, prefix)
            else:
                yield 'returns-tuple', sp._f(isinstance(out, tuple) and len(out) == 3)
                sdr, sir, snr = get3(out)
            sdr, sir, snr = cells(sdr), cells(sir), cells(snr)
            for i in idxs:
                yield 'sdr-arg[%s]' % (i,), eq_arg(sp, sdr[i], Sx[i], Ix[i] + Nx[i])
                yield 'sir-arg[%s]' % (i,), eq_arg(sp, sir[i], Sx[i], Ix[i])
                yield 'snr-arg[%s]' % (i,), eq_arg(sp, snr[i], Sx[i], Nx[i])
                a, b, c_ = unlog10(sp, sdr[i]), unlog10(sp, sir[i]), unlog10(sp, snr[i])
                if a is None or b is None or c_ is None:
                    yield 'reciprocal-identity[%s]' % (i,), sp.FALSE
                    continue
                # 1/SDR = 1/SIR + 1/SNR  <=>  b c = a (b + c)
                yield 'reciprocal-identity[%s]' % (i,), sp.eq(b * c_, a * (b + c_))
                yield 'sdr<=sir(dB)[%s]' % (i,), sp.le(sdr[i], sir[i])
                yield 'sdr<=snr(dB)[%s]' % (i,), sp.le(sdr[i], snr[i])
            return
        o1, o2 = out
        if variant == 'average' and return_dict:
            prefix = '' if return_dict is True else return_dict
            okd = isinstance(o2, dict) and set(o2) == {prefix + 'sdr', prefix + 'sir', prefix + 'snr'}
            yield 'averaged-result-is-dict-with-keys', sp._f(okd)
            if not okd:
                return
            a1, a2 = [cells(x) for x in get3(o1)], [cells(x) for x in get3(o2, prefix)]
        else:
            a1, a2 = [cells(x) for x in get3(o1)], [cells(x) for x in get3(o2)]
        names = ('sdr', 'sir', 'snr')
        if variant == 'average':
            want1, want2 = ((K,), ()) if average_channels else ((K, D), (D,))
            oks = all(shape_of(get3(o1)[q]) == want1 for q in range(3)) and all(a2[q].shape == want2 for q in range(3))
            yield 'averaged-result-drops-the-source-axis', sp._f(oks)
            if not oks:
                return
            for q in range(3):
                if average_channels:
                    yield 'average-sources[%s]' % names[q], sp.eq(a2[q][()], sp.sum(a1[q][(k,)] for k in range(K)) / K)
                else:
                    for d in range(D):
                        yield 'average-sources[%s,d=%d]' % (names[q], d), sp.eq(a2[q][(d,)], sp.sum(a1[q][(k, d)] for k in range(K)) / K)
            return
        c = inp['c']
        for i in idxs:
            u1 = [unlog10(sp, a1[q][i]) for q in range(3)]
            u2 = [unlog10(sp, a2[q][i]) for q in range(3)]
            if any(u is None for u in u1 + u2):
                yield '%s-law[%s]' % (variant, i), sp.FALSE
                continue
            if variant == 'scale-all':
                for q in range(3):
                    yield 'common-scale-invariant[%s,%s]' % (names[q], i), sp.eq(u1[q], u2[q])
            else:
                yield 'image-scale-sir-unchanged[%s]' % (i,), sp.eq(u1[1], u2[1])
                # SNR changes by exactly 20 log10|c|: linear SNR is multiplied by c^2
                yield 'image-scale-snr-times-c2[%s]' % (i,), sp.eq(u2[2], u1[2] * c * c)

    return Instance('C19', F_IN, 'K%dD%dT%d-avgch%d-%s%s' % (K, D, T, int(average_channels), variant,
                                                            '' if not return_dict else '-dict%s' % return_dict),
                    make, call, ensures, timeout=30.0)


# ----------------------------------------------------------------------------- output_sxr
def outsxr_instance(Ks, Kt, T, variant='value', return_dict=False, perm=None):
    from pb_bss.evaluation import sxr_module as sx
    sels = list(itertools.permutations(range(Kt), r=Ks))

    def powers(sp, inp):
        ic, nc = cells(inp['ic']), cells(inp['nc'])
        S_ = {(i, j): sp.sum(ic[(i, j, t)] * ic[(i, j, t)] for t in range(T)) / T for i in range(Ks) for j in range(Kt)}
        N_ = {j: sp.sum(nc[(j, t)] * nc[(j, t)] for t in range(T)) / T for j in range(Kt)}
        return S_, N_

    def make(B):
        sp = B.sp
        inp = {'ic': B.real('ic', (Ks, Kt, T)), 'nc': B.real('nc', (Kt, T))}
        S_, N_ = powers(sp, inp)
        for v in list(S_.values()) + list(N_.values()):
            B.require('positive-power', sp.gt(v, 0.0))
        if variant == 'reorder':
            # unique best selection (ties make the choice among equally good selections arbitrary)
            tot = [sp.sum(S_[(k, s[k])] for k in range(Ks)) for s in sels]
            for a in range(len(sels)):
                for b in range(a + 1, len(sels)):
                    B.require('unique-best-selection', sp.ne(tot[a], tot[b]))
        return inp

    def call(inp):
        if variant == 'value':
            return sx.output_sxr(inp['ic'], inp['nc'], average_sources=False, return_dict=return_dict)
        if variant == 'average':
            return (sx.output_sxr(inp['ic'], inp['nc'], average_sources=False),
                    sx.output_sxr(inp['ic'], inp['nc'], average_sources=True, return_dict=return_dict))
        if variant == 'reorder':
            p = list(perm)
            return (sx.output_sxr(inp['ic'], inp['nc'], average_sources=False),
                    sx.output_sxr(inp['ic'][:, p, :], inp['nc'][p, :], average_sources=False))

    def get3(o, prefix=''):
        if isinstance(o, dict):
            return o[prefix + 'sdr'], o[prefix + 'sir'], o[prefix + 'snr']
        return o.sdr, o.sir, o.snr

    def ensures(sp, inp, out):
        S_, N_ = powers(sp, inp)
        if variant == 'value':
            if return_dict:
                prefix = '' if return_dict is True else return_dict
                ok = isinstance(out, dict) and set(out) == {prefix + 'sdr', prefix + 'sir', prefix + 'snr'}
                yield 'returns-dict-with-keys', sp._f(ok)
                if not ok:
                    return
                sdr, sir, snr = [cells(x) for x in get3(out, prefix)]
            else:
                yield 'returns-tuple', sp._f(isinstance(out, tuple) and len(out) == 3)
                sdr, sir, snr = [cells(x) for x in get3(out)]
            us = [[unlog10(sp, q[(k,)]) for k in range(Ks)] for q in (sdr, sir, snr)]
            if Ks == 1:
                # no interferer: S / 0 -> SIR = +inf dB (the code silences the divide warning on purpose)
                v = sir[(0,)]
                v = v.n if isinstance(v, S.R) and v.conc() else v
                yield 'single-source-sir-is-inf', sp._f(isinstance(v, (float, np.floating)) and v == float('inf'))
                us[1] = [0.0]
            if any(u is None for row in us for u in row):
                yield 'selection-value', sp.FALSE
                return
            tot = [sp.sum(S_[(k, s[k])] for k in range(Ks)) for s in sels]
            alts = []
            for si, s in enumerate(sels):
                best = sp.all(sp.ge(tot[si], tot[o]) for o in range(len(sels)) if o != si)
                fs = [best]
                for k in range(Ks):
                    SS = S_[(k, s[k])]
                    II = sp.sum((S_[(j, s[k])] for j in range(Ks) if j != k), start=0.0)
                    NN = N_[s[k]]
                    fs.append(sp.eq(us[0][k] * (II + NN), SS))
                    if Ks > 1:
                        fs.append(sp.eq(us[1][k] * II, SS))
                    fs.append(sp.eq(us[2][k] * NN, SS))
                alts.append(sp.and_(*fs))
            yield 'selection-maximises-captured-power-and-values', sp.or_(*alts)
            for k in range(Ks):
                if Ks > 1:
                    yield 'reciprocal-identity[%d]' % k, sp.eq(us[1][k] * us[2][k], us[0][k] * (us[1][k] + us[2][k]))
                    yield 'sdr<=sir(dB)[%d]' % k, sp.le(sdr[(k,)], sir[(k,)])
                yield 'sdr<=snr(dB)[%d]' % k, sp.le(sdr[(k,)], snr[(k,)])
            return
        o1, o2 = out
        if variant == 'average' and return_dict:
            prefix = '' if return_dict is True else return_dict
            okd = isinstance(o2, dict) and set(o2) == {prefix + 'sdr', prefix + 'sir', prefix + 'snr'}
            yield 'averaged-result-is-dict-with-keys', sp._f(okd)
            if not okd:
                return
            a1, a2 = [cells(x) for x in get3(o1)], [cells(x) for x in get3(o2, prefix)]
        else:
            a1, a2 = [cells(x) for x in get3(o1)], [cells(x) for x in get3(o2)]
        names = ('sdr', 'sir', 'snr')
        if variant == 'average':
            oks = all(a1[q].shape == (Ks,) for q in range(3)) and all(a2[q].shape == () for q in range(3))
            yield 'averaged-result-drops-the-source-axis', sp._f(oks)
            if not oks:
                return
            for q in range(3):
                yield 'average-sources[%s]' % names[q], sp.eq(a2[q][()], sp.sum(a1[q][(k,)] for k in range(Ks)) / Ks)
            return
        for q in range(3):
            if Ks == 1 and q == 1:
                continue
            for k in range(Ks):
                u1, u2 = unlog10(sp, a1[q][(k,)]), unlog10(sp, a2[q][(k,)])
                yield 'output-order-invariant[%s,%d]' % (names[q], k), (sp.FALSE if u1 is None or u2 is None else sp.eq(u1, u2))

    return Instance('C19', F_OUT, 'Ks%dKt%dT%d-%s%s%s' % (Ks, Kt, T, variant, '' if not return_dict else '-dict%s' % return_dict,
                                                         '' if perm is None else '-perm' + ''.join(map(str, perm))),
                    make, call, ensures, timeout=30.0, max_paths=400, scales=SCALES)


# ----------------------------------------------------------------------------- set_snr / get_snr
def snr_instance(shape, axis=None, given_current=False):
    from pb_bss.evaluation import sxr_module as sx
    shape = tuple(shape)

    def make(B):
        sp = B.sp
        X = B.real('X', shape)
        N = B.real('N', shape)
        snr = B.real('snr', (), dist=(-20.0, 30.0))
        if axis is None:
            B.require('signal-nonzero', sp.gt(sp.sum(x * x for x in cells(X).reshape(-1)), 0.0))
            B.require('noise-nonzero', sp.gt(sp.sum(x * x for x in cells(N).reshape(-1)), 0.0))
        else:
            # every slice along the pooled axes carries signal and noise power
            ax = tuple(a % len(shape) for a in ((axis,) if isinstance(axis, int) else axis))
            for i in np.ndindex(*[1 if a in ax else n for a, n in enumerate(shape)]):
                sl = tuple(slice(None) if a in ax else i[a] for a in range(len(shape)))
                B.require('signal-nonzero', sp.gt(sp.sum(x * x for x in cells(X)[sl].reshape(-1)), 0.0))
                B.require('noise-nonzero', sp.gt(sp.sum(x * x for x in cells(N)[sl].reshape(-1)), 0.0))
        return {'X': X, 'N': N, 'snr': snr}

    def call(inp):
        kw = {}
        if given_current:
            # the caller hands over the SNR it measured before (the documented use of `current_snr`)
            kw['current_snr'] = sx.get_snr(inp['X'], inp['N'], axis=axis, keepdims=True) if axis is not None else sx.get_snr(inp['X'], inp['N'])
        if axis is None:
            X2, N2 = sx.set_snr(inp['X'], inp['N'], inp['snr'], inplace=False, **kw)
            return {'X2': X2, 'N2': N2, 'snr2': sx.get_snr(X2, N2)}
        X2, N2 = sx.set_snr(inp['X'], inp['N'], inp['snr'], axis=axis, inplace=False, **kw)
        return {'X2': X2, 'N2': N2, 'snr2': sx.get_snr(X2, N2, axis=axis)}

    def ensures(sp, inp, out):
        x, x2 = cells(inp['X']), cells(out['X2'])
        yield 'signal-unchanged', sp.all(sp.eq(x[i], x2[i]) for i in np.ndindex(*shape))
        if axis is None:
            yield 'get-after-set-returns-request', sp.eq(out['snr2'], inp['snr'])
        else:
            ax = tuple(a % len(shape) for a in ((axis,) if isinstance(axis, int) else axis))
            want = tuple(n for a, n in enumerate(shape) if a not in ax)
            yield 'per-slice-shape', sp._f(shape_of(out['snr2']) == want and shape_of(out['N2']) == shape)
            if shape_of(out['snr2']) == want:
                r = cells(out['snr2'])
                for i in np.ndindex(*want):
                    yield 'get-after-set-returns-request[%s]' % (i,), sp.eq(r[i], inp['snr'])

    def hints(sp, inp, out):
        """log10(a) + log10(b) = log10(a b) instances connecting the two get_snr ratios through the factor."""
        if not sp.symbolic:
            return []
        c = S.ctx()
        hs = []
        logs = list(c.apps.get('log10', []))
        pows = list(c.apps.get('pow10', []))
        for (t,), f in pows:
            fR = S.R(f)
            lf = sp.log10(fR)
            # log10(10**t) = t is a ground axiom; product rule instances: q2 * f * f == q1
            for (a,), va in logs:
                for (b,), vb in logs:
                    if a is b:
                        continue
                    guard = E.and_(E.cmp('==', E.mul(E.mul(b, f), f), a), E.cmp('>', b, E.ZERO))
                    hs.append(E.implies(guard, E.cmp('==', va, E.add(vb, E.mul(E.const(2), lf.term())))))
        return hs

    return Instance('C19', F_SNR, 'shape%s%s%s' % ('x'.join(map(str, shape)), '' if axis is None else '-axis%s' % str(axis).replace(' ', ''),
                                                   '-current-snr-given' if given_current else ''), make, call, ensures, hints=hints, timeout=30.0,
                    scales=SCALES)


def sisdr_range_bounded_instance():
    """si_sdr over its whole useful range: nearly loss-less estimates (100 .. 170 dB: a float32 round trip, two implementations of
    one filter) next to poor ones, long signals, leading axes -- against the defining ratio evaluated with the residual formed
    explicitly, and the rescaling invariances.  (In exact arithmetic every algebraic rearrangement of the ratio is the same number, so
    the deductive obligations cannot see a cancellation-prone one; this family can.)"""
    from pb_bss.evaluation.module_si_sdr import si_sdr

    def make(B):
        return {'level': B.choose('level', [-1, -2, -3, -4, -5, -6, -7, -8]), 'T': B.choose('T', [50, 1000, 16000]), 'lead': B.choose('lead', [(), (3,), (2, 2)]),
                'seed': B.choose('seed', list(range(3000))), 'd': B.given('d', np.zeros(1))}

    def call(inp):
        rng = np.random.RandomState(inp['seed'])
        lead, T = tuple(inp['lead']), inp['T']
        ref = rng.normal(size=lead + (T,))
        est = ref * rng.uniform(0.5, 2.0, size=lead + (1,)) + 10.0 ** inp['level'] * rng.normal(size=lead + (T,))
        c = 10.0 ** rng.uniform(-3, 3)
        return {'v': np.asarray(si_sdr(ref, est)), 'v_est_scaled': np.asarray(si_sdr(ref, c * est)), 'v_ref_scaled': np.asarray(si_sdr(c * ref, est)),
                'ref': ref, 'est': est}

    def ensures(sp, inp, out):
        ref, est = out['ref'], out['est']
        alpha = np.sum(est * ref, axis=-1, keepdims=True) / np.sum(ref * ref, axis=-1, keepdims=True)
        want = 10 * np.log10(np.sum((alpha * ref) ** 2, axis=-1) / np.sum((est - alpha * ref) ** 2, axis=-1))
        tol = 1e-4 if inp['level'] > -7 else 1e-2          # dB; the defining residual itself carries a relative rounding error of 1e-16 |s| / |residual|
        yield 'equals-the-defining-ratio[level=1e%d]' % inp['level'], bool(np.shape(out['v']) == np.shape(want) and np.allclose(out['v'], want, rtol=0, atol=tol))
        yield 'invariant-to-rescaling-of-the-estimate', bool(np.allclose(out['v_est_scaled'], out['v'], rtol=0, atol=10 * tol))
        yield 'invariant-to-rescaling-of-the-reference', bool(np.allclose(out['v_ref_scaled'], out['v'], rtol=0, atol=10 * tol))

    return Instance('C19', F_SISDR, 'bounded-from-poor-to-nearly-lossless-estimates', make, call, ensures, mode='bounded', bounded_n=120, frame=False)


def sxr_range_bounded_instance():
    """input_sxr / output_sxr from poor to nearly perfect separation (leakage and noise down to 180 dB below the wanted source): the
    ratios equal the defining power sums evaluated term by term, 1/SDR = 1/SIR + 1/SNR, and the scaling laws hold there too.
    (A total-minus-target rearrangement of the interference power is the same number over the reals and cancels catastrophically here.)"""
    from pb_bss.evaluation import sxr_module as sx

    def make(B):
        return {'Ks': B.choose('Ks', [1, 2, 3]), 'extra': B.choose('extra', [0, 0, 1]), 'leak': B.choose('leak', [-1, -2, -4, -6, -7, -8, -9]),
                'noise': B.choose('noise', [-1, -3, -6, -9]), 'T': B.choose('T', [40, 2000]), 'seed': B.choose('seed', list(range(3000))), 'd': B.given('d', np.zeros(1))}

    def call(inp):
        rng = np.random.RandomState(inp['seed'])
        Ks, Kt, T = inp['Ks'], inp['Ks'] + inp['extra'], inp['T']
        pick = rng.permutation(Kt)[:Ks]                                   # source k is wanted in output pick[k]
        ic = 10.0 ** inp['leak'] * rng.normal(size=(Ks, Kt, T))
        for k in range(Ks):
            ic[k, pick[k]] = rng.normal(size=T) * rng.uniform(0.5, 2.0)
        nc = 10.0 ** inp['noise'] * rng.normal(size=(Kt, T))
        c = 10.0 ** rng.uniform(-3, 3)
        o = sx.output_sxr(ic, nc, average_sources=False)
        o_all = sx.output_sxr(c * ic, c * nc, average_sources=False)
        o_img = sx.output_sxr(c * ic, nc, average_sources=False)
        return {'o': [np.asarray(v) for v in o], 'o_all': [np.asarray(v) for v in o_all], 'o_img': [np.asarray(v) for v in o_img],
                'ic': ic, 'nc': nc, 'pick': pick, 'c': c}

    def ensures(sp, inp, out):
        ic, nc, pick = out['ic'], out['nc'], out['pick']
        Ks = ic.shape[0]
        S_ = np.mean(ic ** 2, axis=-1)
        N_ = np.mean(nc ** 2, axis=-1)
        sdr, sir, snr = out['o']
        want_sir, want_snr, want_sdr = np.zeros(Ks), np.zeros(Ks), np.zeros(Ks)
        for k in range(Ks):
            j = pick[k]
            I_ = sum(S_[k2, j] for k2 in range(Ks) if k2 != k)
            with np.errstate(divide='ignore'):
                want_sir[k] = 10 * np.log10(S_[k, j] / I_) if I_ > 0 else np.inf
                want_snr[k] = 10 * np.log10(S_[k, j] / N_[j])
                want_sdr[k] = 10 * np.log10(S_[k, j] / (I_ + N_[j]))
        tol = 1e-6
        yield 'sir-is-the-defining-ratio[leak=1e%d]' % inp['leak'], bool(np.allclose(sir, want_sir, rtol=0, atol=tol))
        yield 'snr-is-the-defining-ratio', bool(np.allclose(snr, want_snr, rtol=0, atol=tol))
        yield 'sdr-is-the-defining-ratio', bool(np.allclose(sdr, want_sdr, rtol=0, atol=tol))
        lin = lambda x: 10.0 ** (-np.asarray(x, dtype=float) / 10.0)      # noqa
        yield 'reciprocal-identity', bool(np.allclose(lin(sdr), lin(sir) + lin(snr), rtol=1e-9, atol=0))
        yield 'common-rescaling-invariant', bool(all(np.allclose(a, b, rtol=0, atol=tol) for a, b in zip(out['o'], out['o_all'])))
        yield 'images-scaled-sir-unchanged-snr-shifted', bool(np.allclose(out['o_img'][1], sir, rtol=0, atol=tol)
                                                                and np.allclose(out['o_img'][2], snr + 20 * np.log10(out['c']), rtol=0, atol=tol))

    return Instance('C19', F_OUT, 'bounded-from-poor-to-nearly-perfect-separation', make, call, ensures, mode='bounded', bounded_n=120, frame=False)


def instances(tier):
    th = tier == 'thorough'
    out = []
    for lead, T in [((), 2), ((), 3), ((2,), 2)] + ([((), 4), ((2,), 3)] if th else []):
        out.append(sisdr_instance(lead, T, 'value'))
    out.append(sisdr_instance((2, 1), 2, 'value'))                       # singleton inner leading axis
    out.append(sisdr_instance((2, 1), 2, 'value', lead_e=(1, 2)))        # reference [K,1,T] against estimate [1,C,T]
    out.append(sisdr_instance((), 2, 'value', lead_e=(2,)))
    out.append(sisdr_instance((), 3, 'scale-est'))
    out.append(sisdr_instance((), 3, 'scale-ref'))
    out.append(sisdr_instance((2,), 2, 'scale-est'))
    for K, D, T in [(2, 1, 2), (2, 2, 2), (3, 1, 2)] + ([(3, 2, 2), (4, 1, 2)] if th else []):
        for ac in (True, False):
            out.append(insxr_instance(K, D, T, ac, 'value'))
    out.append(insxr_instance(2, 2, 2, True, 'average'))
    out.append(insxr_instance(2, 2, 2, False, 'average'))
    out.append(insxr_instance(2, 2, 2, True, 'average', return_dict='in_'))
    out.append(insxr_instance(2, 1, 2, False, 'average', return_dict=True))
    out.append(insxr_instance(2, 1, 2, True, 'scale-all'))
    out.append(insxr_instance(2, 2, 2, False, 'scale-all'))
    out.append(insxr_instance(2, 1, 2, True, 'scale-images'))
    out.append(insxr_instance(2, 2, 2, False, 'scale-images'))
    out.append(insxr_instance(2, 1, 2, True, 'value', return_dict=True))
    out.append(insxr_instance(2, 1, 2, True, 'value', return_dict='input_'))
    for Ks, Kt in [(1, 1), (1, 2), (2, 2), (2, 3)] + ([(1, 3), (3, 3)] if th else []):
        out.append(outsxr_instance(Ks, Kt, 2, 'value'))
    out.append(outsxr_instance(2, 2, 2, 'average'))
    out.append(outsxr_instance(2, 2, 2, 'average', return_dict='out_'))
    out.append(outsxr_instance(2, 2, 2, 'average', return_dict=True))
    out.append(outsxr_instance(2, 2, 2, 'value', return_dict=True))
    out.append(outsxr_instance(2, 2, 2, 'value', return_dict='output_'))
    out.append(outsxr_instance(2, 2, 2, 'reorder', perm=(1, 0)))
    out.append(outsxr_instance(1, 2, 2, 'reorder', perm=(1, 0)))
    out.append(outsxr_instance(2, 3, 2, 'reorder', perm=(2, 0, 1)))
    if th:
        out.append(outsxr_instance(2, 3, 2, 'reorder', perm=(1, 0, 2)))
    # history: the same contracts after calls with other numbers of sources / outputs / sensors in the same process
    from .common import with_history
    from pb_bss.evaluation import sxr_module as sx

    def other_sizes(sizes):
        def warmup():
            rng = np.random.RandomState(5)
            for Ks, Kt in sizes:
                if Kt >= Ks:
                    sx.output_sxr(rng.normal(size=(Ks, Kt, 7)), rng.normal(size=(Kt, 7)))
                sx.input_sxr(rng.normal(size=(Ks, Kt, 7)), rng.normal(size=(Kt, 7)))
        return warmup
    out.append(with_history(outsxr_instance(2, 3, 2, 'value'), other_sizes([(2, 2), (1, 3), (3, 3)]), 'other-sizes'))
    out.append(with_history(outsxr_instance(2, 2, 2, 'value'), other_sizes([(2, 3), (2, 4), (1, 2)]), 'other-sizes'))
    out.append(with_history(outsxr_instance(1, 2, 2, 'value'), other_sizes([(1, 3), (1, 1), (2, 2)]), 'other-sizes'))
    out.append(with_history(outsxr_instance(2, 3, 2, 'reorder', perm=(2, 0, 1)), other_sizes([(2, 2), (2, 4)]), 'other-sizes'))
    out.append(with_history(insxr_instance(2, 2, 2, True, 'value'), other_sizes([(2, 3), (3, 2), (2, 1)]), 'other-sizes'))
    out.append(with_history(insxr_instance(2, 1, 2, False, 'value'), other_sizes([(2, 2), (3, 1)]), 'other-sizes'))
    out.append(snr_instance((3,)))
    out.append(snr_instance((2, 2)))
    for ax in (0, -1, 1, (0,), (0, 1)):
        out.append(snr_instance((2, 2), axis=ax))
    out.append(snr_instance((2, 1, 2), axis=0))
    out.append(snr_instance((3,), given_current=True))
    out.append(snr_instance((2, 2), axis=-1, given_current=True))
    return out


_instances_before_simplex = instances


def instances(tier):       # noqa: F811
    from .common import simplex_lemma_instances
    return _instances_before_simplex(tier) + [sisdr_range_bounded_instance(), sxr_range_bounded_instance()] + simplex_lemma_instances('C19')
