"""C20 - calls are pure: inputs untouched, results reproducible and history-free."""
import copy
import importlib
import itertools

import os
import time

import numpy as np

from pbv.instance import Instance
from pbv.spec import cells, shape_of

META = {
    'level': 'proof',
    'min_obligations': 30,
    'explanation': 'frame obligations: every contract instance of the other properties is re-run with read-only argument '
                   'storage (a write through any view is a failed frame obligation naming the source line) and natively with '
                   'before/after comparison; split equivalence of CACGMMTrainer.fit for every composition of n <= 4 (callees '
                   'by recording stubs, with and without inline aligner); trainer reuse (different D rejected; history-free); '
                   'repeatability and re-seeding (bounded)',
}
DN = 'pb_bss.distribution.'
SOURCES = ['c01', 'c07', 'c08', 'c09', 'c10', 'c11', 'c12', 'c13', 'c14', 'c15', 'c18', 'c19']


def frame_instances(tier):
    out = []
    seen_funcs = {}
    for modname in SOURCES:
        try:
            mod = importlib.import_module('contracts.' + modname)
        except Exception:
            continue
        for inst in mod.instances('quick'):
            if inst.mode != 'proof' or not inst.frame or inst.weight > 10 or inst.shard_depth:
                continue
            # a few instances per function are enough for the frame clause
            n = seen_funcs.get(inst.func, 0)
            if n >= (6 if tier == 'thorough' else 3):
                continue
            seen_funcs[inst.func] = n + 1
            c = copy.copy(inst)
            c.prop = 'C20'
            c.name = '%s/%s' % (inst.prop, inst.name)
            c.ensures = lambda sp, inp, out: iter(())
            c.hints = None
            c.on_raise = None
            c.crosscheck = False
            c.native_n = 2
            c.definedness = False
            c.raises = (Exception,)        # only the frame clause is judged here; other outcomes belong to their property
            out.append(c)
    return out


def split_instance(n, comp, aligner):
    """CACGMMTrainer.fit(iterations=n) == consecutive fits continued from the returned model for the composition comp."""
    from pb_bss.distribution import cacgmm
    F, K, N, D = 2, 3, 3, 2
    rng = np.random.RandomState(7)
    y0 = rng.normal(size=(F, N, D)) + 1j * rng.normal(size=(F, N, D))
    init = rng.dirichlet(np.ones(K), size=(F, N)).transpose(0, 2, 1).copy()
    affs = [rng.dirichlet(np.ones(K), size=(F, N)).transpose(0, 2, 1).copy() for _ in range(8)]
    qfs = [rng.uniform(0.5, 2.0, size=(F, K, N)) for _ in range(8)]
    log = []
    counters = {'E': 0, 'M': 0}
    from pb_bss.distribution.complex_angular_central_gaussian import ComplexAngularCentralGaussian as CACG

    def tofloat(a):
        if hasattr(a, 'data') and getattr(a.data, 'dtype', None) == object:      # symbolic-capable array holding concrete values
            flat = [float(v) for v in a.data.reshape(-1)]
            return np.array(flat).reshape(a.shape)
        return np.array(a)

    def fake_m(self, x, quadratic_form, affiliation, **k):
        i = counters['M']
        counters['M'] += 1
        log.append(('M', i, tofloat(affiliation), tofloat(quadratic_form), {kk: v for kk, v in k.items()}))
        m = cacgmm.CACGMM(weight=np.full((F, K, 1), 1.0 / K), cacg=CACG(covariance_eigenvectors=np.zeros((F, K, D, D), dtype=complex),
                                                                        covariance_eigenvalues=np.ones((F, K, D))))
        m._idx = i
        return m

    def fake_e(self, y, source_activity_mask=None, affiliation_eps=0.):
        i = counters['E']
        counters['E'] += 1
        log.append(('E', i, getattr(self, '_idx', None), affiliation_eps))
        return affs[i], qfs[i], None

    class Aligner:
        def calculate_mapping(self, mask, *a, **k):
            return np.array([[1, 0], [2, 1], [0, 2]])       # a 3-cycle in bin 0

        @staticmethod
        def apply_mapping(mask, mapping):
            from pb_bss.permutation_alignment import apply_mapping
            return apply_mapping(mask, mapping)

    def patches():
        return [(cacgmm.CACGMMTrainer, '_m_step', fake_m), (cacgmm.CACGMM, '_predict', fake_e)]

    def make(B):
        return {'y': B.given('y', y0, wrap=False), 'init': B.given('init', init, wrap=False)}

    def run(inp, parts):
        del log[:]
        counters['E'] = counters['M'] = 0
        kw = {'weight_constant_axis': (-3,), 'inline_permutation_aligner': Aligner()} if aligner else {}
        model = cacgmm.CACGMMTrainer().fit(inp['y'], initialization=inp['init'], iterations=parts[0], **kw)
        for p in parts[1:]:
            model = cacgmm.CACGMMTrainer().fit(inp['y'], initialization=model, iterations=p, **kw)
        return list(log), model

    def call(inp):
        a, ma = run(inp, [n])
        b, mb = run(inp, list(comp))
        return {'single': a, 'split': b, 'ma': ma, 'mb': mb}

    def ensures(sp, inp, out):
        a, b = out['single'], out['split']
        yield 'same-call-sequence', sp._f([e[:2] for e in a] == [e[:2] for e in b])
        if [e[:2] for e in a] != [e[:2] for e in b]:
            return
        for i, (x, y) in enumerate(zip(a, b)):
            if x[0] == 'E':
                yield 'e-step-%d-same-model-and-eps' % x[1], sp._f(x[2] == y[2] and x[3] == y[3])
            else:
                same = np.array_equal(x[2], y[2]) and np.array_equal(x[3], y[3]) and x[4].keys() == y[4].keys() and all(
                    (x[4][k] is y[4][k]) or x[4][k] == y[4][k] for k in x[4])
                yield 'm-step-%d-same-arguments' % x[1], sp._f(bool(same))
        yield 'returned-model-is-the-same-m-step', sp._f(out['ma']._idx == out['mb']._idx)

    name = 'n%d=%s%s' % (n, '+'.join(map(str, comp)), '-aligner' if aligner else '')
    return Instance('C20', DN + 'cacgmm:CACGMMTrainer.fit', name, make, call, ensures, patches=patches, crosscheck=False, native_n=1, frame=False)


def compositions(n):
    if n == 0:
        yield ()
        return
    for first in range(1, n + 1):
        for rest in compositions(n - first):
            yield (first,) + rest


def reuse_instance():
    """Trainer objects: a different feature dimension is rejected; results do not depend on earlier fits (bounded)."""
    from pb_bss.distribution import CWMMTrainer, CBMMTrainer, ComplexWatsonTrainer, CACGMMTrainer, GMMTrainer, VMFMMTrainer

    def make(B):
        return {'which': B.choose('which', ['cwmm', 'watson', 'cbmm', 'cacgmm', 'gmm', 'vmfmm']), 'hist': B.choose('hist', [0, 1, 2, 3, 5]),
                'seed': B.choose('seed', list(range(2000))), 'd': B.given('d', np.zeros(1))}

    def call(inp):
        rng = np.random.RandomState(inp['seed'])
        which = inp['which']
        D, K, N, F = int(rng.randint(2, 5)), int(rng.randint(2, 4)), 12, 2
        cplx = which in ('cwmm', 'watson', 'cbmm', 'cacgmm')

        def data(D_, K_):
            y = rng.normal(size=(F, N, D_)) + (1j * rng.normal(size=(F, N, D_)) if cplx else 0)
            init = rng.dirichlet(np.ones(K_), size=(F, N)).transpose(0, 2, 1).copy()
            return y, init
        cls = {'cwmm': CWMMTrainer, 'watson': ComplexWatsonTrainer, 'cbmm': CBMMTrainer, 'cacgmm': CACGMMTrainer, 'gmm': GMMTrainer, 'vmfmm': VMFMMTrainer}[which]
        its = 1 if which == 'cbmm' else 2

        def fit(tr, y, init):
            if which == 'watson':
                m = tr.fit(y)
                return [m.mode, m.concentration]
            if which == 'cbmm':
                y, init = y[:1, :8], init[:1, :, :8]
            m = tr.fit(y, initialization=init, iterations=its)
            return [np.asarray(v) for _, v in __import__('pbv.instance', fromlist=['flatten']).flatten(m) if isinstance(v, np.ndarray)]
        y, init = data(D, K)
        reused = cls()
        for _ in range(inp['hist'] if which != 'cbmm' else min(inp['hist'], 1)):
            yh, ih = data(D, int(rng.randint(2, 4)))         # same D (a trainer is bound to its dimension), other data / class count
            fit(reused, yh, ih)
        if inp['seed'] % 2:
            # block processing: the trainer has just served the SAME array objects with other content; the caller refills its buffers
            # in place for the next block
            y_now, init_now = y.copy(), init.copy()
            y[...] = data(D, K)[0]
            init[...] = data(D, K)[1]
            fit(reused, y, init)
            y[...] = y_now
            init[...] = init_now
        r1 = fit(reused, y, init)
        r2 = fit(cls(), y, init)
        r3 = fit(reused, y, init)
        rejected = None
        if which in ('cwmm', 'watson', 'cbmm'):
            y2, i2 = data(D + 1, K)
            try:
                fit(reused, y2, i2)
                rejected = False
            except AssertionError:
                rejected = True
        return {'r1': r1, 'r2': r2, 'r3': r3, 'rejected': rejected}

    def ensures(sp, inp, out):
        yield 'reused-trainer-equals-fresh-trainer', all(np.array_equal(a, b) for a, b in zip(out['r1'], out['r2'])) and len(out['r1']) == len(out['r2'])
        yield 'repeated-call-reproduces-exactly', all(np.array_equal(a, b) for a, b in zip(out['r1'], out['r3']))
        if out['rejected'] is not None:
            yield 'different-feature-dimension-rejected', bool(out['rejected'])

    return Instance('C20', DN + '*Trainer', 'bounded-trainer-reuse', make, call, ensures, mode='bounded', bounded_n=60, frame=False)


def reseed_instance():
    from pb_bss.distribution import CACGMMTrainer, CWMMTrainer, GMMTrainer, VMFMMTrainer

    def make(B):
        return {'which': B.choose('which', ['cacgmm', 'cwmm', 'gmm', 'vmfmm']), 'seed': B.choose('seed', list(range(2000))), 'd': B.given('d', np.zeros(1))}

    def call(inp):
        rng = np.random.RandomState(inp['seed'])
        which = inp['which']
        cplx = which in ('cacgmm', 'cwmm')
        y = rng.normal(size=(2, 14, 3)) + (1j * rng.normal(size=(2, 14, 3)) if cplx else 0)
        y.flags.writeable = False
        before = y.copy()
        cls = {'cacgmm': CACGMMTrainer, 'cwmm': CWMMTrainer, 'gmm': GMMTrainer, 'vmfmm': VMFMMTrainer}[which]
        res = []
        for _ in range(2):
            np.random.seed(inp['seed'])
            res.append(cls().fit_predict(y, num_classes=2, iterations=2))
        return {'a': res[0], 'b': res[1], 'unchanged': bool(np.array_equal(before, y))}

    def ensures(sp, inp, out):
        yield 'reseeded-call-reproduces-exactly', bool(np.array_equal(out['a'], out['b']))
        yield 'read-only-observation-accepted-and-unchanged', out['unchanged']

    return Instance('C20', DN + '*Trainer.fit_predict', 'bounded-reseed-reproducible', make, call, ensures, mode='bounded', bounded_n=40, frame=False)


def args_untouched_bounded_instance():
    """Public entry points with read-only float arrays: bit-identical afterwards (bounded, native)."""
    from pb_bss.distribution import CACGMMTrainer, CWMMTrainer, GMMTrainer, VMFMMTrainer, GCACGMMTrainer, VMFCACGMMTrainer, CBMMTrainer
    from pb_bss import permutation_alignment as pa

    def make(B):
        return {'which': B.choose('which', ['cacgmm', 'cwmm', 'gmm', 'vmfmm', 'gcacgmm', 'vmfcacgmm', 'cbmm', 'dhtv', 'greedy', 'oracle', 'cacgmm-aligner', 'cacgmm-model']),
                'sal': B.choose('sal', [False, True]), 'seed': B.choose('seed', list(range(2000))), 'd': B.given('d', np.zeros(1))}

    def call(inp):
        rng = np.random.RandomState(inp['seed'])
        which = inp['which']
        F, N, D, K = 3, 10, 3, 2
        cplx = which not in ('gmm', 'vmfmm')
        y = rng.normal(size=(F, N, D)) + (1j * rng.normal(size=(F, N, D)) if cplx else 0)
        emb = rng.normal(size=(F, N, 4))
        init = rng.dirichlet(np.ones(K), size=(F, N)).transpose(0, 2, 1).copy()
        sal = rng.uniform(0.2, 2.0, size=(F, N)) if inp['sal'] else None
        mask = rng.uniform(0.05, 1, size=(K, F, 7))
        args = {'y': y, 'emb': emb, 'init': init, 'mask': mask}
        if sal is not None:
            args['sal'] = sal
        for a in args.values():
            a.flags.writeable = False
        before = {k: v.copy() for k, v in args.items()}
        err = None
        try:
            if which in ('cacgmm', 'cwmm', 'gmm', 'vmfmm'):
                cls = {'cacgmm': CACGMMTrainer, 'cwmm': CWMMTrainer, 'gmm': GMMTrainer, 'vmfmm': VMFMMTrainer}[which]
                cls().fit_predict(y, initialization=init, iterations=2, saliency=sal)
            elif which == 'cacgmm-aligner':
                CACGMMTrainer().fit_predict(y, initialization=init, iterations=2, saliency=sal, weight_constant_axis=(-3,),
                                            inline_permutation_aligner=pa.GreedyPermutationAlignment('cos'))
            elif which == 'cacgmm-model':
                m = CACGMMTrainer().fit(y, initialization=init, iterations=1)
                w0, e0 = m.weight.copy(), m.cacg.covariance_eigenvalues.copy()
                CACGMMTrainer().fit(y, initialization=m, iterations=2)
                if not (np.array_equal(w0, m.weight) and np.array_equal(e0, m.cacg.covariance_eigenvalues)):
                    err = 'model passed as initialization was modified'
            elif which in ('gcacgmm', 'vmfcacgmm'):
                cls = GCACGMMTrainer if which == 'gcacgmm' else VMFCACGMMTrainer
                cls().fit_predict(y, emb, initialization=init, iterations=2, saliency=sal)
            elif which == 'cbmm':
                CBMMTrainer().fit_predict(y[:1, :6], initialization=init[:1, :, :6], iterations=1)
            elif which == 'dhtv':
                pa.DHTVPermutationAlignment(stft_size=4, segment_start=0, segment_width=3, segment_shift=1, main_iterations=3, sub_iterations=1,
                                            similarity_metric=str(rng.choice(['cos', 'euclidean', 'multiply'])))(mask)
            elif which == 'greedy':
                pa.GreedyPermutationAlignment(str(rng.choice(['cos', 'euclidean'])))(mask)
            else:
                pa.OraclePermutationAlignment(str(rng.choice(['cos', 'euclidean'])))(mask, mask[::-1].copy())
        except Exception as e:  # noqa
            err = '%s: %s' % (type(e).__name__, e)
        changed = [k for k in args if not np.array_equal(before[k], args[k])]
        return {'err': err, 'changed': changed}

    def ensures(sp, inp, out):
        yield 'read-only-inputs-accepted', out['err'] is None
        yield 'arguments-bit-identical-afterwards', not out['changed']

    return Instance('C20', 'pb_bss:public-entry-points', 'bounded-read-only-arguments', make, call, ensures, mode='bounded', bounded_n=120, frame=False)


def layouts_untouched_bounded_instance():
    """Extraction / evaluation entry points with arguments in different memory layouts (C order, Fortran order, Hermitian-transposed
    views, strided slices; writable or read-only): bit-identical afterwards and a repeated call reproduces the result."""
    from pb_bss.extraction import beamformer as bf, beamformer_wrapper as bw, mask_module as mm
    from pb_bss.evaluation import sxr_module as sx
    from pb_bss.evaluation.module_si_sdr import si_sdr
    from pb_bss.math import solve as ms

    FN = ['psd', 'gev', 'gev-eig', 'pca', 'mvdr', 'souden', 'wmwf', 'lcmv', 'ban', 'phase', 'apply', 'bf-gev', 'bf-rank1', 'masks', 'si_sdr', 'sxr', 'stable_solve',
          'vuv', 'biased', 'from_cov', 'set_snr', 'bingham', 'set_snr', 'bingham', 'wmwf-fd', 'wmwf-csv', 'bf-wmwf-fd', 'souden-auto', 'cond', 'psd-nonorm', 'sample_cacgmm', 'sample_cacgmm']

    def make(B):
        return {'fn': B.choose('fn', FN), 'layout': B.choose('layout', ['C', 'F', 'H', 'strided']), 'ro': B.choose('ro', [False, True]),
                'seed': B.choose('seed', list(range(3000))), 'd': B.given('d', np.zeros(1))}

    def lay(a, layout, hermitian=False):
        if layout == 'F':
            return np.asfortranarray(a)
        if layout == 'H' and hermitian:
            return np.conj(np.swapaxes(np.ascontiguousarray(np.conj(np.swapaxes(a, -1, -2))), -1, -2))     # same values, transposed memory
        if layout == 'strided':
            big = np.zeros(a.shape[:-1] + (2 * a.shape[-1],), dtype=a.dtype)
            big[..., ::2] = a
            return big[..., ::2]
        return np.ascontiguousarray(a)

    def call(inp):
        rng = np.random.RandomState(inp['seed'])
        F, D, T, K = 3, 3, 6, 2

        def cn(*s):
            return rng.normal(size=s) + 1j * rng.normal(size=s)
        A, Bm = cn(F, D, D), cn(F, D, D)
        tgt = lay(A @ np.conj(np.swapaxes(A, -1, -2)) + 0.05 * np.eye(D), inp['layout'], True)
        noi = lay(Bm @ np.conj(np.swapaxes(Bm, -1, -2)) + 0.1 * np.eye(D), inp['layout'], True)
        atf, w = lay(cn(F, D), inp['layout']), lay(cn(F, D), inp['layout'])
        obs, mask = lay(cn(F, D, T), inp['layout']), lay(rng.uniform(0.1, 1, size=(F, T)), inp['layout'])
        sig = lay(cn(K, F, T), inp['layout'])
        ref, est = lay(rng.normal(size=(K, 40)), inp['layout']), lay(rng.normal(size=(K, 40)), inp['layout'])
        img, noise_img = lay(rng.normal(size=(K, 2, 40)), inp['layout']), lay(rng.normal(size=(2, 40)), inp['layout'])
        bsig = lay(np.abs(cn(2, 4, 257)) , inp['layout'])
        # a measured SNR handed back to set_snr as an array; the stored parameters of a hand-built Bingham model (eigenvalues not sorted)
        snr_x, snr_n = lay(rng.normal(size=(2, 50)), inp['layout']), lay(rng.normal(size=(2, 50)), inp['layout'])
        cur = lay(np.asarray(sx.get_snr(snr_x, snr_n, axis=-1, keepdims=True), dtype=float), inp['layout'])
        Q = np.linalg.qr(cn(2, D, D))[0]
        bvec, bval = lay(Q, inp['layout']), lay(np.array([[0.9, 0.1, 0.5][:D], [-3.0, 0.0, -7.0][:D]]), inp['layout'])
        bpts = lay(cn(2, 5, D), inp['layout'])
        # mixture weights of a sampler, normalised up to rounding / to nine digits only (np.random.choice accepts both)
        sw = rng.dirichlet(np.ones(3))
        sw = np.round(sw, 9) if inp['seed'] % 2 else sw * (1 + 2e-16)
        scov = lay(A @ np.conj(np.swapaxes(A, -1, -2)) + 0.05 * np.eye(D), inp['layout'], True)
        args = dict(tgt=tgt, noi=noi, atf=atf, w=w, obs=obs, mask=mask, sig=sig, ref=ref, est=est, img=img, noise_img=noise_img, bsig=bsig,
                    snr_x=snr_x, snr_n=snr_n, cur=cur, bvec=bvec, bval=bval, bpts=bpts, sw=sw, scov=scov)
        if inp['ro']:
            for a in args.values():
                a.flags.writeable = False
        before = {k: np.array(v, copy=True) for k, v in args.items()}
        fn = inp['fn']
        state = {}

        def run():
            if fn == 'psd':
                return bf.get_power_spectral_density_matrix(obs, mask)
            if fn == 'gev':
                return bf.get_gev_vector(tgt, noi)
            if fn == 'gev-eig':
                return bf.get_gev_vector(tgt, noi, use_eig=True)
            if fn == 'pca':
                return bf.get_pca_vector(tgt)
            if fn == 'mvdr':
                return bf.get_mvdr_vector(atf, noi)
            if fn == 'souden':
                return bf.get_mvdr_vector_souden(tgt, noi, ref_channel=0)
            if fn == 'wmwf':
                return bf.get_wmwf_vector(tgt, noi, reference_channel=1)
            if fn == 'sample_cacgmm':
                from pb_bss.distribution.cacgmm import sample_cacgmm
                np.random.seed(inp['seed'])
                x_, l_ = sample_cacgmm(20, sw, scov, return_label=True)
                return [np.asarray(x_), np.asarray(l_)]
            if fn == 'wmwf-fd':
                return bf.get_wmwf_vector(tgt, noi, reference_channel=0, distortion_weight='frequency_dependent')
            if fn == 'wmwf-csv':
                return bf.get_wmwf_vector(tgt, noi, channel_selection_vector=np.abs(atf), distortion_weight=0.5)
            if fn == 'bf-wmwf-fd':
                return bw.get_bf_vector('wmwf+ban', tgt, noi, distortion_weight='frequency_dependent')
            if fn == 'souden-auto':
                return bf.get_mvdr_vector_souden(tgt, noi)
            if fn == 'cond':
                return bf.condition_covariance(tgt, 0.25)
            if fn == 'psd-nonorm':
                return bf.get_power_spectral_density_matrix(obs, mask, normalize=False)
            if fn == 'lcmv':
                return bf.get_lcmv_vector(np.stack([atf, w]), np.array([1.0, 0.0]), noi)
            if fn == 'ban':
                return bf.blind_analytic_normalization(w, noi)
            if fn == 'phase':
                return bf.phase_correction(w)
            if fn == 'apply':
                return bf.apply_beamforming_vector(w, obs)
            if fn == 'bf-gev':
                return bw.get_bf_vector('gev+ban', tgt, noi)
            if fn == 'bf-rank1':
                return bw.get_bf_vector('rank1_gev+mvdr_souden', tgt, noi)
            if fn == 'masks':
                return [mm.ideal_binary_mask(sig), mm.wiener_like_mask(sig), mm.ideal_ratio_mask(sig), mm.lorenz_mask(sig[0]), mm.quantile_mask(sig[0], quantile=0.25)]
            if fn == 'si_sdr':
                return si_sdr(ref, est)
            if fn == 'sxr':
                o = sx.input_sxr(img, noise_img)
                return [o.sdr, o.sir, o.snr]
            if fn == 'set_snr':
                x2, n2 = sx.set_snr(snr_x, snr_n, 10.0, current_snr=cur, axis=-1, inplace=False)
                return [np.asarray(n2), np.asarray(sx.get_snr(x2, n2, axis=-1))]
            if fn == 'bingham':
                from pb_bss.distribution.complex_bingham import ComplexBingham
                if 'mdl' not in state:         # one model object for both calls: evaluating it must not change it
                    state['mdl'] = ComplexBingham(covariance_eigenvectors=bvec, covariance_eigenvalues=bval)
                    state['stored'] = np.array(state['mdl'].covariance_eigenvalues, copy=True)
                mdl = state['mdl']
                z = bpts / np.linalg.norm(bpts, axis=-1, keepdims=True)
                return [np.asarray(mdl.log_pdf(z)), np.asarray(mdl.covariance_eigenvalues) - state['stored']]
            if fn == 'vuv':
                return list(mm.voiced_unvoiced_split_characteristic(257))
            if fn == 'biased':
                return mm.biased_binary_mask(np.abs(bsig))
            if fn == 'from_cov':
                from pb_bss.distribution.complex_angular_central_gaussian import ComplexAngularCentralGaussian as CACG_
                m_ = CACG_.from_covariance(tgt, eigenvalue_floor=1e-10, covariance_norm=['eigenvalue', 'trace', False][inp['seed'] % 3])
                return [np.asarray(m_.covariance_eigenvalues), np.abs(np.asarray(m_.covariance_eigenvectors))]
            return ms.stable_solve(noi, tgt)
        err = None
        try:
            with np.errstate(all='ignore'):
                r1 = run()
                changed = [k for k in args if not np.array_equal(before[k], args[k])]
                # what a call returns belongs to the caller: overwriting it must not influence a later call
                f1_ = r1 if isinstance(r1, list) else [r1]
                keep = [np.array(a, copy=True) for a in f1_]
                for a in f1_:
                    if isinstance(a, np.ndarray) and a.flags.writeable and a.size:
                        a[...] = 0
                r1 = keep
                r2 = run()
        except Exception as e:  # noqa
            return {'err': '%s: %s' % (type(e).__name__, e), 'changed': [], 'same': True}
        f1, f2 = (r1 if isinstance(r1, list) else [r1]), (r2 if isinstance(r2, list) else [r2])
        same = all(np.array_equal(np.asarray(a), np.asarray(b), equal_nan=True) for a, b in zip(f1, f2))
        return {'err': err, 'changed': changed, 'same': same}

    def ensures(sp, inp, out):
        yield 'every-memory-layout-accepted', out['err'] is None
        yield 'arguments-bit-identical-afterwards', not out['changed']
        yield 'repeated-call-reproduces-the-result', bool(out['same'])

    return Instance('C20', 'pb_bss:public-entry-points', 'bounded-memory-layouts-untouched', make, call, ensures, mode='bounded', bounded_n=300, frame=False)


# ----------------------------------------------------------------------------- history-freedom by construction (static, all inputs)
# persistent state of the unchanged tree: the documented per-trainer caches (C20 state list) and the lazily computed metrics of the
# evaluation wrapper objects (pure functions of the immutable fields of one object)
DOCUMENTED_STATE = {
    'pb_bss/distribution/cbmm.py': {('attribute-write-on-self', 'CBMMTrainer.fit: self.dimension'),
                                    ('cache-decorator', 'cached_property on CBMMTrainer.complex_bingham_trainer')},
    'pb_bss/distribution/complex_bingham.py': {('attribute-write-on-self', 'ComplexBinghamTrainer.fit: self.dimension'),
                                               ('cache-decorator', 'cached_property on ComplexBinghamTrainer.eigenvalues_symbol'),
                                               ('cache-decorator', 'cached_property on ComplexBinghamTrainer.grad_log_norm_symbolic')},
    'pb_bss/distribution/complex_watson.py': {('attribute-write-on-self', 'ComplexWatsonTrainer.fit: self.dimension'),
                                              ('cache-decorator', 'cached_property on ComplexWatsonTrainer.spline')},
    'pb_bss/distribution/cwmm.py': {('attribute-write-on-self', 'CWMMTrainer.fit: self.dimension'),
                                    ('cache-decorator', 'cached_property on CWMMTrainer.complex_watson_trainer')},
}


def static_state_run(inst, tier, seed, replay_dir):
    import pb_bss
    from pbv import staticscan
    t0 = time.time()
    rep = {'key': inst.key, 'prop': inst.prop, 'func': inst.func, 'name': inst.name, 'obligations': [], 'paths': 1, 'infeasible': 0,
           'undecided': [], 'violations': [], 'assumptions': [
               'static scan (pbv/staticscan.py): writes through aliases of module-level objects, C extensions and patching from outside the '
               'scanned packages are not seen; the documented per-trainer caches and the evaluation wrapper objects are covered by bounded reuse families'],
           'crosscheck': {'samples': 0, 'compared': 0, 'mismatch': []}, 'vacuity': {'valid_samples': 1, 'defs_checked': 0, 'defs_bad': []},
           'solver_time': 0.0, 'backends': {}, 'sample_obligation': None, 'error': None, 'tags': list(inst.tags)}
    root = os.path.dirname(os.path.dirname(os.path.abspath(pb_bss.__file__)))
    found = staticscan.scan_tree(root)
    if len(found) < 30:
        rep['vacuity']['defs_bad'].append('static scan saw only %d modules' % len(found))
    for rel, writes in found.items():
        name = 'no-persistent-state-outside-the-documented-caches[%s]' % rel
        allowed = DOCUMENTED_STATE.get(rel, set())
        if rel == 'pb_bss/evaluation/wrapper.py':
            extra = [w for w in writes if not (w[0] == 'cache-decorator' and ('InputMetrics.' in w[1] or 'OutputMetrics.' in w[1]))]
        else:
            extra = [w for w in writes if w not in allowed]
        ob = {'name': name, 'status': 'discharged', 'time': 0.0, 'backend': 'ast-scan', 'kind': 'ensures', 'nassert': max(1, len(writes))}
        if extra:
            ob['status'] = 'undecided'
            rep['undecided'].append({'obligation': name, 'reason': 'state that outlives a call, not among the documented caches: %s -- history-freedom no longer '
                                                                   'follows syntactically (the bounded reuse / history families decide)' % '; '.join('%s (%s)' % w for w in extra[:4])})
        else:
            rep['backends']['ast-scan'] = rep['backends'].get('ast-scan', 0) + 1
        rep['obligations'].append(ob)
    rep['sample_obligation'] = {'instance': inst.key, 'obligation': 'no-persistent-state-outside-the-documented-caches[pb_bss/evaluation/sxr_module.py]',
                                'assertions': 1, 'smt2_head': '(AST scan) writes found in the module: %r' % (found.get('pb_bss/evaluation/sxr_module.py'),)}
    rep['wall'] = round(time.time() - t0, 3)
    return rep


def static_state_instance():
    return Instance('C20', 'pb_bss:all-modules', 'static-no-persistent-state', None, None, None, mode='custom',
                    lemma={'run': static_state_run, 'replay': lambda payload: False}, crosscheck=False, frame=False, weight=1)


def instances(tier):
    out = frame_instances(tier)
    for n in (2, 3, 4):
        for comp in compositions(n):
            if len(comp) > 1:
                out.append(split_instance(n, comp, False))
    for comp in ((1, 2), (2, 1), (1, 1, 1), (1, 3), (2, 2)):
        out.append(split_instance(sum(comp), comp, True))
    out.append(reuse_instance())
    out.append(reseed_instance())
    out.append(args_untouched_bounded_instance())
    out.append(layouts_untouched_bounded_instance())
    # results do not depend on what other trainer objects did before in the same process (class-level caches)
    from .common import watson_spline_bounded_instance
    out.append(watson_spline_bounded_instance('C20'))
    # fit(n1) followed by fit(n2, initialization=model) == fit(n1 + n2) for all n1, n2: the prologue with a model initialisation
    # yields the loop-head state of the uninterrupted loop, and the loop body preserves the invariant (contracts/loopinv.py)
    from . import loopinv
    out.append(loopinv.loop_invariant_instance('C20', 'cacgmm', False, tier))
    out.append(loopinv.loop_invariant_instance('C20', 'cacgmm', True, tier))
    return out


_instances_before_static = instances


def instances(tier):       # noqa: F811
    return _instances_before_static(tier) + [static_state_instance()]
