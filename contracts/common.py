"""Helpers shared by the contract modules."""
import itertools

import numpy as np

from pbv import expr as E
from pbv import scalar as S
from pbv.instance import Instance
from pbv.spec import cells, shape_of

TINY = float(np.finfo(np.float64).tiny)


def idx_iter(shape):
    return np.ndindex(*shape)


def exp_shift_hints(sp, targets):
    """Ground instances of exp(a)·exp(c−a) = exp(c) linking the exponentials the code evaluated
    (arguments a) with the exponentials the specification talks about (arguments c).

    Sound lemma of the real exponential; only instances whose arguments share an input variable
    are generated.  Returns formulas."""
    if not sp.symbolic:
        return []
    c = S.ctx()
    code_apps = list(c.apps.get('exp', []))
    out = []
    for t in targets:
        t = S.R.lift(t)
        if t.conc():
            continue
        ct = t.term()
        vt = S.uf_app('exp', (ct,))
        fvt = E.fv(ct)
        for (a,), va in code_apps:
            if a is ct or not (E.fv(a) & fvt):
                continue
            b = E.sub(ct, a)
            if b.op == 'const':
                continue
            vb = S.uf_app('exp', (b,))
            out.append(E.cmp('==', E.mul(va, vb), vt))
    return out


def bcast_index(shape, full_shape, idx):
    """Index into an array of `shape` broadcast against `full_shape` at full index idx."""
    nd = len(shape)
    sub = idx[len(full_shape) - nd:]
    return tuple(0 if shape[i] == 1 else sub[i] for i in range(nd))


# ----------------------------------------------------------------------------- history: the call under contract after other calls
def with_history(inst, warmup, tag):
    """The same contract, with `warmup()` (native calls of the library with other sizes / options / objects) executed first in the
    same process: results are a function of the arguments only (C20), so every obligation must still hold.  Module-level and
    object-level caches keyed too coarsely show up as failed obligations of the call under contract."""
    import dataclasses
    real_call = inst.call

    def call(inp):
        was = S.RUNNING[0]
        S.RUNNING[0] = False          # the earlier calls run on plain ndarrays: they create no obligations of their own
        try:
            with np.errstate(all='ignore'):
                warmup()
        finally:
            S.RUNNING[0] = was
        return real_call(inp)
    return dataclasses.replace(inst, call=call, name='%s-after-%s' % (inst.name, tag))


# ----------------------------------------------------------------------------- machine-checked lemmas (Lean 4 + Mathlib)
LEMMAS = {
    'rayleigh': dict(
        file='lean/Rayleigh.lean', theorems=['rayleigh_le', 'rayleigh_attained', 'gen_rayleigh_le'],
        statement='eigh contract (V^H V = 1, A V = V diag w) => Re(x^H A x) <= w_max x^H x, attained by the column of w_max; '
                  'generalised: V^H B V = 1, A V = B V diag w => Re(x^H A x) <= w_max Re(x^H B x)   (all dimensions)',
        assumptions=['the contract of the eigen-solver (unitary / B-orthonormal eigenvectors, A V = [B] V diag w) is assumed, not proved']),
    'mvdr': dict(
        file='lean/Mvdr.lean', theorems=['mvdr_optimal'],
        statement='Phi PSD, Phi w0 = k a, w0^H a = 1, w^H a = 1  =>  Re(w0^H Phi w0) <= Re(w^H Phi w)   (all dimensions)'),
    'psd': dict(
        file='lean/Psd.lean', theorems=['quad_weighted_outer', 'weighted_outer_posSemidef'],
        statement='m_t >= 0  =>  sum_t m_t x_t x_t^H is Hermitian positive semidefinite; v^H (sum_t m_t x_t x_t^H) v = sum_t m_t |v^H x_t|^2   (all D, T)'),
    'em': dict(
        file='lean/Em.lean', theorems=['gibbs_lower_bound', 'em_step_one', 'em_monotone', 'weight_update_maximises'],
        statement='a, a\' > 0 joint values pi_k p_k(y_n) before / after an update, gamma = a / sum_k a: '
                  'sum gamma log a <= sum gamma log a\'  =>  sum_n log sum_k a <= sum_n log sum_k a\'; '
                  'pi = c / sum c maximises sum_k c_k log pi_k on the simplex   (all K, N)',
        assumptions=['each component update does not decrease its part of the expected complete-data log-likelihood: machine checked for the Gaussian '
                     'components (lean/GaussMStep.lean) and for the cACG Tyler / MM step (lean/CacgMM.lean: cacg_mm_step); Watson: '
                     'lean/WatsonMStep.lean proves the step from a convex log-normaliser and the stationarity equation, and the convexity of every '
                     'log-integral-exp; what stays cited is that 1F1 is that integral and that the spline inverse solves the equation']),
    'oracle': dict(
        file='lean/Oracle.lean', theorems=['perm_max_exists', 'euclidean_restores', 'multiply_restores', 'cos_restores', 'unique_maximiser'],
        statement='estimate rows e_k = r_{pi k} (a permutation of the reference rows), score S[k, j] = sim(r_k, e_j), sigma ANY maximiser of '
                  'sum_k S[k, sigma k] over all permutations  =>  e_{sigma k} = r_k for every k, for sim = negative Euclidean distance, inner '
                  'product, cosine (non-zero, pairwise non-parallel rows); a maximiser exists; for pairwise distinct rows it is pi^-1   (all K, T)',
        assumptions=['composition by instantiation: the per-shape obligations (score matrix = the named similarity, the optimal assignment attains '
                     'the maximum over all permutations, apply_mapping indexes rows by the mapping) provide the hypotheses of the Lean theorems']),
    'beam': dict(
        file='lean/Beam.lean', theorems=['condition_covariance_trace', 'condition_covariance_posSemidef', 'condition_covariance_isHermitian',
                                         'lcmv_constraints', 'mvdr_constraint', 'quad_smul', 'rayleigh_scale_invariant', 'souden_rank_one',
                                         'souden_is_scaled_mvdr'],
        statement='for every number of sensors D and constraints K: tr((Phi + g tr(Phi)/D I)/(1+g)) = tr Phi and PSD / Hermitian are preserved (g >= 0); '
                  'A^H w = r for w = Phi^-1 A (A^H Phi^-1 A)^-1 r; w = Phi^-1 a / (a^H Phi^-1 a) satisfies a^H w = 1 and Phi w = a / (a^H Phi^-1 a); '
                  'the Rayleigh quotient of c w equals that of w (c != 0); for Phi_xx = s a a^H: Phi_nn^-1 Phi_xx u / tr(Phi_nn^-1 Phi_xx) = '
                  '(a^H u / a^H Phi_nn^-1 a) Phi_nn^-1 a'),
    'simplex': dict(
        file='lean/Simplex.lean', theorems=['posterior_simplex', 'masked_posterior', 'clipped_sum_bound', 'normalise_perm_equivariant',
                                            'sum_perm_invariant', 'multiset_perm_invariant', 'mapping_injective_is_perm', 'saliency_repetition',
                                            'saliency_repetition_vec', 'weights_mean_simplex', 'unit_norm_outer_invariant', 'sxr_reciprocal_identity'],
        statement='for every number of classes K / observations N / channels D: a_k >= 0 with positive sum => a / sum a lies in [0, 1] and sums to one '
                  '(also with a 0/1 mask and the tiny floor); clipping to [eps, 1 - eps] moves the sum by at most K eps; normalisation, sums and '
                  'multisets commute with permutations of the class axis; an injective mapping of a finite class set is a permutation; an integer '
                  'saliency s_n is n repeated s_n times; (saliency-weighted) means of simplex vectors lie on the simplex; the outer product of the '
                  'unit-norm projection does not depend on a complex gain; 1/SDR = 1/SIR + 1/SNR and SDR <= min(SIR, SNR)'),
    'gauss_mstep': dict(
        file='lean/GaussMStep.lean', theorems=['weighted_mean_minimises', 'gauss_core', 'gauss_ml_scalar', 'gauss_ml_diagonal', 'gauss_ml_spherical',
                                               'logdet_le_trace_sub_card', 'logdet_mul_le_trace_sub_card', 'weighted_cross_shift',
                                               'weighted_quadform_split', 'gauss_ml_full'],
        statement='for every number of observations N and every dimension D, class posteriors gamma_n with positive mass: the weighted sample mean '
                  'and the weighted (per-coordinate / pooled / full) scatter MAXIMISE the class part of the expected complete-data log-likelihood '
                  'sum_n gamma_n log N(x_n; mu, Sigma) over all means and all positive (definite) covariances -- diagonal, spherical and full '
                  'covariance; with lean/Em.lean: one EM iteration of the Gaussian mixture cannot decrease the log-likelihood',
        assumptions=['composition by instantiation: C08 discharges per shape that Gaussian / DiagonalGaussian / SphericalGaussian trainers return exactly '
                     'these weighted estimators and that the weight update returns the normalised expected counts; C01 that the E-step is the exact '
                     'posterior; the Lean theorems (Em.lean, GaussMStep.lean) then give monotonicity for every K, N, D in exact arithmetic',
                     'the variance floor / regularisation of the trainers is not part of the Lean statement (positive (definite) estimate is a hypothesis)']),
    'misc': dict(
        file='lean/Misc.lean', theorems=['cumPhase_norm', 'phase_correction_aligned', 'psd_mask_scale_invariant', 'complex_mask_reproduces',
                                         'residual_expand', 'si_sdr_alpha_optimal', 'si_sdr_scale_invariant', 'snr_scaling'],
        statement='for every number of bins F, sensors D, frames T, sources K: multiplying bin f by the cumulative product of the unit phasors of '
                  'consecutive inner products keeps every magnitude and makes consecutive bins phase aligned (inner product real, non-negative); '
                  'the normalised PSD is invariant to rescaling the mask; the ideal complex mask times the mixture reproduces each source and sums '
                  'to one; the SI-SDR projection coefficient is optimal and the ratio is invariant to rescaling estimate or reference; scaling the '
                  'signal power by c^2 changes the SNR by 20 log10 |c|'),
    'cacgmm': dict(
        file='lean/CacgMM.lean', theorems=['quadratic_minimiser', 'wmwf_cost_expand', 'wmwf_minimiser', 'rank_one_posSemidef', 'rank_one_isHermitian',
                                           'rank_one_trace', 'cacg_scale_invariant', 'complex_logdet_le_trace', 'complex_logdet_mul_le_trace',
                                           'cacg_mm_step'],
        statement='for every D and N: M w0 = b with M PSD minimises w^H M w - 2 Re w^H b, hence (Phi_xx + mu Phi_nn) w0 = Phi_xx u minimises the '
                  'weighted multichannel Wiener cost; a a^H is Hermitian PSD and (t / a^H a) a a^H has trace t; the cACG log-density does not depend '
                  'on the scale of B; log det A <= tr A - D for Hermitian positive definite A; the Tyler / MM update '
                  'B1 = (D / G) sum_n gamma_n z_n z_n^H / (z_n^H B0^-1 z_n) does not decrease sum_n gamma_n (-D log z_n^H B^-1 z_n - log det B)',
        assumptions=['cACG M-step: the eigenvalue floor of the stored decomposition is not part of the Lean statement (B1 positive definite is a hypothesis); '
                     'the normalisation of the eigenvalues is covered by cacg_scale_invariant']),
    'watson': dict(
        file='lean/WatsonMStep.lean', theorems=['tangent_line_le', 'tangent_maximiser', 'tangent_maximiser_Ici', 'tangent_maximiser_Icc',
                                                'watson_mstep_maximises', 'clipped_upper_maximiser', 'clipped_lower_maximiser',
                                                'clipped_lower_maximiser_Ici', 'log_integral_exp_convex', 'eig_reconstruct_posDef',
                                                'eig_reconstruct_isHermitian', 'eig_reconstruct_posSemidef', 'eigenvalue_floor_range'],
        statement='A convex log-normaliser with A\'(kappa) = lam: (principal eigenvector, kappa) maximises kappa\' lam\' - A(kappa\') over all lam\' <= lam, '
                  'kappa\' >= 0; the clipped concentrations 0 / max_concentration maximise over the allowed interval when the stationary point lies outside; '
                  'kappa -> log integral exp(kappa t) d mu is convex for every probability measure and bounded statistic t (so every log-normaliser of this '
                  'form is); U diag(d) U^H is Hermitian positive (semi)definite for unitary U and positive (non-negative) d; max-normalised and floored '
                  'eigenvalues lie in [floor, 1] with maximum 1   (all D)',
        assumptions=['Watson M-step: that log 1F1(1; D; kappa) + const IS the log-integral of exp(kappa |w^H z|^2) over the sphere (the normaliser '
                     'identity of C07, not machine checked) and that the spline inverse solves A\'(kappa) = lam (checked natively, bounded)']),
    'logdet': dict(
        file='lean/LogDet.lean', theorems=['det_cholesky', 'log_det_cholesky'],
        statement='L lower triangular with positive diagonal  =>  log det(L L^T) = 2 sum_i log L_ii   (all dimensions)'),
}


def lemma_instance(prop, which, func, theorems=None):
    spec = dict(LEMMAS[which])
    if theorems is not None:
        assert set(theorems) <= set(spec['theorems']), theorems
        spec['theorems'] = list(theorems)
    return Instance(prop, func, 'lean-lemma-%s' % which, None, None, None, mode='lemma', lemma=spec, crosscheck=False, frame=False,
                    tags=('lemma',))


# ----------------------------------------------------------------------------- Watson spline inverse: the contract that the
# proof instances of C08 / C09 assume (hypergeometric_ratio_inverse in [0, max_concentration], inverse of the 1F1 ratio),
# checked here as a bounded stand-in -- for several trainers with different options in one process (history)
def watson_spline_bounded_instance(prop):
    from pb_bss.distribution import complex_watson as m

    def make(B):
        return {'D': B.choose('D', [2, 3, 4, 6]), 'order': B.choose('order', list(range(6))), 'seed': B.choose('seed', list(range(1000))),
                'd': B.given('d', np.zeros(1))}

    def call(inp):
        from scipy.special import hyp1f1
        rng = np.random.RandomState(inp['seed'])
        mcs = list(itertools.permutations([500, 40.0, 150.0]))[inp['order']]
        res = []
        # trainers of different dimension and different limits follow each other in one process
        dims = [inp['D'], [5, 3, 2, 6, 4][inp['seed'] % 5], inp['D']]
        for mc, D in zip(mcs, dims):
            tr = m.ComplexWatsonTrainer(D, max_concentration=mc) if mc != 500 else m.ComplexWatsonTrainer(D)
            ev = np.concatenate([rng.uniform(1.0 / D, 1.0, size=12), [1.0 / D, 1.0, 0.0]])
            kap = np.asarray(tr.hypergeometric_ratio_inverse(ev), dtype=float)
            # independent evaluation of the ratio lambda(kappa) = 1F1(2; D+1; kappa) / (D 1F1(1; D; kappa))
            with np.errstate(all='ignore'):
                back = hyp1f1(2, D + 1, kap) / (D * hyp1f1(1, D, kap))
                top = hyp1f1(2, D + 1, float(mc)) / (D * hyp1f1(1, D, float(mc)))
            # the whole trainer on peaky data: two nearly identical directions
            z = rng.normal(size=(8, D)) * 1e-3 + 1j * rng.normal(size=(8, D)) * 1e-3 + np.eye(D)[0]
            fit = tr.fit(z)
            res.append({'mc': float(mc), 'ev': ev, 'kappa': kap, 'back': back, 'top': float(top), 'fit_kappa': float(np.asarray(fit.concentration)), 'D': D})
        return {'res': res}

    def ensures(sp, inp, out):
        for r in out['res']:
            D = r['D']
            mc, ev, kap, back = r['mc'], r['ev'], r['kappa'], r['back']
            yield 'inverse-in-[0,max_concentration]', bool(np.all(np.isfinite(kap)) and np.all(kap >= 0.0) and np.all(kap <= mc * (1 + 1e-12)))
            inside = (ev > 1.0 / D + 1e-3) & (ev < r['top'] - 1e-6)
            yield 'inverse-inverts-the-hypergeometric-ratio', bool(np.all(np.abs(back[inside] - ev[inside]) <= 1e-4))
            sat = ev >= r['top'] + 1e-9
            yield 'saturates-at-max_concentration', bool(np.all(np.abs(kap[sat] - mc) <= 1e-9 * mc))
            yield 'uniform-scatter-gives-zero-concentration', bool(np.all(kap[ev <= 1.0 / D] <= 1e-2))
            yield 'fitted-concentration-in-[0,max_concentration]', bool(0.0 <= r['fit_kappa'] <= mc * (1 + 1e-12))

    return Instance(prop, 'pb_bss.distribution.complex_watson:ComplexWatsonTrainer.hypergeometric_ratio_inverse',
                    'bounded-spline-inverse-contract-across-trainers', make, call, ensures, mode='bounded', bounded_n=24, frame=False)


# ----------------------------------------------------------------------------- complex Bingham trainer (bounded stand-in; the
# bounded least-squares solve is outside the symbolic engine)
def _bingham_log_norm(lam):
    lam = np.asarray(lam, float)
    D = len(lam)
    s = 0.0
    for j in range(D):
        p = 1.0
        for k in range(D):
            if k != j:
                p *= (lam[j] - lam[k])
        s += np.exp(lam[j]) / p
    return np.log(2 * np.pi ** D * s)


def _bingham_grad_log_norm(lam, h=1e-5):
    g = np.zeros(len(lam))
    for j in range(len(lam)):
        a = np.array(lam, float)
        b = a.copy()
        a[j] += h
        b[j] -= h
        g[j] = (_bingham_log_norm(a) - _bingham_log_norm(b)) / (2 * h)
    return g


def bingham_trainer_bounded_instance(prop):
    from pb_bss.distribution import complex_bingham as m

    def make(B):
        return {'D': B.choose('D', [2, 3, 4, 5, 6]), 'mc': B.choose('mc', [np.inf, 20.0, 100.0, 3.0]), 'kind': B.choose('kind', ['flat', 'peaky', 'peaky', 'collinear', 'duplicated', 'exactly-collinear', 'too-few', 'zero']),
                'sal': B.choose('sal', [False, True]), 'lead': B.choose('lead', [(), (2,)]), 'seed': B.choose('seed', list(range(5000))),
                'd': B.given('d', np.zeros(1))}

    def call(inp):
        rng = np.random.RandomState(inp['seed'])
        D, mc, lead = inp['D'], inp['mc'], tuple(inp['lead'])
        N = 8 * D
        z = rng.normal(size=lead + (N, D)) + 1j * rng.normal(size=lead + (N, D))
        if inp['kind'] == 'peaky':
            z = z * (rng.uniform(1.5, 4.0) ** np.arange(D)[::-1])
        elif inp['kind'] == 'collinear':
            z = 1e-3 * z + np.eye(D)[rng.randint(D)] * np.exp(1j * rng.uniform(0, 6.28, size=lead + (N, 1)))
        elif inp['kind'] == 'duplicated':
            z = np.concatenate([np.repeat(z[..., :1, :], N - 1, axis=-2), z[..., -1:, :]], axis=-2)
        elif inp['kind'] == 'exactly-collinear':
            z = z[..., :1, :] * np.exp(1j * rng.uniform(0, 6.28, size=lead + (N, 1)))
        elif inp['kind'] == 'too-few':
            z = z[..., :D - 1, :]
        elif inp['kind'] == 'zero':
            z = np.zeros_like(z)
        if inp['kind'] in ('duplicated', 'exactly-collinear', 'too-few', 'zero') and not np.isfinite(mc):
            mc = 50.0          # rank deficient scatter: the ML concentration is infinite, a finite limit is required
        z = z * 10.0 ** rng.uniform(-3, 3, size=z.shape[:-1] + (1,))        # per-frame gains: the trainer normalises
        sal = rng.uniform(0.2, 2.0, size=z.shape[:-1]) if inp['sal'] else None
        tr = m.ComplexBinghamTrainer(max_concentration=mc)
        model = tr.fit(z, saliency=sal)
        return {'lam': np.asarray(model.covariance_eigenvalues), 'V': np.asarray(model.covariance_eigenvectors), 'z': z, 'sal': sal, 'mc': mc}

    def ensures(sp, inp, out):
        D, mc, lead = inp['D'], out['mc'], tuple(inp['lead'])
        lam, V, z, sal = out['lam'], out['V'], out['z'], out['sal']
        yield 'shapes', bool(lam.shape == lead + (D,) and V.shape == lead + (D, D))
        yield 'finite', bool(np.all(np.isfinite(lam)) and np.all(np.isfinite(V)))
        # duplicate eigenvalues are separated by eignevalue_eps = 1e-8 by design (the closed-form normaliser needs distinct
        # values; the density is invariant to a common shift): the domain holds up to (D - 1) * 1e-8
        tol = D * 1e-8
        yield 'eigenvalues<=0-with-maximum-0', bool(np.all(lam <= tol) and np.all(np.abs(lam.max(-1)) <= tol))
        if np.isfinite(mc):
            yield 'eigenvalues>=-max_concentration', bool(np.all(lam >= -mc - tol))
        zn = z / np.maximum(np.linalg.norm(z, axis=-1, keepdims=True), np.finfo(float).tiny)
        w_ = np.ones(zn.shape[:-1]) if sal is None else sal
        for li in np.ndindex(*lead):
            S_ = np.einsum('n,nd,ne->de', w_[li], zn[li], zn[li].conj()) / w_[li].sum()
            sw, sv = np.linalg.eigh(S_)
            yield 'eigenvectors-unitary', bool(np.allclose(V[li].conj().T @ V[li], np.eye(D), atol=1e-8))
            if np.min(np.diff(sw)) > 1e-6:
                # columns are the scatter eigenvectors (each up to a phase), in the order of the eigenvalues
                yield 'eigenvectors-are-the-scatter-eigenvectors', bool(np.allclose(np.abs(np.einsum('dk,dk->k', sv.conj(), V[li])), 1.0, atol=1e-6))
                yield 'eigenvalue-order-follows-the-scatter-eigenvalues', bool(np.all(np.diff(lam[li]) >= -1e-9))
            lm = lam[li]
            unclipped = (not np.isfinite(mc)) or bool(np.all(lm > -mc * 0.999))
            # (an all-zero recording has no unit-norm frames: its 'scatter' has trace 0 and defines no Bingham model)
            if unclipped and abs(np.trace(S_).real - 1.0) < 1e-9 and np.min(np.abs(np.diff(np.sort(lm)))) > 1e-2 and np.min(lm) > -2e3:
                g = _bingham_grad_log_norm(lm)
                yield 'grad-log-normaliser-equals-scatter-eigenvalues', bool(np.max(np.abs(g - sw)) <= 1e-5)

    return Instance(prop, 'pb_bss.distribution.complex_bingham:ComplexBinghamTrainer.fit', 'bounded-bingham-estimator-and-domain', make, call,
                    ensures, mode='bounded', bounded_n=60, frame=False)


# lemmas of lean/Simplex.lean that lift per-shape obligations of a property to every K / N / D
SIMPLEX_USE = {
    'C01': ('lemma:posteriors-lie-on-the-simplex-for-every-K', ['posterior_simplex', 'masked_posterior']),
    'C04': ('lemma:unit-norm-outer-product-is-gain-invariant-for-every-D', ['unit_norm_outer_invariant']),
    'C05': ('lemma:normalisation-and-class-sums-commute-with-relabelling-for-every-K', ['normalise_perm_equivariant', 'sum_perm_invariant']),
    'C08': ('lemma:integer-saliency-is-repetition-for-every-N', ['saliency_repetition', 'saliency_repetition_vec']),
    'C09': ('lemma:weights-on-the-simplex-and-clipping-bound-for-every-K', ['weights_mean_simplex', 'clipped_sum_bound']),
    'C09#watson': ('lemma:eigen-reconstruction-is-hermitian-positive-definite-floored-eigenvalues-in-range-for-every-D',
                   ['eig_reconstruct_posDef', 'eig_reconstruct_isHermitian', 'eig_reconstruct_posSemidef', 'eigenvalue_floor_range']),
    'C14': ('lemma:permutations-preserve-sums-and-multisets-for-every-K', ['sum_perm_invariant', 'multiset_perm_invariant', 'mapping_injective_is_perm']),
    'C18': ('lemma:ratio-masks-lie-on-the-simplex-for-every-K', ['posterior_simplex']),
    'C19': ('lemma:reciprocal-sxr-identity', ['sxr_reciprocal_identity']),
}


MISC_USE = {
    'C10': ('lemma:normalised-psd-invariant-to-mask-rescaling-for-every-T', ['psd_mask_scale_invariant']),
    'C13': ('lemma:phase-correction-aligns-consecutive-bins-for-every-F-and-D', ['cumPhase_norm', 'phase_correction_aligned']),
    'C18': ('lemma:complex-mask-reproduces-the-sources-for-every-K', ['complex_mask_reproduces']),
    'C19': ('lemma:si-sdr-projection-optimal-and-scale-invariant-for-every-T', ['residual_expand', 'si_sdr_alpha_optimal', 'si_sdr_scale_invariant', 'snr_scaling']),
}


def simplex_lemma_instances(prop):
    out = []
    if prop in SIMPLEX_USE:
        func, ths = SIMPLEX_USE[prop]
        out.append(lemma_instance(prop, 'simplex', func, ths))
    if prop in MISC_USE:
        func, ths = MISC_USE[prop]
        out.append(lemma_instance(prop, 'misc', func, ths))
    if prop + '#watson' in SIMPLEX_USE:
        func, ths = SIMPLEX_USE[prop + '#watson']
        out.append(lemma_instance(prop, 'watson', func, ths))
    return out
