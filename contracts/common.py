"""Helpers shared by the contract modules."""
import itertools

import numpy as np

from pbv import expr as E
from pbv import scalar as S
from pbv.instance import Instance
from pbv.spec import cells, shape_of

TINY = float(np.finfo(np.float64).tiny)


def idx_iter(shape):
    return np.ndindex(*shape)


def exp_shift_hints(sp, targets):
    """Ground instances of exp(a)·exp(c−a) = exp(c) linking the exponentials the code evaluated
    (arguments a) with the exponentials the specification talks about (arguments c).

    Sound lemma of the real exponential; only instances whose arguments share an input variable
    are generated.  Returns formulas."""
    if not sp.symbolic:
        return []
    c = S.ctx()
    code_apps = list(c.apps.get('exp', []))
    out = []
    for t in targets:
        t = S.R.lift(t)
        if t.conc():
            continue
        ct = t.term()
        vt = S.uf_app('exp', (ct,))
        fvt = E.fv(ct)
        for (a,), va in code_apps:
            if a is ct or not (E.fv(a) & fvt):
                continue
            b = E.sub(ct, a)
            if b.op == 'const':
                continue
            vb = S.uf_app('exp', (b,))
            out.append(E.cmp('==', E.mul(va, vb), vt))
    return out


def bcast_index(shape, full_shape, idx):
    """Index into an array of `shape` broadcast against `full_shape` at full index idx."""
    nd = len(shape)
    sub = idx[len(full_shape) - nd:]
    return tuple(0 if shape[i] == 1 else sub[i] for i in range(nd))


# ----------------------------------------------------------------------------- machine-checked lemmas (Lean 4 + Mathlib)
LEMMAS = {
    'rayleigh': dict(
        file='lean/Rayleigh.lean', theorems=['rayleigh_le', 'rayleigh_attained', 'gen_rayleigh_le'],
        statement='eigh contract (V^H V = 1, A V = V diag w) => Re(x^H A x) <= w_max x^H x, attained by the column of w_max; '
                  'generalised: V^H B V = 1, A V = B V diag w => Re(x^H A x) <= w_max Re(x^H B x)   (all dimensions)',
        assumptions=['the contract of the eigen-solver (unitary / B-orthonormal eigenvectors, A V = [B] V diag w) is assumed, not proved']),
    'mvdr': dict(
        file='lean/Mvdr.lean', theorems=['mvdr_optimal'],
        statement='Phi PSD, Phi w0 = k a, w0^H a = 1, w^H a = 1  =>  Re(w0^H Phi w0) <= Re(w^H Phi w)   (all dimensions)'),
    'psd': dict(
        file='lean/Psd.lean', theorems=['quad_weighted_outer', 'weighted_outer_posSemidef'],
        statement='m_t >= 0  =>  sum_t m_t x_t x_t^H is Hermitian positive semidefinite; v^H (sum_t m_t x_t x_t^H) v = sum_t m_t |v^H x_t|^2   (all D, T)'),
    'logdet': dict(
        file='lean/LogDet.lean', theorems=['det_cholesky', 'log_det_cholesky'],
        statement='L lower triangular with positive diagonal  =>  log det(L L^T) = 2 sum_i log L_ii   (all dimensions)'),
}


def lemma_instance(prop, which, func):
    spec = LEMMAS[which]
    return Instance(prop, func, 'lean-lemma-%s' % which, None, None, None, mode='lemma', lemma=spec, crosscheck=False, frame=False,
                    tags=('lemma',))
