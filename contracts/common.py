"""Helpers shared by the contract modules."""
import itertools

import numpy as np

from pbv import expr as E
from pbv import scalar as S
from pbv.instance import Instance
from pbv.spec import cells, shape_of

TINY = float(np.finfo(np.float64).tiny)


def idx_iter(shape):
    return np.ndindex(*shape)


def exp_shift_hints(sp, targets):
    """Ground instances of exp(a)·exp(c−a) = exp(c) linking the exponentials the code evaluated
    (arguments a) with the exponentials the specification talks about (arguments c).

    Sound lemma of the real exponential; only instances whose arguments share an input variable
    are generated.  Returns formulas."""
    if not sp.symbolic:
        return []
    c = S.ctx()
    code_apps = list(c.apps.get('exp', []))
    out = []
    for t in targets:
        t = S.R.lift(t)
        if t.conc():
            continue
        ct = t.term()
        vt = S.uf_app('exp', (ct,))
        fvt = E.fv(ct)
        for (a,), va in code_apps:
            if a is ct or not (E.fv(a) & fvt):
                continue
            b = E.sub(ct, a)
            if b.op == 'const':
                continue
            vb = S.uf_app('exp', (b,))
            out.append(E.cmp('==', E.mul(va, vb), vt))
    return out


def bcast_index(shape, full_shape, idx):
    """Index into an array of `shape` broadcast against `full_shape` at full index idx."""
    nd = len(shape)
    sub = idx[len(full_shape) - nd:]
    return tuple(0 if shape[i] == 1 else sub[i] for i in range(nd))
