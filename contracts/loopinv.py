"""Inductive contract of the EM loop of the seven mixture trainers (loop cut, see pbv/loopcut.py).

Invariant at the loop head after k iterations (k >= 0), relative to the state s0 the prologue produced:
    Inv(k):  every local variable other than (model, affiliation, quadratic_form, loop variable) equals its value in s0;
             k = 0: (model, affiliation, quadratic_form) = s0's;   k >= 1: model is the result of the k-th M-step call.
Obligations (callees `_m_step`, `predict/_predict`, `apply_inline_permutation_alignment` are uninterpreted: recording stubs
that return fresh symbolic arrays / opaque model objects):
    base      the prologue calls no E-/M-step; with an array initialisation model is None and the affiliation is the
              (broadcast) initialisation [quadratic form: ones]; with a model initialisation model is that object
    step-A    body from s0 with model None: exactly one M-step on (y, s0 affiliation / quadratic form, s0 options)
    step-B    body from *any* state satisfying Inv with a model (model = opaque object, affiliation / quadratic form = havoc):
              exactly  E(model; y, options)  ->  [align(E outputs; wca, aligner)]  ->  M(y, aligned outputs; options),
              every callee parameter that the fit function has a variable for is passed, and is that variable
    frame     the body rebinds nothing but (model, affiliation, quadratic_form)  => Inv(k+1)
    exit      the epilogue returns the model of the state
By induction over k, fit with n iterations is M, (E, [align], M)^(n-1) for an array initialisation and (E, [align], M)^n for a
model initialisation, for every n >= 1, and a fit continued from a model is in the state the uninterrupted loop is in.
"""
import inspect

import numpy as np

from pbv import loopcut
from pbv import scalar as S
from pbv.instance import Instance
from pbv.spec import cells, shape_of
from pbv.symnp import SymArray

DN = 'pb_bss.distribution.'
CARRIED = ('model', 'affiliation', 'quadratic_form')
RENAME = {'x': 'y'}          # GMM calls the observation x in its callees


def _spec(kind):
    from pb_bss.distribution import cacgmm, cwmm, gmm, vmfmm, gcacgmm, vmfcacgmm, cbmm
    return {
        'cacgmm': (cacgmm, cacgmm.CACGMMTrainer, cacgmm.CACGMM, '_predict', 'fit', True, True),
        'cwmm': (cwmm, cwmm.CWMMTrainer, cwmm.CWMM, 'predict', '_fit', False, True),
        'cbmm': (cbmm, cbmm.CBMMTrainer, cbmm.CBMM, 'predict', '_fit', False, True),
        'gmm': (gmm, gmm.GMMTrainer, gmm.GMM, 'predict', '_fit', False, False),
        'vmfmm': (vmfmm, vmfmm.VMFMMTrainer, vmfmm.VMFMM, 'predict', '_fit', False, False),
        'gcacgmm': (gcacgmm, gcacgmm.GCACGMMTrainer, gcacgmm.GCACGMM, '_predict', 'fit', True, False),
        'vmfcacgmm': (vmfcacgmm, vmfcacgmm.VMFCACGMMTrainer, vmfcacgmm.VMFCACGMM, '_predict', 'fit', True, False),
    }[kind]


class Box:
    """opaque container: the result holds half-constructed model objects that must not be traversed"""
    def __init__(self, d):
        self.d = d


def expect_name(p):
    return RENAME.get(p, p)


def _is_arr(v):
    return isinstance(v, (SymArray, np.ndarray))


def same(sp, a, b):
    """value identity of two state entries / call arguments (formula or bool)"""
    if a is b:
        return sp._f(True)
    if _is_arr(a) and _is_arr(b):
        if shape_of(a) != shape_of(b):
            return sp._f(False)
        ca, cb = cells(a), cells(b)
        return sp.all(sp.eq(ca[i], cb[i]) for i in np.ndindex(*shape_of(a)))
    if _is_arr(a) or _is_arr(b):
        return sp._f(False)
    try:
        return sp._f(bool(type(a) is type(b) and a == b))
    except Exception:
        return sp._f(False)


def loop_invariant_instance(prop, kind, aligner=False, tier='quick'):
    mod, trainer_cls, model_cls, pred_name, fit_name, has_qf, has_aligner = _spec(kind)
    F, K, N, D, Em = 2, 2, 3, 2, 2
    cplx = kind in ('cacgmm', 'cwmm', 'cbmm', 'gcacgmm', 'vmfcacgmm')
    integration = kind in ('gcacgmm', 'vmfcacgmm')
    log = []

    class Opaque:          # aligner object: never called (the alignment routine is a stub)
        pass

    def new_model(tag):
        m = model_cls.__new__(model_cls)
        object.__setattr__(m, '_tag', tag)
        return m

    real_m = inspect.signature(getattr(trainer_cls, '_m_step'))
    real_e = inspect.signature(getattr(model_cls, pred_name))
    real_al = inspect.signature(getattr(mod, 'apply_inline_permutation_alignment')) if has_aligner else None
    holder = {}
    al_obj = Opaque()

    def fake_m(self, *a, **k):
        mdl = new_model('M%d' % len(log))
        log.append(('M', real_m.bind(self, *a, **k).arguments, mdl))
        return mdl

    def fake_e(self, *a, **k):
        out = holder['E']
        log.append(('E', real_e.bind(self, *a, **k).arguments, out))
        if kind == 'cacgmm':
            return out[0], out[1], None
        if has_qf:
            return out[0], out[1]
        return out[0]

    def fake_al(*a, **k):
        out = holder['AL']
        ba = real_al.bind(*a, **k).arguments
        log.append(('A', ba, out))
        if ba.get('quadratic_form') is None:
            return out[0]
        return out[0], out[1]

    def patches():
        p = [(trainer_cls, '_m_step', fake_m), (model_cls, pred_name, fake_e)]
        if has_aligner:
            p.append((mod, 'apply_inline_permutation_alignment', fake_al))
        return p

    def make(B):
        inp = {}
        if integration:
            inp['observation'] = B.cplx('y', (F, N, D))
            inp['embedding'] = B.real('e', (F, N, Em))
        elif cplx:
            inp['y'] = B.cplx('y', (F, N, D))
        else:
            inp['y'] = B.real('y', (F, N, D))
        inp['init'] = B.real('g0', (F, K, N), lo=0.0, dist=(0.05, 1.0))
        inp['saliency'] = B.real('s', (F, N), lo=0.0, dist=(0.1, 2.0))
        for nm in ('e_aff', 'e_qf', 'al_aff', 'al_qf', 'stale_aff', 'stale_qf'):
            inp[nm] = B.real(nm, (F, K, N), lo=0.0, dist=(0.05, 1.0))
        return inp

    def fit_kwargs(inp, init):
        kw = dict(initialization=init, iterations=5, saliency=inp['saliency'])
        if kind == 'cacgmm':
            kw.update(weight_constant_axis=[-3] if aligner else (-1,), hermitize=False, covariance_norm='trace', affiliation_eps=1e-7,
                      eigenvalue_floor=1e-9, inline_permutation_aligner=al_obj if aligner else None)
            return (inp['y'],), kw
        if kind in ('cwmm', 'cbmm'):
            kw.update(weight_constant_axis=(-3,) if aligner else (-1,), affiliation_eps=0, inline_permutation_aligner=al_obj if aligner else None)
            return (inp['y'],), kw
        if kind == 'gmm':
            kw.update(weight_constant_axis=(-1,), covariance_type='diagonal', fixed_covariance=None)
            return (inp['y'],), kw
        if kind == 'vmfmm':
            kw.update(weight_constant_axis=(-1,), min_concentration=1e-3, max_concentration=77.0)
            return (inp['y'],), kw
        kw.update(hermitize=False, covariance_norm='trace', eigenvalue_floor=1e-9, affiliation_eps=1e-7, weight_constant_axis=(-3,),
                  spatial_weight=0.7, spectral_weight=1.3, inline_permutation_alignment=bool(aligner))
        if kind == 'gcacgmm':
            kw.update(covariance_type='diagonal', fixed_covariance=None)
        else:
            kw.update(min_concentration=1e-3, max_concentration=77.0)
        return (inp['observation'], inp['embedding']), kw

    def call(inp):
        holder['E'] = (inp['e_aff'], inp['e_qf'])
        holder['AL'] = (inp['al_aff'], inp['al_qf'])
        try:
            pieces = loopcut.cut_loop(getattr(trainer_cls, fit_name))
        except loopcut.NotCuttable as e:
            raise S.EngineGap('loop of %s.%s cannot be cut: %s' % (trainer_cls.__name__, fit_name, e))
        tr = trainer_cls()
        res = {'pieces': pieces}
        relevant = {'self'}
        for sig in (real_m, real_e) + ((real_al,) if real_al is not None else ()):
            relevant.update(expect_name(p) for p in sig.parameters)
        relevant.add('inline_permutation_aligner')
        res['relevant'] = relevant

        def snapshot(st):
            return {v: (np.array(cells(x), dtype=object, copy=True) if _is_arr(x) else x) for v, x in st.items() if v in relevant}
        # ---- base: prologue with an array initialisation
        del log[:]
        args, kw = fit_kwargs(inp, inp['init'])
        s0 = pieces.prologue(loopcut.bind_state(pieces, tr, *args, **kw))
        res['s0'], res['log0'] = s0, list(log)
        # locals of the function that the body rebinds although neither the invariant nor a callee knows them: the induction
        # would not be closed -> undecided (never a violation)
        uncovered = sorted(v for v in pieces.body_stores if v in s0 and v not in CARRIED and v != pieces.loop_var and v not in relevant)
        if uncovered:
            raise S.EngineGap('loop body rebinds locals outside the invariant: %s' % uncovered)
        # ---- step A: body from s0 (model None)
        del log[:]
        res['snapA'] = snapshot(s0)
        sA = pieces.body(dict(s0))
        res['sA'], res['logA'] = sA, list(log)
        # ---- step B: body from a havoc state satisfying Inv with a model; locals that the body both reads and binds and that
        # the prologue does not bind (temporaries, or values carried between iterations) are havoc as well
        del log[:]
        sB0 = dict(s0)
        mB = new_model('havoc')
        sB0.update(model=mB, affiliation=inp['stale_aff'])
        if has_qf:
            sB0['quadratic_form'] = inp['stale_qf']
        for v in sorted((pieces.body_stores & pieces.body_loads) - set(s0) - set(CARRIED) - {pieces.loop_var}):
            sB0[v] = inp['stale_aff']
        res['snapB'] = snapshot(sB0)
        sB = pieces.body(dict(sB0))
        res['sB0'], res['sB'], res['logB'], res['mB'] = sB0, sB, list(log), mB
        # ---- exit
        del log[:]
        res['ret'] = pieces.epilogue(dict(sB))
        res['log_exit'] = list(log)
        # ---- base with a model initialisation (only the cACGMM trainer accepts one)
        if kind == 'cacgmm':
            del log[:]
            m0 = new_model('init')
            object.__setattr__(m0, 'cacg', type('X', (), {'covariance_eigenvectors': np.zeros((F, K, D, D))})())
            args, kw = fit_kwargs(inp, m0)
            sm = pieces.prologue(loopcut.bind_state(pieces, tr, *args, **kw))
            res['sm'], res['m0'], res['logm'] = sm, m0, list(log)
        return Box(res)

    def check_call(sp, tag, rec, state, overrides, real_sig):
        """every bound parameter equals the state variable of the same name (or the override); every parameter for which
        the fit function has a variable is bound"""
        _, bound, _ = rec
        for p in real_sig.parameters:
            if p == 'self':
                continue
            nm = expect_name(p)
            if p in overrides:
                want = overrides[p]
            elif nm in state:
                want = state[nm]
            else:
                continue
            if p not in bound:
                yield '%s-passes-%s' % (tag, p), sp._f(False)
            else:
                yield '%s-passes-%s' % (tag, p), same(sp, bound[p], want)

    def ensures(sp, inp, out):
        out = out.d
        s0, sA, sB0, sB = out['s0'], out['sA'], out['sB0'], out['sB']
        pieces = out['pieces']
        # base
        yield 'base-prologue-calls-no-step', sp._f(out['log0'] == [])
        yield 'base-model-is-none', sp._f(s0.get('model', 0) is None)
        if s0.get('model', 0) is not None or 'affiliation' not in s0:
            return
        yield 'base-affiliation-is-initialisation', same(sp, s0['affiliation'], inp['init'])
        if has_qf:
            q = s0.get('quadratic_form')
            okq = q is not None and shape_of(q) == (F, K, N)
            yield 'base-quadratic-form-is-one', (sp.all(sp.eq(cells(q)[i], 1.0) for i in np.ndindex(F, K, N)) if okq else sp._f(False))
        yield 'base-saliency-is-the-callers', same(sp, s0.get('saliency'), inp['saliency'])
        # step A
        lgA = out['logA']
        yield 'stepA-call-sequence-is-M', sp._f(''.join(e[0] for e in lgA) == 'M')
        if ''.join(e[0] for e in lgA) == 'M':
            ov = {'affiliation': s0['affiliation']}
            if has_qf:
                ov['quadratic_form'] = s0['quadratic_form']
            yield from check_call(sp, 'stepA-m-step', lgA[0], s0, ov, real_m)
            yield 'stepA-model-is-m-step-result', sp._f(sA.get('model') is lgA[0][2])
        # step B
        lgB = out['logB']
        seq = ''.join(e[0] for e in lgB)
        exp = 'EAM' if (aligner and has_aligner) else 'EM'
        yield 'stepB-call-sequence-is-%s' % exp, sp._f(seq == exp)
        if seq == exp:
            e = lgB[0]
            yield 'stepB-e-step-on-current-model', sp._f(e[1].get('self') is out['mB'])
            yield from check_call(sp, 'stepB-e-step', e, sB0, {}, real_e)
            aff, qf = e[2]
            if exp == 'EAM':
                a = lgB[1]
                ov = {'affiliation': aff, 'aligner': sB0['inline_permutation_aligner']}
                if has_qf:
                    ov['quadratic_form'] = qf
                yield from check_call(sp, 'stepB-align', a, sB0, ov, real_al)
                if not has_qf:
                    yield 'stepB-align-without-quadratic-form', sp._f(a[1].get('quadratic_form') is None)
                aff, qf = a[2]
            m = lgB[-1]
            ov = {'affiliation': aff}
            if has_qf:
                ov['quadratic_form'] = qf
            yield from check_call(sp, 'stepB-m-step', m, sB0, ov, real_m)
            yield 'stepB-model-is-m-step-result', sp._f(sB.get('model') is m[2])
        # frame: the variables the callees receive keep their value (compared with a snapshot taken before the body ran)
        for tag, snap, after in (('A', out['snapA'], sA), ('B', out['snapB'], sB)):
            for v in sorted(snap):
                if v in CARRIED or v == pieces.loop_var:
                    continue
                if v not in after:
                    yield 'frame%s-%s-kept' % (tag, v), sp._f(False)
                elif _is_arr(after[v]):
                    ok = shape_of(after[v]) == snap[v].shape if hasattr(snap[v], 'shape') else False
                    yield 'frame%s-%s-kept' % (tag, v), (sp.all(sp.eq(cells(after[v])[i], snap[v][i]) for i in np.ndindex(*snap[v].shape)) if ok else sp._f(False))
                else:
                    yield 'frame%s-%s-kept' % (tag, v), same(sp, after[v], snap[v])
        # exit
        yield 'exit-returns-the-model', sp._f(out['ret'] is sB.get('model') and out['log_exit'] == [])
        # model initialisation
        if 'sm' in out:
            sm = out['sm']
            yield 'base-model-initialisation-is-the-model', sp._f(sm.get('model') is out['m0'] and out['logm'] == [])
            for v in sorted(s0):
                if v in CARRIED or v in ('initialization', 'num_classes', 'affiliation_shape'):
                    continue
                yield 'base-model-initialisation-same-%s' % v, (same(sp, sm[v], s0[v]) if v in sm else sp._f(False))

    name = 'loop-invariant-%s%s' % (kind, '-aligner' if aligner else '')
    func = '%s:%s.%s' % (mod.__name__.split('.')[-1], trainer_cls.__name__, fit_name)
    return Instance(prop, DN + func, name, make, call, ensures, patches=patches, crosscheck=False, native_n=2, frame=False,
                    tags=('inductive',))


def all_instances(prop, tier):
    out = []
    for kind in ('cacgmm', 'cwmm', 'cbmm', 'gmm', 'vmfmm', 'gcacgmm', 'vmfcacgmm'):
        out.append(loop_invariant_instance(prop, kind, False, tier))
    for kind in ('cacgmm', 'cwmm', 'cbmm', 'gcacgmm', 'vmfcacgmm'):
        out.append(loop_invariant_instance(prop, kind, True, tier))
    return out
