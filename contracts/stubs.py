"""Assumed contracts of external numerics used by several contract modules (sklearn helpers, scipy specials).

Every stub falls through to the real function for concrete (native) arguments, so native runs execute the real code."""
import math

import numpy as np

from pbv import expr as E
from pbv import scalar as S
from pbv import symnp
from pbv.scalar import R, C
from pbv.symnp import SymArray

SKLEARN_PC = ("sklearn _compute_precision_cholesky(cov, 'full') = upper-triangular P with positive diagonal and "
              "P P^T = cov^-1 (computed as the exact inverse-transpose of the Cholesky factor); 'diag': 1/sqrt(cov)")
SKLEARN_LD = "sklearn _compute_log_det_cholesky(P, type, D) = sum_i log P_ii ('full'), sum_d log P_d ('diag'), D log P ('spherical')"


def _is_sym(x):
    return isinstance(x, (SymArray, R, C))


def cholesky_lower(M):
    """Exact lower Cholesky factor of a real symmetric positive definite matrix of scalars (recurrence, purified sqrt)."""
    n = len(M)
    L = [[R(0.0)] * n for _ in range(n)]
    for j in range(n):
        s = S.num(M[j][j])
        for k in range(j):
            s = s - L[j][k] * L[j][k]
        L[j][j] = s.sqrt()
        for i in range(j + 1, n):
            s = S.num(M[i][j])
            for k in range(j):
                s = s - L[i][k] * L[j][k]
            L[i][j] = s / L[j][j]
    return L


def lower_inverse(L):
    n = len(L)
    X = [[R(0.0)] * n for _ in range(n)]
    for j in range(n):
        for i in range(j, n):
            s = R(1.0) if i == j else R(0.0)
            for k in range(j, i):
                s = s - L[i][k] * X[k][j]
            X[i][j] = s / L[i][i]
    return X


def make_gaussian_patches():
    from pb_bss.distribution import gaussian as g
    real_pc, real_ld = g._compute_precision_cholesky, g._compute_log_det_cholesky

    def pc(covariances, covariance_type):
        if not _is_sym(covariances):
            return real_pc(covariances, covariance_type)
        S.ctx().assumptions_used.add(SKLEARN_PC)
        cov = symnp._sa(covariances)
        if covariance_type == 'full':
            n, D, _ = cov.shape
            out = np.empty((n, D, D), dtype=object)
            for i in range(n):
                M = [[cov.data[i, a, b] for b in range(D)] for a in range(D)]
                X = lower_inverse(cholesky_lower(M))          # L^-1 (lower);  P = (L^-1)^T
                for a in range(D):
                    for b in range(D):
                        out[i, a, b] = X[b][a]
            return SymArray(out, cov.dt)
        return 1.0 / np.sqrt(cov)

    def ld(matrix_chol, covariance_type, n_features):
        if not _is_sym(matrix_chol):
            return real_ld(matrix_chol, covariance_type, n_features)
        S.ctx().assumptions_used.add(SKLEARN_LD)
        P = symnp._sa(matrix_chol)
        if covariance_type == 'full':
            n = P.shape[0]
            out = np.empty((n,), dtype=object)
            for i in range(n):
                acc = None
                for d in range(n_features):
                    t = S.num(P.data[i, d, d]).log()
                    acc = t if acc is None else acc + t
                out[i] = acc
            return SymArray(out, P.dt)
        if covariance_type == 'diag':
            return np.sum(np.log(P), axis=1)
        if covariance_type == 'spherical':
            return n_features * np.log(P)
        raise ValueError(covariance_type)
    return [(g, '_compute_precision_cholesky', pc), (g, '_compute_log_det_cholesky', ld)]


def uf_stub(name, real, label, positive=True):
    """Uninterpreted (optionally positive) function of its real arguments, e.g. scipy.special.ive / hyp1f1."""
    def f(*args):
        if not any(_is_sym(a) for a in args):
            return real(*args)
        S.ctx().assumptions_used.add(label)
        arrs = np.broadcast_arrays(*[symnp.obj(a) for a in args])
        out = np.empty(arrs[0].shape, dtype=object)
        for idx in np.ndindex(*out.shape):
            terms = tuple(S.num(a[idx]).term() for a in arrs)
            v = S.uf_app(name, terms)
            c = S.ctx()
            if positive and v.args[0] not in c.pos:
                c.pos.add(v.args[0])
                c.add_def([v], E.cmp('>', v, E.ZERO))
            c.evalfn[v.args[0]] = (lambda ev, terms=terms: float(real(*[ev(t) for t in terms])))
            out[idx] = R(v)
        if out.ndim == 0:
            return out[()]
        return SymArray(out, np.float64)
    return f


def make_gaussian_opaque_patches():
    """For contracts that only look at mean / covariance: the sklearn helpers return fresh (unconstrained) symbols."""
    from pb_bss.distribution import gaussian as g
    real_pc, real_ld = g._compute_precision_cholesky, g._compute_log_det_cholesky

    def fresh_like(shape, tag):
        c = S.ctx()
        out = np.empty(shape, dtype=object)
        for idx in np.ndindex(*shape):
            v = c.new_var(tag)
            c.evalfn[v.args[0]] = (lambda ev: 0.0)
            out[idx] = R(v)
        return SymArray(out, np.float64)

    def pc(covariances, covariance_type):
        if not _is_sym(covariances):
            return real_pc(covariances, covariance_type)
        return fresh_like(symnp._sa(covariances).shape, 'opaque_pc')

    def ld(matrix_chol, covariance_type, n_features):
        if not _is_sym(matrix_chol):
            return real_ld(matrix_chol, covariance_type, n_features)
        return fresh_like((symnp._sa(matrix_chol).shape[0],), 'opaque_ld')
    return [(g, '_compute_precision_cholesky', pc), (g, '_compute_log_det_cholesky', ld)]


class Recorder:
    """Wraps a function and records (args, kwargs, result) of every call."""

    def __init__(self, real):
        self.real = real
        self.calls = []

    def __call__(self, *a, **k):
        r = self.real(*a, **k)
        self.calls.append((a, k, r))
        return r

    def clear(self):
        self.calls = []
