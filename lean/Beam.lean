import Mathlib.LinearAlgebra.Matrix.PosDef
import Mathlib.LinearAlgebra.Matrix.NonsingularInverse
import Mathlib.Data.Complex.BigOperators
import Mathlib.Analysis.Complex.Order
import Mathlib.Analysis.Complex.Basic

/-!
# Beamforming identities for every number of sensors (C10 / C11 / C12)

For an arbitrary finite sensor index type `n` this file proves: the diagonal loading used by `condition_covariance`
preserves the trace and keeps a Hermitian positive semidefinite matrix Hermitian positive semidefinite (C10); the LCMV
and MVDR closed forms satisfy their linear constraints and the MVDR vector satisfies the normal equation that
`mvdr_optimal` (Mvdr.lean) takes as hypothesis, and Souden's rank-one MVDR form is a scaled MVDR vector (C11); the
generalised Rayleigh quotient is invariant under a nonzero complex scaling of the vector (C12).
-/

open Matrix BigOperators Complex
open scoped ComplexOrder

variable {n m : Type*} [Fintype n] [Fintype m] [DecidableEq n] [DecidableEq m]

/-- (C10) diagonal loading with `γ · tr Φ / D` followed by division by `1 + γ` preserves the trace. -/
theorem condition_covariance_trace [Nonempty n] (Φ : Matrix n n ℂ) (γ : ℝ) (hγ : 1 + γ ≠ 0) :
    trace (((1 : ℂ) / (1 + γ)) • (Φ + ((γ : ℂ) * trace Φ / (Fintype.card n : ℂ)) • (1 : Matrix n n ℂ)))
      = trace Φ := by
  have hc : (Fintype.card n : ℂ) ≠ 0 := by
    exact_mod_cast Fintype.card_ne_zero
  have hg : (1 + (γ : ℂ)) ≠ 0 := by
    exact_mod_cast hγ
  rw [trace_smul, trace_add, trace_smul, trace_one, smul_eq_mul, smul_eq_mul]
  field_simp

/-- (C10) the conditioned covariance of a positive semidefinite matrix is positive semidefinite (`0 ≤ γ`). -/
theorem condition_covariance_posSemidef (Φ : Matrix n n ℂ) (hΦ : Φ.PosSemidef) (γ : ℝ) (hγ : 0 ≤ γ) :
    (((1 : ℂ) / (1 + γ)) • (Φ + ((γ : ℂ) * trace Φ / (Fintype.card n : ℂ)) • (1 : Matrix n n ℂ))).PosSemidef := by
  have h1 : (0 : ℂ) ≤ (1 : ℂ) / (1 + γ) := by
    have : (0 : ℝ) ≤ 1 / (1 + γ) := by positivity
    have h := Complex.zero_le_real.mpr this
    rw [Complex.ofReal_div, Complex.ofReal_add, Complex.ofReal_one] at h
    exact h
  have htr : (0 : ℂ) ≤ trace Φ := hΦ.trace_nonneg
  have hcard : (0 : ℂ) ≤ ((Fintype.card n : ℂ))⁻¹ := by
    have : (0 : ℝ) ≤ ((Fintype.card n : ℝ))⁻¹ := by positivity
    have h := Complex.zero_le_real.mpr this
    rw [Complex.ofReal_inv, Complex.ofReal_natCast] at h
    exact h
  have hgc : (0 : ℂ) ≤ (γ : ℂ) := Complex.zero_le_real.mpr hγ
  have h2 : (0 : ℂ) ≤ (γ : ℂ) * trace Φ / (Fintype.card n : ℂ) := by
    rw [div_eq_mul_inv]
    exact mul_nonneg (mul_nonneg hgc htr) hcard
  exact (hΦ.add (Matrix.PosSemidef.one.smul h2)).smul h1

/-- (C10) the conditioned covariance of a positive semidefinite matrix is Hermitian (`0 ≤ γ`). -/
theorem condition_covariance_isHermitian (Φ : Matrix n n ℂ) (hΦ : Φ.PosSemidef) (γ : ℝ) (hγ : 0 ≤ γ) :
    (((1 : ℂ) / (1 + γ)) • (Φ + ((γ : ℂ) * trace Φ / (Fintype.card n : ℂ)) • (1 : Matrix n n ℂ))).IsHermitian :=
  (condition_covariance_posSemidef Φ hΦ γ hγ).isHermitian

/-- (C11) the LCMV vector `Φ⁻¹ A (Aᴴ Φ⁻¹ A)⁻¹ r` satisfies all linear constraints `Aᴴ w = r`. -/
theorem lcmv_constraints (Φ : Matrix n n ℂ) (A : Matrix n m ℂ) (r : m → ℂ)
    (_hΦ : IsUnit Φ.det) (hG : IsUnit (Aᴴ * Φ⁻¹ * A).det) :
    Aᴴ.mulVec ((Φ⁻¹ * A * (Aᴴ * Φ⁻¹ * A)⁻¹).mulVec r) = r := by
  rw [Matrix.mulVec_mulVec, ← Matrix.mul_assoc, ← Matrix.mul_assoc, Matrix.mul_nonsing_inv _ hG,
    Matrix.one_mulVec]

/-- (C11) the MVDR vector is distortionless and satisfies the normal equation `Φ w = (1/d) • a`. -/
theorem mvdr_constraint (Φ : Matrix n n ℂ) (a : n → ℂ) (hΦ : IsUnit Φ.det)
    (hd : star a ⬝ᵥ Φ⁻¹.mulVec a ≠ 0) :
    star a ⬝ᵥ ((1 / (star a ⬝ᵥ Φ⁻¹.mulVec a)) • Φ⁻¹.mulVec a) = 1
      ∧ Φ.mulVec ((1 / (star a ⬝ᵥ Φ⁻¹.mulVec a)) • Φ⁻¹.mulVec a) = (1 / (star a ⬝ᵥ Φ⁻¹.mulVec a)) • a := by
  constructor
  · rw [dotProduct_smul, smul_eq_mul, one_div, inv_mul_cancel₀ hd]
  · rw [Matrix.mulVec_smul, Matrix.mulVec_mulVec, Matrix.mul_nonsing_inv _ hΦ, Matrix.one_mulVec]

omit [DecidableEq n] in
/-- quadratic form of a scaled vector -/
theorem quad_smul (A : Matrix n n ℂ) (w : n → ℂ) (c : ℂ) :
    star (c • w) ⬝ᵥ A.mulVec (c • w) = (star c * c) * (star w ⬝ᵥ A.mulVec w) := by
  rw [star_smul, Matrix.mulVec_smul, smul_dotProduct, dotProduct_smul, smul_eq_mul, smul_eq_mul]
  ring

omit [DecidableEq n] in
/-- (C12) the generalised Rayleigh quotient does not change under a nonzero complex scaling of the vector. -/
theorem rayleigh_scale_invariant (A B : Matrix n n ℂ) (w : n → ℂ) (c : ℂ) (hc : c ≠ 0) :
    (star (c • w) ⬝ᵥ A.mulVec (c • w)) / (star (c • w) ⬝ᵥ B.mulVec (c • w))
      = (star w ⬝ᵥ A.mulVec w) / (star w ⬝ᵥ B.mulVec w) := by
  have hcc : star c * c ≠ 0 := mul_ne_zero (star_ne_zero.mpr hc) hc
  rw [quad_smul, quad_smul, mul_div_mul_left _ _ hcc]

/-- (C11) for a rank-one target covariance `σ a aᴴ`: `Φn⁻¹ Φx u` is a multiple of `Φn⁻¹ a`, and the trace of `Φn⁻¹ Φx`. -/
theorem souden_rank_one (Φn : Matrix n n ℂ) (_hΦn : IsUnit Φn.det) (a u : n → ℂ) (σ : ℂ) :
    (Φn⁻¹ * (σ • vecMulVec a (star a))).mulVec u = (σ * (star a ⬝ᵥ u)) • Φn⁻¹.mulVec a
      ∧ trace (Φn⁻¹ * (σ • vecMulVec a (star a))) = σ * (star a ⬝ᵥ Φn⁻¹.mulVec a) := by
  constructor
  · rw [← Matrix.mulVec_mulVec, Matrix.smul_mulVec, Matrix.vecMulVec_mulVec, Matrix.mulVec_smul,
      Matrix.mulVec_smul, op_smul_eq_smul, smul_smul]
  · rw [Matrix.mul_smul, trace_smul, Matrix.mul_vecMulVec, trace_vecMulVec, dotProduct_comm, smul_eq_mul]

/-- (C11) Souden's rank-one vector `(Φn⁻¹ Φx u) / tr(Φn⁻¹ Φx)` is a scaled MVDR vector. -/
theorem souden_is_scaled_mvdr (Φn : Matrix n n ℂ) (hΦn : IsUnit Φn.det) (a u : n → ℂ) (σ : ℂ) (hσ : σ ≠ 0)
    (hd : star a ⬝ᵥ Φn⁻¹.mulVec a ≠ 0) :
    (1 / trace (Φn⁻¹ * (σ • vecMulVec a (star a)))) • (Φn⁻¹ * (σ • vecMulVec a (star a))).mulVec u
      = ((star a ⬝ᵥ u) / (star a ⬝ᵥ Φn⁻¹.mulVec a)) • Φn⁻¹.mulVec a := by
  obtain ⟨h1, h2⟩ := souden_rank_one Φn hΦn a u σ
  rw [h1, h2, smul_smul]
  congr 1
  field_simp
