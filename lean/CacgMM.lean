import Mathlib.Analysis.Matrix.Order
import Mathlib.LinearAlgebra.Matrix.NonsingularInverse
import Mathlib.Data.Complex.BigOperators
import Mathlib.Analysis.Complex.Order
import Mathlib.Analysis.SpecialFunctions.Log.Basic
import Mathlib.Algebra.BigOperators.Field

/-!
# Wiener filter optimality, rank-one covariances and the complex angular central Gaussian (C02 / C11 / C12)

For an arbitrary finite sensor index type `n` (and an arbitrary finite type `ν` of observations) this file proves: a solution
of the normal equation `M w0 = b` minimises `wᴴ M w - 2 Re (wᴴ b)` for positive semidefinite `M`, hence the multichannel
Wiener filter `(Φx + μ Φn) w0 = Φx u` minimises the speech-distortion weighted cost (C11); the rank-one matrix `a aᴴ` is
Hermitian positive semidefinite and `t / (aᴴ a) • a aᴴ` has trace `t` (C12); the complex angular central Gaussian
log-density `-D log (zᴴ B⁻¹ z) - log det B` is invariant under a positive scaling of `B`, `log det A ≤ tr A - D` for complex
positive definite `A`, and the MM (Tyler) update `B1 = (D / G) Σ_k (γ_k / q0_k) z_k z_kᴴ` does not decrease the weighted
cACG log-likelihood (C02 / C04).
-/

open Matrix BigOperators Complex
open scoped ComplexOrder

variable {n ν : Type*} [Fintype n] [Fintype ν]

/-- For a Hermitian matrix the two cross terms of a quadratic form have the same real part. -/
theorem herm_cross_re (M : Matrix n n ℂ) (hM : M.IsHermitian) (v w : n → ℂ) :
    (star v ⬝ᵥ M.mulVec w).re = (star w ⬝ᵥ M.mulVec v).re := by
  have hH : Mᴴ = M := hM
  have : star v ⬝ᵥ M.mulVec w = star (star w ⬝ᵥ M.mulVec v) := by
    rw [star_dotProduct, Matrix.star_mulVec, hH, Matrix.dotProduct_mulVec]
  rw [this]
  simp

/-- (C11) a solution of `M w0 = b` minimises the quadratic `wᴴ M w - 2 Re (wᴴ b)` when `M` is positive semidefinite. -/
theorem quadratic_minimiser (M : Matrix n n ℂ) (hM : M.PosSemidef) (b w0 : n → ℂ)
    (h0 : M.mulVec w0 = b) (w : n → ℂ) :
    (star w0 ⬝ᵥ M.mulVec w0).re - 2 * (star w0 ⬝ᵥ b).re
      ≤ (star w ⬝ᵥ M.mulVec w).re - 2 * (star w ⬝ᵥ b).re := by
  set d := w - w0 with hd
  have hw : w = w0 + d := by rw [hd]; abel
  have hdd : 0 ≤ (star d ⬝ᵥ M.mulVec d).re :=
    (Complex.nonneg_iff.mp (hM.dotProduct_mulVec_nonneg d)).1
  have hc := herm_cross_re M hM.isHermitian w0 d
  have e1 : star w ⬝ᵥ M.mulVec w
      = star w0 ⬝ᵥ M.mulVec w0 + star w0 ⬝ᵥ M.mulVec d + star d ⬝ᵥ M.mulVec w0 + star d ⬝ᵥ M.mulVec d := by
    rw [hw, star_add, Matrix.mulVec_add, add_dotProduct, dotProduct_add, dotProduct_add]
    ring
  have e2 : star w ⬝ᵥ b = star w0 ⬝ᵥ b + star d ⬝ᵥ M.mulVec w0 := by
    rw [hw, star_add, add_dotProduct, h0]
  rw [e1, e2]
  simp only [Complex.add_re]
  rw [h0] at hc ⊢
  linarith

/-- The speech-distortion weighted multichannel Wiener filter cost `(u-w)ᴴ Φx (u-w) + μ wᴴ Φn w`. -/
noncomputable def wmwfCost (Φx Φn : Matrix n n ℂ) (μ : ℝ) (u w : n → ℂ) : ℝ :=
  (star (u - w) ⬝ᵥ Φx.mulVec (u - w)).re + μ * (star w ⬝ᵥ Φn.mulVec w).re

/-- (C11) the Wiener filter cost is the quadratic `wᴴ (Φx + μ Φn) w - 2 Re (wᴴ Φx u) + uᴴ Φx u`. -/
theorem wmwf_cost_expand (Φx Φn : Matrix n n ℂ) (hx : Φx.PosSemidef) (μ : ℝ) (u w : n → ℂ) :
    wmwfCost Φx Φn μ u w
      = (star w ⬝ᵥ (Φx + (μ : ℂ) • Φn).mulVec w).re - 2 * (star w ⬝ᵥ Φx.mulVec u).re
        + (star u ⬝ᵥ Φx.mulVec u).re := by
  unfold wmwfCost
  have hc := herm_cross_re Φx hx.isHermitian u w
  rw [Matrix.add_mulVec, Matrix.smul_mulVec, dotProduct_add, dotProduct_smul, star_sub, Matrix.mulVec_sub,
    sub_dotProduct, dotProduct_sub, dotProduct_sub]
  simp only [Complex.add_re, Complex.sub_re, smul_eq_mul, Complex.re_ofReal_mul]
  linarith

/-- (C11) a solution of `(Φx + μ Φn) w0 = Φx u` (the multichannel Wiener filter) minimises the Wiener filter cost. -/
theorem wmwf_minimiser (Φx Φn : Matrix n n ℂ) (hx : Φx.PosSemidef) (hn : Φn.PosSemidef) (μ : ℝ) (hμ : 0 ≤ μ)
    (u w0 : n → ℂ) (h0 : (Φx + (μ : ℂ) • Φn).mulVec w0 = Φx.mulVec u) (w : n → ℂ) :
    wmwfCost Φx Φn μ u w0 ≤ wmwfCost Φx Φn μ u w := by
  have hM : (Φx + (μ : ℂ) • Φn).PosSemidef := hx.add (hn.smul (Complex.zero_le_real.mpr hμ))
  have h := quadratic_minimiser _ hM _ w0 h0 w
  rw [wmwf_cost_expand Φx Φn hx, wmwf_cost_expand Φx Φn hx]
  linarith

/-- (C12) the rank-one matrix `a aᴴ` is positive semidefinite. -/
theorem rank_one_posSemidef (a : n → ℂ) : (vecMulVec a (star a)).PosSemidef :=
  Matrix.posSemidef_vecMulVec_self_star a

/-- (C12) the rank-one matrix `a aᴴ` is Hermitian. -/
theorem rank_one_isHermitian (a : n → ℂ) : (vecMulVec a (star a)).IsHermitian :=
  (rank_one_posSemidef a).isHermitian

/-- (C12) the rank-one matrix `a aᴴ` scaled by `t / (aᴴ a)` has trace `t`. -/
theorem rank_one_trace (a : n → ℂ) (ha : star a ⬝ᵥ a ≠ 0) (t : ℂ) :
    trace ((t / (star a ⬝ᵥ a)) • vecMulVec a (star a)) = t := by
  rw [trace_smul, trace_vecMulVec, dotProduct_comm a (star a), smul_eq_mul, div_mul_cancel₀ _ ha]

variable [DecidableEq n]

/-- (C02/C04) the complex angular central Gaussian log-density does not depend on the scale of `B`. -/
theorem cacg_scale_invariant (B : Matrix n n ℂ) (hB : IsUnit B.det) (c : ℝ) (hc : 0 < c) (z : n → ℂ)
    (hq : 0 < (star z ⬝ᵥ B⁻¹.mulVec z).re) (hdet : 0 < B.det.re) :
    -(Fintype.card n : ℝ) * Real.log ((star z ⬝ᵥ ((c : ℂ) • B)⁻¹.mulVec z).re)
        - Real.log (((c : ℂ) • B).det.re)
      = -(Fintype.card n : ℝ) * Real.log ((star z ⬝ᵥ B⁻¹.mulVec z).re) - Real.log (B.det.re) := by
  have hcu : IsUnit (c : ℂ) := (Complex.ofReal_ne_zero.mpr hc.ne').isUnit
  have hinv : ((c : ℂ) • B)⁻¹ = ((c⁻¹ : ℝ) : ℂ) • B⁻¹ := by
    have := Matrix.inv_smul' (A := B) hcu.unit hB
    simpa [Units.smul_def] using this
  rw [hinv, Matrix.smul_mulVec, dotProduct_smul, Matrix.det_smul, smul_eq_mul, Complex.re_ofReal_mul,
    ← Complex.ofReal_pow, Complex.re_ofReal_mul, Real.log_mul (inv_ne_zero hc.ne') hq.ne',
    Real.log_mul (pow_ne_zero _ hc.ne') hdet.ne', Real.log_inv, Real.log_pow]
  ring

/-- For a complex Hermitian positive definite matrix, `log det A ≤ tr A - D`. -/
theorem complex_logdet_le_trace {A : Matrix n n ℂ} (hA : A.PosDef) :
    Real.log (A.det.re) ≤ A.trace.re - Fintype.card n := by
  rw [hA.1.det_eq_prod_eigenvalues, hA.1.trace_eq_sum_eigenvalues]
  simp only [RCLike.ofReal_eq_complex_ofReal]
  rw [← Complex.ofReal_prod, ← Complex.ofReal_sum, Complex.ofReal_re, Complex.ofReal_re]
  rw [Real.log_prod (fun i _ => (hA.eigenvalues_pos i).ne')]
  have : ∑ i, (hA.1.eigenvalues i) - (Fintype.card n : ℝ) = ∑ i, (hA.1.eigenvalues i - 1) := by
    simp [Finset.sum_sub_distrib]
  rw [this]
  exact Finset.sum_le_sum fun i _ => Real.log_le_sub_one_of_pos (hA.eigenvalues_pos i)

open scoped MatrixOrder in
/-- For complex positive definite `P`, `S`: `log det (P S) ≤ tr (P S) - D`. -/
theorem complex_logdet_mul_le_trace {P S : Matrix n n ℂ} (hP : P.PosDef) (hS : S.PosDef) :
    Real.log ((P * S).det.re) ≤ (P * S).trace.re - Fintype.card n := by
  obtain ⟨B, hB, rfl⟩ := CStarAlgebra.isStrictlyPositive_iff_eq_star_mul_self.mp hP.isStrictlyPositive
  have h := complex_logdet_le_trace ((Matrix.IsUnit.posDef_star_right_conjugate_iff hB).mpr hS)
  have e1 : (star B * B * S).det = (B * S * star B).det := by
    rw [mul_assoc, Matrix.det_mul_comm]
  have e2 : (star B * B * S).trace = (B * S * star B).trace := by
    rw [mul_assoc, Matrix.trace_mul_comm]
  rw [e1, e2]
  exact h

/-- The determinant of a complex positive definite matrix is the cast of its (positive) real part. -/
theorem posDef_det_eq_re {A : Matrix n n ℂ} (hA : A.PosDef) : 0 < A.det.re ∧ A.det = ((A.det.re : ℝ) : ℂ) := by
  obtain ⟨h1, h2⟩ := Complex.pos_iff.mp hA.det_pos
  exact ⟨h1, Complex.ext (by simp) (by simp [← h2])⟩

omit [DecidableEq n] in
/-- The trace of `P` times a real-weighted sum of rank-one matrices is the weighted sum of the quadratic forms. -/
theorem trace_mul_weighted_rank_one (P : Matrix n n ℂ) (c : ℝ) (a : ν → ℝ) (z : ν → n → ℂ) :
    (trace (P * ((c : ℂ) • ∑ k, ((a k : ℝ) : ℂ) • vecMulVec (z k) (star (z k))))).re
      = c * ∑ k, a k * (star (z k) ⬝ᵥ P.mulVec (z k)).re := by
  rw [Matrix.mul_smul, trace_smul, Matrix.mul_sum, trace_sum, smul_eq_mul, Complex.re_ofReal_mul, Complex.re_sum]
  congr 1
  apply Finset.sum_congr rfl
  intro k _
  rw [Matrix.mul_smul, trace_smul, Matrix.mul_vecMulVec, trace_vecMulVec, dotProduct_comm, smul_eq_mul,
    Complex.re_ofReal_mul]

/-- (C02) the MM (Tyler) update of the complex angular central Gaussian does not decrease the weighted log-likelihood. -/
theorem cacg_mm_step (γ : ν → ℝ) (hγ : ∀ k, 0 ≤ γ k) (hG : 0 < ∑ k, γ k) (z : ν → n → ℂ)
    (B0 B1 : Matrix n n ℂ) (h0 : B0.PosDef) (h1 : B1.PosDef)
    (hq0 : ∀ k, 0 < (star (z k) ⬝ᵥ B0⁻¹.mulVec (z k)).re)
    (hq1 : ∀ k, 0 < (star (z k) ⬝ᵥ B1⁻¹.mulVec (z k)).re)
    (hB1 : B1 = ((Fintype.card n : ℂ) / ((∑ k, γ k : ℝ) : ℂ))
      • ∑ k, ((γ k / (star (z k) ⬝ᵥ B0⁻¹.mulVec (z k)).re : ℝ) : ℂ) • vecMulVec (z k) (star (z k))) :
    ∑ k, γ k * (-(Fintype.card n : ℝ) * Real.log ((star (z k) ⬝ᵥ B0⁻¹.mulVec (z k)).re))
        - (∑ k, γ k) * Real.log (B0.det.re)
      ≤ ∑ k, γ k * (-(Fintype.card n : ℝ) * Real.log ((star (z k) ⬝ᵥ B1⁻¹.mulVec (z k)).re))
        - (∑ k, γ k) * Real.log (B1.det.re) := by
  set G : ℝ := ∑ k, γ k with hGdef
  set D : ℝ := (Fintype.card n : ℝ) with hDdef
  set q0 : ν → ℝ := fun k => (star (z k) ⬝ᵥ B0⁻¹.mulVec (z k)).re with hq0def
  set q1 : ν → ℝ := fun k => (star (z k) ⬝ᵥ B1⁻¹.mulVec (z k)).re with hq1def
  -- the dimension is positive
  have hD : 0 < D := by
    have hν : Nonempty ν := by
      by_contra h
      rw [not_nonempty_iff] at h
      simp [hGdef] at hG
    obtain ⟨k⟩ := hν
    have hn : Nonempty n := by
      by_contra h
      rw [not_nonempty_iff] at h
      have := hq0 k
      simp [dotProduct] at this
    rw [hDdef]
    exact_mod_cast Fintype.card_pos
  -- B1 as a real-weighted sum
  have hB1' : B1 = (((D / G : ℝ)) : ℂ) • ∑ k, ((γ k / q0 k : ℝ) : ℂ) • vecMulVec (z k) (star (z k)) := by
    rw [hB1]
    congr 1
    rw [Complex.ofReal_div, hDdef, Complex.ofReal_natCast]
  have htr : ∀ P : Matrix n n ℂ, (trace (P * B1)).re
      = D / G * ∑ k, γ k / q0 k * (star (z k) ⬝ᵥ P.mulVec (z k)).re := by
    intro P
    conv_lhs => rw [hB1']
    exact trace_mul_weighted_rank_one P (D / G) (fun k => γ k / q0 k) z
  -- tr (B0⁻¹ B1) = D
  have ht0 : (trace (B0⁻¹ * B1)).re = D := by
    rw [htr]
    have : ∀ k, γ k / q0 k * (star (z k) ⬝ᵥ B0⁻¹.mulVec (z k)).re = γ k := by
      intro k
      exact div_mul_cancel₀ _ (hq0 k).ne'
    simp_rw [this]
    rw [← hGdef, div_mul_cancel₀ _ hG.ne']
  -- ∑ γ q1 / q0 = G
  have ht1 : ∑ k, γ k / q0 k * q1 k = G := by
    have hu : IsUnit B1.det := (Matrix.isUnit_iff_isUnit_det _).mp h1.isUnit
    have h := htr B1⁻¹
    rw [Matrix.nonsing_inv_mul _ hu, trace_one, Complex.natCast_re] at h
    have h' : D = D / G * ∑ k, γ k / q0 k * q1 k := h
    apply mul_left_cancel₀ (div_ne_zero hD.ne' hG.ne')
    rw [← h', div_mul_cancel₀ _ hG.ne']
  -- log det B1 ≤ log det B0
  obtain ⟨hr0, he0⟩ := posDef_det_eq_re h0
  obtain ⟨hr1, he1⟩ := posDef_det_eq_re h1
  have hdet : Real.log (B1.det.re) ≤ Real.log (B0.det.re) := by
    have h4 := complex_logdet_mul_le_trace h0.inv h1
    rw [ht0, ← hDdef, sub_self, Matrix.det_mul, Matrix.det_nonsing_inv, Ring.inverse_eq_inv', he0, he1,
      ← Complex.ofReal_inv, Complex.re_ofReal_mul, Complex.ofReal_re,
      Real.log_mul (inv_ne_zero hr0.ne') hr1.ne', Real.log_inv] at h4
    linarith
  -- termwise majorisation of the logarithm
  have hterm : ∀ k, γ k * (-D * Real.log (q0 k)) - D * (γ k / q0 k * q1 k - γ k)
      ≤ γ k * (-D * Real.log (q1 k)) := by
    intro k
    have h2 : Real.log (q1 k / q0 k) ≤ q1 k / q0 k - 1 := Real.log_le_sub_one_of_pos (div_pos (hq1 k) (hq0 k))
    rw [Real.log_div (hq1 k).ne' (hq0 k).ne'] at h2
    have h3 := mul_le_mul_of_nonneg_left h2 (mul_nonneg (hγ k) hD.le)
    have e : γ k / q0 k * q1 k = γ k * (q1 k / q0 k) := by ring
    rw [e]
    nlinarith [h3]
  have hsum := Finset.sum_le_sum (fun k (_ : k ∈ Finset.univ) => hterm k)
  rw [Finset.sum_sub_distrib, ← Finset.mul_sum, Finset.sum_sub_distrib, ht1, ← hGdef, sub_self, mul_zero,
    sub_zero] at hsum
  have := mul_le_mul_of_nonneg_left hdet hG.le
  linarith
