import Mathlib.Analysis.Convex.Jensen
import Mathlib.Analysis.Convex.SpecificFunctions.Basic
import Mathlib.Analysis.SpecialFunctions.Log.Basic
import Mathlib.Algebra.BigOperators.Field

/-!
# EM / MM monotonicity of the observed-data log-likelihood  (C02)

/verif proves on the real code that `log_likelihood` is `Σ_n log Σ_k π_k p_k(y_n)` (C02), that the E-step returns the exact
posterior `γ_nk = a_nk / Σ_j a_nj` with `a_nk = π_k p_k(y_n)` (C01), and that the weight update returns the normalised expected
counts (C08).  This file proves, for every number of classes and observations, the step from those facts to the property:
if the expected complete-data log-likelihood under the old posteriors does not decrease, the log-likelihood does not decrease
(`em_monotone`), and the weight update maximises its part of that expectation (`weight_update_maximises`).
That each *component* update does not decrease its part (Gaussian ML estimate, cACG / Watson fixed-point step) is not proved here.
-/

open BigOperators Finset

variable {κ ν : Type*} [Fintype κ] [Fintype ν]

/-- Gibbs / Jensen: for posteriors γ on the simplex and positive joint values a,
    Σ_k γ_k log (a_k / γ_k) ≤ log Σ_k a_k. -/
theorem gibbs_lower_bound (γ a : κ → ℝ) (hγ : ∀ k, 0 < γ k) (hsum : ∑ k, γ k = 1) (ha : ∀ k, 0 < a k) :
    ∑ k, γ k * Real.log (a k / γ k) ≤ Real.log (∑ k, a k) := by
  have h := (strictConcaveOn_log_Ioi.concaveOn).le_map_sum (t := Finset.univ) (w := γ) (p := fun k => a k / γ k)
    (fun k _ => (hγ k).le) hsum (fun k _ => Set.mem_Ioi.mpr (div_pos (ha k) (hγ k)))
  simp only [smul_eq_mul] at h
  have e : ∑ k, γ k * (a k / γ k) = ∑ k, a k := by
    apply Finset.sum_congr rfl
    intro k _
    field_simp [(hγ k).ne']
  rw [e] at h
  exact h

/-- One observation: with γ the posterior of the old joint values a,
    log Σ a' − log Σ a ≥ Σ γ (log a' − log a). -/
theorem em_step_one (a a' : κ → ℝ) (ha : ∀ k, 0 < a k) (ha' : ∀ k, 0 < a' k) :
    ∑ k, (a k / ∑ j, a j) * (Real.log (a' k) - Real.log (a k))
      ≤ Real.log (∑ k, a' k) - Real.log (∑ k, a k) := by
  classical
  by_cases hne : Nonempty κ
  · have hS : 0 < ∑ j, a j := Finset.sum_pos (fun k _ => ha k) Finset.univ_nonempty
    set S := ∑ j, a j with hSdef
    have hγ : ∀ k, 0 < a k / S := fun k => div_pos (ha k) hS
    have hsum : ∑ k, a k / S = 1 := by
      rw [← Finset.sum_div]; exact div_self hS.ne'
    have h := gibbs_lower_bound (fun k => a k / S) a' hγ hsum ha'
    have e : ∑ k, (a k / S) * Real.log (a' k / (a k / S))
        = ∑ k, (a k / S) * (Real.log (a' k) - Real.log (a k)) + Real.log S := by
      have : ∀ k, (a k / S) * Real.log (a' k / (a k / S))
          = (a k / S) * (Real.log (a' k) - Real.log (a k)) + (a k / S) * Real.log S := by
        intro k
        rw [Real.log_div (ha' k).ne' (hγ k).ne', Real.log_div (ha k).ne' hS.ne']
        ring
      simp_rw [this]
      rw [Finset.sum_add_distrib, ← Finset.sum_mul, hsum, one_mul]
    rw [e] at h
    linarith
  · have : IsEmpty κ := not_nonempty_iff.mp hne
    simp

/-- EM / MM monotonicity: if the expected complete-data log-likelihood under the old posteriors does not decrease,
    the observed-data log-likelihood does not decrease.  a n k = π_k p_k(y_n | θ), a' the same for θ'. -/
theorem em_monotone (a a' : ν → κ → ℝ) (ha : ∀ n k, 0 < a n k) (ha' : ∀ n k, 0 < a' n k)
    (hQ : ∑ n, ∑ k, (a n k / ∑ j, a n j) * Real.log (a n k)
        ≤ ∑ n, ∑ k, (a n k / ∑ j, a n j) * Real.log (a' n k)) :
    ∑ n, Real.log (∑ k, a n k) ≤ ∑ n, Real.log (∑ k, a' n k) := by
  have h : ∑ n, ∑ k, (a n k / ∑ j, a n j) * (Real.log (a' n k) - Real.log (a n k))
      ≤ ∑ n, (Real.log (∑ k, a' n k) - Real.log (∑ k, a n k)) :=
    Finset.sum_le_sum (fun n _ => em_step_one (a n) (a' n) (ha n) (ha' n))
  simp only [mul_sub, Finset.sum_sub_distrib] at h
  linarith

/-- Weight update: among all positive weight vectors on the simplex, π_k = c_k / Σ c maximises Σ_k c_k log π_k
    (c_k = Σ_n γ_nk the expected class counts). -/
theorem weight_update_maximises (c π : κ → ℝ) (hc : ∀ k, 0 < c k) (hπ : ∀ k, 0 < π k) (hsum : ∑ k, π k = 1) :
    ∑ k, c k * Real.log (π k) ≤ ∑ k, c k * Real.log (c k / ∑ j, c j) := by
  classical
  by_cases hne : Nonempty κ
  · have hC : 0 < ∑ j, c j := Finset.sum_pos (fun k _ => hc k) Finset.univ_nonempty
    set C := ∑ j, c j
    have hγ : ∀ k, 0 < c k / C := fun k => div_pos (hc k) hC
    have hs : ∑ k, c k / C = 1 := by rw [← Finset.sum_div]; exact div_self hC.ne'
    have h := gibbs_lower_bound (fun k => c k / C) π hγ hs hπ
    rw [hsum, Real.log_one] at h
    have e : ∑ k, (c k / C) * Real.log (π k / (c k / C))
        = (∑ k, c k * Real.log (π k) - ∑ k, c k * Real.log (c k / C)) / C := by
      rw [← Finset.sum_sub_distrib, Finset.sum_div]
      apply Finset.sum_congr rfl
      intro k _
      rw [Real.log_div (hπ k).ne' (hγ k).ne']
      ring
    rw [e] at h
    have := (div_le_iff₀ hC).mp h
    linarith
  · have : IsEmpty κ := not_nonempty_iff.mp hne
    simp

