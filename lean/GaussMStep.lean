import Mathlib.Analysis.Matrix.Order
import Mathlib.Analysis.SpecialFunctions.Log.Basic
import Mathlib.Algebra.BigOperators.Field

/-!
# The Gaussian M-step maximises its part of the expected complete-data log-likelihood  (C02)

`Em.lean` proves that the mixture log-likelihood cannot decrease when the expectation `Q` under the old posteriors does not
decrease.  This file proves, for every number of observations and every dimension, that the weighted sample mean together with
the weighted sample variance (per coordinate for the diagonal model, pooled over the coordinates for the spherical model) or
the weighted scatter matrix (full-covariance model) maximises the Gaussian part `Σ_n γ_n log N(x_n; μ, Σ)` of `Q` over all
means and all positive (definite) covariances.  Only a positive total weight `Σ_n γ_n` and positive (definite) estimates
are used; the sign of the single posteriors is not needed.
-/

open BigOperators Finset Matrix
open scoped MatrixOrder

variable {ν δ : Type*} [Fintype ν] [Fintype δ]

/-- The weighted sum of squares around `μ` is the one around the weighted mean plus `G (μ - μs)²`. -/
theorem weighted_mean_minimises (γ x : ν → ℝ) (hG : 0 < ∑ n, γ n) (μs : ℝ)
    (hμs : μs = (∑ n, γ n * x n) / ∑ n, γ n) (μ : ℝ) :
    ∑ n, γ n * (x n - μ) ^ 2 = ∑ n, γ n * (x n - μs) ^ 2 + (∑ n, γ n) * (μ - μs) ^ 2 := by
  have h0 : ∑ n, γ n * (x n - μs) = 0 := by
    have : ∀ n, γ n * (x n - μs) = γ n * x n - γ n * μs := fun n => by ring
    simp_rw [this]
    rw [Finset.sum_sub_distrib, ← Finset.sum_mul, hμs, mul_div_cancel₀ _ hG.ne', sub_self]
  have e : ∀ n, γ n * (x n - μ) ^ 2
      = γ n * (x n - μs) ^ 2 + (2 * (μs - μ)) * (γ n * (x n - μs)) + γ n * (μ - μs) ^ 2 := fun n => by ring
  simp_rw [e]
  rw [Finset.sum_add_distrib, Finset.sum_add_distrib, ← Finset.mul_sum, h0, ← Finset.sum_mul]
  ring

/-- Scalar core: with total weight `G`, sum of squares `S ≥ G vs`, the pair `(G vs, vs)` beats `(S, v)`. -/
theorem gauss_core (G vs v S : ℝ) (hG : 0 < G) (hvs : 0 < vs) (hv : 0 < v) (hS : G * vs ≤ S) :
    G * (-(1 / 2) * Real.log v) - S / (2 * v) ≤ G * (-(1 / 2) * Real.log vs) - G * vs / (2 * vs) := by
  have h1 : G * vs / (2 * v) ≤ S / (2 * v) := by
    apply div_le_div_of_nonneg_right hS (by positivity)
  have h2 : Real.log (vs / v) ≤ vs / v - 1 := Real.log_le_sub_one_of_pos (div_pos hvs hv)
  rw [Real.log_div hvs.ne' hv.ne'] at h2
  have e1 : G * vs / (2 * vs) = G / 2 := by field_simp
  have e2 : G * vs / (2 * v) = (G / 2) * (vs / v) := by field_simp
  rw [e1]
  have h3 : (G / 2) * (Real.log vs - Real.log v) ≤ (G / 2) * (vs / v - 1) :=
    mul_le_mul_of_nonneg_left h2 (by positivity)
  nlinarith [h1, h3, e2]

/-- Scalar Gaussian: the weighted mean and weighted variance maximise the weighted log-density sum. -/
theorem gauss_ml_scalar (γ x : ν → ℝ) (hG : 0 < ∑ n, γ n) (μs vs : ℝ)
    (hμs : μs = (∑ n, γ n * x n) / ∑ n, γ n)
    (hvs : vs = (∑ n, γ n * (x n - μs) ^ 2) / ∑ n, γ n) (hpos : 0 < vs)
    (μ v : ℝ) (hv : 0 < v) :
    ∑ n, γ n * (-(1 / 2) * Real.log v - (x n - μ) ^ 2 / (2 * v))
      ≤ ∑ n, γ n * (-(1 / 2) * Real.log vs - (x n - μs) ^ 2 / (2 * vs)) := by
  have hsplit : ∀ (m w : ℝ), ∑ n, γ n * (-(1 / 2) * Real.log w - (x n - m) ^ 2 / (2 * w))
      = (∑ n, γ n) * (-(1 / 2) * Real.log w) - (∑ n, γ n * (x n - m) ^ 2) / (2 * w) := by
    intro m w
    have : ∀ n, γ n * (-(1 / 2) * Real.log w - (x n - m) ^ 2 / (2 * w))
        = γ n * (-(1 / 2) * Real.log w) - γ n * (x n - m) ^ 2 / (2 * w) := fun n => by ring
    simp_rw [this]
    rw [Finset.sum_sub_distrib, ← Finset.sum_mul, ← Finset.sum_div]
  have hS : ∑ n, γ n * (x n - μs) ^ 2 = (∑ n, γ n) * vs := by
    rw [hvs, mul_div_cancel₀ _ hG.ne']
  rw [hsplit, hsplit, hS]
  apply gauss_core _ _ _ _ hG hpos hv
  rw [weighted_mean_minimises γ x hG μs hμs μ, hS]
  nlinarith [sq_nonneg (μ - μs), hG]

/-- Diagonal Gaussian: the per-coordinate weighted means and variances maximise the weighted log-density sum. -/
theorem gauss_ml_diagonal (γ : ν → ℝ) (x : ν → δ → ℝ) (hG : 0 < ∑ n, γ n)
    (μs vs : δ → ℝ)
    (hμs : ∀ d, μs d = (∑ n, γ n * x n d) / ∑ n, γ n)
    (hvs : ∀ d, vs d = (∑ n, γ n * (x n d - μs d) ^ 2) / ∑ n, γ n) (hpos : ∀ d, 0 < vs d)
    (μ v : δ → ℝ) (hv : ∀ d, 0 < v d) :
    ∑ n, γ n * ∑ d, (-(1 / 2) * Real.log (v d) - (x n d - μ d) ^ 2 / (2 * v d))
      ≤ ∑ n, γ n * ∑ d, (-(1 / 2) * Real.log (vs d) - (x n d - μs d) ^ 2 / (2 * vs d)) := by
  simp_rw [Finset.mul_sum]
  rw [Finset.sum_comm, Finset.sum_comm (s := Finset.univ (α := ν))]
  apply Finset.sum_le_sum
  intro d _
  exact gauss_ml_scalar γ (fun n => x n d) hG (μs d) (vs d) (hμs d) (hvs d) (hpos d) (μ d) (v d) (hv d)

/-- Spherical Gaussian: the weighted means and the pooled weighted variance maximise the weighted log-density sum. -/
theorem gauss_ml_spherical [Nonempty δ] (γ : ν → ℝ) (x : ν → δ → ℝ) (hG : 0 < ∑ n, γ n)
    (μs : δ → ℝ) (vs : ℝ)
    (hμs : ∀ d, μs d = (∑ n, γ n * x n d) / ∑ n, γ n)
    (hvs : vs = (∑ d, ∑ n, γ n * (x n d - μs d) ^ 2) / ((Fintype.card δ : ℝ) * ∑ n, γ n)) (hpos : 0 < vs)
    (μ : δ → ℝ) (v : ℝ) (hv : 0 < v) :
    ∑ n, γ n * ∑ d, (-(1 / 2) * Real.log v - (x n d - μ d) ^ 2 / (2 * v))
      ≤ ∑ n, γ n * ∑ d, (-(1 / 2) * Real.log vs - (x n d - μs d) ^ 2 / (2 * vs)) := by
  have hD : (0 : ℝ) < Fintype.card δ := by exact_mod_cast Fintype.card_pos
  have hDG : 0 < (Fintype.card δ : ℝ) * ∑ n, γ n := mul_pos hD hG
  have hsplit : ∀ (m : δ → ℝ) (w : ℝ), ∑ n, γ n * ∑ d, (-(1 / 2) * Real.log w - (x n d - m d) ^ 2 / (2 * w))
      = ((Fintype.card δ : ℝ) * ∑ n, γ n) * (-(1 / 2) * Real.log w)
        - (∑ d, ∑ n, γ n * (x n d - m d) ^ 2) / (2 * w) := by
    intro m w
    have : ∀ n, γ n * ∑ d, (-(1 / 2) * Real.log w - (x n d - m d) ^ 2 / (2 * w))
        = γ n * ((Fintype.card δ : ℝ) * (-(1 / 2) * Real.log w)) - (∑ d, γ n * (x n d - m d) ^ 2) / (2 * w) := by
      intro n
      rw [Finset.sum_sub_distrib, Finset.sum_const, Finset.card_univ, nsmul_eq_mul, mul_sub, ← Finset.sum_div,
        ← Finset.mul_sum]
      ring
    simp_rw [this]
    rw [Finset.sum_sub_distrib, ← Finset.sum_mul, ← Finset.sum_div, Finset.sum_comm]
    ring
  have hS : ∑ d, ∑ n, γ n * (x n d - μs d) ^ 2 = ((Fintype.card δ : ℝ) * ∑ n, γ n) * vs := by
    rw [hvs, mul_div_cancel₀ _ hDG.ne']
  rw [hsplit, hsplit, hS]
  apply gauss_core _ _ _ _ hDG hpos hv
  rw [← hS]
  apply Finset.sum_le_sum
  intro d _
  rw [weighted_mean_minimises γ (fun n => x n d) hG (μs d) (hμs d) (μ d)]
  nlinarith [sq_nonneg (μ d - μs d), hG]

/-- For a real positive definite matrix, `log det A ≤ tr A - D`. -/
theorem logdet_le_trace_sub_card [DecidableEq δ] {A : Matrix δ δ ℝ} (hA : A.PosDef) :
    Real.log A.det ≤ A.trace - Fintype.card δ := by
  rw [hA.1.det_eq_prod_eigenvalues, hA.1.trace_eq_sum_eigenvalues]
  simp only [RCLike.ofReal_real_eq_id, id]
  rw [Real.log_prod (fun i _ => (hA.eigenvalues_pos i).ne')]
  have : ∑ i, (hA.1.eigenvalues i) - (Fintype.card δ : ℝ) = ∑ i, (hA.1.eigenvalues i - 1) := by
    simp [Finset.sum_sub_distrib]
  rw [this]
  exact Finset.sum_le_sum fun i _ => Real.log_le_sub_one_of_pos (hA.eigenvalues_pos i)

/-- For real positive definite `P`, `S`: `log det (P S) ≤ tr (P S) - D`. -/
theorem logdet_mul_le_trace_sub_card [DecidableEq δ] {P S : Matrix δ δ ℝ} (hP : P.PosDef) (hS : S.PosDef) :
    Real.log (P * S).det ≤ (P * S).trace - Fintype.card δ := by
  obtain ⟨B, hB, rfl⟩ := CStarAlgebra.isStrictlyPositive_iff_eq_star_mul_self.mp hP.isStrictlyPositive
  have h := logdet_le_trace_sub_card ((Matrix.IsUnit.posDef_star_right_conjugate_iff hB).mpr hS)
  have e1 : (star B * B * S).det = (B * S * star B).det := by
    rw [mul_assoc, Matrix.det_mul_comm]
  have e2 : (star B * B * S).trace = (B * S * star B).trace := by
    rw [mul_assoc, Matrix.trace_mul_comm]
  rw [e1, e2]
  exact h


/-- Weighted cross moments around `(a, b)` are those around the weighted means plus `G (a - as)(b - bs)`. -/
theorem weighted_cross_shift (γ x y : ν → ℝ) (hG : 0 < ∑ n, γ n) (xs ys : ℝ)
    (hxs : xs = (∑ n, γ n * x n) / ∑ n, γ n) (hys : ys = (∑ n, γ n * y n) / ∑ n, γ n) (a b : ℝ) :
    ∑ n, γ n * ((x n - a) * (y n - b))
      = ∑ n, γ n * ((x n - xs) * (y n - ys)) + (∑ n, γ n) * ((a - xs) * (b - ys)) := by
  have h0 : ∀ (z : ν → ℝ) (zs : ℝ), zs = (∑ n, γ n * z n) / ∑ n, γ n → ∑ n, γ n * (z n - zs) = 0 := by
    intro z zs hzs
    have : ∀ n, γ n * (z n - zs) = γ n * z n - γ n * zs := fun n => by ring
    simp_rw [this]
    rw [Finset.sum_sub_distrib, ← Finset.sum_mul, hzs, mul_div_cancel₀ _ hG.ne', sub_self]
  have e : ∀ n, γ n * ((x n - a) * (y n - b))
      = γ n * ((x n - xs) * (y n - ys)) + (ys - b) * (γ n * (x n - xs)) + (xs - a) * (γ n * (y n - ys))
        + γ n * ((a - xs) * (b - ys)) := fun n => by ring
  simp_rw [e]
  rw [Finset.sum_add_distrib, Finset.sum_add_distrib, Finset.sum_add_distrib, ← Finset.mul_sum, ← Finset.mul_sum,
    h0 x xs hxs, h0 y ys hys, ← Finset.sum_mul]
  ring

/-- The weighted sum of quadratic forms around `μ` is `G tr(P Ss)` plus `G` times the quadratic form of `μ - μs`. -/
theorem weighted_quadform_split (γ : ν → ℝ) (x : ν → δ → ℝ) (hG : 0 < ∑ n, γ n)
    (μs : δ → ℝ) (Ss : Matrix δ δ ℝ)
    (hμs : ∀ d, μs d = (∑ n, γ n * x n d) / ∑ n, γ n)
    (hSs : ∀ i j, Ss i j = (∑ n, γ n * ((x n i - μs i) * (x n j - μs j))) / ∑ n, γ n)
    (P : Matrix δ δ ℝ) (μ : δ → ℝ) :
    ∑ n, γ n * ((x n - μ) ⬝ᵥ (P *ᵥ (x n - μ)))
      = (∑ n, γ n) * (P * Ss).trace + (∑ n, γ n) * ((μ - μs) ⬝ᵥ (P *ᵥ (μ - μs))) := by
  have key : ∀ i j, ∑ n, γ n * ((x n i - μ i) * (x n j - μ j))
      = (∑ n, γ n) * Ss j i + (∑ n, γ n) * ((μ i - μs i) * (μ j - μs j)) := by
    intro i j
    rw [weighted_cross_shift γ (fun n => x n i) (fun n => x n j) hG (μs i) (μs j) (hμs i) (hμs j) (μ i) (μ j),
      hSs j i, mul_div_cancel₀ _ hG.ne']
    congr 1
    apply Finset.sum_congr rfl
    intro n _
    ring
  calc ∑ n, γ n * ((x n - μ) ⬝ᵥ (P *ᵥ (x n - μ)))
      = ∑ n, ∑ i, ∑ j, P i j * (γ n * ((x n i - μ i) * (x n j - μ j))) := by
        apply Finset.sum_congr rfl
        intro n _
        simp only [dotProduct, mulVec, Pi.sub_apply]
        rw [Finset.mul_sum]
        apply Finset.sum_congr rfl
        intro i _
        rw [Finset.mul_sum, Finset.mul_sum]
        apply Finset.sum_congr rfl
        intro j _
        ring
    _ = ∑ i, ∑ j, P i j * ∑ n, γ n * ((x n i - μ i) * (x n j - μ j)) := by
        rw [Finset.sum_comm]
        apply Finset.sum_congr rfl
        intro i _
        rw [Finset.sum_comm]
        apply Finset.sum_congr rfl
        intro j _
        rw [Finset.mul_sum]
    _ = ∑ i, ∑ j, P i j * ((∑ n, γ n) * Ss j i + (∑ n, γ n) * ((μ i - μs i) * (μ j - μs j))) := by
        simp_rw [key]
    _ = (∑ n, γ n) * (P * Ss).trace + (∑ n, γ n) * ((μ - μs) ⬝ᵥ (P *ᵥ (μ - μs))) := by
        simp only [Matrix.trace, Matrix.diag, Matrix.mul_apply, dotProduct, mulVec, Pi.sub_apply, Finset.mul_sum,
          mul_add, Finset.sum_add_distrib]
        congr 1 <;>
        · apply Finset.sum_congr rfl
          intro i _
          apply Finset.sum_congr rfl
          intro j _
          ring

/-- Full-covariance Gaussian: the weighted mean and the weighted scatter matrix maximise the weighted log-density sum. -/
theorem gauss_ml_full [DecidableEq δ] (γ : ν → ℝ) (x : ν → δ → ℝ) (hG : 0 < ∑ n, γ n)
    (μs : δ → ℝ) (Ss : Matrix δ δ ℝ)
    (hμs : ∀ d, μs d = (∑ n, γ n * x n d) / ∑ n, γ n)
    (hSs : ∀ i j, Ss i j = (∑ n, γ n * ((x n i - μs i) * (x n j - μs j))) / ∑ n, γ n)
    (hpos : Ss.PosDef)
    (μ : δ → ℝ) (Sg : Matrix δ δ ℝ) (hSg : Sg.PosDef) :
    ∑ n, γ n * (-(1 / 2) * Real.log Sg.det - (1 / 2) * ((x n - μ) ⬝ᵥ (Sg⁻¹ *ᵥ (x n - μ))))
      ≤ ∑ n, γ n * (-(1 / 2) * Real.log Ss.det - (1 / 2) * ((x n - μs) ⬝ᵥ (Ss⁻¹ *ᵥ (x n - μs)))) := by
  have hsplit : ∀ (m : δ → ℝ) (S : Matrix δ δ ℝ),
      ∑ n, γ n * (-(1 / 2) * Real.log S.det - (1 / 2) * ((x n - m) ⬝ᵥ (S⁻¹ *ᵥ (x n - m))))
        = (∑ n, γ n) * (-(1 / 2) * Real.log S.det)
          - (1 / 2) * ∑ n, γ n * ((x n - m) ⬝ᵥ (S⁻¹ *ᵥ (x n - m))) := by
    intro m S
    have : ∀ n, γ n * (-(1 / 2) * Real.log S.det - (1 / 2) * ((x n - m) ⬝ᵥ (S⁻¹ *ᵥ (x n - m))))
        = γ n * (-(1 / 2) * Real.log S.det) - (1 / 2) * (γ n * ((x n - m) ⬝ᵥ (S⁻¹ *ᵥ (x n - m)))) :=
      fun n => by ring
    simp_rw [this]
    rw [Finset.sum_sub_distrib, ← Finset.sum_mul, ← Finset.mul_sum]
  rw [hsplit, hsplit, weighted_quadform_split γ x hG μs Ss hμs hSs Sg⁻¹ μ,
    weighted_quadform_split γ x hG μs Ss hμs hSs Ss⁻¹ μs]
  have hunit : IsUnit Ss.det := hpos.det_pos.ne'.isUnit
  have h1 : (Ss⁻¹ * Ss).trace = Fintype.card δ := by
    rw [Matrix.nonsing_inv_mul _ hunit, Matrix.trace_one]
  have h2 : (μs - μs) ⬝ᵥ (Ss⁻¹ *ᵥ (μs - μs)) = 0 := by simp
  have h3 : 0 ≤ (μ - μs) ⬝ᵥ (Sg⁻¹ *ᵥ (μ - μs)) := by
    simpa using hSg.inv.posSemidef.dotProduct_mulVec_nonneg (μ - μs)
  have h4 := logdet_mul_le_trace_sub_card hSg.inv hpos
  rw [Matrix.det_mul, Matrix.det_nonsing_inv, Ring.inverse_eq_inv',
    Real.log_mul (inv_ne_zero hSg.det_pos.ne') hpos.det_pos.ne', Real.log_inv] at h4
  rw [h1, h2]
  nlinarith [mul_nonneg hG.le h3, mul_le_mul_of_nonneg_left h4 hG.le]

