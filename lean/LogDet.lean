import Mathlib.LinearAlgebra.Matrix.Block
import Mathlib.Analysis.SpecialFunctions.Log.Basic

/-!
# log det Σ = 2 Σ_i log L_ii  for a Cholesky factorisation Σ = L Lᵀ  (C07, C06: Gaussian log-density)

pb_bss evaluates the Gaussian normaliser from the precision Cholesky factor.  /verif proves on the real code that the
log-density uses `Σ_i log L_ii` of the factor; this file proves, for every dimension, that this is half the log-determinant.
-/

open Matrix BigOperators

variable {n : Type*} [Fintype n] [DecidableEq n] [LinearOrder n]

theorem det_cholesky (L : Matrix n n ℝ) (hL : L.IsLowerTriangular) :
    (L * Lᵀ).det = (∏ i, L i i) ^ 2 := by
  rw [Matrix.det_mul, Matrix.det_transpose, Matrix.det_of_isLowerTriangular L hL]
  ring

theorem log_det_cholesky (L : Matrix n n ℝ) (hL : L.IsLowerTriangular) (hpos : ∀ i, 0 < L i i) :
    Real.log (L * Lᵀ).det = 2 * ∑ i, Real.log (L i i) := by
  rw [det_cholesky L hL, Real.log_pow, Real.log_prod]
  · push_cast; ring
  · intro i _
    exact (hpos i).ne'
