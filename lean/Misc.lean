import Mathlib.Algebra.BigOperators.Field
import Mathlib.Data.Complex.BigOperators
import Mathlib.Analysis.Complex.Norm
import Mathlib.Analysis.SpecialFunctions.Log.Base
import Mathlib.Tactic.Linarith
import Mathlib.Tactic.FieldSimp
import Mathlib.Tactic.Ring

/-!
# Phase correction, mask normalisation and SI-SDR / SNR scaling  (C10, C13, C18, C19)

This file proves, for every number of sensors `δ`, frames / samples `τ` and sources `κ`, the dimension-free algebra behind four
properties: the cumulative unit-phasor correction of beamforming vectors keeps magnitudes and makes consecutive frequency bins
phase aligned (C13); the mask-weighted PSD estimate does not depend on the scale of the mask (C10); the complex ratio mask
reproduces every source and sums to one (C18); the SI-SDR projection coefficient is the least-squares optimum, the SI-SDR ratio
is invariant under rescaling of estimate or reference, and the SNR in dB shifts by `20 log10 |c|` under a gain `c` (C19).
-/

open BigOperators Finset

variable {δ τ κ : Type*} [Fintype δ] [Fintype τ] [Fintype κ]

/-- Cumulative product of the phasors: `cumPhase u 0 = 1`, `cumPhase u (f+1) = cumPhase u f * u f`. -/
noncomputable def cumPhase (u : ℕ → ℂ) : ℕ → ℂ
  | 0 => 1
  | f + 1 => cumPhase u f * u f

/-- (C13) The cumulative product of unit phasors has modulus one. -/
theorem cumPhase_norm (u : ℕ → ℂ) (hu : ∀ f, ‖u f‖ = 1) : ∀ f, ‖cumPhase u f‖ = 1 := by
  intro f
  induction f with
  | zero => simp [cumPhase]
  | succ f ih => simp [cumPhase, ih, hu f]

/-- (C13) Multiplying bin `f` by the cumulative product of the unit phasors `u j = exp(i angle(s j))`, `j < f`, keeps all
magnitudes and makes the inner product of consecutive corrected bins equal to `‖s f‖`, i.e. real and non-negative. -/
theorem phase_correction_aligned (w : ℕ → δ → ℂ) (u : ℕ → ℂ) (hu : ∀ f, ‖u f‖ = 1)
    (hs : ∀ f, (∑ d, star (w (f + 1) d) * w f d)
      = ((‖∑ d, star (w (f + 1) d) * w f d‖ : ℝ) : ℂ) * u f) :
    (∀ f, ‖cumPhase u f‖ = 1) ∧
    (∀ f d, ‖w f d * cumPhase u f‖ = ‖w f d‖) ∧
    (∀ f, ∑ d, star (w (f + 1) d * cumPhase u (f + 1)) * (w f d * cumPhase u f)
      = ((‖∑ d, star (w (f + 1) d) * w f d‖ : ℝ) : ℂ)) := by
  have hp := cumPhase_norm u hu
  refine ⟨hp, fun f d => by rw [norm_mul, hp f, mul_one], fun f => ?_⟩
  have hpp : star (cumPhase u f) * cumPhase u f = 1 := by
    have := Complex.conj_mul' (cumPhase u f)
    rw [hp f] at this
    simpa using this
  have huu : star (u f) * u f = 1 := by
    have := Complex.conj_mul' (u f)
    rw [hu f] at this
    simpa using this
  have h1 : ∀ d, star (w (f + 1) d * cumPhase u (f + 1)) * (w f d * cumPhase u f)
      = star (u f) * (star (w (f + 1) d) * w f d) := by
    intro d
    simp only [cumPhase, star_mul']
    calc star (w (f + 1) d) * (star (cumPhase u f) * star (u f)) * (w f d * cumPhase u f)
        = (star (cumPhase u f) * cumPhase u f) * (star (u f) * (star (w (f + 1) d) * w f d)) := by ring
      _ = _ := by rw [hpp, one_mul]
  rw [Finset.sum_congr rfl (fun d _ => h1 d), ← Finset.mul_sum]
  set S := ∑ d, star (w (f + 1) d) * w f d with hS
  have := hs f
  calc star (u f) * S = star (u f) * (((‖S‖ : ℝ) : ℂ) * u f) := by rw [← this]
    _ = ((‖S‖ : ℝ) : ℂ) * (star (u f) * u f) := by ring
    _ = _ := by rw [huu, mul_one]

/-- (C10) The mask-weighted PSD entry `Σ_t m_t X_t / Σ_t m_t` is unchanged when the mask is multiplied by `c ≠ 0`. -/
theorem psd_mask_scale_invariant (m : τ → ℝ) (c : ℝ) (hc : c ≠ 0) (_hm : ∑ t, m t ≠ 0) (X : τ → ℂ) :
    (∑ t, ((c * m t : ℝ) : ℂ) * X t) / ((∑ t, c * m t : ℝ) : ℂ)
      = (∑ t, ((m t : ℝ) : ℂ) * X t) / ((∑ t, m t : ℝ) : ℂ) := by
  have hc' : (c : ℂ) ≠ 0 := by exact_mod_cast hc
  have h1 : (∑ t, ((c * m t : ℝ) : ℂ) * X t) = (c : ℂ) * ∑ t, ((m t : ℝ) : ℂ) * X t := by
    rw [Finset.mul_sum]
    refine Finset.sum_congr rfl fun t _ => ?_
    push_cast; ring
  have h2 : ((∑ t, c * m t : ℝ) : ℂ) = (c : ℂ) * ((∑ t, m t : ℝ) : ℂ) := by
    rw [← Finset.mul_sum]; push_cast; ring
  rw [h1, h2, mul_div_mul_left _ _ hc']

/-- (C18) The complex ratio mask `s_k / y` applied to the mixture `y = Σ_k s_k ≠ 0` returns `s_k`, and the masks sum to one. -/
theorem complex_mask_reproduces (s : κ → ℂ) (hy : ∑ k, s k ≠ 0) :
    (∀ k, (s k / ∑ j, s j) * ∑ j, s j = s k) ∧ ∑ k, s k / ∑ j, s j = 1 := by
  refine ⟨fun k => div_mul_cancel₀ _ hy, ?_⟩
  rw [← Finset.sum_div, div_self hy]

/-- Expansion of the squared residual `Σ_t (e_t - β s_t)²` as a quadratic in `β`. -/
theorem residual_expand (e s : τ → ℝ) (β : ℝ) :
    ∑ t, (e t - β * s t) ^ 2 = ∑ t, e t ^ 2 - 2 * β * ∑ t, e t * s t + β ^ 2 * ∑ t, s t ^ 2 := by
  rw [Finset.mul_sum, Finset.mul_sum, ← Finset.sum_sub_distrib, ← Finset.sum_add_distrib]
  exact Finset.sum_congr rfl fun t _ => by ring

/-- (C19) The SI-SDR projection coefficient `α = ⟨e, s⟩ / ⟨s, s⟩` minimises the residual energy `Σ_t (e_t - β s_t)²` over `β`. -/
theorem si_sdr_alpha_optimal (e s : τ → ℝ) (hs : 0 < ∑ t, s t ^ 2) (β : ℝ) :
    ∑ t, (e t - ((∑ t, e t * s t) / ∑ t, s t ^ 2) * s t) ^ 2 ≤ ∑ t, (e t - β * s t) ^ 2 := by
  rw [residual_expand, residual_expand]
  set E := ∑ t, e t * s t
  set S := ∑ t, s t ^ 2
  have hS : S ≠ 0 := hs.ne'
  have key : (∑ t, e t ^ 2 - 2 * β * E + β ^ 2 * S) - (∑ t, e t ^ 2 - 2 * (E / S) * E + (E / S) ^ 2 * S)
      = (β - E / S) ^ 2 * S := by
    field_simp
    ring
  nlinarith [mul_nonneg (sq_nonneg (β - E / S)) hs.le]

/-- The SI-SDR projection coefficient `α(e, s) = ⟨e, s⟩ / ⟨s, s⟩`. -/
noncomputable def siAlpha (e s : τ → ℝ) : ℝ := (∑ t, e t * s t) / ∑ t, s t ^ 2

/-- The SI-SDR energy ratio `‖α s‖² / ‖e - α s‖²` with `α = α(e, s)`. -/
noncomputable def siRatio (e s : τ → ℝ) : ℝ :=
  (∑ t, (siAlpha e s * s t) ^ 2) / ∑ t, (e t - siAlpha e s * s t) ^ 2

/-- (C19) The SI-SDR energy ratio is unchanged when the estimate or the reference is multiplied by `c ≠ 0`. -/
theorem si_sdr_scale_invariant (e s : τ → ℝ) (hs : 0 < ∑ t, s t ^ 2) (c : ℝ) (hc : c ≠ 0) :
    siRatio (fun t => c * e t) s = siRatio e s ∧ siRatio e (fun t => c * s t) = siRatio e s := by
  have hS : (∑ t, s t ^ 2) ≠ 0 := hs.ne'
  constructor
  · have ha : siAlpha (fun t => c * e t) s = c * siAlpha e s := by
      unfold siAlpha
      rw [← mul_div_assoc, Finset.mul_sum]
      congr 1
      exact Finset.sum_congr rfl fun t _ => by ring
    unfold siRatio
    rw [ha]
    have h1 : ∑ t, (c * siAlpha e s * s t) ^ 2 = c ^ 2 * ∑ t, (siAlpha e s * s t) ^ 2 := by
      rw [Finset.mul_sum]; exact Finset.sum_congr rfl fun t _ => by ring
    have h2 : ∑ t, (c * e t - c * siAlpha e s * s t) ^ 2 = c ^ 2 * ∑ t, (e t - siAlpha e s * s t) ^ 2 := by
      rw [Finset.mul_sum]; exact Finset.sum_congr rfl fun t _ => by ring
    rw [h1, h2, mul_div_mul_left _ _ (pow_ne_zero 2 hc)]
  · have ha : ∀ t, siAlpha e (fun t => c * s t) * (c * s t) = siAlpha e s * s t := by
      intro t
      unfold siAlpha
      have h1 : ∑ t, e t * (c * s t) = c * ∑ t, e t * s t := by
        rw [Finset.mul_sum]; exact Finset.sum_congr rfl fun t _ => by ring
      have h2 : ∑ t, (c * s t) ^ 2 = c ^ 2 * ∑ t, s t ^ 2 := by
        rw [Finset.mul_sum]; exact Finset.sum_congr rfl fun t _ => by ring
      rw [h1, h2]
      field_simp
    unfold siRatio
    simp only [ha]

/-- (C19) A gain `c ≠ 0` on the signal shifts the SNR in dB by `20 log10 |c|`. -/
theorem snr_scaling (P N c : ℝ) (hP : 0 < P) (hN : 0 < N) (hc : c ≠ 0) :
    10 * Real.logb 10 ((c ^ 2 * P) / N) = 10 * Real.logb 10 (P / N) + 20 * Real.logb 10 |c| := by
  have hc2 : c ^ 2 = |c| ^ 2 := (sq_abs c).symm
  rw [mul_div_assoc, Real.logb_mul (pow_ne_zero 2 hc) (div_pos hP hN).ne', hc2, Real.logb_pow]
  push_cast
  ring
