import Mathlib.LinearAlgebra.Matrix.PosDef
import Mathlib.Data.Complex.BigOperators
import Mathlib.Analysis.Complex.Order

/-!
# MVDR optimality from the normal equation

/verif (C11) discharges, per shape, on the real `get_mvdr_vector`:  `w0ᴴ a = 1`  and the normal equation  `Φ w0 = k • a`.
This file proves, for every dimension, that these two facts imply minimality of the noise output power among all
distortionless vectors when `Φ` is Hermitian positive semidefinite:
  `wᴴ a = 1  →  Re (w0ᴴ Φ w0) ≤ Re (wᴴ Φ w)`.
-/

open Matrix BigOperators Complex
open scoped ComplexOrder

variable {n : Type*} [Fintype n]

theorem mvdr_optimal (Φ : Matrix n n ℂ) (hΦ : Φ.PosSemidef) (a w0 w : n → ℂ) (k : ℂ)
    (hnormal : Φ.mulVec w0 = k • a)
    (h0 : star w0 ⬝ᵥ a = 1) (h1 : star w ⬝ᵥ a = 1) :
    (star w0 ⬝ᵥ Φ.mulVec w0).re ≤ (star w ⬝ᵥ Φ.mulVec w).re := by
  set d := w - w0 with hd
  have hw : w = w0 + d := by rw [hd]; abel
  have hda : star d ⬝ᵥ a = 0 := by
    rw [hd, star_sub, sub_dotProduct, h1, h0, sub_self]
  -- cross terms vanish
  have c1 : star d ⬝ᵥ Φ.mulVec w0 = 0 := by
    rw [hnormal, dotProduct_smul, hda, smul_zero]
  have hH : Φᴴ = Φ := hΦ.isHermitian
  have c2 : star w0 ⬝ᵥ Φ.mulVec d = 0 := by
    have : star w0 ⬝ᵥ Φ.mulVec d = star (star d ⬝ᵥ Φ.mulVec w0) := by
      rw [star_dotProduct, Matrix.star_mulVec, hH, Matrix.dotProduct_mulVec]
    rw [this, c1, star_zero]
  have hdd : 0 ≤ (star d ⬝ᵥ Φ.mulVec d).re := by
    have := hΦ.dotProduct_mulVec_nonneg d
    exact (Complex.nonneg_iff.mp this).1
  have expand : star w ⬝ᵥ Φ.mulVec w
      = star w0 ⬝ᵥ Φ.mulVec w0 + star w0 ⬝ᵥ Φ.mulVec d + star d ⬝ᵥ Φ.mulVec w0 + star d ⬝ᵥ Φ.mulVec d := by
    rw [hw, star_add, Matrix.mulVec_add, add_dotProduct, dotProduct_add, dotProduct_add]
    ring
  rw [expand, c1, c2]
  simp only [add_zero, Complex.add_re]
  linarith
