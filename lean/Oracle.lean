import Mathlib.Analysis.Real.Sqrt
import Mathlib.Algebra.BigOperators.Field
import Mathlib.Algebra.Order.BigOperators.Ring.Finset
import Mathlib.Data.Fintype.Perm
import Mathlib.GroupTheory.Perm.Basic

/-!
# Oracle alignment is optimal and undoes any per-frequency permutation  (C15)

/verif proves on the real code that the oracle permutation aligner builds the score matrix
`S kref kest = sim (r kref) (e kest)` and returns the rows `e (σ k)` for an assignment `σ` that attains the maximum of
`∑ k, S k (σ k)` over all permutations.  This file proves, for every number of classes `κ` and of time frames `τ`, that such a
maximum exists (`perm_max_exists`) and that, when the estimate is a permutation `e k = r (π k)` of the reference rows, ANY
maximiser restores the reference, `e (σ k) = r k`, for the negative Euclidean distance (`euclidean_restores`), the inner
product (`multiply_restores`) and the cosine similarity (`cos_restores`); for pairwise distinct rows the maximiser is the
inverse permutation (`unique_maximiser`).
-/

open BigOperators Finset

variable {κ τ : Type*} [Fintype κ] [Fintype τ]

/-- A finite assignment problem has a maximiser: some permutation attains the largest total score. -/
theorem perm_max_exists [DecidableEq κ] (s : κ → κ → ℝ) :
    ∃ σ₀ : Equiv.Perm κ, ∀ σ : Equiv.Perm κ, ∑ k, s k (σ k) ≤ ∑ k, s k (σ₀ k) := by
  obtain ⟨σ₀, _, h⟩ := Finset.exists_max_image (Finset.univ : Finset (Equiv.Perm κ))
    (fun σ => ∑ k, s k (σ k)) ⟨1, Finset.mem_univ _⟩
  exact ⟨σ₀, fun σ => h σ (Finset.mem_univ _)⟩

/-- If the total squared distance between two families of rows is not positive, the families coincide. -/
theorem rows_eq_of_sum_sq_le_zero (a b : κ → τ → ℝ)
    (h : ∑ k, ∑ t, (a k t - b k t) ^ 2 ≤ 0) : ∀ k, b k = a k := by
  have h0 : ∑ k, ∑ t, (a k t - b k t) ^ 2 = 0 :=
    le_antisymm h (Finset.sum_nonneg fun k _ => Finset.sum_nonneg fun t _ => sq_nonneg _)
  intro k
  have hk : ∑ t, (a k t - b k t) ^ 2 = 0 :=
    (Finset.sum_eq_zero_iff_of_nonneg
      (fun k _ => Finset.sum_nonneg fun t _ => sq_nonneg (a k t - b k t))).mp h0 k (Finset.mem_univ _)
  funext t
  have ht : (a k t - b k t) ^ 2 = 0 :=
    (Finset.sum_eq_zero_iff_of_nonneg (fun t _ => sq_nonneg (a k t - b k t))).mp hk t (Finset.mem_univ _)
  have : a k t - b k t = 0 := by simpa using ht
  linarith

/-- Negative Euclidean distance: every maximiser of the total similarity returns the reference rows. -/
theorem euclidean_restores (r e : κ → τ → ℝ) (π σ : Equiv.Perm κ) (he : ∀ k, e k = r (π k))
    (hmax : ∀ σ' : Equiv.Perm κ,
      ∑ k, -(Real.sqrt (∑ t, (r k t - e (σ' k) t) ^ 2)) ≤ ∑ k, -(Real.sqrt (∑ t, (r k t - e (σ k) t) ^ 2))) :
    ∀ k, e (σ k) = r k := by
  have h1 := hmax π⁻¹
  have hz : ∑ k, -(Real.sqrt (∑ t, (r k t - e (π⁻¹ k) t) ^ 2)) = 0 := by
    apply Finset.sum_eq_zero
    intro k _
    simp [he]
  rw [hz, Finset.sum_neg_distrib] at h1
  have h2 : ∑ k, Real.sqrt (∑ t, (r k t - e (σ k) t) ^ 2) = 0 :=
    le_antisymm (by linarith) (Finset.sum_nonneg fun k _ => Real.sqrt_nonneg _)
  apply rows_eq_of_sum_sq_le_zero
  apply le_of_eq
  apply Finset.sum_eq_zero
  intro k _
  have hk : Real.sqrt (∑ t, (r k t - e (σ k) t) ^ 2) = 0 :=
    (Finset.sum_eq_zero_iff_of_nonneg (fun k _ => Real.sqrt_nonneg _)).mp h2 k (Finset.mem_univ _)
  exact le_antisymm (Real.sqrt_eq_zero'.mp hk) (Finset.sum_nonneg fun t _ => sq_nonneg _)

/-- Inner product: every maximiser of the total similarity returns the reference rows. -/
theorem multiply_restores (r e : κ → τ → ℝ) (π σ : Equiv.Perm κ) (he : ∀ k, e k = r (π k))
    (hmax : ∀ σ' : Equiv.Perm κ,
      ∑ k, ∑ t, r k t * e (σ' k) t ≤ ∑ k, ∑ t, r k t * e (σ k) t) :
    ∀ k, e (σ k) = r k := by
  have h1 := hmax π⁻¹
  have hl : ∑ k, ∑ t, r k t * e (π⁻¹ k) t = ∑ k, ∑ t, r k t ^ 2 := by
    apply Finset.sum_congr rfl
    intro k _
    apply Finset.sum_congr rfl
    intro t _
    simp [he, sq]
  rw [hl] at h1
  -- the rows of e ∘ σ are a rearrangement of the rows of r
  have hn : ∑ k, ∑ t, e (σ k) t ^ 2 = ∑ k, ∑ t, r k t ^ 2 := by
    have : ∀ k, ∑ t, e (σ k) t ^ 2 = (fun j => ∑ t, r j t ^ 2) ((σ.trans π) k) := by
      intro k
      simp [he]
    rw [Finset.sum_congr rfl fun k _ => this k]
    exact Equiv.sum_comp (σ.trans π) (fun j => ∑ t, r j t ^ 2)
  apply rows_eq_of_sum_sq_le_zero
  have hexp : ∑ k, ∑ t, (r k t - e (σ k) t) ^ 2
      = ∑ k, ∑ t, r k t ^ 2 + ∑ k, ∑ t, e (σ k) t ^ 2 - 2 * ∑ k, ∑ t, r k t * e (σ k) t := by
    rw [Finset.mul_sum, ← Finset.sum_add_distrib, ← Finset.sum_sub_distrib]
    apply Finset.sum_congr rfl
    intro k _
    rw [Finset.mul_sum, ← Finset.sum_add_distrib, ← Finset.sum_sub_distrib]
    apply Finset.sum_congr rfl
    intro t _
    ring
  rw [hexp, hn]
  linarith

/-- Cosine similarity: for non-zero, pairwise non-parallel rows every maximiser returns the reference rows. -/
theorem cos_restores (r e : κ → τ → ℝ) (π σ : Equiv.Perm κ) (he : ∀ k, e k = r (π k))
    (hpos : ∀ k, 0 < ∑ t, r k t ^ 2)
    (hnp : ∀ j k, (∑ t, r j t * r k t) = Real.sqrt (∑ t, r j t ^ 2) * Real.sqrt (∑ t, r k t ^ 2) → j = k)
    (hmax : ∀ σ' : Equiv.Perm κ,
      ∑ k, (∑ t, r k t * e (σ' k) t) / (Real.sqrt (∑ t, r k t ^ 2) * Real.sqrt (∑ t, e (σ' k) t ^ 2))
        ≤ ∑ k, (∑ t, r k t * e (σ k) t) / (Real.sqrt (∑ t, r k t ^ 2) * Real.sqrt (∑ t, e (σ k) t ^ 2))) :
    ∀ k, e (σ k) = r k := by
  have hsp : ∀ k, 0 < Real.sqrt (∑ t, r k t ^ 2) := fun k => Real.sqrt_pos.mpr (hpos k)
  have h1 := hmax π⁻¹
  have hl : ∑ k, (∑ t, r k t * e (π⁻¹ k) t) / (Real.sqrt (∑ t, r k t ^ 2) * Real.sqrt (∑ t, e (π⁻¹ k) t ^ 2))
      = ∑ _k : κ, (1 : ℝ) := by
    apply Finset.sum_congr rfl
    intro k _
    have hek : e (π⁻¹ k) = r k := by simp [he]
    rw [hek, Real.mul_self_sqrt (hpos k).le]
    have : ∑ t, r k t * r k t = ∑ t, r k t ^ 2 := by
      apply Finset.sum_congr rfl
      intro t _
      ring
    rw [this]
    exact div_self (hpos k).ne'
  rw [hl] at h1
  -- every term is at most one
  have hle : ∀ k, (∑ t, r k t * e (σ k) t) / (Real.sqrt (∑ t, r k t ^ 2) * Real.sqrt (∑ t, e (σ k) t ^ 2)) ≤ 1 := by
    intro k
    have hd : 0 < Real.sqrt (∑ t, r k t ^ 2) * Real.sqrt (∑ t, e (σ k) t ^ 2) := by
      rw [he (σ k)]
      exact mul_pos (hsp k) (hsp _)
    rw [div_le_one hd]
    exact Real.sum_mul_le_sqrt_mul_sqrt Finset.univ (r k) (e (σ k))
  have hs : ∑ k, (1 - (∑ t, r k t * e (σ k) t) /
      (Real.sqrt (∑ t, r k t ^ 2) * Real.sqrt (∑ t, e (σ k) t ^ 2))) = 0 := by
    apply le_antisymm
    · rw [Finset.sum_sub_distrib]
      linarith
    · exact Finset.sum_nonneg fun k _ => sub_nonneg.mpr (hle k)
  intro k
  have hk := (Finset.sum_eq_zero_iff_of_nonneg (fun k _ => sub_nonneg.mpr (hle k))).mp hs k (Finset.mem_univ _)
  have hd : 0 < Real.sqrt (∑ t, r k t ^ 2) * Real.sqrt (∑ t, e (σ k) t ^ 2) := by
    rw [he (σ k)]
    exact mul_pos (hsp k) (hsp _)
  have hone : (∑ t, r k t * e (σ k) t) / (Real.sqrt (∑ t, r k t ^ 2) * Real.sqrt (∑ t, e (σ k) t ^ 2)) = 1 := by
    linarith
  rw [div_eq_one_iff_eq hd.ne'] at hone
  rw [he (σ k)] at hone ⊢
  rw [← hnp k (π (σ k)) hone]

omit [Fintype κ] [Fintype τ] in
/-- For pairwise distinct reference rows, an assignment that restores the reference is the inverse permutation. -/
theorem restores_unique (r e : κ → τ → ℝ) (hr : Function.Injective r) (π σ : Equiv.Perm κ)
    (he : ∀ k, e k = r (π k)) (h : ∀ k, e (σ k) = r k) : ∀ k, π (σ k) = k := by
  intro k
  apply hr
  rw [← he, h]

/-- For pairwise distinct reference rows the maximiser is unique for the negative Euclidean distance and for the inner
    product: it is the inverse of the permutation that was applied. -/
theorem unique_maximiser (r e : κ → τ → ℝ) (hr : Function.Injective r) (π σ : Equiv.Perm κ)
    (he : ∀ k, e k = r (π k))
    (hmax : (∀ σ' : Equiv.Perm κ,
        ∑ k, -(Real.sqrt (∑ t, (r k t - e (σ' k) t) ^ 2)) ≤ ∑ k, -(Real.sqrt (∑ t, (r k t - e (σ k) t) ^ 2)))
      ∨ (∀ σ' : Equiv.Perm κ, ∑ k, ∑ t, r k t * e (σ' k) t ≤ ∑ k, ∑ t, r k t * e (σ k) t)) :
    (∀ k, π (σ k) = k) ∧ σ = π⁻¹ := by
  have h : ∀ k, π (σ k) = k := by
    rcases hmax with hmax | hmax
    · exact restores_unique r e hr π σ he (euclidean_restores r e π σ he hmax)
    · exact restores_unique r e hr π σ he (multiply_restores r e π σ he hmax)
  refine ⟨h, ?_⟩
  ext k
  apply π.injective
  rw [h k]
  simp
