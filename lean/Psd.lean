import Mathlib.LinearAlgebra.Matrix.PosDef
import Mathlib.Data.Complex.BigOperators
import Mathlib.Analysis.Complex.Order

/-!
# The mask-weighted mean outer product is Hermitian positive semidefinite (C10), for every D and T

/verif discharges per shape that `get_power_spectral_density_matrix` returns `Ψ = (1/s) Σ_t m_t x_t x_tᴴ` element-wise
(`s > 0`) and the identity `vᴴ Ψ v · s = Σ_t m_t |vᴴ x_t|²`.  This file proves the step from there for all sizes.
-/

open Matrix BigOperators Complex
open scoped ComplexOrder

variable {n T : Type*} [Fintype n] [Fintype T]

/-- the quadratic form of a weighted sum of outer products -/
theorem quad_weighted_outer (m : T → ℝ) (x : T → n → ℂ) (v : n → ℂ) :
    star v ⬝ᵥ (∑ t, (m t : ℂ) • Matrix.vecMulVec (x t) (star (x t))).mulVec v
      = ∑ t, ((m t * Complex.normSq (star v ⬝ᵥ x t) : ℝ) : ℂ) := by
  rw [Matrix.sum_mulVec, dotProduct_sum]
  apply Finset.sum_congr rfl
  intro t _
  rw [Matrix.smul_mulVec, dotProduct_smul, Matrix.vecMulVec_mulVec]
  have h : star (x t) ⬝ᵥ v = star (star v ⬝ᵥ x t) := star_dotProduct _ _
  have e : star v ⬝ᵥ (MulOpposite.op (star (x t) ⬝ᵥ v) • x t) = (star v ⬝ᵥ x t) * (star (x t) ⬝ᵥ v) := by
    simp only [dotProduct, Pi.smul_apply, MulOpposite.smul_eq_mul_unop, MulOpposite.unop_op, Finset.sum_mul]
    apply Finset.sum_congr rfl
    intro i _
    ring
  rw [e, h]
  have key : (star v ⬝ᵥ x t) * star (star v ⬝ᵥ x t) = (Complex.normSq (star v ⬝ᵥ x t) : ℂ) := Complex.mul_conj _
  rw [smul_eq_mul, key]
  push_cast
  ring

theorem weighted_outer_posSemidef [DecidableEq n] (m : T → ℝ) (hm : ∀ t, 0 ≤ m t) (x : T → n → ℂ) :
    (∑ t, (m t : ℂ) • Matrix.vecMulVec (x t) (star (x t))).PosSemidef := by
  refine Matrix.PosSemidef.of_dotProduct_mulVec_nonneg ?_ ?_
  · -- Hermitian
    unfold Matrix.IsHermitian
    rw [Matrix.conjTranspose_sum]
    apply Finset.sum_congr rfl
    intro t _
    rw [Matrix.conjTranspose_smul, Matrix.conjTranspose_vecMulVec, star_star]
    simp
  · intro v
    rw [quad_weighted_outer]
    rw [← Complex.ofReal_sum]
    exact Complex.zero_le_real.mpr (Finset.sum_nonneg fun t _ => mul_nonneg (hm t) (Complex.normSq_nonneg _))
