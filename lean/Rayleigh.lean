import Mathlib.LinearAlgebra.Matrix.PosDef
import Mathlib.Data.Complex.BigOperators
import Mathlib.Analysis.Complex.Order

/-!
# Rayleigh maximality from the contract of `eigh`

The assumed contract of `numpy.linalg.eigh` / `scipy.linalg.eigh` used by /verif (C08, C09, C12) is:
`V` is unitary (`Vᴴ V = 1`), `A V = V diag(w)` with real `w`.  From it, for every index `j` whose eigenvalue is the
largest, every vector `x` satisfies  `Re (xᴴ A x) ≤ w j * (xᴴ x)`  and column `j` of `V` attains it.  Hence the column that
pb_bss picks (the one with the largest eigenvalue) maximises the Rayleigh quotient: the "spectral theorem" step that the
SMT back ends do not do.
-/

open Matrix BigOperators Complex

variable {n : Type*} [Fintype n] [DecidableEq n]

/-- quadratic form of a real diagonal matrix -/
theorem diag_quad (w : n → ℝ) (c : n → ℂ) :
    (star c ⬝ᵥ (Matrix.diagonal (fun i => (w i : ℂ))).mulVec c) = ∑ i, ((w i * Complex.normSq (c i) : ℝ) : ℂ) := by
  simp only [dotProduct, Matrix.mulVec_diagonal, Pi.star_apply]
  apply Finset.sum_congr rfl
  intro i _
  have : (starRingEnd ℂ) (c i) * c i = (Complex.normSq (c i) : ℂ) := by
    rw [mul_comm]; exact Complex.mul_conj (c i)
  calc star (c i) * ((w i : ℂ) * c i) = (w i : ℂ) * (star (c i) * c i) := by ring
    _ = (w i : ℂ) * (Complex.normSq (c i) : ℂ) := by
        rw [show star (c i) = (starRingEnd ℂ) (c i) from rfl, this]
    _ = ((w i * Complex.normSq (c i) : ℝ) : ℂ) := by push_cast; ring

omit [DecidableEq n] in
/-- squared norm as a sum -/
theorem self_quad (c : n → ℂ) : (star c ⬝ᵥ c) = ∑ i, ((Complex.normSq (c i) : ℝ) : ℂ) := by
  simp only [dotProduct, Pi.star_apply]
  apply Finset.sum_congr rfl
  intro i _
  rw [show star (c i) = (starRingEnd ℂ) (c i) from rfl, mul_comm]
  exact Complex.mul_conj (c i)

/-- change of variables: `xᴴ A x = cᴴ diag(w) c` and `xᴴ x = cᴴ c` for `c = Vᴴ x` -/
theorem quad_change (A V : Matrix n n ℂ) (w : n → ℝ) (hV : Vᴴ * V = 1)
    (hA : A * V = V * Matrix.diagonal (fun i => (w i : ℂ))) (x : n → ℂ) :
    (star x ⬝ᵥ A.mulVec x) = (star (Vᴴ.mulVec x) ⬝ᵥ (Matrix.diagonal (fun i => (w i : ℂ))).mulVec (Vᴴ.mulVec x))
    ∧ (star x ⬝ᵥ x) = (star (Vᴴ.mulVec x) ⬝ᵥ (Vᴴ.mulVec x)) := by
  have hV' : V * Vᴴ = 1 := mul_eq_one_comm.mp hV
  have hAeq : A = V * Matrix.diagonal (fun i => (w i : ℂ)) * Vᴴ := by
    calc A = A * (V * Vᴴ) := by rw [hV', mul_one]
      _ = (A * V) * Vᴴ := by rw [Matrix.mul_assoc]
      _ = V * Matrix.diagonal (fun i => (w i : ℂ)) * Vᴴ := by rw [hA]
  have hstar : star (Vᴴ.mulVec x) = Matrix.vecMul (star x) V := by
    rw [Matrix.star_mulVec, Matrix.conjTranspose_conjTranspose]
  constructor
  · rw [hstar, hAeq, ← Matrix.mulVec_mulVec, ← Matrix.mulVec_mulVec, Matrix.dotProduct_mulVec,
      Matrix.dotProduct_mulVec (Matrix.vecMul (star x) V)]
  · rw [hstar, ← Matrix.dotProduct_mulVec, Matrix.mulVec_mulVec, hV', Matrix.one_mulVec]

/-- **Rayleigh bound.** -/
theorem rayleigh_le (A V : Matrix n n ℂ) (w : n → ℝ) (hV : Vᴴ * V = 1)
    (hA : A * V = V * Matrix.diagonal (fun i => (w i : ℂ))) (j : n) (hj : ∀ i, w i ≤ w j) (x : n → ℂ) :
    (star x ⬝ᵥ A.mulVec x).re ≤ w j * (star x ⬝ᵥ x).re := by
  obtain ⟨h1, h2⟩ := quad_change A V w hV hA x
  rw [h1, h2, diag_quad, self_quad]
  simp only [← Complex.ofReal_sum, Complex.ofReal_re]
  rw [Finset.mul_sum]
  apply Finset.sum_le_sum
  intro i _
  exact mul_le_mul_of_nonneg_right (hj i) (Complex.normSq_nonneg _)

/-- the column of the largest eigenvalue attains the bound -/
theorem rayleigh_attained (A V : Matrix n n ℂ) (w : n → ℝ)
    (hA : A * V = V * Matrix.diagonal (fun i => (w i : ℂ))) (j : n) :
    A.mulVec (fun i => V i j) = fun i => (w j : ℂ) * V i j := by
  funext i
  have := congrFun (congrFun hA i) j
  simp only [Matrix.mul_apply, Matrix.diagonal_apply, mul_ite, mul_zero, Finset.sum_ite_eq', Finset.mem_univ, if_true] at this
  simp only [Matrix.mulVec, dotProduct]
  rw [this]; ring

/-!
## Generalised problem (GEV beamformer)

Contract of `scipy.linalg.eigh(A, B)`: `Vᴴ B V = 1`, `A V = B V diag(w)`.  Then `Re (xᴴ A x) ≤ w j * Re (xᴴ B x)` for every `x`
when `w j` is the largest eigenvalue: the column that `get_gev_vector` picks maximises the generalised Rayleigh quotient (SNR).
-/

theorem gen_quad_change (A B V : Matrix n n ℂ) (w : n → ℝ) (hV : Vᴴ * B * V = 1)
    (hA : A * V = B * V * Matrix.diagonal (fun i => (w i : ℂ))) (x : n → ℂ) :
    ∃ c : n → ℂ,
      (star x ⬝ᵥ A.mulVec x) = (star c ⬝ᵥ (Matrix.diagonal (fun i => (w i : ℂ))).mulVec c)
      ∧ (star x ⬝ᵥ B.mulVec x) = (star c ⬝ᵥ c) := by
  have hV' : V * (Vᴴ * B) = 1 := mul_eq_one_comm.mp hV
  refine ⟨(Vᴴ * B).mulVec x, ?_, ?_⟩
  all_goals
    set c := (Vᴴ * B).mulVec x with hc
    have hx : x = V.mulVec c := by
      rw [hc, Matrix.mulVec_mulVec, hV', Matrix.one_mulVec]
    have hsx : star x = Matrix.vecMul (star c) Vᴴ := by
      rw [hx, Matrix.star_mulVec]
  · have key : Vᴴ * (A * V) = Matrix.diagonal (fun i => (w i : ℂ)) := by
      rw [hA, ← Matrix.mul_assoc, ← Matrix.mul_assoc, hV, Matrix.one_mul]
    calc star x ⬝ᵥ A.mulVec x
        = Matrix.vecMul (star c) Vᴴ ⬝ᵥ A.mulVec (V.mulVec c) := by rw [hsx, ← hx]
      _ = star c ⬝ᵥ (Vᴴ * (A * V)).mulVec c := by
          rw [← Matrix.dotProduct_mulVec, Matrix.mulVec_mulVec, Matrix.mulVec_mulVec, Matrix.mul_assoc]
      _ = star c ⬝ᵥ (Matrix.diagonal (fun i => (w i : ℂ))).mulVec c := by rw [key]
  · calc star x ⬝ᵥ B.mulVec x
        = Matrix.vecMul (star c) Vᴴ ⬝ᵥ B.mulVec (V.mulVec c) := by rw [hsx, ← hx]
      _ = star c ⬝ᵥ (Vᴴ * (B * V)).mulVec c := by
          rw [← Matrix.dotProduct_mulVec, Matrix.mulVec_mulVec, Matrix.mulVec_mulVec, Matrix.mul_assoc]
      _ = star c ⬝ᵥ c := by rw [← Matrix.mul_assoc, hV, Matrix.one_mulVec]

/-- **Generalised Rayleigh bound.** -/
theorem gen_rayleigh_le (A B V : Matrix n n ℂ) (w : n → ℝ) (hV : Vᴴ * B * V = 1)
    (hA : A * V = B * V * Matrix.diagonal (fun i => (w i : ℂ))) (j : n) (hj : ∀ i, w i ≤ w j) (x : n → ℂ) :
    (star x ⬝ᵥ A.mulVec x).re ≤ w j * (star x ⬝ᵥ B.mulVec x).re := by
  obtain ⟨c, h1, h2⟩ := gen_quad_change A B V w hV hA x
  rw [h1, h2, diag_quad, self_quad]
  simp only [← Complex.ofReal_sum, Complex.ofReal_re]
  rw [Finset.mul_sum]
  apply Finset.sum_le_sum
  intro i _
  exact mul_le_mul_of_nonneg_right (hj i) (Complex.normSq_nonneg _)
