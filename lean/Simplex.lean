import Mathlib.Algebra.BigOperators.Field
import Mathlib.Algebra.Order.BigOperators.Ring.Finset
import Mathlib.Data.Complex.BigOperators
import Mathlib.Data.Fintype.BigOperators
import Mathlib.Data.Fintype.EquivFin
import Mathlib.Tactic.Linarith
import Mathlib.Tactic.FieldSimp
import Mathlib.Tactic.Ring

/-!
# Simplex, permutation and normalisation facts for mixture models  (C01, C04, C05, C08, C09, C14, C18, C19)

/verif proves on the real code which arithmetic expression each routine returns (posterior `a_k / Σ_j a_j`, masked posterior,
clipped posterior, weight update, unit-norm projection, permutation of the class axis, SXR measures).  This file proves, for
every number of classes `κ`, observations `ν` and sensors `δ`, the dimension-free step from those expressions to the properties:
posteriors and weights lie on the probability simplex, clipping moves the sum by at most `K ε`, normalisation commutes with
permutations of the class axis, an injective class mapping drops no class, integer saliencies equal repetition of observations,
the unit-norm outer product does not depend on the complex gain, and the reciprocal identity of SDR / SIR / SNR.
-/

open BigOperators Finset

variable {κ ν δ : Type*} [Fintype κ] [Fintype ν]

/-- (C01, C18) The normalised posterior `a_k / Σ_j a_j` of non-negative joint values lies in `[0, 1]` and sums to one. -/
theorem posterior_simplex (a : κ → ℝ) (ha : ∀ k, 0 ≤ a k) (hs : 0 < ∑ j, a j) :
    (∀ k, 0 ≤ a k / ∑ j, a j ∧ a k / ∑ j, a j ≤ 1) ∧ ∑ k, a k / ∑ j, a j = 1 := by
  refine ⟨fun k => ⟨div_nonneg (ha k) hs.le, ?_⟩, ?_⟩
  · rw [div_le_one hs]
    exact Finset.single_le_sum (fun i _ => ha i) (Finset.mem_univ k)
  · rw [← Finset.sum_div]
    exact div_self hs.ne'

/-- (C01) Masked posterior `γ_k = m_k a_k / max (Σ_j m_j a_j) tiny` with a 0/1 mask: masked classes get zero, an all-masked
    point gets all zeros, the sum is one as soon as the denominator is not clamped, and always `0 ≤ γ_k ≤ 1`. -/
theorem masked_posterior (m a : κ → ℝ) (tiny : ℝ) (hm : ∀ k, m k = 0 ∨ m k = 1) (ha : ∀ k, 0 ≤ a k)
    (htiny : 0 < tiny) :
    (∀ k, m k = 0 → m k * a k / max (∑ j, m j * a j) tiny = 0) ∧
    ((∀ k, m k = 0) → ∀ k, m k * a k / max (∑ j, m j * a j) tiny = 0) ∧
    (tiny ≤ ∑ j, m j * a j → ∑ k, m k * a k / max (∑ j, m j * a j) tiny = 1) ∧
    (∀ k, 0 ≤ m k * a k / max (∑ j, m j * a j) tiny ∧ m k * a k / max (∑ j, m j * a j) tiny ≤ 1) := by
  have hu : ∀ k, 0 ≤ m k * a k := by
    intro k
    rcases hm k with h | h <;> simp [h, ha k]
  have ht : 0 < max (∑ j, m j * a j) tiny := lt_max_of_lt_right htiny
  refine ⟨?_, ?_, ?_, ?_⟩
  · intro k hk
    simp [hk]
  · intro h k
    simp [h k]
  · intro h
    rw [max_eq_left h, ← Finset.sum_div]
    exact div_self (lt_of_lt_of_le htiny h).ne'
  · intro k
    refine ⟨div_nonneg (hu k) ht.le, ?_⟩
    rw [div_le_one ht]
    exact le_trans (Finset.single_le_sum (fun i _ => hu i) (Finset.mem_univ k)) (le_max_left _ _)

/-- (C09) Clipping a posterior to `[ε, 1 - ε]` keeps every entry in that interval and moves the sum over the classes
    away from one by at most `K ε`. -/
theorem clipped_sum_bound (γ : κ → ℝ) (ε : ℝ) (hγ : ∀ k, 0 ≤ γ k) (hsum : ∑ k, γ k = 1) (hε0 : 0 ≤ ε)
    (hε : ε ≤ 1 / 2) :
    (∀ k, ε ≤ max ε (min (γ k) (1 - ε)) ∧ max ε (min (γ k) (1 - ε)) ≤ 1 - ε) ∧
    |∑ k, max ε (min (γ k) (1 - ε)) - 1| ≤ (Fintype.card κ : ℝ) * ε := by
  have hle1 : ∀ k, γ k ≤ 1 := by
    intro k
    rw [← hsum]
    exact Finset.single_le_sum (fun i _ => hγ i) (Finset.mem_univ k)
  refine ⟨fun k => ⟨le_max_left _ _, max_le (by linarith) (min_le_right _ _)⟩, ?_⟩
  have hk : ∀ k, |max ε (min (γ k) (1 - ε)) - γ k| ≤ ε := by
    intro k
    have h0 := hγ k
    have h1 := hle1 k
    rw [abs_le]
    rcases le_total (γ k) (1 - ε) with h | h
    · rw [min_eq_left h]
      rcases le_total ε (γ k) with h' | h'
      · rw [max_eq_right h']; constructor <;> linarith
      · rw [max_eq_left h']; constructor <;> linarith
    · rw [min_eq_right h, max_eq_right (by linarith)]
      constructor <;> linarith
  have e : ∑ k, max ε (min (γ k) (1 - ε)) - 1 = ∑ k, (max ε (min (γ k) (1 - ε)) - γ k) := by
    rw [Finset.sum_sub_distrib, hsum]
  rw [e]
  calc |∑ k, (max ε (min (γ k) (1 - ε)) - γ k)|
      ≤ ∑ k, |max ε (min (γ k) (1 - ε)) - γ k| := Finset.abs_sum_le_sum_abs _ _
    _ ≤ ∑ _k : κ, ε := Finset.sum_le_sum (fun k _ => hk k)
    _ = (Fintype.card κ : ℝ) * ε := by
        rw [Finset.sum_const, Finset.card_univ, nsmul_eq_mul]

/-- (C05) Normalising the permuted vector gives the permuted normalised vector. -/
theorem normalise_perm_equivariant (a : κ → ℝ) (σ : Equiv.Perm κ) :
    (fun k => a (σ k) / ∑ j, a (σ j)) = fun k => (a (σ k)) / ∑ j, a j := by
  funext k
  rw [Equiv.sum_comp σ a]

/-- (C14) A sum over the class axis does not change when the axis is permuted. -/
theorem sum_perm_invariant {β : Type*} [AddCommMonoid β] (x : κ → β) (σ : Equiv.Perm κ) :
    ∑ k, x (σ k) = ∑ k, x k :=
  Equiv.sum_comp σ x

/-- (C14) The multiset of per-class values does not change when the class axis is permuted. -/
theorem multiset_perm_invariant {β : Type*} (x : κ → β) (σ : Equiv.Perm κ) :
    Multiset.map (fun k => x (σ k)) Finset.univ.val = Multiset.map x Finset.univ.val := by
  have h : Multiset.map σ (Finset.univ : Finset κ).val = (Finset.univ : Finset κ).val := by
    have h' := congrArg Finset.val (Finset.map_univ_equiv σ)
    rw [Finset.map_val] at h'
    exact h'
  conv_rhs => rw [← h]
  rw [Multiset.map_map]
  rfl

/-- (C14) An injective class mapping on a finite set of classes is a permutation: no duplicates implies no class dropped. -/
theorem mapping_injective_is_perm {κ : Type*} [Finite κ] (f : κ → κ) (hf : Function.Injective f) :
    Function.Bijective f ∧ ∀ j, ∃ k, f k = j := by
  have hb : Function.Bijective f := Finite.injective_iff_bijective.mp hf
  exact ⟨hb, hb.2⟩

/-- (C08) Integer saliencies are repetition counts: the saliency-weighted sum equals the plain sum over the data set in which
    observation `n` is repeated `s n` times. -/
theorem saliency_repetition (s : ν → ℕ) (f : ν → ℝ) :
    ∑ n, (s n : ℝ) * f n = ∑ p : (Σ n, Fin (s n)), f p.1 := by
  rw [Fintype.sum_sigma]
  apply Finset.sum_congr rfl
  intro n _
  simp only [Finset.sum_const, Finset.card_univ, Fintype.card_fin, nsmul_eq_mul]

/-- (C08) Vector version of `saliency_repetition`: the same identity for every coordinate of vector-valued statistics. -/
theorem saliency_repetition_vec (s : ν → ℕ) (f : ν → δ → ℝ) :
    (fun d => ∑ n, (s n : ℝ) * f n d) = fun d => ∑ p : (Σ n, Fin (s n)), f p.1 d := by
  funext d
  exact saliency_repetition s (fun n => f n d)

/-- (C09) The saliency-weighted mean of posteriors on the simplex is again on the simplex (the weight update). -/
theorem weights_mean_simplex (γ : ν → κ → ℝ) (s : ν → ℝ) (hγ : ∀ n k, 0 ≤ γ n k) (hγs : ∀ n, ∑ k, γ n k = 1)
    (hs : ∀ n, 0 ≤ s n) (hS : 0 < ∑ n, s n) :
    (∀ k, 0 ≤ (∑ n, s n * γ n k) / ∑ n, s n) ∧ ∑ k, (∑ n, s n * γ n k) / ∑ n, s n = 1 := by
  refine ⟨fun k => div_nonneg (Finset.sum_nonneg (fun n _ => mul_nonneg (hs n) (hγ n k))) hS.le, ?_⟩
  rw [← Finset.sum_div, Finset.sum_comm]
  have e : ∑ n, ∑ k, s n * γ n k = ∑ n, s n := by
    apply Finset.sum_congr rfl
    intro n _
    rw [← Finset.mul_sum, hγs n, mul_one]
  rw [e]
  exact div_self hS.ne'

/-- (C04) The outer product of the unit-norm projection of an observation does not depend on a non-zero complex gain. -/
theorem unit_norm_outer_invariant [Fintype δ] (z : δ → ℂ) (c : ℂ) (hc : c ≠ 0) (hN : 0 < ∑ i, Complex.normSq (z i)) :
    ∀ i j, ((c * z i) * (starRingEnd ℂ) (c * z j)) / ((∑ i, Complex.normSq (c * z i) : ℝ) : ℂ)
      = (z i * (starRingEnd ℂ) (z j)) / ((∑ i, Complex.normSq (z i) : ℝ) : ℂ) := by
  intro i j
  have e : ∑ i, Complex.normSq (c * z i) = Complex.normSq c * ∑ i, Complex.normSq (z i) := by
    rw [Finset.mul_sum]
    apply Finset.sum_congr rfl
    intro i _
    exact Complex.normSq_mul c (z i)
  have hc' : ((Complex.normSq c : ℝ) : ℂ) ≠ 0 := by
    exact_mod_cast (Complex.normSq_pos.mpr hc).ne'
  have hN' : ((∑ i, Complex.normSq (z i) : ℝ) : ℂ) ≠ 0 := by
    exact_mod_cast hN.ne'
  rw [e, Complex.ofReal_mul, map_mul]
  have h : c * z i * ((starRingEnd ℂ) c * (starRingEnd ℂ) (z j))
      = ((Complex.normSq c : ℝ) : ℂ) * (z i * (starRingEnd ℂ) (z j)) := by
    rw [← Complex.mul_conj c]; ring
  rw [h, mul_div_mul_left _ _ hc']

/-- (C19) With orthogonal target, interference and noise parts, `1 / SDR = 1 / SIR + 1 / SNR`, and the SDR is at most
    the smaller of SIR and SNR. -/
theorem sxr_reciprocal_identity (S I N : ℝ) (hS : 0 < S) (hI : 0 < I) (hN : 0 < N) :
    1 / (S / (I + N)) = 1 / (S / I) + 1 / (S / N) ∧ S / (I + N) ≤ min (S / I) (S / N) := by
  constructor
  · have h1 : I + N ≠ 0 := (add_pos hI hN).ne'
    field_simp
  · apply le_min
    · exact div_le_div_of_nonneg_left hS.le hI (by linarith)
    · exact div_le_div_of_nonneg_left hS.le hN (by linarith)
