import Mathlib.LinearAlgebra.Matrix.PosDef
import Mathlib.Analysis.Complex.Order
import Mathlib.Analysis.Convex.Deriv
import Mathlib.Probability.Moments.MGFAnalytic

/-!
# The complex Watson M-step maximises its part of `Q`  (C02), and the eigenvalue reconstruction is positive definite (C09)

Per class the Watson part of the expected complete-data log-likelihood is `G * (κ * ℓ(w) - A κ)` with `ℓ(w) ≤ lam` the
Rayleigh quotient of the weighted scatter matrix (`Rayleigh.lean`) and `A` the convex log-normaliser.  This file proves that
the concentration with `A'(κ) = lam` (tangent-line inequality for convex functions), respectively the clipped concentration
at an end of `[0, M]`, maximises `κ ↦ κ * lam - A κ`, jointly with the principal eigenvector; that a log-normaliser of the form
`κ ↦ log ∫ exp (κ t) dμ` is convex on `ℝ`; and (C09) that `U diag(d) Uᴴ` with unitary `U` and positive (non-negative) `d` is
Hermitian positive (semi)definite and that normalised-and-floored eigenvalues lie in `[φ, 1]` with the maximum at `1`,
for every dimension.
-/

open Matrix Set
open scoped ComplexOrder

/-- Tangent-line inequality: a convex function lies above its tangent (derivative within `S`, so end points are allowed). -/
theorem tangent_line_le {A : ℝ → ℝ} {S : Set ℝ} (hA : ConvexOn ℝ S A) {κ lam : ℝ} (hκ : κ ∈ S)
    (hd : HasDerivWithinAt A lam S κ) {κ' : ℝ} (hκ' : κ' ∈ S) :
    A κ + lam * (κ' - κ) ≤ A κ' := by
  rcases lt_trichotomy κ κ' with h | h | h
  · have := hA.le_slope_of_hasDerivWithinAt hκ hκ' h hd
    rw [slope_def_field, le_div_iff₀ (sub_pos.2 h)] at this
    linarith
  · subst h; simp
  · have := hA.slope_le_of_hasDerivWithinAt hκ' hκ h hd
    rw [slope_def_field, div_le_iff₀ (sub_pos.2 h)] at this
    linarith

/-- On any convex set `S` (e.g. `Set.Ici 0`, `Set.Icc 0 M`), a point of `S` where the derivative of the convex `A` within `S`
equals `lam` maximises `κ ↦ κ * lam - A κ` over `S`. -/
theorem tangent_maximiser {A : ℝ → ℝ} {S : Set ℝ} (hA : ConvexOn ℝ S A) {κ lam : ℝ} (hκ : κ ∈ S)
    (hd : HasDerivWithinAt A lam S κ) :
    ∀ κ' ∈ S, κ' * lam - A κ' ≤ κ * lam - A κ := by
  intro κ' hκ'
  have := tangent_line_le hA hκ hd hκ'
  linarith

/-- `tangent_maximiser` on `[0, ∞)` with an ordinary derivative. -/
theorem tangent_maximiser_Ici {A : ℝ → ℝ} (hA : ConvexOn ℝ (Set.Ici (0 : ℝ)) A) {κ lam : ℝ}
    (hκ : κ ∈ Set.Ici (0 : ℝ)) (hd : HasDerivAt A lam κ) :
    ∀ κ' ∈ Set.Ici (0 : ℝ), κ' * lam - A κ' ≤ κ * lam - A κ :=
  tangent_maximiser hA hκ hd.hasDerivWithinAt

/-- `tangent_maximiser` on `[0, M]` with an ordinary derivative. -/
theorem tangent_maximiser_Icc {A : ℝ → ℝ} {M : ℝ} (hA : ConvexOn ℝ (Set.Icc (0 : ℝ) M) A) {κ lam : ℝ}
    (hκ : κ ∈ Set.Icc (0 : ℝ) M) (hd : HasDerivAt A lam κ) :
    ∀ κ' ∈ Set.Icc (0 : ℝ) M, κ' * lam - A κ' ≤ κ * lam - A κ :=
  tangent_maximiser hA hκ hd.hasDerivWithinAt

/-- The principal eigenvector (Rayleigh value `lam`, every other value `lam' ≤ lam`) and the stationary concentration
(`A' κ = lam`) jointly maximise the class part `κ * ℓ - A κ` of `Q` over all `ℓ ≤ lam` and `κ' ≥ 0`. -/
theorem watson_mstep_maximises {A : ℝ → ℝ} (hA : ConvexOn ℝ (Set.Ici (0 : ℝ)) A) {κ lam : ℝ}
    (hκ : κ ∈ Set.Ici (0 : ℝ)) (hd : HasDerivWithinAt A lam (Set.Ici (0 : ℝ)) κ) :
    ∀ lam' ≤ lam, ∀ κ' ≥ 0, κ' * lam' - A κ' ≤ κ * lam - A κ := by
  intro lam' hl κ' hκ'
  have h1 := tangent_maximiser hA hκ hd κ' hκ'
  have h2 : κ' * lam' ≤ κ' * lam := mul_le_mul_of_nonneg_left hl hκ'
  linarith

/-- If the (left) derivative `a` of `A` at the upper clip `M` does not exceed `lam`, the clipped concentration `M` maximises
`κ ↦ κ * lam - A κ` over `[0, M]`. -/
theorem clipped_upper_maximiser {A : ℝ → ℝ} {M : ℝ} (hM : 0 ≤ M) (hA : ConvexOn ℝ (Set.Icc (0 : ℝ) M) A) {a lam : ℝ}
    (hd : HasDerivWithinAt A a (Set.Icc (0 : ℝ) M) M) (ha : a ≤ lam) :
    ∀ κ' ∈ Set.Icc (0 : ℝ) M, κ' * lam - A κ' ≤ M * lam - A M := by
  intro κ' hκ'
  have h1 := tangent_line_le hA (right_mem_Icc.2 hM) hd hκ'
  have h2 : (lam - a) * (κ' - M) ≤ 0 :=
    mul_nonpos_of_nonneg_of_nonpos (sub_nonneg.2 ha) (sub_nonpos.2 hκ'.2)
  nlinarith

/-- If the (right) derivative `a` of `A` at the lower clip `0` is at least `lam`, the clipped concentration `0` maximises
`κ ↦ κ * lam - A κ` over `[0, M]`. -/
theorem clipped_lower_maximiser {A : ℝ → ℝ} {M : ℝ} (hM : 0 ≤ M) (hA : ConvexOn ℝ (Set.Icc (0 : ℝ) M) A) {a lam : ℝ}
    (hd : HasDerivWithinAt A a (Set.Icc (0 : ℝ) M) 0) (ha : lam ≤ a) :
    ∀ κ' ∈ Set.Icc (0 : ℝ) M, κ' * lam - A κ' ≤ 0 * lam - A 0 := by
  intro κ' hκ'
  have h1 := tangent_line_le hA (left_mem_Icc.2 hM) hd hκ'
  have h2 : 0 ≤ (a - lam) * (κ' - 0) :=
    mul_nonneg (sub_nonneg.2 ha) (sub_nonneg.2 hκ'.1)
  nlinarith

/-- The same at the lower clip when the concentration is only bounded below (`[0, ∞)`). -/
theorem clipped_lower_maximiser_Ici {A : ℝ → ℝ} (hA : ConvexOn ℝ (Set.Ici (0 : ℝ)) A) {a lam : ℝ}
    (hd : HasDerivWithinAt A a (Set.Ici (0 : ℝ)) 0) (ha : lam ≤ a) :
    ∀ κ' ∈ Set.Ici (0 : ℝ), κ' * lam - A κ' ≤ 0 * lam - A 0 := by
  intro κ' hκ'
  have h1 := tangent_line_le hA (mem_Ici.2 le_rfl) hd hκ'
  have h2 : 0 ≤ (a - lam) * (κ' - 0) :=
    mul_nonneg (sub_nonneg.2 ha) (sub_nonneg.2 hκ')
  nlinarith

section LogNormaliser

open MeasureTheory ProbabilityTheory

variable {Ω : Type*} [MeasurableSpace Ω]

/-- A log-normaliser `κ ↦ log ∫ exp (κ t) dμ` (probability measure `μ`, measurable `|t| ≤ 1`) is convex on `ℝ`. -/
theorem log_integral_exp_convex (μ : Measure Ω) [IsProbabilityMeasure μ] (t : Ω → ℝ) (ht : Measurable t)
    (hb : ∀ ω, |t ω| ≤ 1) :
    ConvexOn ℝ Set.univ (fun κ : ℝ => Real.log (∫ ω, Real.exp (κ * t ω) ∂μ)) := by
  have hset : integrableExpSet t μ = Set.univ := by
    ext v
    simp only [integrableExpSet, Set.mem_ofPred_eq, Set.mem_univ, iff_true]
    refine Integrable.of_bound (C := Real.exp |v|)
      ((ht.const_mul v).exp).aestronglyMeasurable (Filter.Eventually.of_forall fun ω => ?_)
    rw [Real.norm_eq_abs, Real.abs_exp, Real.exp_le_exp]
    calc v * t ω ≤ |v * t ω| := le_abs_self _
      _ = |v| * |t ω| := abs_mul _ _
      _ ≤ |v| * 1 := mul_le_mul_of_nonneg_left (hb ω) (abs_nonneg _)
      _ = |v| := mul_one _
  have hint : ∀ v : ℝ, v ∈ interior (integrableExpSet t μ) := fun v => by
    rw [hset, interior_univ]; trivial
  have han : AnalyticOnNhd ℝ (cgf t μ) Set.univ := by
    have := analyticOnNhd_cgf (X := t) (μ := μ)
    rwa [hset, interior_univ] at this
  have hcd : ContDiff ℝ 2 (cgf t μ) := by
    have := han.contDiffOn (n := 2) uniqueDiffOn_univ
    exact contDiffOn_univ.1 this
  have hconv : ConvexOn ℝ Set.univ (cgf t μ) := by
    refine convexOn_univ_of_deriv2_nonneg (hcd.differentiable (by norm_num)) ?_ ?_
    · have : ContDiff ℝ 1 (deriv (cgf t μ)) := by
        have h2 : ContDiff ℝ (1 + 1) (cgf t μ) := by rw [one_add_one_eq_two]; exact hcd
        exact (contDiff_succ_iff_deriv.1 h2).2.2
      exact this.differentiable (by norm_num)
    · intro v
      have h := iteratedDeriv_two_cgf_eq_integral (X := t) (μ := μ) (hint v)
      rw [iteratedDeriv_eq_iterate] at h
      rw [h]
      refine div_nonneg (integral_nonneg fun ω => ?_) (mgf_nonneg)
      exact mul_nonneg (sq_nonneg _) (Real.exp_pos _).le
  exact hconv

end LogNormaliser

section Eig

variable {n : Type*} [Fintype n] [DecidableEq n]

/-- `U diag(d) Uᴴ` with unitary `U` and positive `d` is positive definite (for every dimension). -/
theorem eig_reconstruct_posDef (U : Matrix n n ℂ) (hU : Uᴴ * U = 1) (d : n → ℝ) (hd : ∀ i, 0 < d i) :
    (U * Matrix.diagonal (fun i => (d i : ℂ)) * Uᴴ).PosDef := by
  have hU' : U * Uᴴ = 1 := mul_eq_one_comm.1 hU
  have hD : (Matrix.diagonal (fun i => (d i : ℂ))).PosDef :=
    Matrix.PosDef.diagonal fun i => by exact_mod_cast hd i
  refine hD.mul_mul_conjTranspose_same ?_
  intro x y hxy
  have := congrArg (fun v => v ᵥ* Uᴴ) hxy
  simpa [Matrix.vecMul_vecMul, hU'] using this

/-- `U diag(d) Uᴴ` with real `d` is Hermitian. -/
theorem eig_reconstruct_isHermitian (U : Matrix n n ℂ) (d : n → ℝ) :
    (U * Matrix.diagonal (fun i => (d i : ℂ)) * Uᴴ).IsHermitian := by
  have hD : (Matrix.diagonal (fun i => (d i : ℂ))).IsHermitian := by
    refine Matrix.isHermitian_diagonal_of_self_adjoint _ ?_
    funext i
    simp
  exact Matrix.isHermitian_mul_mul_conjTranspose _ hD

/-- `U diag(d) Uᴴ` with non-negative `d` is positive semidefinite (no unitarity needed). -/
theorem eig_reconstruct_posSemidef (U : Matrix n n ℂ) (d : n → ℝ) (hd : ∀ i, 0 ≤ d i) :
    (U * Matrix.diagonal (fun i => (d i : ℂ)) * Uᴴ).PosSemidef := by
  have hD : (Matrix.diagonal (fun i => (d i : ℂ))).PosSemidef :=
    Matrix.PosSemidef.diagonal fun i => by
      show (0 : ℂ) ≤ (d i : ℂ)
      exact_mod_cast hd i
  exact hD.mul_mul_conjTranspose_same U

omit [Fintype n] [DecidableEq n] in
/-- Normalised-and-floored eigenvalues `max (e i / m) φ` lie in `[φ, 1]` and the maximal one is exactly `1`. -/
theorem eigenvalue_floor_range (e : n → ℝ) (_he : ∀ i, 0 ≤ e i) (i₀ : n) (m : ℝ) (hm : m = e i₀) (hpos : 0 < m)
    (hmax : ∀ i, e i ≤ m) (φ : ℝ) (_hφ : 0 < φ) (hφ1 : φ ≤ 1) :
    (∀ i, φ ≤ max (e i / m) φ ∧ max (e i / m) φ ≤ 1) ∧ max (e i₀ / m) φ = 1 := by
  refine ⟨fun i => ⟨le_max_right _ _, max_le ?_ hφ1⟩, ?_⟩
  · rw [div_le_one hpos]; exact hmax i
  · rw [← hm, div_self hpos.ne']
    exact max_eq_left hφ1

end Eig
