"""Path exploration by re-execution: every symbolic branch / arg-max is a choice point."""
from . import expr as E
from . import scalar as S
from . import solve


class PathLimit(BaseException):
    pass


class PathCut(BaseException):
    """Raised by a probing exploration when a path needs more than `max_depth` decisions."""


class Explorer:
    def __init__(self, hyps=(), max_paths=5000, check_feasible=True, feas_timeout=3.0):
        self.hyps = list(hyps)
        self.max_paths = max_paths
        self.check_feasible = check_feasible
        self.feas_timeout = feas_timeout
        self.npaths = 0
        self.prefix_len = 0
        self.max_depth = None        # probing mode: cut paths after this many decisions
        self.cut_prefixes = []
        self.ninfeasible = 0

    # ---- decisions
    def _feasible(self, cond):
        if cond is E.FALSE:
            return False
        if not self.check_feasible:
            return True
        c = S.ctx()
        q, _ = solve.build_query(c, cond, hyps=self.hyps, negate=False)
        return solve.feasible(q, self.feas_timeout)

    def decide(self, f):
        if f is E.TRUE:
            return True
        if f is E.FALSE:
            return False
        return self.choose([f, E.not_(f)]) == 0

    def choose(self, conds):
        """Pick the first feasible alternative not yet explored; returns its index."""
        c = S.ctx()
        i = len(c.decisions)
        if self.max_depth is not None and i >= self.max_depth:
            raise PathCut()
        if i < len(c.schedule):
            k = c.schedule[i]
            rest = []
            if i == len(c.schedule) - 1:
                if i < self.prefix_len:
                    if not self._feasible(conds[k]):
                        self.ninfeasible += 1
                        raise S.Infeasible()
                else:
                    if not self._feasible(conds[k]):
                        # the scheduled alternative is infeasible: advance to the next feasible sibling
                        k2 = None
                        for j in range(k + 1, len(conds)):
                            if self._feasible(conds[j]):
                                k2 = j
                                break
                        if k2 is None:
                            self.ninfeasible += 1
                            raise S.Infeasible()
                        k = k2
                        c.schedule[i] = k
                    rest = list(range(k + 1, len(conds)))
        else:
            k = None
            for j, cd in enumerate(conds):
                if self._feasible(cd):
                    k = j
                    break
            if k is None:
                self.ninfeasible += 1
                raise S.Infeasible()
            rest = list(range(k + 1, len(conds)))
        c.decisions.append(k)
        c.alts.append(rest)
        c.path.append(conds[k])
        return k

    # ---- driver
    def run_all(self, thunk, prefix=()):
        """Yield (ctx, outcome) for every feasible path.  outcome = ('ok', value) | ('exc', exception)."""
        todo = [list(prefix)]
        self.prefix_len = len(prefix)
        S.set_explorer(self)
        try:
            while todo:
                sched = todo.pop()
                c = S.Ctx()
                c.schedule = list(sched)
                S.set_ctx(c)
                try:
                    S.RUNNING[0] = True
                    try:
                        val = thunk(c)
                    finally:
                        S.RUNNING[0] = False
                    out = ('ok', val)
                except S.Infeasible:
                    continue
                except PathCut:
                    self.cut_prefixes.append(list(c.decisions))
                    taken = c.decisions
                    for i in range(len(taken)):
                        for j in c.alts[i][:1]:
                            todo.append(taken[:i] + [j])
                    continue
                except (S.EngineGap, PathLimit):
                    raise
                except Exception as e:  # noqa - the function under contract raised
                    out = ('exc', e)
                except BaseException as e:  # noqa - e.g. symnp.FrameViolation: a path outcome
                    if type(e).__name__ != 'FrameViolation':
                        raise
                    out = ('exc', e)
                self.npaths += 1
                if self.npaths > self.max_paths:
                    raise PathLimit('more than %d paths' % self.max_paths)
                taken = c.decisions
                for i in range(len(taken)):
                    for j in c.alts[i][:1]:       # next sibling only; it will expose its own siblings
                        todo.append(taken[:i] + [j])
                yield c, out
        finally:
            S.set_explorer(None)
