"""Hash-consed expression DAG over the reals (terms) and booleans (formulas).

This is the verification-condition language of the engine.  Terms are polynomial
expressions over named real variables with exact rational constants; everything
non-polynomial (division, sqrt, exp, max ...) is handled one level up (scalar.py)
by rational functions and purification variables.  Nodes are immutable and
interned, so structural equality is identity.

Back ends: `to_z3` (z3 Python API), `to_smt2` (SMT-LIB text for cvc5 / replay
files), `evaluate` (exact Fractions or floats; used for the CPython cross-check
and for model replay).
"""
from fractions import Fraction
import math
import sys

sys.setrecursionlimit(100000)

_TABLE = {}
_COUNTER = [0]


class Node:
    __slots__ = ('op', 'args', 'id', '__weakref__')

    def __init__(self, op, args):
        self.op = op
        self.args = args
        _COUNTER[0] += 1
        self.id = _COUNTER[0]

    def __repr__(self):
        return to_str(self)

    # identity hash/eq (interned)
    def __hash__(self):
        return self.id

    def __eq__(self, other):
        return self is other

    def __ne__(self, other):
        return self is not other

    def __bool__(self):
        raise TypeError('expr.Node has no truth value (use scalar.SymBool)')


def _mk(op, *args):
    key = (op,) + tuple(a.id if isinstance(a, Node) else a for a in args)
    n = _TABLE.get(key)
    if n is None:
        n = Node(op, args)
        _TABLE[key] = n
    return n


def reset():
    """Forget all interned nodes (called between instances to bound memory)."""
    _TABLE.clear()
    _FV_MEMO.clear()
    for n in _PERMANENT:
        key = (n.op,) + tuple(a.id if isinstance(a, Node) else a for a in n.args)
        _TABLE[key] = n


# ----------------------------------------------------------------- terms
def const(v):
    if isinstance(v, Node):
        return v
    if isinstance(v, bool):
        v = int(v)
    if isinstance(v, float):
        if math.isinf(v) or math.isnan(v):
            raise ValueError('non-finite constant in term')
        v = Fraction(v)
    elif not isinstance(v, Fraction):
        v = Fraction(int(v)) if float(v) == int(v) and not isinstance(v, float) else Fraction(float(v))
    return _mk('const', v)


ZERO = const(0)
ONE = const(1)


def var(name):
    return _mk('var', name)


def is_const(n):
    return n.op == 'const'


def cval(n):
    return n.args[0]


def add(a, b):
    if a.op == 'const' and b.op == 'const':
        return const(a.args[0] + b.args[0])
    if a is ZERO:
        return b
    if b is ZERO:
        return a
    if a.op == 'const':      # constants to the right, canonical order by id otherwise
        a, b = b, a
    elif b.op != 'const' and b.id < a.id:
        a, b = b, a
    return _mk('+', a, b)


def neg(a):
    if a.op == 'const':
        return const(-a.args[0])
    if a.op == 'neg':
        return a.args[0]
    return _mk('neg', a)


def sub(a, b):
    if a is b:
        return ZERO
    return add(a, neg(b))


def mul(a, b):
    if a.op == 'const' and b.op == 'const':
        return const(a.args[0] * b.args[0])
    if a is ZERO or b is ZERO:
        return ZERO
    if a is ONE:
        return b
    if b is ONE:
        return a
    if a.op == 'const' and a.args[0] == -1:
        return neg(b)
    if b.op == 'const' and b.args[0] == -1:
        return neg(a)
    if a.op == 'neg' and b.op == 'neg':
        return mul(a.args[0], b.args[0])
    if a.op == 'neg':
        return neg(mul(a.args[0], b))
    if b.op == 'neg':
        return neg(mul(a, b.args[0]))
    if a.op == 'const':
        a, b = b, a
    elif b.op != 'const' and b.id < a.id:
        a, b = b, a
    if b.op == 'const' and a.op == '*' and a.args[1].op == 'const':
        return mul(a.args[0], const(a.args[1].args[0] * b.args[0]))     # (x*c1)*c2 = x*(c1*c2)
    return _mk('*', a, b)


# ----------------------------------------------------------------- formulas
TRUE = _mk('true')
FALSE = _mk('false')

_CMP_FLOAT = {
    '<': lambda x, y: x < y, '<=': lambda x, y: x <= y,
    '==': lambda x, y: x == y, '!=': lambda x, y: x != y,
}


def cmp(op, a, b):
    """a op b for op in < <= == != > >= (normalised to < <= == !=)."""
    if op == '>':
        return cmp('<', b, a)
    if op == '>=':
        return cmp('<=', b, a)
    if a.op == 'const' and b.op == 'const':
        return TRUE if _CMP_FLOAT[op](a.args[0], b.args[0]) else FALSE
    if a is b:
        return TRUE if op in ('<=', '==') else FALSE
    return _mk(op, a, b)


def boolvar(name):
    return _mk('bvar', name)


def and_(*fs):
    out = []
    for f in fs:
        if f is FALSE:
            return FALSE
        if f is TRUE:
            continue
        if f.op == 'and':
            out.extend(f.args)
        else:
            out.append(f)
    if not out:
        return TRUE
    if len(out) == 1:
        return out[0]
    return _mk('and', *out)


def or_(*fs):
    out = []
    for f in fs:
        if f is TRUE:
            return TRUE
        if f is FALSE:
            continue
        if f.op == 'or':
            out.extend(f.args)
        else:
            out.append(f)
    if not out:
        return FALSE
    if len(out) == 1:
        return out[0]
    return _mk('or', *out)


def not_(f):
    if f is TRUE:
        return FALSE
    if f is FALSE:
        return TRUE
    if f.op == 'not':
        return f.args[0]
    if f.op == '==':
        return _mk('!=', *f.args)
    if f.op == '!=':
        return _mk('==', *f.args)
    if f.op == '<':
        return _mk('<=', f.args[1], f.args[0])
    if f.op == '<=':
        return _mk('<', f.args[1], f.args[0])
    return _mk('not', f)


def implies(a, b):
    if a is TRUE:
        return b
    if a is FALSE or b is TRUE:
        return TRUE
    return or_(not_(a), b)


def iff(a, b):
    return and_(implies(a, b), implies(b, a))


# ----------------------------------------------------------------- traversal
def free_vars(n, memo=None):
    """Set of variable names (real and boolean) in a node (memoised per call chain)."""
    if memo is None:
        memo = {}
    r = memo.get(n.id)
    if r is not None:
        return r
    if n.op in ('var', 'bvar'):
        r = frozenset([n.args[0]])
    elif n.op in ('const', 'true', 'false'):
        r = frozenset()
    else:
        acc = set()
        for a in n.args:
            acc |= free_vars(a, memo)
        r = frozenset(acc)
    memo[n.id] = r
    return r


_FV_MEMO = {}
_PERMANENT = [ZERO, ONE, TRUE, FALSE]


def fv(n):
    return free_vars(n, _FV_MEMO)


def size(n):
    seen = set()
    todo = [n]
    while todo:
        x = todo.pop()
        if x.id in seen:
            continue
        seen.add(x.id)
        for a in x.args:
            if isinstance(a, Node):
                todo.append(a)
    return len(seen)


# ----------------------------------------------------------------- evaluation
def evaluate(n, env, memo=None, exact=False):
    """Evaluate a term/formula.  env: name -> number (float or Fraction) / bool."""
    if memo is None:
        memo = {}
    r = memo.get(n.id)
    if r is not None or n.id in memo:
        return r
    op = n.op
    if op == 'const':
        r = n.args[0] if exact else float(n.args[0])
    elif op in ('var', 'bvar'):
        r = env[n.args[0]]
    elif op == '+':
        r = evaluate(n.args[0], env, memo, exact) + evaluate(n.args[1], env, memo, exact)
    elif op == '*':
        r = evaluate(n.args[0], env, memo, exact) * evaluate(n.args[1], env, memo, exact)
    elif op == 'neg':
        r = -evaluate(n.args[0], env, memo, exact)
    elif op in _CMP_FLOAT:
        r = _CMP_FLOAT[op](evaluate(n.args[0], env, memo, exact), evaluate(n.args[1], env, memo, exact))
    elif op == 'and':
        r = all(evaluate(a, env, memo, exact) for a in n.args)
    elif op == 'or':
        r = any(evaluate(a, env, memo, exact) for a in n.args)
    elif op == 'not':
        r = not evaluate(n.args[0], env, memo, exact)
    elif op == 'true':
        r = True
    elif op == 'false':
        r = False
    else:
        raise ValueError(op)
    memo[n.id] = r
    return r


# ----------------------------------------------------------------- printing
def to_str(n, depth=6):
    if n.op == 'const':
        return str(n.args[0])
    if n.op in ('var', 'bvar'):
        return n.args[0]
    if n.op in ('true', 'false'):
        return n.op
    if depth <= 0:
        return '...'
    if n.op == 'neg':
        return '-' + to_str(n.args[0], depth - 1)
    if n.op == 'not':
        return '!' + to_str(n.args[0], depth - 1)
    sep = {'and': ' & ', 'or': ' | '}.get(n.op, ' %s ' % n.op)
    return '(' + sep.join(to_str(a, depth - 1) for a in n.args) + ')'


def _smt_const(fr):
    def nn(i):
        return str(i) + '.0' if i >= 0 else '(- %d.0)' % (-i)
    if fr.denominator == 1:
        return nn(fr.numerator)
    return '(/ %s %d.0)' % (nn(fr.numerator), fr.denominator)


def _smt_name(name):
    return '|' + name + '|'


def to_smt2(assertions, logic=None, get_values=(), comments=()):
    """SMT-LIB 2 text for a conjunction of assertions; shared sub-DAGs become define-funs."""
    # count parents to decide what to name
    parents = {}
    order = []
    seen = set()

    def visit(n):
        stack = [(n, False)]
        while stack:
            x, done = stack.pop()
            if done:
                order.append(x)
                continue
            if x.id in seen:
                continue
            seen.add(x.id)
            stack.append((x, True))
            for a in x.args:
                if isinstance(a, Node):
                    parents[a.id] = parents.get(a.id, 0) + 1
                    stack.append((a, False))
    for a in assertions:
        visit(a)
    names = {}
    lines = []
    for c in comments:
        lines.append('; ' + str(c).replace('\n', '\n; '))
    if logic:
        lines.append('(set-logic %s)' % logic)
    rv = sorted({x.args[0] for x in order if x.op == 'var'})
    bv = sorted({x.args[0] for x in order if x.op == 'bvar'})
    for v in rv:
        lines.append('(declare-const %s Real)' % _smt_name(v))
    for v in bv:
        lines.append('(declare-const %s Bool)' % _smt_name(v))
    SM = {'+': '+', '*': '*', 'neg': '-', '<': '<', '<=': '<=', '==': '=', 'and': 'and', 'or': 'or', 'not': 'not'}

    def ref(x):
        if x.id in names:
            return names[x.id]
        return text(x)

    def text(x):
        if x.op == 'const':
            return _smt_const(x.args[0])
        if x.op in ('var', 'bvar'):
            return _smt_name(x.args[0])
        if x.op in ('true', 'false'):
            return x.op
        if x.op == '!=':
            return '(not (= %s %s))' % (ref(x.args[0]), ref(x.args[1]))
        return '(%s %s)' % (SM[x.op], ' '.join(ref(a) for a in x.args))
    for x in order:
        if x.op in ('const', 'var', 'bvar', 'true', 'false'):
            continue
        if parents.get(x.id, 0) > 1:
            nm = 'n%d' % x.id
            sort = 'Real' if x.op in ('+', '*', 'neg') else 'Bool'
            lines.append('(define-fun %s () %s %s)' % (nm, sort, text(x)))
            names[x.id] = nm
    for a in assertions:
        lines.append('(assert %s)' % ref(a))
    lines.append('(check-sat)')
    if get_values:
        present = set(rv) | set(bv)
        gv = [g for g in get_values if g in present]
        if gv:
            lines.append('(get-value (%s))' % ' '.join(_smt_name(g) for g in gv))
    return '\n'.join(lines) + '\n'


def to_z3(nodes, z3):
    """Convert a list of nodes to z3 expressions (shared memo)."""
    memo = {}

    def conv(n):
        r = memo.get(n.id)
        if r is not None:
            return r
        # iterative post-order to avoid deep recursion
        stack = [(n, False)]
        while stack:
            x, done = stack.pop()
            if x.id in memo:
                continue
            if not done:
                stack.append((x, True))
                for a in x.args:
                    if isinstance(a, Node) and a.id not in memo:
                        stack.append((a, False))
                continue
            op = x.op
            if op == 'const':
                fr = x.args[0]
                r = z3.RealVal(str(fr.numerator)) if fr.denominator == 1 else z3.Q(fr.numerator, fr.denominator)
            elif op == 'var':
                r = z3.Real(x.args[0])
            elif op == 'bvar':
                r = z3.Bool(x.args[0])
            elif op == '+':
                r = memo[x.args[0].id] + memo[x.args[1].id]
            elif op == '*':
                r = memo[x.args[0].id] * memo[x.args[1].id]
            elif op == 'neg':
                r = -memo[x.args[0].id]
            elif op == '<':
                r = memo[x.args[0].id] < memo[x.args[1].id]
            elif op == '<=':
                r = memo[x.args[0].id] <= memo[x.args[1].id]
            elif op == '==':
                r = memo[x.args[0].id] == memo[x.args[1].id]
            elif op == '!=':
                r = memo[x.args[0].id] != memo[x.args[1].id]
            elif op == 'and':
                r = z3.And(*[memo[a.id] for a in x.args])
            elif op == 'or':
                r = z3.Or(*[memo[a.id] for a in x.args])
            elif op == 'not':
                r = z3.Not(memo[x.args[0].id])
            elif op == 'true':
                r = z3.BoolVal(True)
            elif op == 'false':
                r = z3.BoolVal(False)
            else:
                raise ValueError(op)
            memo[x.id] = r
        return memo[n.id]
    return [conv(n) for n in nodes]
