"""Contract instances: symbolic execution of a real repository function at one concrete
shape/option instance, obligation generation and discharge, counter-model replay,
CPython cross-check.  Runs inside a worker process (see runner.py)."""
import dataclasses
import json
import math
import os
import random
import time
import traceback
from fractions import Fraction

import numpy as np

from . import expr as E
from . import scalar as S
from . import solve
from . import symnp
from .explore import Explorer, PathLimit, PathCut
from .scalar import R, C, SymBool, EngineGap
from .spec import Spec
from .symnp import SymArray, FrameViolation


# =========================================================================== builder
class Builder:
    """Creates the inputs of an instance: symbolic arrays (mode 'sym') or concrete NumPy arrays
    (mode 'conc': from a solver model and/or seeded random draws)."""

    def __init__(self, mode, env=None, rng=None, scale=1.0, rtol=1e-9, atol=1e-12):
        self.mode = mode
        self.symbolic = mode == 'sym'
        self.sp = Spec(self.symbolic, rtol=rtol, atol=atol)
        self.env = dict(env or {})       # var name -> number (concrete mode)
        self.rng = rng or random.Random(0)
        self.scale = scale
        self.hyps = []                   # [(label, formula)] symbolic mode
        self.valid = True                # concrete mode: all requires satisfied
        self.failed_requires = []
        self.arrays = {}                 # name -> array (for frame / replay reporting)
        self.used_env = {}

    # ---- scalars
    def _value(self, name, draw):
        if name in self.env:
            v = self.env[name]
            v = float(v)
        else:
            v = draw()
        self.used_env[name] = v
        return v

    def _draw(self, dist):
        r = self.rng
        if dist == 'normal':
            return r.gauss(0.0, 1.0) * self.scale
        if dist == 'pos':
            return math.exp(r.gauss(0.0, 1.0)) * self.scale
        if dist == 'unit':
            return r.random()
        if isinstance(dist, tuple):
            return r.uniform(dist[0], dist[1])
        if callable(dist):
            return dist(r)
        raise ValueError(dist)

    def real(self, name, shape=(), dtype=np.float64, dist='normal', lo=None, hi=None, lo_strict=False,
             hi_strict=False, readonly=True):
        """Real input (array or scalar when shape == ()).  lo/hi become preconditions."""
        dtype = np.dtype(dtype)
        if lo is not None and hi is not None and dist == 'normal':
            dist = (lo, hi)
        elif lo is not None and lo >= 0 and dist == 'normal':
            dist = 'pos'
        if self.symbolic:
            a = symnp.sym_array(name, shape, dtype, readonly=readonly)
            for x in a.data.reshape(-1) if shape != () else [a.data[()]]:
                if lo is not None:
                    self.hyps.append(('%s>=lo' % name, S.sb_f((x > lo) if lo_strict else (x >= lo))))
                    if lo > 0 or (lo == 0 and lo_strict):
                        S.ctx().pos.add(x.n.args[0])
                    elif lo == 0:
                        S.ctx().nonneg.add(x.n.args[0])
                if hi is not None:
                    self.hyps.append(('%s<=hi' % name, S.sb_f((x < hi) if hi_strict else (x <= hi))))
            self.arrays[name] = a
            return a if shape != () else a.data[()]
        out = np.empty(shape, dtype=dtype)
        for idx in np.ndindex(*shape):
            n = name + ''.join('_%d' % i for i in idx)
            v = self._value(n, lambda: self._draw(dist))
            if lo is not None and (v < lo or (lo_strict and v <= lo)):
                self.valid = False
                self.failed_requires.append('%s lower bound' % n)
            if hi is not None and (v > hi or (hi_strict and v >= hi)):
                self.valid = False
                self.failed_requires.append('%s upper bound' % n)
            out[idx] = v
        if readonly:
            out.flags.writeable = False
        self.arrays[name] = out
        return out if shape != () else float(out[()])

    def cplx(self, name, shape, dtype=np.complex128, dist='normal', readonly=True):
        dtype = np.dtype(dtype)
        if self.symbolic:
            a = symnp.sym_array(name, shape, dtype, readonly=readonly)
            self.arrays[name] = a
            return a if shape != () else a.data[()]
        out = np.empty(shape, dtype=dtype)
        for idx in np.ndindex(*shape):
            n = name + ''.join('_%d' % i for i in idx)
            re = self._value(n + '.re', lambda: self._draw(dist))
            im = self._value(n + '.im', lambda: self._draw(dist))
            out[idx] = complex(re, im)
        if readonly:
            out.flags.writeable = False
        self.arrays[name] = out
        return out if shape != () else complex(out[()])

    def given(self, name, array, readonly=True, wrap=True):
        """A concrete (non-symbolic) argument; float/complex arrays are wrapped so symbolic stores work."""
        a = np.array(array)
        if self.symbolic and a.dtype.kind in 'fc' and wrap:
            s = symnp.concrete(a, readonly=readonly)
            self.arrays[name] = s
            return s
        if readonly:
            a.flags.writeable = False
        self.arrays[name] = a
        return a

    def derived(self, name, cells, dtype, readonly=True):
        """An argument computed from other inputs by the contract (e.g. Phi = L L^H)."""
        if self.symbolic:
            a = symnp.from_scalars(cells, dtype, readonly=readonly)
        else:
            a = np.array(cells, dtype=dtype)
            if readonly:
                a.flags.writeable = False
        self.arrays[name] = a
        return a

    # ---- structured inputs
    def hpd(self, name, D, lead=(), real=False, diag_lo=0.0):
        """Hermitian positive definite matrices Phi = L L^H, L lower triangular with positive diagonal."""
        sp = self.sp
        out = np.empty(tuple(lead) + (D, D), dtype=object)
        for idx in np.ndindex(*lead):
            tag = name + ''.join('_%d' % i for i in idx)
            L = [[0.0] * D for _ in range(D)]
            for i in range(D):
                for j in range(i + 1):
                    if i == j:
                        L[i][j] = self.real('%s_L%d%d' % (tag, i, j), lo=diag_lo, lo_strict=True, dist='pos')
                    elif real:
                        L[i][j] = self.real('%s_L%d%d' % (tag, i, j))
                    else:
                        L[i][j] = self.cplx('%s_L%d%d' % (tag, i, j), ())
            for i in range(D):
                for j in range(D):
                    acc = None
                    for k in range(min(i, j) + 1):
                        t = L[i][k] * sp.conj(L[j][k])
                        acc = t if acc is None else acc + t
                    out[idx + (i, j)] = acc
        return self.derived(name, out, np.float64 if real else np.complex128)

    def choose(self, name, options):
        """A discrete choice of the bounded input family (recorded so that a replay repeats it)."""
        key = '#' + name
        options = list(options)
        if key in self.env:
            i = int(self.env[key])
        else:
            i = self.rng.randrange(len(options))
        self.used_env[key] = i
        return options[i]

    # ---- preconditions
    def require(self, label, cond):
        if self.symbolic:
            f = self.sp._f(cond)
            self.hyps.append((label, f))
        else:
            if not bool(cond):
                self.valid = False
                self.failed_requires.append(label)


# =========================================================================== instances
@dataclasses.dataclass
class Instance:
    prop: str                    # property id
    func: str                    # module:qualname of the repository function under contract
    name: str                    # instance signature (shape / options)
    make: object                 # make(B) -> inputs (dict)
    call: object                 # call(inputs) -> result   (runs the REAL function)
    ensures: object              # ensures(sp, inputs, result) -> iterable of (name, formula)
    hints: object = None         # hints(sp, inputs, result) -> iterable of formulas (ground lemma instances)
    raises: tuple = ()           # exception types that count as an explicit, allowed outcome
    on_raise: object = None      # on_raise(sp, inputs, exc) -> iterable of (name, formula): obligations on raising paths
    timeout: float = 20.0
    max_paths: int = 2000
    patches: object = None       # patches() -> [(module, attr, replacement)] external stubs
    frame: bool = True           # inputs are read-only (frame obligation)
    crosscheck: bool = True
    rtol: float = 1e-7
    atol: float = 1e-9
    scale: float = 1.0
    tags: tuple = ()
    feas_timeout: float = 3.0
    check_feasible: bool = True
    samples: int = 3             # concrete samples for vacuity / cross-check
    mode: str = 'proof'          # 'proof' (symbolic, deductive) | 'bounded' (native run-time contract checking)
    bounded_n: int = 20          # native evaluations in the quick tier (x10 thorough) for bounded instances
    weight: float = 1.0          # scheduling hint (heavier first)
    wall: float = None           # wall-clock limit of the whole instance (s)
    native_n: int = 8            # native run-time evaluations of the same contract in a proof instance (bounded stand-in)
    scales: tuple = (1.0,)       # input magnitudes cycled through by the native evaluations
    budget: float = None         # total solver seconds of the instance (default max(90, 6*timeout))
    definedness: bool = True     # generate definedness obligations (False: only ensures / frame / exceptions)
    fixed_seed: bool = False     # bounded instance: ignore VERIF_SEED (used to pin a known finding to its input)
    shard_depth: int = 0         # > 0: split the path exploration over worker processes by decision prefixes of this length
    lemma: object = None         # mode == 'lemma': {'file', 'theorems', 'statement', 'assumptions'} checked by pbv.lemmas

    @property
    def key(self):
        return '%s|%s|%s' % (self.prop, self.func, self.name)


def flatten(x, prefix=''):
    """[(path, array-like or scalar)] for results of arbitrary structure."""
    out = []
    if isinstance(x, (SymArray, np.ndarray, R, C, SymBool, float, int, complex, np.number, bool, np.bool_)):
        out.append((prefix or 'result', x))
    elif isinstance(x, dict):
        for k in x:
            out += flatten(x[k], '%s.%s' % (prefix, k) if prefix else str(k))
    elif isinstance(x, (tuple, list)):
        for i, v in enumerate(x):
            out += flatten(v, '%s[%d]' % (prefix, i))
    elif dataclasses.is_dataclass(x):
        for f in dataclasses.fields(x):
            try:
                v = getattr(x, f.name)
            except AttributeError:        # an object created without its constructor (recording stubs): the field is not set
                continue
            out += flatten(v, '%s.%s' % (prefix, f.name) if prefix else f.name)
    elif x is None:
        pass
    else:
        out.append((prefix or 'result', x))
    return out


# =========================================================================== evaluation of symbolic results
class Evaluator:
    """Evaluates DAG nodes with floats: input variables from env, purified variables natively."""

    def __init__(self, c, env):
        self.c = c
        self.env = dict(env)
        self.memo = {}
        self._absmemo = {}
        self._busy = set()

    def var(self, name):
        if name in self.env:
            return self.env[name]
        f = self.c.evalfn.get(name)
        if f is None:
            raise KeyError(name)
        if name in self._busy:
            raise RuntimeError('cyclic definition of ' + name)
        self._busy.add(name)
        try:
            v = f(self)
        finally:
            self._busy.discard(name)
        self.env[name] = v
        return v

    def __call__(self, n):
        m = self.memo
        r = m.get(n.id)
        if r is not None or n.id in m:
            return r
        op = n.op
        if op == 'const':
            r = float(n.args[0])
        elif op in ('var', 'bvar'):
            r = self.var(n.args[0])
        elif op == '+':
            r = self(n.args[0]) + self(n.args[1])
        elif op == '*':
            r = self(n.args[0]) * self(n.args[1])
        elif op == 'neg':
            r = -self(n.args[0])
        elif op == '<':
            r = self(n.args[0]) < self(n.args[1])
        elif op == '<=':
            r = self(n.args[0]) <= self(n.args[1])
        elif op == '==':
            r = self(n.args[0]) == self(n.args[1])
        elif op == '!=':
            r = self(n.args[0]) != self(n.args[1])
        elif op == 'and':
            r = all(self(a) for a in n.args)
        elif op == 'or':
            r = any(self(a) for a in n.args)
        elif op == 'not':
            r = not self(n.args[0])
        elif op == 'true':
            r = True
        elif op == 'false':
            r = False
        else:
            raise ValueError(op)
        m[n.id] = r
        return r

    def scalar(self, x):
        if isinstance(x, R):
            if x.conc():
                return x.n
            v = self(x.n)
            if x.d is not None:
                d = self(x.d)
                return v / d if d != 0 else float('nan')
            return v
        if isinstance(x, C):
            return complex(self.scalar(x.re), self.scalar(x.im))
        if isinstance(x, SymBool):
            return bool(self(x.f))
        return x

    def approx(self, f, tol=1e-6):
        """Truth of a formula with tolerance on (in)equalities; None if not evaluable."""
        op = f.op
        if op in ('<', '<=', '==', '!='):
            a, b = self(f.args[0]), self(f.args[1])
            if isinstance(a, bool) or isinstance(b, bool):
                return a == b if op == '==' else a != b
            if math.isnan(a) or math.isnan(b):
                return None
            t = tol * (1.0 + self._mag(f.args[0]) + self._mag(f.args[1]))
            if op == '==':
                return abs(a - b) <= t
            if op == '!=':
                return True if abs(a - b) > t else None
            if op == '<=':
                return a <= b + t
            return a < b + t
        if op == 'and':
            rs = [self.approx(a, tol) for a in f.args]
            if any(r is False for r in rs):
                return False
            return None if any(r is None for r in rs) else True
        if op == 'or':
            rs = [self.approx(a, tol) for a in f.args]
            if any(r is True for r in rs):
                return True
            return None if any(r is None for r in rs) else False
        if op == 'not':
            r = self.approx(f.args[0], tol)
            return None if r is None else (not r)
        if op == 'true':
            return True
        if op == 'false':
            return False
        if op == 'bvar':
            return bool(self.var(f.args[0]))
        raise ValueError(op)

    def _mag(self, n):
        """Evaluation with absolute values (|a|+|b|, |a||b|): the scale of the rounding error of n."""
        m = self._absmemo
        r = m.get(n.id)
        if r is not None:
            return r
        op = n.op
        if op == '+':
            r = self._mag(n.args[0]) + self._mag(n.args[1])
        elif op == '*':
            r = self._mag(n.args[0]) * self._mag(n.args[1])
        elif op == 'neg':
            r = self._mag(n.args[0])
        else:
            v = self(n)
            r = abs(v) if isinstance(v, float) and math.isfinite(v) else 0.0
        m[n.id] = r
        return r


def concretize(x, ev):
    """Concrete NumPy value of a symbolic result under an evaluator."""
    if isinstance(x, SymArray):
        out = np.empty(x.shape, dtype=x.dt if x.dt.kind in 'fcb' else np.float64)
        for idx in np.ndindex(*x.shape):
            out[idx] = ev.scalar(x.data[idx])
        return out
    if isinstance(x, (R, C, SymBool)):
        return ev.scalar(x)
    return x


# =========================================================================== running one instance
def _exc_str(e):
    return '%s: %s' % (type(e).__name__, str(e)[:300])


def _native_inputs(inst, env, seed, scale=None):
    B = Builder('conc', env=env, rng=random.Random(seed), scale=inst.scale if scale is None else scale,
                rtol=inst.rtol, atol=inst.atol)
    inp = inst.make(B)
    return B, inp


def _snapshot(arrays):
    snap = {}
    for k, a in arrays.items():
        if isinstance(a, np.ndarray):
            snap[k] = a.copy()
    return snap


def native_run(inst, env, seed=0, writable=False, scale=None):
    """Run the real function natively on the concrete inputs described by env.
    -> dict(valid, outcome=('ok', result)|('exc', e), failed=[names], mutated=[arg names], inputs)"""
    B, inp = _native_inputs(inst, env, seed, scale)
    res = {'valid': B.valid, 'failed_requires': B.failed_requires, 'inputs': B.used_env}
    if not B.valid:
        return res
    if writable:
        for a in B.arrays.values():
            if isinstance(a, np.ndarray):
                a.flags.writeable = True
    before = _snapshot(B.arrays)
    saved = []
    try:
        # observation wrappers of the instance (recording stubs) are active in native runs too
        for mod, name, f in (inst.patches() if inst.patches else []):
            saved.append((mod, name, getattr(mod, name)))
            setattr(mod, name, f)
        with np.errstate(all='ignore'):
            out = ('ok', inst.call(inp))
    except Exception as e:  # noqa
        out = ('exc', e)
    finally:
        for mod, name, orig in reversed(saved):
            setattr(mod, name, orig)
    res['outcome'] = out
    res['mutated'] = [k for k, b in before.items()
                      if not np.array_equal(b, B.arrays[k], equal_nan=True)]
    failed = []
    checked = []
    if out[0] == 'ok':
        try:
            for name, ok in inst.ensures(B.sp, inp, out[1]):
                checked.append(name)
                if not bool(ok):
                    failed.append(name)
        except Exception as e:  # noqa
            failed.append('ensures-evaluation-error: ' + _exc_str(e))
    else:
        if isinstance(out[1], tuple(inst.raises)) if inst.raises else False:
            if inst.on_raise is not None:
                for name, ok in inst.on_raise(B.sp, inp, out[1]):
                    checked.append(name)
                    if not bool(ok):
                        failed.append(name)
        else:
            failed.append('no-exception')
    res['failed'] = failed
    res['checked'] = checked
    return res


def _jsonable(x, depth=0):
    if isinstance(x, (np.ndarray,)):
        if x.dtype == object:
            return [repr(v)[:80] for v in x.reshape(-1)[:20]]
        if x.dtype.kind == 'c':
            return {'complex': True, 're': x.real.tolist(), 'im': x.imag.tolist()}
        return x.tolist()
    if isinstance(x, (np.floating, float)):
        return float(x)
    if isinstance(x, (np.integer, int)):
        return int(x)
    if isinstance(x, (complex, np.complexfloating)):
        return {'re': float(np.real(x)), 'im': float(np.imag(x))}
    if isinstance(x, Fraction):
        return float(x)
    if isinstance(x, dict):
        return {str(k): _jsonable(v, depth + 1) for k, v in x.items()}
    if isinstance(x, (list, tuple)):
        return [_jsonable(v, depth + 1) for v in x]
    if isinstance(x, (bool, np.bool_)):
        return bool(x)
    if x is None or isinstance(x, str):
        return x
    return repr(x)[:200]


def probe_prefixes(inst):
    """Decision prefixes (length <= inst.shard_depth) that partition the feasible paths of an instance."""
    patches = inst.patches() if inst.patches else []
    ex = Explorer(max_paths=10 ** 9, check_feasible=inst.check_feasible, feas_timeout=inst.feas_timeout)
    ex.max_depth = inst.shard_depth
    out = []

    def thunk(c):
        B = Builder('sym', rtol=inst.rtol, atol=inst.atol)
        inp = inst.make(B)
        ex.hyps = [f for _, f in B.hyps]
        return inst.call(inp)
    try:
        with symnp.patched_numpy(extra=patches):
            for c, _ in ex.run_all(thunk):
                out.append(list(c.decisions))       # a path that ended before the cut depth
    except EngineGap:
        return [[]]           # not shardable: the single run reports the engine gap itself (undecided)
    return out + ex.cut_prefixes


def run_instance(inst, tier='quick', seed=0, replay_dir=None, prefix=None, first_shard=True):
    """Symbolically execute and verify one instance.  Returns a picklable report dict."""
    t0 = time.time()
    rep = {
        'key': inst.key, 'prop': inst.prop, 'func': inst.func, 'name': inst.name,
        'obligations': [], 'paths': 0, 'infeasible': 0, 'undecided': [], 'violations': [],
        'assumptions': [], 'crosscheck': {'samples': 0, 'compared': 0, 'mismatch': []},
        'vacuity': {'valid_samples': 0, 'defs_checked': 0, 'defs_bad': []}, 'solver_time': 0.0,
        'backends': {}, 'sample_obligation': None, 'error': None, 'tags': list(inst.tags),
    }
    # wall-clock solver limits are stretched when the machine is oversubscribed (set once per check run by the driver), so that a
    # verdict does not flip to `undecided` because other jobs share the cores
    scale = float(os.environ.get('VERIF_TIME_SCALE', '1') or 1)
    timeout = inst.timeout * (4.0 if tier == 'thorough' else 1.0) * scale
    budget_total = inst.budget * scale if inst.budget else max(240.0, 8.0 * timeout) * scale     # solver seconds per instance (shard)
    patches = inst.patches() if inst.patches else []
    holder = {}

    def thunk(c):
        B = Builder('sym', rtol=inst.rtol, atol=inst.atol)
        inp = inst.make(B)
        holder['B'] = B
        holder['inp'] = inp
        if not inst.frame:
            for a in B.arrays.values():
                if isinstance(a, SymArray):
                    a.data.flags.writeable = True
        ex.hyps = [f for _, f in B.hyps]
        return inst.call(inp)

    ex = Explorer(max_paths=inst.max_paths, check_feasible=inst.check_feasible, feas_timeout=inst.feas_timeout)
    seen_q = {}
    conc_samples = []
    # concrete samples satisfying the precondition (vacuity guard + cross-check inputs)
    for i in range(60 if first_shard or inst.crosscheck else 0):
        if len(conc_samples) >= inst.samples:
            break
        Bc, _ = _native_inputs(inst, {}, seed * 1000 + i)
        if Bc.valid:
            conc_samples.append(dict(Bc.used_env))
    rep['vacuity']['valid_samples'] = len(conc_samples) if (first_shard or inst.crosscheck) else None
    rep['shard'] = None if prefix is None else list(prefix)
    matched_samples = set()

    def decide(c, B, name, goal, path_len, hints, kind):
        hyps = [f for _, f in B.hyps]
        q, rel = solve.build_query(c, goal, hyps=hyps, hints=hints, path_len=path_len)
        sig = tuple(sorted(a.id for a in q))
        if sig in seen_q:
            st = seen_q[sig]
            rep['obligations'].append({'name': name, 'status': st, 'time': 0.0, 'backend': 'dedup', 'kind': kind})
            return None
        mv = {n: k for n, k in c.inputs.items()}
        # ---- cheap falsification first: the goal evaluated at the concrete samples that follow this path
        if kind == 'ensures' and goal is not E.FALSE:
            for env in conc_samples:
                try:
                    ev = Evaluator(c, env)
                    if not all(ev(f) for f in (c.path if path_len is None else c.path[:path_len])):
                        continue
                    if ev.approx(goal, 1e-7) is False:
                        seen_q[sig] = 'failed'
                        rep['obligations'].append({'name': name, 'status': 'failed', 'time': 0.0,
                                                   'backend': 'concrete-refutation', 'kind': kind, 'nassert': len(q)})
                        rep['backends']['concrete-refutation'] = rep['backends'].get('concrete-refutation', 0) + 1
                        return {'obligation': name, 'model': {k: v for k, v in env.items() if not k.startswith('#')},
                                'query': q, 'has_uf': False, 'kind': kind, 'backend': 'concrete-refutation'}
                except Exception:  # noqa  evaluation problems never decide anything
                    continue
        if rep['solver_time'] > budget_total:
            seen_q[sig] = 'undecided'
            rep['obligations'].append({'name': name, 'status': 'undecided', 'time': 0.0, 'backend': 'none', 'kind': kind})
            rep['undecided'].append({'obligation': name, 'reason': 'solver budget of the instance exhausted'})
            return None
        qcore = None
        if kind == 'ensures' and goal.op != 'false':
            qcore, _ = solve.build_query(c, goal, hints=hints, core=True)
            if len(qcore) == len(q):
                qcore = None
        # stage 0: shallow cone -- only the definitions of the variables of the goal itself (and of the hints), deeper
        # variables stay free.  Unsat there is conclusive (fewer hypotheses); it is what decides facts about purified values
        # (roots, phasors) without dragging the polynomials they were computed from into the query.
        if kind == 'ensures' and goal.op != 'false':
            for depth in (1, 2):
                q0, _ = solve.build_query(c, goal, hints=hints, core=True, max_depth=depth)
                if len(q0) < len(q):
                    r0 = solve.check_sat(q0, timeout_s=min(timeout, 3.0), model_vars=mv, use_cvc5=False, tactics=(None,))
                    rep['solver_time'] += r0.time
                    if r0.status == 'unsat':
                        seen_q[sig] = 'discharged'
                        rep['backends']['z3-shallow-cone'] = rep['backends'].get('z3-shallow-cone', 0) + 1
                        rep['obligations'].append({'name': name, 'status': 'discharged', 'time': round(r0.time, 4), 'backend': 'z3-shallow-cone',
                                                   'kind': kind, 'nassert': len(q0)})
                        return None
        # stage 1: directed slice, short budget, z3 only.  stage 2: full connected component (or the same query when the
        # slice is already complete) with the whole budget and all back ends.
        r = solve.check_sat(q, timeout_s=min(timeout, 4.0), model_vars=mv, core=qcore, use_cvc5=False, tactics=(None,))
        rep['solver_time'] += r.time
        if r.status != 'unsat':
            q2, rel2 = solve.build_query(c, goal, hyps=hyps, hints=hints, path_len=path_len, full=True)
            if len(q2) == len(q) and r.status == 'sat':
                pass            # complete query, counter-model found
            else:
                r2 = solve.check_sat(q2, timeout_s=timeout, model_vars=mv)
                rep['solver_time'] += r2.time
                r, q, rel = r2, q2, rel2
        rep['backends'][r.backend] = rep['backends'].get(r.backend, 0) + 1
        status = {'unsat': 'discharged', 'sat': 'failed', 'unknown': 'undecided'}[r.status]
        seen_q[sig] = status
        ob = {'name': name, 'status': status, 'time': round(r.time, 4), 'backend': r.backend, 'kind': kind,
              'nassert': r.nassert}
        rep['obligations'].append(ob)
        if rep['sample_obligation'] is None and status == 'discharged' and kind == 'ensures':
            rep['sample_obligation'] = {'instance': inst.key, 'obligation': name, 'assertions': len(q),
                                        'smt2_head': E.to_smt2(q)[:1500]}
        if status == 'undecided':
            rep['undecided'].append({'obligation': name, 'reason': r.reason[:300]})
        if status == 'failed':
            has_uf = any(v.split('!')[0] in ('exp', 'log', 'log10', 'cos', 'sin', 'pow10') for v in rel)
            return {'obligation': name, 'model': r.model, 'query': q, 'has_uf': has_uf, 'kind': kind, 'backend': r.backend}
        return None

    # ---- bounded stand-in inside the proof instance: the same contract, checked at run time on the real
    #      function with floats.  Decides nothing for all inputs; it is what remains when an edit of the
    #      repository moves the code out of the symbolic engine's reach (UNDECIDED above).
    nat_stats = {'evaluations': 0, 'valid': 0, 'clauses': 0}
    rep['native'] = nat_stats
    try:
        n = inst.native_n * (4 if tier == 'thorough' else 1) if first_shard else 0
        already = set()
        for i in range(n):
            sc = inst.scales[i % len(inst.scales)] * inst.scale
            nat = native_run(inst, {}, seed * 104729 + 31 * i + 7, scale=sc)
            nat_stats['evaluations'] += 1
            if not nat.get('valid'):
                continue
            nat_stats['valid'] += 1
            nat_stats['clauses'] += len(nat.get('checked', []))
            failed = list(nat.get('failed', []))
            if nat.get('mutated') and inst.frame:
                failed.append('frame[%s]' % ','.join(nat['mutated']))
            failed = [f for f in failed if f.split('[')[0] not in already]
            if failed:
                name = failed[0]
                payload = {'property': inst.prop, 'function': inst.func, 'instance': inst.name, 'obligation': name,
                           'kind': 'bounded', 'seed': seed * 104729 + 31 * i + 7, 'scale': sc,
                           'inputs': _jsonable(nat['inputs']), 'native_failed': failed,
                           'reproduced_by': 'native run-time contract evaluation (bounded stand-in)'}
                out = nat.get('outcome')
                if out is not None:
                    payload['native_outcome'] = _exc_str(out[1]) if out[0] == 'exc' else _jsonable(
                        [(p, np.asarray(v) if not isinstance(v, str) else v) for p, v in flatten(out[1])][:6])
                fn = None
                if replay_dir:
                    os.makedirs(replay_dir, exist_ok=True)
                    fn = os.path.join(replay_dir, _safe('native__%s__%s__%s' % (inst.func.split(':')[-1], inst.name, name)) + '.json')
                    with open(fn, 'w') as fh:
                        json.dump(payload, fh, indent=1)
                rep['violations'].append({'obligation': name, 'kind': 'bounded', 'confirmed': True, 'replay': fn,
                                          'no_input': False, 'has_uf': False, 'backend': 'native',
                                          'exception': payload.get('native_outcome') if out and out[0] == 'exc' else None})
                break
    except EngineGap:
        pass                 # reported once by the symbolic run below (undecided)
    except Exception as e:  # noqa
        rep['error'] = (rep.get('error') or '') + ''.join(traceback.format_exception(type(e), e, e.__traceback__))[-2000:]
    if any(v.get('kind') == 'bounded' for v in rep['violations']):
        timeout = min(timeout, 5.0)      # already violated natively: do not spend the full budget on sat-seeking
    try:
        with symnp.patched_numpy(extra=patches):
            for c, out in ex.run_all(thunk, prefix=prefix or ()):
                rep['paths'] += 1
                B, inp = holder['B'], holder['inp']
                rep['assumptions'] = sorted(set(rep['assumptions']) | c.assumptions_used)
                sp = B.sp
                fails = []
                # ---- obligations of this path
                hints = []
                if out[0] == 'ok' and inst.hints:
                    hints = list(inst.hints(sp, inp, out[1]))
                cut = []
                if out[0] == 'ok':
                    # cut rule: a clause named 'lemma:...' that has been discharged on this path (from the definitions, the
                    # preconditions and the path condition only) is a hypothesis of the clauses after it and of the definedness
                    # obligations: intermediate facts about ghost values keep the individual queries small
                    try:
                        for name, goal in inst.ensures(sp, inp, out[1]):
                            goal = sp._f(goal)
                            fl = decide(c, B, name, goal, None, hints + cut, 'ensures')
                            if fl:
                                fails.append(fl)
                            elif name.startswith('lemma:') and rep['obligations'] and rep['obligations'][-1]['name'] == name \
                                    and rep['obligations'][-1]['status'] == 'discharged':
                                cut.append(goal)
                    except (EngineGap, PathLimit):
                        raise
                    except Exception as e:  # noqa
                        # the contract indexes the result by its documented structure; a result of another structure cannot be
                        # related to it symbolically: undecided here (the run-time evaluation of the same contract reports it)
                        rep['undecided'].append({'obligation': 'postcondition', 'reason': 'contract not evaluable on this result: %s' % _exc_str(e)[:200]})
                for (oname, plen, f, where) in (c.oblig if inst.definedness else []):
                    # a lemma proved on the whole path may only support obligations of the whole path
                    fl = decide(c, B, 'defined:%s@%s' % (oname, _short(where)), f, plen, hints + (cut if plen is None or plen >= len(c.path) else []), 'definedness')
                    if fl:
                        fails.append(fl)
                if out[0] == 'ok':
                    pass
                elif isinstance(out[1], FrameViolation):
                    fl = decide(c, B, 'frame[%s]' % _short(out[1].where), E.FALSE, None, [], 'frame')
                    if fl:
                        fl['exception'] = str(out[1])
                        fails.append(fl)
                else:
                    e = out[1]
                    if inst.raises and isinstance(e, tuple(inst.raises)):
                        if inst.on_raise is not None:
                            for name, goal in inst.on_raise(sp, inp, e):
                                fl = decide(c, B, name, sp._f(goal), None, [], 'ensures')
                                if fl:
                                    fails.append(fl)
                    else:
                        # an exception on a feasible path is a failed obligation `no-exception`
                        fl = decide(c, B, 'no-exception[%s]' % _exc_str(e)[:120], E.FALSE, None, [], 'exception')
                        if fl is None:
                            # dedup hit or infeasible path
                            pass
                        else:
                            fl['exception'] = _exc_str(e)
                            fl['traceback'] = ''.join(traceback.format_exception(type(e), e, e.__traceback__))[-1500:]
                            # where was it raised: in repository code, or inside one of the engine's NumPy handlers?
                            tb_ = e.__traceback__
                            while tb_ is not None and tb_.tb_next is not None:
                                tb_ = tb_.tb_next
                            fl['engine_origin'] = bool(tb_ is not None and os.sep + 'pbv' + os.sep in tb_.tb_frame.f_code.co_filename)
                            fails.append(fl)
                if inst.frame and not isinstance(out[1] if out[0] == 'exc' else None, FrameViolation):
                    # every caller-owned array has read-only storage: a write through any view would have raised
                    nro = sum(1 for a in B.arrays.values() if isinstance(a, SymArray) and not a.data.flags.writeable)
                    if nro:
                        rep['obligations'].append({'name': 'frame[no write to %d caller-owned arrays on this path]' % nro,
                                                   'status': 'discharged', 'time': 0.0, 'backend': 'read-only-storage', 'kind': 'frame'})
                        rep['backends']['read-only-storage'] = rep['backends'].get('read-only-storage', 0) + 1
                # ---- replay failed obligations on the real code
                for fl in fails:
                    _replay(inst, rep, fl, seed, replay_dir, conc_samples)
                # ---- engine cross-check against CPython on concrete samples following this path
                if inst.crosscheck and out[0] == 'ok':
                    for si, env in enumerate(conc_samples):
                        if si in matched_samples:
                            continue
                        _crosscheck(inst, rep, c, B, out[1], env, si, matched_samples, seed)
    except EngineGap as e:
        rep['undecided'].append({'obligation': '*', 'reason': 'engine gap: %s' % e})
    except PathLimit as e:
        rep['undecided'].append({'obligation': '*', 'reason': 'path limit: %s' % e})
    except Exception as e:  # noqa  checker crash inside this instance
        rep['error'] = ''.join(traceback.format_exception(type(e), e, e.__traceback__))[-3000:]
    rep['infeasible'] = ex.ninfeasible
    rep['wall'] = round(time.time() - t0, 3)
    return rep


def _short(where):
    if not where:
        return '?'
    return where.replace('/repo/', '')


def _frame_violation_report(inst, rep, e, seed, replay_dir):
    pass


def _crosscheck(inst, rep, c, B, sym_out, env, si, matched, seed):
    """The symbolic result, instantiated at a concrete input, must equal what CPython returns."""
    cc = rep['crosscheck']
    try:
        ev = Evaluator(c, env)
        # does this sample follow the explored path?
        for f in c.path:
            if not ev(f):
                return
        matched.add(si)
        cc['samples'] += 1
        # definitions / assumed contracts hold at the sample (vacuity + stub sanity)
        for names, f in c.defs:
            ok = ev.approx(f, 1e-6)
            rep['vacuity']['defs_checked'] += 1
            if ok is False:
                rep['vacuity']['defs_bad'].append(sorted(names)[:3])
        nat = native_run(inst, env, seed)
        if not nat.get('valid') or nat['outcome'][0] != 'ok':
            cc['mismatch'].append({'sample': si, 'detail': 'native outcome %r' % (nat.get('outcome'),)})
            return
        fs, fn = flatten(sym_out), flatten(nat['outcome'][1])
        if len(fs) != len(fn):
            cc['mismatch'].append({'sample': si, 'detail': 'structure differs'})
            return
        for (p, a), (_, b) in zip(fs, fn):
            av = concretize(a, ev)
            bv = np.asarray(b)
            if np.shape(av) != bv.shape:
                cc['mismatch'].append({'sample': si, 'detail': 'shape %s: %s vs %s' % (p, np.shape(av), bv.shape)})
                continue
            cc['compared'] += int(bv.size)
            with np.errstate(all='ignore'):
                if bv.dtype.kind in 'fc':
                    good = np.allclose(np.asarray(av, dtype=bv.dtype), bv, rtol=1e-6, atol=1e-8, equal_nan=True)
                else:
                    good = np.array_equal(np.asarray(av), bv)
            if not good:
                cc['mismatch'].append({'sample': si, 'detail': 'value %s' % p})
    except (KeyError, RuntimeError, ZeroDivisionError, OverflowError, ValueError) as e:
        cc['mismatch'].append({'sample': si, 'detail': 'evaluation error %s' % _exc_str(e)}) if not isinstance(e, KeyError) else None


def _replay(inst, rep, fl, seed, replay_dir, conc_samples):
    """Replay a counter-model on the real function; search the concrete sample family if it does not reproduce."""
    name = fl['obligation']
    base = name.split('[')[0]
    model = fl.get('model') or {}
    attempts = []
    confirmed = None

    def matches(nat):
        if not nat.get('valid'):
            return False
        if fl['kind'] == 'exception':
            return 'no-exception' in nat.get('failed', [])
        if fl['kind'] == 'frame':
            return bool(nat.get('mutated'))
        if fl['kind'] == 'definedness':
            # a definedness failure shows natively as nan/inf or an exception or any failed ensures
            out = nat['outcome']
            if out[0] == 'exc':
                return True
            vals = [np.asarray(v) for _, v in flatten(out[1])]
            nonfinite = any(v.dtype.kind in 'fc' and not np.all(np.isfinite(v)) for v in vals)
            return nonfinite or bool(nat.get('failed'))
        return name in nat.get('failed', []) or base in [x.split('[')[0] for x in nat.get('failed', [])]

    env = {k: float(v) for k, v in model.items() if not isinstance(v, bool)}
    wr = fl['kind'] == 'frame'
    nat = native_run(inst, env, seed, writable=wr)
    attempts.append('solver model')
    if matches(nat):
        confirmed = ('solver model', nat)
    else:
        rng = random.Random(seed + 17)
        tries = 40
        for i in range(tries):
            n2 = native_run(inst, {}, seed * 7919 + i, writable=wr)
            if matches(n2):
                confirmed = ('random sample %d of the instance family' % i, n2)
                break
        attempts.append('%d random samples' % tries)
    viol = {'obligation': name, 'kind': fl['kind'], 'confirmed': confirmed is not None, 'replay': None,
            'no_input': confirmed is None, 'has_uf': fl['has_uf'], 'backend': fl['backend'],
            'exception': fl.get('exception'), 'engine_origin': bool(fl.get('engine_origin'))}
    payload = {
        'property': inst.prop, 'function': inst.func, 'instance': inst.name, 'obligation': name,
        'kind': fl['kind'], 'solver': fl['backend'], 'attempts': attempts,
        'solver_model': {k: (float(v) if not isinstance(v, bool) else v) for k, v in model.items()},
        'exception': fl.get('exception'), 'traceback': fl.get('traceback'),
        'smt2': E.to_smt2(fl['query'], comments=['failed obligation %s of %s' % (name, inst.key)])[:200000],
    }
    if confirmed is not None:
        how, nat = confirmed
        payload['reproduced_by'] = how
        payload['inputs'] = _jsonable(nat['inputs'])
        payload['native_failed'] = nat.get('failed')
        payload['mutated_arguments'] = nat.get('mutated')
        out = nat.get('outcome')
        if out is not None:
            payload['native_outcome'] = _jsonable([(p, np.asarray(v) if not isinstance(v, str) else v)
                                                   for p, v in flatten(out[1])]) if out[0] == 'ok' else _exc_str(out[1])
    else:
        payload['reproduced_by'] = None
        payload['note'] = 'no-failing-input-found: the solver model did not reproduce natively'
    if replay_dir:
        os.makedirs(replay_dir, exist_ok=True)
        fn = os.path.join(replay_dir, _safe('%s__%s__%s' % (inst.func.split(':')[-1], inst.name, name)) + '.json')
        with open(fn, 'w') as fh:
            json.dump(payload, fh, indent=1)
        viol['replay'] = fn
    rep['violations'].append(viol)


def _safe(s):
    return ''.join(ch if ch.isalnum() or ch in '._-' else '_' for ch in s)[:150]
