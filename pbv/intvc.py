"""Verification-condition generator for integer / list code (the AST route of the brief).

The symbolic NumPy engine needs concrete shapes, so a statement "for every STFT size" is outside it.  This module takes the
*source text* of a real repository function on every run (`inspect.getsource` + `ast`), executes its statements symbolically over
unbounded mathematical integers and symbolic-length lists, and hands the verification conditions to z3 (quantifier free
non-linear integer arithmetic).  Nothing of the function is transcribed by hand: what is interpreted is the AST of the text that
CPython runs.

Subset (anything else raises `Unsupported` -> the obligation is UNDECIDED, never a violation):
  * statements: assignment to a name, to `x[c]` and `x[c][c]` (c an integer literal), `if` / `else`, `raise`, `return`,
    expression statements that are string literals (docstring: dropped);
  * expressions: integer literals, names, `self.<field>` (a free integer), `+ - * //`, unary minus, comparisons, `len(x)`,
    list displays, `[<list display> for v in range(a, b, s)]` (one generator, no condition), `x + y` on lists,
    `list(f(x, y))` for a callee `f` with an assumed contract (here: `interleave`), `x[c]`;
  * f-strings are only allowed as the argument of an exception and are not evaluated.
Python semantics assumed: integers are mathematical (true in CPython); `a // c` is floor division (c > 0 is an obligation);
`range(a, b, s)` has `max(0, ceil((b - a) / s))` elements `a + i s` for s > 0 and the mirrored form for s < 0 (the sign of s is
decided by the solver per path; s = 0 is a raising path); a list display inside a comprehension is evaluated once per element,
so the inner lists do not alias and an item assignment changes one element only (checked syntactically: the element expression
is an `ast.List`).  Division is encoded with explicit quotient / remainder witnesses.

Existential facts ("some segment contains bin f") are discharged through *witness candidates* supplied by the contract as ghost
terms (the element of a generated list whose generator value is nearest below f, the first and the last element); the solver
checks that one of them works, so a wrong hint can only make an obligation undecided."""
import ast
import inspect
import itertools
import json
import os
import textwrap
import time

import z3


class Unsupported(Exception):
    pass


class Raised(Exception):
    def __init__(self, exc_name):
        self.exc_name = exc_name


# ----------------------------------------------------------------------------- symbolic values
class GenList:
    """Symbolic-length list produced by a comprehension over range(a0, stop, step): element i = elt(a0 + i * step).
    `updates` are item assignments [(index term, position, value)] applied afterwards (latest wins)."""

    def __init__(self, n, a0, step, elt_fn, arity, sign):
        self.n, self.a0, self.step, self.elt_fn, self.arity, self.sign = n, a0, step, elt_fn, arity, sign
        self.updates = []

    def copy(self):
        g = GenList(self.n, self.a0, self.step, self.elt_fn, self.arity, self.sign)
        g.updates = list(self.updates)
        return g

    def elem(self, i):
        base = self.elt_fn(self.a0 + i * self.step)
        out = list(base)
        for idx, pos, val in self.updates:
            out[pos] = z3.If(i == idx, val, out[pos])
        return out


class Bag:
    """Concatenation of lists whose order may have been abstracted (result of a callee with a permutation contract)."""

    def __init__(self, parts, ordered):
        self.parts, self.ordered = parts, ordered


class Ctx:
    def __init__(self):
        self.fields = {}
        self.side = []          # definitional constraints (division witnesses), always true
        self.fresh = 0
        self.oblig = []         # (name, path, formula) definedness obligations
        self.assumed = set()

    def field(self, name):
        if name not in self.fields:
            self.fields[name] = z3.Int(name)
        return self.fields[name]

    def new(self, stem):
        self.fresh += 1
        return z3.Int('%s!%d' % (stem, self.fresh))

    def floordiv(self, a, c, path, what):
        """a // c for c > 0 (obligation) with explicit witnesses."""
        if z3.is_int_value(c) and c.as_long() <= 0:
            raise Unsupported('floor division by a non-positive constant')
        self.oblig.append(('definedness:divisor-positive[%s]' % what, list(path), c > 0))
        q, r = self.new('q'), self.new('r')
        self.side += [a == c * q + r, r >= 0, r < c]
        return q


def _is_list_value(v):
    return isinstance(v, (list, GenList, Bag))


class Interp:
    """Path-forking interpreter of one function body."""

    def __init__(self, ctx, pre, callees, feasible):
        self.ctx, self.pre, self.callees, self.feasible = ctx, pre, callees, feasible
        self.results = []       # (path, ('return', value) | ('raise', name))

    # -- expressions
    def ev(self, node, env, path):
        c = self.ctx
        if isinstance(node, ast.Constant):
            if isinstance(node.value, bool) or not isinstance(node.value, int):
                raise Unsupported('constant %r' % (node.value,))
            return z3.IntVal(node.value)
        if isinstance(node, ast.Name):
            if node.id not in env:
                raise Unsupported('unbound name %s' % node.id)
            return env[node.id]
        if isinstance(node, ast.Attribute):
            if isinstance(node.value, ast.Name) and node.value.id == 'self':
                return c.field(node.attr)
            raise Unsupported('attribute of something else than self')
        if isinstance(node, ast.UnaryOp) and isinstance(node.op, ast.USub):
            return -self.ev(node.operand, env, path)
        if isinstance(node, ast.BinOp):
            a, b = self.ev(node.left, env, path), self.ev(node.right, env, path)
            if _is_list_value(a) or _is_list_value(b):
                if isinstance(node.op, ast.Add) and _is_list_value(a) and _is_list_value(b):
                    return self.concat(a, b)
                raise Unsupported('list operand of %s' % type(node.op).__name__)
            if isinstance(node.op, ast.Add):
                return a + b
            if isinstance(node.op, ast.Sub):
                return a - b
            if isinstance(node.op, ast.Mult):
                return a * b
            if isinstance(node.op, ast.FloorDiv):
                return c.floordiv(a, b, path, ast.unparse(node))
            raise Unsupported('operator %s' % type(node.op).__name__)
        if isinstance(node, ast.Compare):
            if len(node.ops) != 1:
                raise Unsupported('chained comparison')
            a, b = self.ev(node.left, env, path), self.ev(node.comparators[0], env, path)
            if _is_list_value(a) or _is_list_value(b):
                raise Unsupported('comparison of lists')
            op = node.ops[0]
            table = {ast.Gt: lambda: a > b, ast.Lt: lambda: a < b, ast.GtE: lambda: a >= b, ast.LtE: lambda: a <= b,
                     ast.Eq: lambda: a == b, ast.NotEq: lambda: a != b}
            if type(op) not in table:
                raise Unsupported('comparison %s' % type(op).__name__)
            return table[type(op)]()
        if isinstance(node, ast.List):
            return [self.ev(e, env, path) for e in node.elts]
        if isinstance(node, ast.ListComp):
            return self.listcomp(node, env, path)
        if isinstance(node, ast.Subscript):
            base = self.ev(node.value, env, path)
            k = self.const_index(node.slice)
            return self.getitem(base, k, path, ast.unparse(node))
        if isinstance(node, ast.Call):
            return self.call(node, env, path)
        raise Unsupported('expression %s' % type(node).__name__)

    @staticmethod
    def const_index(node):
        if isinstance(node, ast.Constant) and isinstance(node.value, int) and not isinstance(node.value, bool):
            return node.value
        if isinstance(node, ast.UnaryOp) and isinstance(node.op, ast.USub) and isinstance(node.operand, ast.Constant) \
                and isinstance(node.operand.value, int):
            return -node.operand.value
        raise Unsupported('non-literal subscript')

    def length(self, v):
        if isinstance(v, list):
            return z3.IntVal(len(v))
        if isinstance(v, GenList):
            return v.n
        if isinstance(v, Bag):
            return z3.Sum([self.length(p) for p in v.parts]) if v.parts else z3.IntVal(0)
        raise Unsupported('len of a non-list')

    def getitem(self, base, k, path, what):
        if isinstance(base, list):
            if not -len(base) <= k < len(base):
                self.ctx.oblig.append(('definedness:index-in-range[%s]' % what, list(path), z3.BoolVal(False)))
                raise Raised('IndexError')
            return base[k]
        if isinstance(base, GenList):
            idx = base.n + k if k < 0 else z3.IntVal(k)
            self.ctx.oblig.append(('definedness:index-in-range[%s]' % what, list(path), z3.And(idx >= 0, idx < base.n)))
            return ('genitem', base, idx)
        raise Unsupported('subscript of %s' % type(base).__name__)

    def concat(self, a, b):
        pa = a.parts if isinstance(a, Bag) else [a]
        pb = b.parts if isinstance(b, Bag) else [b]
        ordered = (a.ordered if isinstance(a, Bag) else True) and (b.ordered if isinstance(b, Bag) else True)
        return Bag(list(pa) + list(pb), ordered)

    def listcomp(self, node, env, path):
        c = self.ctx
        if len(node.generators) != 1:
            raise Unsupported('nested comprehension')
        gen = node.generators[0]
        if gen.ifs or gen.is_async or not isinstance(gen.target, ast.Name):
            raise Unsupported('comprehension with a condition / tuple target')
        it = gen.iter
        if not (isinstance(it, ast.Call) and isinstance(it.func, ast.Name) and it.func.id == 'range' and not it.keywords):
            raise Unsupported('comprehension over something else than range(...)')
        args = [self.ev(a, env, path) for a in it.args]
        if len(args) == 1:
            a0, stop, step = z3.IntVal(0), args[0], z3.IntVal(1)
        elif len(args) == 2:
            a0, stop, step = args[0], args[1], z3.IntVal(1)
        elif len(args) == 3:
            a0, stop, step = args
        else:
            raise Unsupported('range arity')
        if not isinstance(node.elt, ast.List):
            raise Unsupported('comprehension element is not a list display (aliasing not excluded)')
        pos = self.feasible(path + [step > 0])
        neg = self.feasible(path + [step < 0])
        zero = self.feasible(path + [step == 0])
        if zero:
            raise Unsupported('range step may be zero on this path')
        if pos and neg:
            raise Unsupported('sign of the range step is not determined by the precondition and the path')
        sign = 1 if pos else -1
        mag = step if sign > 0 else -step
        span = (stop - a0) if sign > 0 else (a0 - stop)
        q, r = c.new('n'), c.new('r')
        # n = ceil(span / mag) if span > 0 else 0
        n = c.new('len')
        c.side += [span + mag - 1 == mag * q + r, r >= 0, r < mag, n == z3.If(span > 0, q, 0)]
        var = gen.target.id
        elt_node = node.elt
        outer = dict(env)

        def elt_fn(value):
            e2 = dict(outer)
            e2[var] = value
            return [self.ev(e, e2, path) for e in elt_node.elts]

        probe = elt_fn(a0)          # raises Unsupported early if the element is outside the subset
        return GenList(n, a0, step, elt_fn, len(probe), sign)

    def call(self, node, env, path):
        if not isinstance(node.func, ast.Name) or node.keywords:
            raise Unsupported('call of %s' % ast.unparse(node.func))
        name = node.func.id
        if name == 'len' and len(node.args) == 1:
            return self.length(self.ev(node.args[0], env, path))
        if name == 'list' and len(node.args) == 1:
            v = self.ev(node.args[0], env, path)
            if not _is_list_value(v):
                raise Unsupported('list() of a non-list')
            return v
        if name in self.callees:
            args = [self.ev(a, env, path) for a in node.args]
            self.ctx.assumed.add(self.callees[name]['assumption'])
            return self.callees[name]['apply'](self, args)
        raise Unsupported('call of %s' % name)

    # -- statements
    def assign(self, target, value, env, path):
        if isinstance(target, ast.Name):
            env[target.id] = value
            return
        if isinstance(target, ast.Subscript):
            k = self.const_index(target.slice)
            inner = target.value
            if isinstance(inner, ast.Name):                       # x[k] = v
                base = env.get(inner.id)
                if isinstance(base, list):
                    if not -len(base) <= k < len(base):
                        raise Raised('IndexError')
                    new = list(base)
                    new[k] = value
                    env[inner.id] = new
                    return
                raise Unsupported('item assignment on %s' % type(base).__name__)
            if isinstance(inner, ast.Subscript) and isinstance(inner.value, ast.Name):   # x[j][k] = v
                j = self.const_index(inner.slice)
                base = env.get(inner.value.id)
                if isinstance(base, GenList):
                    idx = base.n + j if j < 0 else z3.IntVal(j)
                    self.ctx.oblig.append(('definedness:index-in-range[%s]' % ast.unparse(target), list(path),
                                           z3.And(idx >= 0, idx < base.n)))
                    if not -base.arity <= k < base.arity:
                        raise Raised('IndexError')
                    g = base.copy()
                    g.updates.append((idx, k % base.arity, value))
                    env[inner.value.id] = g
                    return
                if isinstance(base, list) and -len(base) <= j < len(base) and isinstance(base[j], list):
                    new = list(base)
                    row = list(new[j])
                    row[k] = value
                    new[j] = row
                    env[inner.value.id] = new
                    return
                raise Unsupported('nested item assignment on %s' % type(base).__name__)
        raise Unsupported('assignment target %s' % ast.unparse(target))

    def run(self, stmts, env, path):
        """Executes stmts; forks at `if`.  Returns the list of (env, path) that fall through."""
        live = [(env, path)]
        for st in stmts:
            nxt = []
            for env_, path_ in live:
                try:
                    nxt += self.step(st, env_, path_)
                except Raised as r:
                    self.results.append((path_, ('raise', r.exc_name)))
            live = nxt
            if not live:
                break
        return live

    def step(self, st, env, path):
        if isinstance(st, ast.Expr) and isinstance(st.value, ast.Constant) and isinstance(st.value.value, str):
            return [(env, path)]
        if isinstance(st, ast.Assign):
            if len(st.targets) != 1:
                raise Unsupported('multiple assignment targets')
            val = self.ev(st.value, env, path)
            if isinstance(val, tuple) and val and val[0] == 'genitem':
                raise Unsupported('alias of a generated element')
            env = dict(env)
            self.assign(st.targets[0], val, env, path)
            return [(env, path)]
        if isinstance(st, ast.If):
            cond = self.ev(st.test, env, path)
            out = []
            for branch, cnd in ((st.body, cond), (st.orelse, z3.Not(cond))):
                p2 = path + [cnd]
                if self.feasible(p2):
                    out += self.run(branch, dict(env), p2)
            return out
        if isinstance(st, ast.Raise):
            exc = st.exc
            name = None
            if isinstance(exc, ast.Call) and isinstance(exc.func, ast.Name):
                name = exc.func.id
            elif isinstance(exc, ast.Name):
                name = exc.id
            if name is None:
                raise Unsupported('raise of an unnamed exception')
            self.results.append((path, ('raise', name)))
            return []
        if isinstance(st, ast.Return):
            if st.value is None:
                raise Unsupported('bare return')
            self.results.append((path, ('return', self.ev(st.value, env, path))))
            return []
        raise Unsupported('statement %s' % type(st).__name__)


# ----------------------------------------------------------------------------- driver
def function_ast(func):
    src = textwrap.dedent(inspect.getsource(func))
    tree = ast.parse(src)
    fn = tree.body[0]
    if not isinstance(fn, ast.FunctionDef):
        raise Unsupported('not a function definition')
    return fn, src


def solve(formulas, timeout_ms):
    s = z3.Solver()
    s.set('timeout', int(timeout_ms))
    s.add(*formulas)
    t0 = time.time()
    r = s.check()
    dt = time.time() - t0
    if r == z3.sat:
        return 'sat', s.model(), dt
    if r == z3.unsat:
        return 'unsat', None, dt
    return 'unknown', None, dt


def model_fields(ctx, model, extra=()):
    out = {}
    for name, var in list(ctx.fields.items()) + list(extra):
        v = model.eval(var, model_completion=True)
        try:
            out[name] = v.as_long()
        except Exception:  # noqa
            out[name] = str(v)
    return out


def eval_value(model, v):
    """Concrete Python value of a symbolic result under a model (for the cross-check against CPython)."""
    def num(e):
        return model.eval(e, model_completion=True).as_long()
    if isinstance(v, list):
        return [eval_value(model, x) for x in v]
    if isinstance(v, GenList):
        n = num(v.n)
        return [[num(x) for x in v.elem(z3.IntVal(i))] for i in range(n)]
    if isinstance(v, Bag):
        out = []
        for p in v.parts:
            out += eval_value(model, p)
        return out
    return num(v)
