"""Machine-checked mathematical lemmas (Lean 4 + Mathlib) that connect discharged per-shape obligations to the property's
all-dimension statement.  A lemma never depends on /repo, so it can only be `discharged` or `undecided` (tool failure), never a
violation.  Every run: scan the source for escape hatches, compile it with `lean`, and ask `#print axioms` for each theorem --
only the three standard axioms of Lean's classical logic are accepted."""
import os
import re
import shutil
import subprocess
import tempfile
import time

ROOT = os.path.dirname(os.path.dirname(os.path.abspath(__file__)))
ALLOWED_AXIOMS = {'propext', 'Classical.choice', 'Quot.sound'}
FORBIDDEN = re.compile(r'\b(sorry|admit|axiom|unsafe|native_decide|implemented_by|extern)\b')


def run_lemma(inst, timeout=600.0):
    spec = inst.lemma
    t0 = time.time()
    rep = {'key': inst.key, 'prop': inst.prop, 'func': inst.func, 'name': inst.name, 'obligations': [], 'paths': 1,
           'infeasible': 0, 'undecided': [], 'violations': [], 'assumptions': list(spec.get('assumptions', [])),
           'crosscheck': {'samples': 0, 'compared': 0, 'mismatch': []},
           'vacuity': {'valid_samples': 1, 'defs_checked': 0, 'defs_bad': []}, 'solver_time': 0.0, 'backends': {},
           'sample_obligation': None, 'error': None, 'tags': list(inst.tags) + ['lemma']}
    src_path = os.path.join(ROOT, spec['file'])
    theorems = list(spec['theorems'])

    def undecided(reason):
        for th in theorems:
            rep['obligations'].append({'name': 'lemma:' + th, 'status': 'undecided', 'time': 0.0, 'backend': 'lean4', 'kind': 'lemma', 'nassert': 0})
            rep['undecided'].append({'obligation': 'lemma:' + th, 'reason': reason[:300]})
        rep['wall'] = round(time.time() - t0, 3)
        return rep

    lean = shutil.which('lean')
    if lean is None:
        return undecided('lean not on PATH')
    try:
        src = open(src_path).read()
    except OSError as e:
        return undecided('cannot read %s: %s' % (spec['file'], e))
    code = re.sub(r'/-.*?-/', '', src, flags=re.S)
    code = re.sub(r'--.*', '', code)
    bad = FORBIDDEN.search(code)
    if bad:
        return undecided('escape hatch %r in %s' % (bad.group(0), spec['file']))
    scratch = os.path.join(ROOT, 'scratch')
    os.makedirs(scratch, exist_ok=True)
    tmpdir = tempfile.mkdtemp(prefix='lean_', dir=scratch)
    try:
        fn = os.path.join(tmpdir, os.path.basename(src_path))
        with open(fn, 'w') as fh:
            fh.write(src + '\n' + ''.join('#print axioms %s\n' % th for th in theorems))
        try:
            p = subprocess.run([lean, fn], capture_output=True, text=True, timeout=timeout, cwd=tmpdir)
        except subprocess.TimeoutExpired:
            return undecided('lean timed out after %.0f s' % timeout)
        out = p.stdout + p.stderr
        dt = time.time() - t0
        rep['solver_time'] = round(dt, 2)
        if p.returncode != 0 or re.search(r'\berror\b', out):
            return undecided('lean rejected %s: %s' % (spec['file'], out.strip()[:200]))
        for th in theorems:
            m = re.search(r"'%s' depends on axioms: \[([^\]]*)\]" % re.escape(th), out)
            m0 = re.search(r"'%s' does not depend on any axioms" % re.escape(th), out)
            if m0:
                axioms = set()
            elif m:
                axioms = {a.strip() for a in m.group(1).split(',') if a.strip()}
            else:
                rep['obligations'].append({'name': 'lemma:' + th, 'status': 'undecided', 'time': 0.0, 'backend': 'lean4', 'kind': 'lemma', 'nassert': 0})
                rep['undecided'].append({'obligation': 'lemma:' + th, 'reason': 'theorem not found in the lean output'})
                continue
            if axioms - ALLOWED_AXIOMS:
                rep['obligations'].append({'name': 'lemma:' + th, 'status': 'undecided', 'time': 0.0, 'backend': 'lean4', 'kind': 'lemma', 'nassert': 0})
                rep['undecided'].append({'obligation': 'lemma:' + th, 'reason': 'non-standard axioms: %s' % sorted(axioms - ALLOWED_AXIOMS)})
                continue
            rep['obligations'].append({'name': 'lemma:' + th, 'status': 'discharged', 'time': round(dt / max(1, len(theorems)), 3),
                                       'backend': 'lean4', 'kind': 'lemma', 'nassert': 1})
            rep['backends']['lean4+mathlib'] = rep['backends'].get('lean4+mathlib', 0) + 1
        if rep['sample_obligation'] is None:
            rep['sample_obligation'] = {'instance': inst.key, 'obligation': 'lemma:' + theorems[0], 'assertions': 1,
                                        'smt2_head': '(lean source) ' + spec.get('statement', '')[:1200]}
    finally:
        shutil.rmtree(tmpdir, ignore_errors=True)
    rep['wall'] = round(time.time() - t0, 3)
    return rep
