"""Loop cutting for inductive (unbounded) arguments about `for iteration in range(iterations)` loops.

The function is re-read from the repository source on every call (inspect.getsource of the imported function object) and
split *mechanically* with `ast` into

    prologue : the statements before the loop          -> returns the local variables (the loop-head state, k = 0)
    body     : the statements of the loop body         -> state in, state out
    epilogue : the statements after the loop           -> returns whatever the function returns

Each piece is compiled with the real file name and line numbers and executed in the real module namespace, so it is the
text that runs; the only thing that is dropped is the `for` header, which is replaced by induction over the number of
iterations.  What the induction assumes about Python: `for v in range(n)` executes the body n times in sequence with no
other effect than binding v; this is sound for the body only if it neither reads the loop variable nor contains
break / continue / return / yield and the loop has no else clause -- `cut_loop` checks this and raises `NotCuttable`
(-> undecided) otherwise.
"""
import ast
import inspect
import textwrap


class NotCuttable(Exception):
    pass


def _is_range_loop(node):
    return (isinstance(node, ast.For) and isinstance(node.iter, ast.Call) and isinstance(node.iter.func, ast.Name)
            and node.iter.func.id == 'range' and len(node.iter.args) == 1 and not node.iter.keywords)


class Pieces:
    def __init__(self, func, prologue, body, epilogue, varnames, loop_var, count_expr, lineno):
        self.func, self.prologue, self.body, self.epilogue = func, prologue, body, epilogue
        self.varnames, self.loop_var, self.count_expr, self.lineno = varnames, loop_var, count_expr, lineno


def _piece(func, stmts, name, varnames, return_locals, filename):
    body = []
    for v in varnames:
        body.extend(ast.parse('if %r in _st_: %s = _st_[%r]' % (v, v, v)).body)
    body.extend(stmts)
    if return_locals:
        body.extend(ast.parse('_ret_ = dict(locals())\nreturn _ret_').body)
    fdef = ast.FunctionDef(name=name, args=ast.arguments(posonlyargs=[], args=[ast.arg(arg='_st_')], kwonlyargs=[], kw_defaults=[],
                                                         defaults=[]), body=body, decorator_list=[], type_params=[])
    mod = ast.Module(body=[fdef], type_ignores=[])
    ast.fix_missing_locations(mod)
    g = func.__globals__
    code = compile(mod, filename, 'exec')
    ns = {}
    exec(code, g, ns)           # the function object keeps g as its globals: module-level stubs are seen
    f = ns[name]

    def run(state):
        res = f(dict(state))
        if return_locals:
            res.pop('_st_', None)
            res.pop('_ret_', None)
        return res
    return run


def cut_loop(func):
    func = inspect.unwrap(func)
    func = getattr(func, '__func__', func)
    src = textwrap.dedent(inspect.getsource(func))
    tree = ast.parse(src)
    fdef = tree.body[0]
    if not isinstance(fdef, ast.FunctionDef):
        raise NotCuttable('not a plain function')
    ast.increment_lineno(tree, func.__code__.co_firstlineno - 1)
    idx = [i for i, s in enumerate(fdef.body) if _is_range_loop(s)]
    if len(idx) != 1:
        raise NotCuttable('%d top-level range loops in %s' % (len(idx), func.__qualname__))
    i = idx[0]
    loop = fdef.body[i]
    if loop.orelse:
        raise NotCuttable('loop has an else clause')
    if not isinstance(loop.target, ast.Name):
        raise NotCuttable('loop target is not a name')
    loop_var = loop.target.id
    for node in ast.walk(ast.Module(body=loop.body, type_ignores=[])):
        if isinstance(node, (ast.Break, ast.Continue, ast.Return, ast.Yield, ast.YieldFrom, ast.Global, ast.Nonlocal)):
            raise NotCuttable('loop body contains %s (line %d)' % (type(node).__name__, node.lineno))
        if isinstance(node, ast.Name) and node.id == loop_var:
            raise NotCuttable('loop body uses the loop variable %r (line %d)' % (loop_var, node.lineno))
        if isinstance(node, (ast.FunctionDef, ast.Lambda, ast.ClassDef)):
            raise NotCuttable('loop body defines a nested scope (line %d)' % node.lineno)
    for s in fdef.body[:i] + fdef.body[i + 1:]:
        for node in ast.walk(s):
            if isinstance(node, (ast.Yield, ast.YieldFrom, ast.Global, ast.Nonlocal)):
                raise NotCuttable('generator / global statement')
    if func.__code__.co_freevars:
        raise NotCuttable('closure')
    varnames = [v for v in func.__code__.co_varnames]
    filename = inspect.getsourcefile(func)
    nparams = func.__code__.co_argcount + func.__code__.co_kwonlyargcount
    params = list(func.__code__.co_varnames[:nparams])
    pro = _piece(func, fdef.body[:i], '_pbv_prologue', varnames, True, filename)
    body = _piece(func, loop.body, '_pbv_body', varnames, True, filename)
    epi = _piece(func, fdef.body[i + 1:], '_pbv_epilogue', varnames, False, filename)
    p = Pieces(func, pro, body, epi, varnames, loop_var, ast.unparse(loop.iter.args[0]), loop.lineno)
    p.params = params
    names = [n for st in loop.body for n in ast.walk(st) if isinstance(n, ast.Name)]
    p.body_stores = {n.id for n in names if isinstance(n.ctx, (ast.Store, ast.Del))}
    p.body_loads = {n.id for n in names if isinstance(n.ctx, ast.Load)}
    p.signature = inspect.signature(func)
    return p


def bind_state(pieces, *args, **kwargs):
    """The state at function entry: the parameters bound as Python would bind them (defaults applied)."""
    ba = pieces.signature.bind(*args, **kwargs)
    ba.apply_defaults()
    return dict(ba.arguments)
