"""Check driver: `python -m pbv.runner <PROPERTY> --tier quick|thorough`.

Exit codes: 0 = every generated obligation discharged and every bounded evaluation passed
(KNOWN-FINDING lines allowed); 1 = at least one violation not listed in known_findings.json
(printed as `VIOLATION property=<id> replay=<path>`); 2 = nothing violated but some
obligation undecided; 3 = checker crash.  `unknown`, timeouts and tracebacks of the checker
are never mapped to a violation.
"""
import argparse
import hashlib
import importlib
import json
import multiprocessing as mp
import os
import random
import re
import sys
import time
import traceback

ROOT = os.path.dirname(os.path.dirname(os.path.abspath(__file__)))
REPO = os.environ.get('PB_BSS_REPO', '/repo')
if REPO not in sys.path:
    sys.path.insert(0, REPO)
if ROOT not in sys.path:
    sys.path.insert(0, ROOT)

import warnings  # noqa
warnings.filterwarnings('ignore')

from . import instance as I  # noqa
from . import expr as E  # noqa

TRUSTED_BASE = [
    'real arithmetic stands for IEEE-754 arithmetic; float literals of the code are exact rationals of the double',
    'pbv.symnp handlers for the NumPy API (cross-checked against CPython+NumPy on concrete samples on every run)',
    'NumPy entry points rebound during a symbolic run: ' + ', '.join(I.symnp.PATCHED_ENTRY_POINTS),
    'NumPy indexing/view/broadcast machinery on object arrays, NumPy dispatch (NEP-13/NEP-18), CPython',
    'z3 5.1 (Python API, default + qfnra-nlsat), cvc5 1.0.3 (CLI) as solvers',
    'array shapes are concrete per instance: a discharged obligation holds for all element values at the listed shapes',
]


def _worker(conn, modname, idx, tier, seed, replay_dir, mode, prefix=None, first=True):
    from .solve import _die_with_parent
    _die_with_parent()
    try:
        mod = importlib.import_module(modname)
        insts = mod.instances(tier)
        inst = insts[idx]
        if mode == 'bounded':
            rep = run_bounded(inst, tier, seed, replay_dir)
        elif mode == 'lemma':
            from . import lemmas
            rep = lemmas.run_lemma(inst)
        elif mode == 'custom':
            rep = inst.lemma['run'](inst, tier, seed, replay_dir)
        elif mode == 'probe':
            rep = {'key': inst.key, 'prefixes': I.probe_prefixes(inst), 'error': None}
        else:
            rep = I.run_instance(inst, tier=tier, seed=seed, replay_dir=replay_dir, prefix=prefix, first_shard=first)
    except BaseException as e:  # noqa
        rep = {'key': '%s[%d]' % (modname, idx), 'error': ''.join(traceback.format_exception(type(e), e, e.__traceback__))[-3000:]}
    try:
        conn.send(rep)
    except Exception as e:  # noqa
        conn.send({'key': '%s[%d]' % (modname, idx), 'error': 'unpicklable report: %s' % e})
    conn.close()


def run_bounded(inst, tier, seed, replay_dir):
    """Bounded stand-in: the same contract evaluated natively (floats, tolerances) on a seeded input family."""
    t0 = time.time()
    n = inst.bounded_n * (10 if tier == 'thorough' else 1)
    rep = {'key': inst.key, 'prop': inst.prop, 'func': inst.func, 'name': inst.name, 'bounded': True,
           'evaluations': 0, 'valid': 0, 'distinct': 0, 'checked_clauses': 0, 'violations': [], 'samples': [],
           'error': None, 'undecided': [], 'obligations': [], 'tags': list(inst.tags)}
    seen = set()
    reported = set()
    if getattr(inst, 'fixed_seed', False):
        seed = 0
    for i in range(n):
        s = seed * 1000003 + i
        try:
            nat = I.native_run(inst, {}, s)
        except Exception as e:  # noqa
            rep['error'] = ''.join(traceback.format_exception(type(e), e, e.__traceback__))[-3000:]
            break
        rep['evaluations'] += 1
        if not nat.get('valid'):
            continue
        rep['valid'] += 1
        h = hashlib.sha1(repr(sorted(nat['inputs'].items())).encode()).hexdigest()
        if h not in seen and nat.get('checked'):
            seen.add(h)
        rep['checked_clauses'] += len(nat.get('checked', []))
        if len(rep['samples']) < 2:
            rep['samples'].append({'instance': inst.key, 'n_inputs': len(nat['inputs']),
                                   'first_inputs': dict(list(nat['inputs'].items())[:6]),
                                   'clauses': nat.get('checked', [])[:8]})
        failed = list(nat.get('failed', []))
        if nat.get('mutated') and inst.frame:
            failed.append('frame[%s]' % ','.join(nat['mutated']))
        failed = [f_ for f_ in failed if f_ not in reported]
        if failed and len(reported) < 8:
            for name in failed[:3]:
                reported.add(name)
                payload = {'property': inst.prop, 'function': inst.func, 'instance': inst.name, 'obligation': name,
                           'kind': 'bounded', 'seed': s, 'inputs': I._jsonable(nat['inputs']),
                           'native_failed': failed,
                           'native_outcome': I._exc_str(nat['outcome'][1]) if nat['outcome'][0] == 'exc' else
                           I._jsonable([(p, __import__('numpy').asarray(v)) for p, v in I.flatten(nat['outcome'][1])][:6])}
                fn = None
                if replay_dir:
                    os.makedirs(replay_dir, exist_ok=True)
                    fn = os.path.join(replay_dir, I._safe('bounded__%s__%s__%s' % (inst.func.split(':')[-1], inst.name, name)) + '.json')
                    with open(fn, 'w') as fh:
                        json.dump(payload, fh, indent=1)
                rep['violations'].append({'obligation': name, 'kind': 'bounded', 'confirmed': True, 'replay': fn,
                                          'no_input': False, 'exception': payload['native_outcome'] if nat['outcome'][0] == 'exc' else None})
            # keep going: a failure that is a listed known finding must not hide a different violation later in the family
    rep['distinct'] = len(seen)
    rep['wall'] = round(time.time() - t0, 3)
    return rep


def load_known():
    fn = os.path.join(ROOT, 'known_findings.json')
    if not os.path.exists(fn):
        return []
    with open(fn) as fh:
        return json.load(fh).get('findings', [])


def match_known(known, prop, func, inst_name, obligation):
    for k in known:
        if k.get('status') != 'known' or k.get('property') != prop:
            continue
        if k.get('function') and k['function'] != func:
            continue
        if k.get('instance') and not re.search(k['instance'], inst_name):
            continue
        if k.get('obligation') and not re.search(k['obligation'], obligation):
            continue
        return k
    return None


def main(argv=None):
    ap = argparse.ArgumentParser()
    ap.add_argument('prop')
    ap.add_argument('--tier', default=os.environ.get('VERIF_TIER', 'quick'))
    ap.add_argument('--jobs', type=int, default=int(os.environ.get('VERIF_JOBS', '16')))
    ap.add_argument('--only', default=None, help='substring filter on instance keys')
    ap.add_argument('--replay', default=None)
    ap.add_argument('--no-evidence', action='store_true')
    ap.add_argument('--verbose', '-v', action='store_true')
    args = ap.parse_args(argv)
    tier = 'thorough' if args.tier == 'thorough' else 'quick'
    seed = int(os.environ.get('VERIF_SEED', '0') or 0)
    prop = args.prop.upper()
    t0 = time.time()
    if args.replay:
        return do_replay(prop, args.replay)
    modname = 'contracts.%s' % prop.lower()
    try:
        mod = importlib.import_module(modname)
        insts = mod.instances(tier)
    except Exception:
        traceback.print_exc()
        print('CHECKER-ERROR property=%s cannot load contracts' % prop)
        return 3
    meta = getattr(mod, 'META', {})
    replay_dir = os.path.join(os.environ.get('VERIF_REPLAY_ROOT') or os.path.join(ROOT, 'replays'), prop)
    if os.path.isdir(replay_dir):
        for f in os.listdir(replay_dir):
            os.unlink(os.path.join(replay_dir, f))
    jobs = []
    for idx, inst in enumerate(insts):
        if args.only and args.only not in inst.key:
            continue
        jobs.append((idx, inst))
    # heavier first
    jobs.sort(key=lambda j: -getattr(j[1], 'weight', 1.0))
    reports = run_pool(modname, jobs, tier, seed, replay_dir, args.jobs, args.verbose)
    return finish(prop, tier, seed, meta, insts, reports, t0, args)


def run_pool(modname, jobs, tier, seed, replay_dir, njobs, verbose):
    ctx = mp.get_context('fork')
    # job = (idx, inst, mode, prefix, first)
    pending = []
    for idx, inst in jobs:
        mode = getattr(inst, 'mode', 'proof')
        mode = mode if mode in ('bounded', 'lemma', 'custom') else 'proof'
        if mode == 'proof' and getattr(inst, 'shard_depth', 0) > 0:
            pending.append((idx, inst, 'probe', None, True))
        else:
            pending.append((idx, inst, mode, None, True))
    running = {}
    reports = []
    probing = {}
    t_start = time.time()
    # load at the start of the run relative to the number of cores (1 = idle or fully used by this run alone; capped at 4)
    if 'VERIF_TIME_SCALE' not in os.environ:
        try:
            os.environ['VERIF_TIME_SCALE'] = '%.2f' % max(1.0, min(4.0, os.getloadavg()[0] / max(1, os.cpu_count() or 1)))
        except OSError:
            os.environ['VERIF_TIME_SCALE'] = '1'
    tscale = float(os.environ['VERIF_TIME_SCALE'])
    hard = float(os.environ.get('VERIF_DEADLINE', '0') or 0) or (3300.0 if tier == 'thorough' else 840.0) * tscale
    while pending or running:
        if time.time() - t_start > hard:
            # global wall-clock limit of one check run: what is left is undecided, never a violation
            for pid, (p, pc, inst, deadline, started) in list(running.items()):
                p.kill()
                p.join(2)
                reports.append((inst, {'key': inst.key, 'prop': inst.prop, 'func': inst.func, 'name': inst.name,
                                       'undecided': [{'obligation': '*', 'reason': 'check wall-clock limit'}],
                                       'obligations': [], 'violations': [], 'error': None, 'timeout': True}))
            for idx, inst, mode, prefix, first in pending:
                reports.append((inst, {'key': inst.key, 'prop': inst.prop, 'func': inst.func, 'name': inst.name,
                                       'undecided': [{'obligation': '*', 'reason': 'check wall-clock limit (not started)'}],
                                       'obligations': [], 'violations': [], 'error': None, 'timeout': True}))
            break
        while pending and len(running) < njobs:
            idx, inst, mode, prefix, first = pending.pop(0)
            pc, cc = ctx.Pipe(duplex=False)
            p = ctx.Process(target=_worker, args=(cc, modname, idx, tier, seed, replay_dir, mode, prefix, first))
            p.start()
            cc.close()
            probing[p.pid] = (idx, mode)
            limit = getattr(inst, 'wall', None) or (inst.timeout * 12 + 90)
            if tier == 'thorough':
                limit *= 4
            limit *= tscale
            running[p.pid] = (p, pc, inst, time.time() + limit, time.time())
        done = []
        for pid, (p, pc, inst, deadline, started) in running.items():
            if pc.poll(0.0):
                try:
                    rep = pc.recv()
                except EOFError:
                    rep = {'key': inst.key, 'error': 'worker died without a report (exit %s)' % p.exitcode}
                p.join(5)
                if probing.get(pid, (None, None))[1] == 'probe' and not rep.get('error'):
                    pf = rep.get('prefixes') or [[]]
                    for j, pre in enumerate(pf):
                        pending.insert(0, (probing[pid][0], inst, 'proof', pre, j == 0))
                else:
                    reports.append((inst, rep))
                done.append(pid)
                if verbose:
                    print('  done %-90s %.1fs' % (inst.key[:90], time.time() - started), flush=True)
            elif not p.is_alive():
                if pc.poll(0.2):
                    continue
                reports.append((inst, {'key': inst.key, 'error': 'worker died without a report (exit %s)' % p.exitcode}))
                done.append(pid)
            elif time.time() > deadline:
                p.kill()
                p.join(5)
                reports.append((inst, {'key': inst.key, 'prop': inst.prop, 'func': inst.func, 'name': inst.name,
                                       'undecided': [{'obligation': '*', 'reason': 'instance wall-clock limit'}],
                                       'obligations': [], 'violations': [], 'error': None, 'timeout': True}))
                done.append(pid)
        for pid in done:
            running[pid][1].close()
            del running[pid]
        if not done:
            time.sleep(0.02)
    return reports


def finish(prop, tier, seed, meta, insts, reports, t0, args):
    known = load_known()
    n_obl = n_dis = n_fail = n_undec = 0
    solver_time = 0.0
    backends = {}
    funcs = {}
    violations = []
    known_hits = []
    undecided = []
    errors = []
    assumptions = set()
    paths = 0
    cc_samples = cc_compared = 0
    cc_mismatch = []
    defs_checked = 0
    defs_bad = []
    b_eval = b_valid = b_distinct = b_clauses = 0
    samples = []
    inst_count = {'proof': 0, 'bounded': 0}
    vac_bad = []
    for inst, rep in reports:
        if rep.get('error'):
            errors.append((inst.key, rep['error']))
            continue
        if rep.get('bounded'):
            inst_count['bounded'] += 1
            b_eval += rep['evaluations']
            b_valid += rep['valid']
            b_distinct += rep['distinct']
            b_clauses += rep['checked_clauses']
            for s in rep['samples'][:1]:
                if len(samples) < 6:
                    samples.append({'bounded_case': s})
            if rep['valid'] == 0:
                vac_bad.append(inst.key + ' (no valid bounded sample)')
        else:
            inst_count['proof'] += 1
            f = funcs.setdefault(inst.func, {'instances': 0, 'obligations': 0, 'discharged': 0})
            f['instances'] += 1
            for ob in rep.get('obligations', []):
                n_obl += 1
                f['obligations'] += 1
                if ob['status'] == 'discharged':
                    n_dis += 1
                    f['discharged'] += 1
                elif ob['status'] == 'failed':
                    n_fail += 1
                else:
                    n_undec += 1
            solver_time += rep.get('solver_time', 0.0)
            for k, v in rep.get('backends', {}).items():
                backends[k] = backends.get(k, 0) + v
            assumptions |= set(rep.get('assumptions', []))
            paths += rep.get('paths', 0)
            cc = rep.get('crosscheck', {})
            cc_samples += cc.get('samples', 0)
            cc_compared += cc.get('compared', 0)
            for m in cc.get('mismatch', []):
                cc_mismatch.append((inst.key, m))
            nt = rep.get('native', {})
            b_eval += nt.get('evaluations', 0)
            b_valid += nt.get('valid', 0)
            b_distinct += nt.get('valid', 0)
            b_clauses += nt.get('clauses', 0)
            defs_checked += rep.get('vacuity', {}).get('defs_checked', 0)
            for d in rep.get('vacuity', {}).get('defs_bad', []):
                defs_bad.append((inst.key, d))
            if rep.get('vacuity', {}).get('valid_samples', 1) == 0 and not rep.get('timeout'):  # None: not sampled (shard)
                vac_bad.append(inst.key + ' (no concrete input satisfies the precondition)')
            if not rep.get('timeout') and not rep.get('undecided') and rep.get('paths', 0) == 0 and rep.get('shard') is None:
                vac_bad.append(inst.key + ' (no feasible path)')
            if rep.get('sample_obligation') and len(samples) < 6:
                samples.append({'obligation_case': rep['sample_obligation']})
        for u in rep.get('undecided', []):
            undecided.append((inst.key, u))
        for v in rep.get('violations', []):
            k = match_known(known, inst.prop, inst.func, inst.name, v['obligation'])
            if k is not None:
                known_hits.append((k, inst, v))
            else:
                violations.append((inst, v))
    slow = float(os.environ.get('VERIF_SLOW', '0') or 0)
    if slow:
        for inst, rep in reports:
            for ob in rep.get('obligations', []):
                if ob.get('time', 0) >= slow:
                    print('SLOW %.1fs %s %s :: %s' % (ob['time'], ob.get('backend'), inst.key, ob['name']))
    # ---- engine soundness guards: never reported as property violations
    engine_bad = []
    if cc_mismatch:
        engine_bad.append('engine cross-check mismatch: %s' % (cc_mismatch[:3],))
    if defs_bad:
        engine_bad.append('definitions inconsistent at a concrete sample: %s' % (defs_bad[:3],))
    if vac_bad:
        engine_bad.append('vacuity guard: %s' % (vac_bad[:3],))
    ledger_exp = meta.get('min_obligations', 1)
    if inst_count['proof'] and n_obl < ledger_exp and not args.only and not undecided:
        engine_bad.append('only %d obligations generated (expected at least %d)' % (n_obl, ledger_exp))
    # ---- output
    printed = set()
    for k, inst, v in known_hits:
        line = 'KNOWN-FINDING: property=%s %s' % (prop, k.get('what', k.get('obligation', '')))
        if line not in printed:
            print(line)
            printed.add(line)
    exit_code = 0
    for inst, v in violations:
        rp = v.get('replay') or os.path.join(ROOT, 'replays', prop, 'none.json')
        tail = ' no-failing-input-found' if v.get('no_input') else ''
        if v.get('no_input') and v.get('has_uf'):
            # model exploits an uninterpreted transcendental and nothing reproduces: undecided, not a violation
            undecided.append((inst.key, {'obligation': v['obligation'], 'reason': 'counter-model not reproducible (transcendental)'}))
            continue
        if v.get('no_input') and v.get('engine_origin'):
            # an exception raised inside one of the engine's own NumPy handlers that no native run reproduces: the engine does not
            # model this call faithfully (engine gap), the code under contract is not shown to fail
            undecided.append((inst.key, {'obligation': v['obligation'], 'reason': 'exception inside an engine handler, not reproduced natively: %s' % (v.get('exception') or '')[:120]}))
            continue
        print('  failed obligation %s :: %s%s' % (inst.key, v['obligation'], (' :: ' + v['exception']) if v.get('exception') else ''))
        print('VIOLATION property=%s replay=%s%s' % (prop, rp, tail))
        exit_code = 1
    for key, u in undecided[:40]:
        print('UNDECIDED obligation=%s :: %s :: %s' % (key, u.get('obligation'), u.get('reason', '')[:200]))
    for key, err in errors[:10]:
        print('CHECKER-ERROR instance=%s\n%s' % (key, err))
    for e in engine_bad:
        print('ENGINE-GUARD %s' % e)
    if exit_code == 0:
        if errors or engine_bad:
            exit_code = 3
        elif undecided:
            exit_code = 2
    wall = time.time() - t0
    proved = inst_count['proof'] > 0 and n_dis == n_obl and n_obl > 0
    level = meta.get('level', 'proof')
    if level == 'proof' and not proved:
        level = 'other'
    cov = {
        'obligations': n_obl, 'discharged': n_dis, 'failed': n_fail, 'undecided': n_undec,
        'checker_cmd': './check %s --tier %s' % (prop, tier),
        'trusted_base': TRUSTED_BASE,
        'functions_under_contract': funcs,
        'instances': inst_count, 'paths_explored': paths,
        'solver_time_s': round(solver_time, 2), 'backends': backends,
        'engine_crosscheck': {'concrete_samples': cc_samples, 'values_compared_with_cpython': cc_compared,
                              'mismatches': len(cc_mismatch)},
        'definitions_checked_at_samples': defs_checked,
        'known_findings_hit': sorted({k.get('what', '') for k, _, _ in known_hits}),
        'evaluations': max(b_eval, 0) + n_obl,
        'distinct_nontrivial': b_distinct + n_dis,
        'bounded': {'evaluations': b_eval, 'valid': b_valid, 'distinct_inputs': b_distinct, 'clauses_checked': b_clauses,
                    'label': 'bounded stand-in, never counted as proved'},
        'rule': ('deductive part: one obligation per (instance, path, postcondition clause / definedness / frame); an '
                 'obligation counts when its VC was decided by a solver (dedup of identical VCs is not counted twice in '
                 'distinct_nontrivial). bounded part: seeded random inputs per bounded instance; a case is non-trivial '
                 'and distinct when it satisfies the precondition, at least one contract clause was evaluated on it '
                 'and its input hash is new.'),
        'samples': samples or [{'note': 'no sample recorded'}],
        'explanation': meta.get('explanation', ''),
        'clauses': meta.get('clauses', {}),
    }
    ev = {
        'property_id': prop, 'tier': tier, 'seed': seed, 'level': level, 'coverage': cov,
        'assumptions': sorted(assumptions) + list(meta.get('assumptions', [])),
        'wall_s': round(wall, 2), 'violations': len(violations),
    }
    if not args.no_evidence and not args.only:
        os.makedirs(os.path.join(ROOT, 'evidence'), exist_ok=True)
        with open(os.path.join(ROOT, 'evidence', '%s.json' % prop), 'w') as fh:
            json.dump(ev, fh, indent=1)
    print('%s tier=%s: %d instances (%d bounded), %d paths, %d obligations: %d discharged, %d failed, %d undecided; '
          'bounded %d/%d valid evaluations; known findings %d; violations %d; %.1fs (solver %.1fs) -> exit %d'
          % (prop, tier, inst_count['proof'] + inst_count['bounded'], inst_count['bounded'], paths, n_obl, n_dis, n_fail,
             n_undec, b_valid, b_eval, len(printed), len(violations), wall, solver_time, exit_code))
    return exit_code


def do_replay(prop, path):
    """Re-run a recorded counterexample on the real code."""
    with open(path) as fh:
        payload = json.load(fh)
    mod = importlib.import_module('contracts.%s' % prop.lower())
    cand = [i for t in ('quick', 'thorough') for i in mod.instances(t)
            if i.func == payload['function'] and i.name == payload['instance']]
    if not cand:
        print('replay: instance %s not found' % payload['instance'])
        return 3
    inst = cand[0]
    if getattr(inst, 'mode', '') == 'custom':
        bad = inst.lemma['replay'](payload)
        if bad:
            print('VIOLATION property=%s replay=%s' % (prop, path))
        return 1 if bad else 0
    env = payload.get('inputs') or payload.get('solver_model') or {}
    env = {k: v for k, v in env.items() if isinstance(v, (int, float))}
    nat = I.native_run(inst, env, payload.get('seed', 0), writable=payload.get('kind') == 'frame')
    print('replay of %s on the real %s' % (payload['obligation'], payload['function']))
    print('  valid input: %s; failed clauses: %s; mutated arguments: %s' % (nat.get('valid'), nat.get('failed'), nat.get('mutated')))
    out = nat.get('outcome')
    if out is not None:
        print('  outcome: %s' % (I._exc_str(out[1]) if out[0] == 'exc' else 'returned'))
    bad = bool(nat.get('failed')) or bool(nat.get('mutated'))
    if bad:
        print('VIOLATION property=%s replay=%s' % (prop, path))
        return 1
    return 0


if __name__ == '__main__':
    sys.exit(main())
