"""Symbolic scalars: real rational functions (R), complex pairs (C), booleans (SymBool).

A real scalar is num/den with num, den polynomial DAG nodes (expr.py), or a concrete
Python float (which may be +-inf).  Everything non-polynomial is *purified*: a fresh
variable plus a defining constraint recorded in the active context (Ctx), plus a
native evaluator so any term can be evaluated with floats (CPython cross-check,
model replay).
"""
import math
import cmath
import numbers
from fractions import Fraction

import numpy as np

from . import expr as E


class EngineGap(BaseException):
    """The symbolic engine cannot model this operation: the obligation is UNDECIDED."""


class Infeasible(BaseException):
    """The current path condition is unsatisfiable."""


# =========================================================================== context
class Ctx:
    def __init__(self):
        self.defs = []          # [(frozenset(defined names), formula)]   conservative definitions
        self.assumes = []       # [(label, formula)]  assumed contracts of externals / preconditions
        self.path = []          # branch decisions taken so far (formulas)
        self.oblig = []         # [(name, len(path) at creation, formula, where)] definedness obligations
        self.apps = {}          # uf name -> [(arg node tuple, var node)]
        self.evalfn = {}        # var name -> callable(ev) -> float/bool ; ev(node) evaluates a node
        self.pos = set()        # var names known > 0 (consequence of their definition)
        self.nonneg = set()     # var names known >= 0
        self.fresh = 0
        self.names = {}         # (num id, den id) -> purified var
        self.angles = {}        # theta var name -> (c node, s node, r node)
        self.keep = []          # keeps nodes alive
        # explorer state
        self.schedule = []
        self.decisions = []
        self.alts = []
        self.assumptions_used = set()   # labels of assumed external contracts used in this run
        self.inputs = {}        # input var name -> ('real'|'bool')
        self.notes = []

    def new_var(self, hint='t'):
        self.fresh += 1
        return E.var('%s!%d' % (hint, self.fresh))

    def add_def(self, vars_, formula, evalfns=None):
        names = frozenset(v.args[0] for v in vars_)
        self.defs.append((names, formula))
        if evalfns:
            for v, f in zip(vars_, evalfns):
                self.evalfn[v.args[0]] = f

    def assume(self, label, formula):
        self.assumes.append((label, formula))


_CTX = [Ctx()]
_EXPLORER = [None]
RUNNING = [False]      # True while the function under contract executes (creator patches active)


def ctx():
    return _CTX[0]


def set_ctx(c):
    _CTX[0] = c


def set_explorer(e):
    _EXPLORER[0] = e


# =========================================================================== sign knowledge
def known_pos(n):
    c = ctx()
    op = n.op
    if op == 'const':
        return n.args[0] > 0
    if op == 'var':
        return n.args[0] in c.pos
    if op == '*':
        a, b = n.args
        if known_pos(a) and known_pos(b):
            return True
        return False
    if op == '+':
        a, b = n.args
        return (known_pos(a) and known_nonneg(b)) or (known_nonneg(a) and known_pos(b))
    return False


def known_nonneg(n):
    c = ctx()
    op = n.op
    if op == 'const':
        return n.args[0] >= 0
    if op == 'var':
        return n.args[0] in c.pos or n.args[0] in c.nonneg
    if op == '*':
        a, b = n.args
        if a is b:
            return True
        return known_nonneg(a) and known_nonneg(b)
    if op == '+':
        return known_nonneg(n.args[0]) and known_nonneg(n.args[1])
    return False


# =========================================================================== real scalars
def _is_pyreal(x):
    return isinstance(x, (numbers.Real, np.floating, np.integer, np.bool_)) and not isinstance(x, (R, C))


def _is_pycomplex(x):
    return isinstance(x, (complex, np.complexfloating))


class R:
    """Real scalar: rational function n/d (d None == 1) or concrete float (n is a float)."""
    __slots__ = ('n', 'd')
    __array_priority__ = 1000

    def __init__(self, n, d=None):
        if d is not None and d.op == 'const':
            # constant denominators are folded into the numerator
            n = E.mul(n if isinstance(n, E.Node) else E.const(n), E.const(1 / d.args[0]))
            d = None
        self.n = n
        self.d = d

    # ---- construction
    @staticmethod
    def lift(x):
        if isinstance(x, R):
            return x
        if isinstance(x, SymBool):
            return ite(x, R(1.0), R(0.0))
        if isinstance(x, C) or _is_pycomplex(x):
            raise TypeError('complex where real expected')
        if isinstance(x, E.Node):
            return R(x)
        return R(float(x))

    def conc(self):
        return not isinstance(self.n, E.Node)

    def is_finite_conc(self):
        return self.conc() and math.isfinite(self.n)

    def num(self):
        return self.n if isinstance(self.n, E.Node) else E.const(self.n)

    def den(self):
        return self.d if self.d is not None else E.ONE

    def den_pos(self):
        return self.d is None or known_pos(self.d)

    def _sym(self):
        if self.conc():
            if not math.isfinite(self.n):
                raise EngineGap('symbolic arithmetic with inf/nan')
            return R(E.const(self.n))
        return self

    def norm(self):
        """Constant nodes that are exactly representable become concrete floats again."""
        if self.d is None and isinstance(self.n, E.Node) and self.n.op == 'const' and _exact_float(self.n.args[0]):
            return R(float(self.n.args[0]))
        return self

    # ---- arithmetic
    def _arith(self, o, op):
        r = self._arith0(o, op)
        return r.norm() if isinstance(r, R) else r

    def _arith0(self, o, op):
        if isinstance(o, C) or _is_pycomplex(o):
            return NotImplemented
        if isinstance(o, (SymArrayBase,)):
            return NotImplemented
        try:
            o = R.lift(o)
        except TypeError:
            return NotImplemented
        if self.conc() and o.conc():
            a, b = self.n, o.n
            return R(a + b if op == '+' else a - b if op == '-' else a * b)
        for x, y, first in ((self, o, True), (o, self, False)):
            if x.conc():
                if not math.isfinite(x.n):
                    raise EngineGap('symbolic arithmetic with inf/nan')
                if op == '*' and x.n == 1.0:
                    return y
                if op == '*' and x.n == 0.0:
                    return R(0.0)
                if op == '+' and x.n == 0.0:
                    return y
                if op == '-' and x.n == 0.0 and not first:
                    return y
        a, b = self._sym(), o._sym()
        if op == '*':
            if a.d is None and b.d is None:
                return R(E.mul(a.n, b.n))
            if a.d is not None and b.d is not None:
                # cancel trivially identical factors
                if a.d is b.n:
                    return R(a.n, b.d)
                if b.d is a.n:
                    return R(b.n, a.d)
                return R(E.mul(a.n, b.n), E.mul(a.d, b.d))
            if a.d is not None:
                if a.d is b.n:
                    return R(a.n)
                return R(E.mul(a.n, b.n), a.d)
            if b.d is a.n:
                return R(b.n)
            return R(E.mul(a.n, b.n), b.d)
        f = E.add if op == '+' else E.sub
        if a.d is None and b.d is None:
            return R(f(a.n, b.n))
        if a.d is b.d:
            return R(f(a.n, b.n), a.d)
        if a.d is None:
            return R(f(E.mul(a.n, b.d), b.n), b.d)
        if b.d is None:
            return R(f(a.n, E.mul(b.n, a.d)), a.d)
        return R(f(E.mul(a.n, b.d), E.mul(b.n, a.d)), E.mul(a.d, b.d))

    def __add__(self, o): return self._arith(o, '+')
    def __radd__(self, o): return R.lift(o)._arith(self, '+')
    def __sub__(self, o): return self._arith(o, '-')
    def __rsub__(self, o): return R.lift(o)._arith(self, '-')
    def __mul__(self, o): return self._arith(o, '*')
    def __rmul__(self, o): return R.lift(o)._arith(self, '*')

    def __truediv__(self, o):
        if isinstance(o, C) or _is_pycomplex(o):
            return C.lift(self) / o
        if isinstance(o, SymArrayBase):
            return NotImplemented
        return rdiv(self, R.lift(o))

    def __rtruediv__(self, o):
        if _is_pycomplex(o):
            return C.lift(o) / self
        return rdiv(R.lift(o), self)

    def __neg__(self):
        if self.conc():
            return R(-self.n)
        return R(E.neg(self.n), self.d)

    def __pos__(self):
        return self

    def __pow__(self, p):
        if isinstance(p, R) and p.conc():
            p = p.n
        if isinstance(p, (int, np.integer)) or (isinstance(p, (float, np.floating)) and float(p).is_integer()):
            p = int(p)
            if p >= 0:
                r = R(1.0)
                for _ in range(p):
                    r = r * self
                return r
            return R(1.0) / (self ** (-p))
        if isinstance(p, (float, np.floating)) and float(p) == 0.5:
            return self.sqrt()
        raise EngineGap('pow with exponent %r' % (p,))

    def __rpow__(self, base):
        if self.conc():
            return R(float(base) ** self.n)
        if float(base) == 10.0:
            return self._uf('pow10')
        raise EngineGap('rpow base %r' % (base,))

    def __float__(self):
        if self.conc():
            return float(self.n)
        raise EngineGap('float() of a symbolic scalar')

    def __int__(self):
        if self.conc():
            return int(self.n)
        raise EngineGap('int() of a symbolic scalar')

    def __bool__(self):
        if self.conc():
            return bool(self.n)
        return bool(self != 0.0)

    # ---- purification
    def term(self):
        """A polynomial node equal to this scalar (purifies a genuine fraction)."""
        if self.conc():
            return E.const(self.n)
        if self.d is None:
            return self.n
        c = ctx()
        key = (self.n.id, self.d.id)
        hit = c.names.get(key)
        if hit is not None:
            return hit
        v = c.new_var('q')
        n_, d_ = self.n, self.d
        c.add_def([v], E.cmp('==', E.mul(v, d_), n_), [lambda ev: ev(n_) / ev(d_)])
        if known_pos(d_) and known_pos(n_):
            c.pos.add(v.args[0])
        elif known_pos(d_) and known_nonneg(n_):
            c.nonneg.add(v.args[0])
        c.names[key] = v
        return v

    def __abs__(self):
        if self.conc():
            return R(abs(self.n))
        if self.den_pos() and known_nonneg(self.n):
            return self
        x = self.term()
        c = ctx()
        key = ('abs', x.id)
        hit = c.names.get(key)
        if hit is not None:
            return R(hit)
        v = c.new_var('abs')
        c.add_def([v], E.and_(E.cmp('>=', v, E.ZERO), E.or_(E.cmp('==', v, x), E.cmp('==', v, E.neg(x)))),
                  [lambda ev: abs(ev(x))])
        c.nonneg.add(v.args[0])
        c.names[key] = v
        return R(v)

    def conjugate(self): return self
    conj = conjugate

    @property
    def real(self): return self

    @property
    def imag(self): return R(0.0)

    def _uf(self, name):
        if self.conc():
            return R(_NATIVE[name](self.n))
        return R(uf_app(name, (self.term(),)))

    def exp(self): return self._uf('exp')

    def log(self):
        if not self.conc():
            _oblige('log-argument-positive', E.cmp('>', self.term(), E.ZERO))
        elif self.n <= 0:
            _oblige('log-argument-positive', E.FALSE)
            return R(float('-inf') if self.n == 0 else float('nan'))
        return self._uf('log')

    def log10(self):
        if not self.conc():
            _oblige('log10-argument-positive', E.cmp('>', self.term(), E.ZERO))
        elif self.n <= 0:
            _oblige('log10-argument-positive', E.FALSE)
            return R(float('-inf') if self.n == 0 else float('nan'))
        return self._uf('log10')

    def cos(self):
        if self.conc():
            return R(math.cos(self.n))
        cs = _cos_sin(self.term())
        return cs[0] if cs is not None else self._uf('cos')

    def sin(self):
        if self.conc():
            return R(math.sin(self.n))
        cs = _cos_sin(self.term())
        return cs[1] if cs is not None else self._uf('sin')

    def sqrt(self):
        if self.conc():
            if self.n < 0:
                _oblige('sqrt-argument-nonnegative', E.FALSE)
                return R(float('nan'))
            return R(math.sqrt(self.n))
        a = self.term()
        c = ctx()
        key = ('sqrt', a.id)
        hit = c.names.get(key)
        if hit is not None:
            return R(hit)
        # sqrt(x*x) for x known non-negative
        if a.op == '*' and a.args[0] is a.args[1] and known_nonneg(a.args[0]):
            return R(a.args[0])
        s = c.new_var('sqrt')
        c.add_def([s], E.and_(E.cmp('>=', s, E.ZERO), E.cmp('==', E.mul(s, s), a)),
                  [lambda ev: math.sqrt(max(ev(a), 0.0))])
        if not known_nonneg(a):
            _oblige('sqrt-argument-nonnegative', E.cmp('>=', a, E.ZERO))
        (c.pos if known_pos(a) else c.nonneg).add(s.args[0])
        c.names[key] = s
        return R(s)

    # ---- comparisons
    def _cmp(self, o, op):
        if isinstance(o, SymArrayBase):
            return NotImplemented
        if isinstance(o, C) or _is_pycomplex(o):
            return C.lift(self)._cmp(o, op)
        if isinstance(o, (str, bytes, type(None))):
            return NotImplemented
        o = R.lift(o)
        if self.conc() and o.conc():
            return _PYCMP[op](self.n, o.n)
        # infinities compare concretely against (finite) symbolic values
        for v, left in ((self, True), (o, False)):
            if v.conc() and math.isinf(v.n):
                big = 1.0 if v.n > 0 else -1.0
                return _PYCMP[op](big, 0.0) if left else _PYCMP[op](0.0, big)
            if v.conc() and math.isnan(v.n):
                return op == '!='
        return _wrapb(cmp_formula(self._sym(), o._sym(), op))

    def __lt__(self, o): return self._cmp(o, '<')
    def __le__(self, o): return self._cmp(o, '<=')
    def __gt__(self, o): return self._cmp(o, '>')
    def __ge__(self, o): return self._cmp(o, '>=')
    def __eq__(self, o): return self._cmp(o, '==')
    def __ne__(self, o): return self._cmp(o, '!=')
    __hash__ = None

    def __repr__(self):
        if self.conc():
            return 'R(%r)' % self.n
        return 'R(%s / %s)' % (E.to_str(self.n, 3), E.to_str(self.d, 3) if self.d is not None else '1')

    # ---- numpy scalar look-alike (protocols are attached in symnp.py)
    shape = ()
    ndim = 0
    size = 1
    dtype = np.dtype(np.float64)

    def item(self):
        return self

    def copy(self):
        return self

    def astype(self, dtype, **kw):
        dtype = np.dtype(dtype)
        if dtype.kind == 'c':
            return C.lift(self)
        return self


def _exact_float(fr):
    try:
        f = float(fr)
    except OverflowError:
        return False
    return Fraction(f) == fr


_PYCMP = {
    '<': lambda a, b: a < b, '<=': lambda a, b: a <= b, '>': lambda a, b: a > b,
    '>=': lambda a, b: a >= b, '==': lambda a, b: a == b, '!=': lambda a, b: a != b,
}

_NATIVE = {
    'exp': math.exp, 'log': math.log, 'log10': math.log10, 'cos': math.cos, 'sin': math.sin,
    'pow10': lambda x: 10.0 ** x,
}


def cmp_formula(a, b, op):
    """Formula for a op b; a, b symbolic R with non-zero denominators (cross-multiplied)."""
    if op == '>':           # canonical orientation: a >= b and b <= a yield the identical formula
        a, b, op = b, a, '<'
    elif op == '>=':
        a, b, op = b, a, '<='
    if a.d is None and b.d is None:
        return E.cmp(op, a.n, b.n)
    if a.d is b.d:
        diff, dd = E.sub(a.n, b.n), a.d
    elif a.d is None:
        diff, dd = E.sub(E.mul(a.n, b.d), b.n), b.d
    elif b.d is None:
        diff, dd = E.sub(a.n, E.mul(b.n, a.d)), a.d
    else:
        diff, dd = E.sub(E.mul(a.n, b.d), E.mul(b.n, a.d)), E.mul(a.d, b.d)
    if op in ('==', '!='):
        return E.cmp(op, diff, E.ZERO)
    if known_pos(dd):
        return E.cmp(op, diff, E.ZERO)
    # sign of the denominator unknown: multiply by dd (dd*dd > 0)
    return E.cmp(op, E.mul(diff, dd), E.ZERO)


def _where():
    """file:line of the innermost frame inside /repo (for messages)."""
    import sys
    f = sys._getframe(1)
    best = None
    while f is not None:
        fn = f.f_code.co_filename
        if '/pb_bss/' in fn and '/pbv/' not in fn:
            best = '%s:%d' % (fn, f.f_lineno)
            break
        f = f.f_back
    return best


def _oblige(name, formula):
    c = ctx()
    if formula is E.TRUE:
        return
    c.oblig.append((name, len(c.path), formula, _where()))


def rdiv(a, b):
    if a.conc() and b.conc():
        if b.n == 0:
            _oblige('division-by-zero', E.FALSE)
            return R(float('nan') if a.n == 0 or math.isnan(a.n) else math.copysign(float('inf'), a.n))
        return R(a.n / b.n)
    if b.conc():
        if math.isinf(b.n):
            return R(0.0)
        if b.n == 0:
            # x / 0.0 with symbolic x: IEEE gives +-inf (nan for 0/0); fork on the sign of x
            if _EXPLORER[0] is None:
                raise EngineGap('division by concrete zero')
            if a > 0.0:
                return R(math.copysign(float('inf'), b.n))
            if a < 0.0:
                return R(-math.copysign(float('inf'), b.n))
            _oblige('zero-over-zero', E.FALSE)
            return R(float('nan'))
        a = a._sym()
        inv = E.const(Fraction(1) / Fraction(b.n))
        return R(E.mul(a.n, inv), a.d)
    if a.conc() and a.n == 0.0:
        if not known_pos(b.num()):
            _oblige('division-by-zero', E.cmp('!=', b.n, E.ZERO))
        return R(0.0)
    a = a._sym()
    if not (known_pos(b.n)):
        _oblige('division-by-zero', E.cmp('!=', b.n, E.ZERO))
    if a.n is b.n and a.d is None and b.d is None:
        return R(1.0)
    # (a.n/a.d) / (b.n/b.d) = (a.n*b.d) / (a.d*b.n)
    num = a.n if b.d is None else E.mul(a.n, b.d)
    den = b.n if a.d is None else E.mul(a.d, b.n)
    if num is den:
        return R(1.0)
    return R(num, den).norm()


# =========================================================================== uninterpreted applications
def uf_app(name, args):
    c = ctx()
    lst = c.apps.setdefault(name, [])
    for a, v in lst:
        if all(x is y for x, y in zip(a, args)):
            return v
    v = c.new_var(name)
    lst.append((tuple(args), v))
    f = _NATIVE.get(name)
    if f is not None:
        a0 = args[0]
        c.evalfn[v.args[0]] = (lambda ev: _safe_native(f, ev(a0)))
    if name in ('exp', 'pow10'):
        c.pos.add(v.args[0])
    return v


def _safe_native(f, x):
    try:
        return f(x)
    except OverflowError:
        return float('inf')          # exp / 10**x beyond the double range: NumPy returns inf
    except ValueError:
        return float('nan')


def _as_var(t, hint):
    """A variable equal to the term t (keeps the trigonometric definitions over few variables)."""
    if t.op == 'var':
        return t
    c = ctx()
    key = ('asvar', t.id)
    hit = c.names.get(key)
    if hit is not None:
        return hit
    v = c.new_var(hint)
    c.add_def([v], E.cmp('==', v, t), [lambda ev: ev(t)])
    c.names[key] = v
    return v


def angle_of(re, im):
    """theta = arg(re + i im) with purified unit vector (c, s) and modulus r."""
    c = ctx()
    x, y = R.lift(re), R.lift(im)
    if x.conc() and y.conc():
        return R(math.atan2(y.n, x.n))
    xt, yt = _as_var(x.term(), 'argx'), _as_var(y.term(), 'argy')
    lst = c.apps.setdefault('arg', [])
    for a, v in lst:
        if a[0] is xt and a[1] is yt:
            return R(v)
    th = c.new_var('arg')
    lst.append(((xt, yt), th))
    r = (R(xt) * R(xt) + R(yt) * R(yt)).sqrt()
    rt = r.term()
    cv, sv = c.new_var('cosarg'), c.new_var('sinarg')
    c.add_def(
        [th, cv, sv],
        E.and_(
            E.implies(E.cmp('>', rt, E.ZERO), E.and_(E.cmp('==', E.mul(cv, rt), xt), E.cmp('==', E.mul(sv, rt), yt))),
            E.implies(E.cmp('==', rt, E.ZERO), E.and_(E.cmp('==', cv, E.ONE), E.cmp('==', sv, E.ZERO))),
            E.cmp('==', E.add(E.mul(cv, cv), E.mul(sv, sv)), E.ONE),
        ),
        [lambda ev: math.atan2(ev(yt), ev(xt)),
         lambda ev: math.cos(math.atan2(ev(yt), ev(xt))),
         lambda ev: math.sin(math.atan2(ev(yt), ev(xt)))],
    )
    c.angles[th.args[0]] = (cv, sv, rt)
    return R(th)


def _cos_sin(a):
    """(cos a, sin a) as R when `a` is built from angle variables by +, neg; else None."""
    c = ctx()
    if a.op == 'var' and a.args[0] in c.angles:
        cv, sv, _ = c.angles[a.args[0]]
        return R(cv), R(sv)
    if a.op == 'neg':
        r = _cos_sin(a.args[0])
        if r is None:
            return None
        return r[0], -r[1]
    if a.op == '+':
        r1, r2 = _cos_sin(a.args[0]), _cos_sin(a.args[1])
        if r1 is None or r2 is None:
            return None
        return r1[0] * r2[0] - r1[1] * r2[1], r1[1] * r2[0] + r1[0] * r2[1]
    if a.op == 'const' and a.args[0] == 0:
        return R(1.0), R(0.0)
    return None


def ground_axioms(c, relevant=None):
    """Ground instances of the transcendental axioms over the recorded applications.

    Returns [(formula)].  Only sound facts of the real functions are emitted."""
    ax = []
    Z, O = E.ZERO, E.ONE
    ex = c.apps.get('exp', [])
    for (a,), v in ex:
        ax += [E.cmp('>', v, Z), E.implies(E.cmp('==', a, Z), E.cmp('==', v, O)),
               E.implies(E.cmp('<=', a, Z), E.cmp('<=', v, O)), E.implies(E.cmp('>=', a, Z), E.cmp('>=', v, O)),
               # exp(a) >= 1 + a  (tangent at 0)
               E.cmp('>=', v, E.add(O, a))]
    for i in range(len(ex)):
        for j in range(i + 1, len(ex)):
            (a,), v = ex[i]
            (b,), u = ex[j]
            ax += [E.implies(E.cmp('<=', a, b), E.cmp('<=', v, u)), E.implies(E.cmp('<=', b, a), E.cmp('<=', u, v)),
                   E.implies(E.cmp('<', a, b), E.cmp('<', v, u)), E.implies(E.cmp('<', b, a), E.cmp('<', u, v))]
    for name in ('log', 'log10'):
        lg = c.apps.get(name, [])
        for (a,), v in lg:
            ax += [E.implies(E.cmp('==', a, O), E.cmp('==', v, Z)), E.implies(E.cmp('>=', a, O), E.cmp('>=', v, Z)),
                   E.implies(E.cmp('<=', a, O), E.cmp('<=', v, Z)), E.implies(E.cmp('>', a, O), E.cmp('>', v, Z)),
                   E.implies(E.cmp('<', a, O), E.cmp('<', v, Z))]
        for i in range(len(lg)):
            for j in range(i + 1, len(lg)):
                (a,), v = lg[i]
                (b,), u = lg[j]
                ax += [E.implies(E.cmp('<=', a, b), E.cmp('<=', v, u)), E.implies(E.cmp('<=', b, a), E.cmp('<=', u, v)),
                       E.implies(E.cmp('<', a, b), E.cmp('<', v, u)), E.implies(E.cmp('<', b, a), E.cmp('<', u, v))]
    for name in ('log', 'log10'):
        lg = c.apps.get(name, [])
        for i in range(len(lg)):
            for j in range(i + 1, len(lg)):
                (a,), v = lg[i]
                (b,), u = lg[j]
                ax.append(E.implies(E.cmp('==', E.mul(a, b), O), E.cmp('==', E.add(v, u), Z)))     # log(1/x) = -log x
    for (a,), v in c.apps.get('log', []):
        for (b,), u in ex:
            ax.append(E.implies(E.cmp('==', a, u), E.cmp('==', v, b)))      # log(exp(b)) = b
    p10 = c.apps.get('pow10', [])
    for (a,), v in p10:
        ax += [E.cmp('>', v, Z), E.implies(E.cmp('==', a, Z), E.cmp('==', v, O))]
        for (b,), u in c.apps.get('log10', []):
            ax.append(E.implies(E.cmp('==', b, v), E.cmp('==', u, a)))      # log10(10**a) = a
    for i in range(len(p10)):
        for j in range(i + 1, len(p10)):
            (a,), v = p10[i]
            (b,), u = p10[j]
            ax += [E.implies(E.cmp('==', a, b), E.cmp('==', v, u))]
    for name in ('cos', 'sin'):
        lst = c.apps.get(name, [])
        for (a,), v in lst:
            ax += [E.cmp('<=', v, O), E.cmp('>=', v, E.const(-1))]
        for i in range(len(lst)):
            for j in range(i + 1, len(lst)):
                (a,), v = lst[i]
                (b,), u = lst[j]
                ax.append(E.implies(E.cmp('==', a, b), E.cmp('==', v, u)))
    for (a,), v in c.apps.get('cos', []):
        for (b,), u in c.apps.get('sin', []):
            if a is b:
                ax.append(E.cmp('==', E.add(E.mul(v, v), E.mul(u, u)), O))
    return ax


def app_links(c):
    """[(uf var name, free variables of its arguments)] for slicing."""
    out = []
    for name, lst in c.apps.items():
        for args, v in lst:
            vs = set()
            for a in args:
                vs |= E.fv(a)
            out.append((v.args[0], vs))
    return out


# =========================================================================== complex scalars
class C:
    __slots__ = ('re', 'im')
    __array_priority__ = 1000

    def __init__(self, re, im=0.0):
        self.re, self.im = R.lift(re), R.lift(im)

    @staticmethod
    def lift(x):
        if isinstance(x, C):
            return x
        if isinstance(x, (R, SymBool)):
            return C(R.lift(x), 0.0)
        x = complex(x)
        return C(x.real, x.imag)

    def conc(self):
        return self.re.conc() and self.im.conc()

    def __complex__(self):
        return complex(float(self.re), float(self.im))

    def _co(self, o):
        if isinstance(o, SymArrayBase):
            return None
        try:
            return C.lift(o)
        except TypeError:
            return None

    def __add__(s, o):
        o = s._co(o)
        return NotImplemented if o is None else C(s.re + o.re, s.im + o.im)
    __radd__ = __add__

    def __sub__(s, o):
        o = s._co(o)
        return NotImplemented if o is None else C(s.re - o.re, s.im - o.im)

    def __rsub__(s, o):
        o = s._co(o)
        return NotImplemented if o is None else o - s

    def __mul__(s, o):
        if isinstance(o, (R, SymBool)) or _is_pyreal(o):
            o = R.lift(o)
            return C(s.re * o, s.im * o)
        o = s._co(o)
        if o is None:
            return NotImplemented
        return C(s.re * o.re - s.im * o.im, s.re * o.im + s.im * o.re)
    __rmul__ = __mul__

    def __truediv__(s, o):
        if isinstance(o, R) or _is_pyreal(o):
            return C(s.re / o, s.im / o)
        o = s._co(o)
        if o is None:
            return NotImplemented
        if o.im.conc() and o.im.n == 0.0:
            return C(s.re / o.re, s.im / o.re)
        d = o.re * o.re + o.im * o.im
        return C((s.re * o.re + s.im * o.im) / d, (s.im * o.re - s.re * o.im) / d)

    def __rtruediv__(s, o):
        return C.lift(o) / s

    def __neg__(s): return C(-s.re, -s.im)
    def __pos__(s): return s

    def __abs__(s):
        if s.im.conc() and s.im.n == 0.0:
            return abs(s.re)
        return (s.re * s.re + s.im * s.im).sqrt()

    def conjugate(s): return C(s.re, -s.im)
    conj = conjugate

    @property
    def real(s): return s.re

    @property
    def imag(s): return s.im

    def __pow__(s, p):
        if isinstance(p, R) and p.conc():
            p = p.n
        if isinstance(p, (int, np.integer)) or (isinstance(p, (float, np.floating)) and float(p).is_integer()):
            p = int(p)
            if p >= 0:
                r = C(1.0, 0.0)
                for _ in range(p):
                    r = r * s
                return r
        raise EngineGap('complex pow %r' % (p,))

    def exp(s):
        m = s.re.exp()
        return C(m * s.im.cos(), m * s.im.sin())

    def sqrt(s):
        """Principal complex square root (purified)."""
        if s.conc():
            z = cmath.sqrt(complex(s))
            return C(z.real, z.imag)
        if s.im.conc() and s.im.n == 0.0 and (s.re.conc() or (s.re.den_pos() and known_nonneg(s.re.num()))):
            return C(s.re.sqrt(), 0.0)
        c = ctx()
        a, b = s.re.term(), s.im.term()
        key = ('csqrt', a.id, b.id)
        hit = c.names.get(key)
        if hit is not None:
            return C(R(hit[0]), R(hit[1]))
        u, v = c.new_var('csqrt_re'), c.new_var('csqrt_im')
        # (u + iv)^2 = a + ib, principal branch: u >= 0, and v >= 0 when u == 0
        c.add_def(
            [u, v],
            E.and_(E.cmp('==', E.sub(E.mul(u, u), E.mul(v, v)), a),
                   E.cmp('==', E.mul(E.const(2), E.mul(u, v)), b),
                   E.cmp('>=', u, E.ZERO),
                   E.implies(E.cmp('==', u, E.ZERO), E.cmp('>=', v, E.ZERO))),
            [lambda ev: cmath.sqrt(complex(ev(a), ev(b))).real, lambda ev: cmath.sqrt(complex(ev(a), ev(b))).imag],
        )
        c.nonneg.add(u.args[0])
        c.names[key] = (u, v)
        return C(R(u), R(v))

    def _cmp(s, o, op):
        o = C.lift(o)
        if op == '==':
            return sb_and(s.re == o.re, s.im == o.im)
        if op == '!=':
            return sb_not(sb_and(s.re == o.re, s.im == o.im))
        raise EngineGap('ordering of complex scalars')

    def __eq__(s, o):
        if isinstance(o, (SymArrayBase, str, bytes, type(None))):
            return NotImplemented
        return s._cmp(o, '==')

    def __ne__(s, o):
        if isinstance(o, (SymArrayBase, str, bytes, type(None))):
            return NotImplemented
        return s._cmp(o, '!=')
    __hash__ = None

    def __repr__(s): return 'C(%r, %r)' % (s.re, s.im)
    shape = ()
    ndim = 0
    size = 1
    dtype = np.dtype(np.complex128)

    def item(self): return self
    def copy(self): return self

    def astype(self, dtype, **kw):
        dtype = np.dtype(dtype)
        if dtype.kind != 'c':
            return self.re
        return self


class SymArrayBase:
    """Marker base for symnp.SymArray (avoids a circular import)."""


# =========================================================================== booleans
class SymBool:
    __slots__ = ('f',)

    def __init__(self, f):
        self.f = f

    def __bool__(self):
        ex = _EXPLORER[0]
        if ex is None:
            raise EngineGap('symbolic branch outside an explorer')
        return ex.decide(self.f)

    def __and__(self, o): return sb_and(self, o)
    __rand__ = __and__
    def __or__(self, o): return sb_or(self, o)
    __ror__ = __or__
    def __invert__(self): return sb_not(self)
    def __eq__(self, o): return sb_iff(self, o)
    def __ne__(self, o): return sb_not(sb_iff(self, o))
    __hash__ = None
    def __repr__(self): return 'SymBool(%s)' % E.to_str(self.f, 4)
    shape = ()
    ndim = 0
    dtype = np.dtype(bool)


def sb_f(b):
    if isinstance(b, SymBool):
        return b.f
    if isinstance(b, (R, C)):
        b = (b != 0.0)
        return sb_f(b)
    return E.TRUE if bool(b) else E.FALSE


def _wrapb(f):
    if f is E.TRUE:
        return True
    if f is E.FALSE:
        return False
    return SymBool(f)


def sb_and(a, b): return _wrapb(E.and_(sb_f(a), sb_f(b)))
def sb_or(a, b): return _wrapb(E.or_(sb_f(a), sb_f(b)))
def sb_not(a): return _wrapb(E.not_(sb_f(a)))
def sb_iff(a, b): return _wrapb(E.iff(sb_f(a), sb_f(b)))


# =========================================================================== piecewise
def ite(c, a, b):
    if not isinstance(c, SymBool):
        return a if c else b
    if isinstance(a, (C,)) or isinstance(b, (C,)) or _is_pycomplex(a) or _is_pycomplex(b):
        a, b = C.lift(a), C.lift(b)
        return C(ite(c, a.re, b.re), ite(c, a.im, b.im))
    if isinstance(a, (SymBool, bool, np.bool_)) and isinstance(b, (SymBool, bool, np.bool_)):
        return _wrapb(E.or_(E.and_(c.f, sb_f(a)), E.and_(E.not_(c.f), sb_f(b))))
    a, b = R.lift(a), R.lift(b)
    if a.conc() and b.conc() and a.n == b.n:
        return a
    cx = ctx()
    at, bt = a.term(), b.term()
    if at is bt:
        return a
    key = ('ite', c.f.id, at.id, bt.id)
    hit = cx.names.get(key)
    if hit is not None:
        return R(hit)
    v = cx.new_var('ite')
    cf = c.f
    cx.add_def([v], E.and_(E.implies(cf, E.cmp('==', v, at)), E.implies(E.not_(cf), E.cmp('==', v, bt))),
               [lambda ev: ev(at) if ev(cf) else ev(bt)])
    if known_pos(at) and known_pos(bt):
        cx.pos.add(v.args[0])
    elif known_nonneg(at) and known_nonneg(bt):
        cx.nonneg.add(v.args[0])
    cx.names[key] = v
    return R(v)


def _minmax(a, b, is_max):
    a, b = R.lift(a), R.lift(b)
    if a.conc() and b.conc():
        if math.isnan(a.n) or math.isnan(b.n):
            return R(float('nan'))
        return R(max(a.n, b.n) if is_max else min(a.n, b.n))
    for x, y in ((a, b), (b, a)):
        if x.conc() and math.isinf(x.n):
            if (x.n > 0) == is_max:
                return x
            return y
    cx = ctx()
    x, y = a.term(), b.term()
    if x is y:
        return a
    key = ('max' if is_max else 'min', min(x.id, y.id), max(x.id, y.id))
    hit = cx.names.get(key)
    if hit is not None:
        return R(hit)
    v = cx.new_var('max' if is_max else 'min')
    op = '>=' if is_max else '<='
    cx.add_def([v], E.and_(E.cmp(op, v, x), E.cmp(op, v, y), E.or_(E.cmp('==', v, x), E.cmp('==', v, y))),
               [(lambda ev: max(ev(x), ev(y))) if is_max else (lambda ev: min(ev(x), ev(y)))])
    if is_max:
        if known_pos(x) or known_pos(y):
            cx.pos.add(v.args[0])
        elif known_nonneg(x) or known_nonneg(y):
            cx.nonneg.add(v.args[0])
    else:
        if known_pos(x) and known_pos(y):
            cx.pos.add(v.args[0])
        elif known_nonneg(x) and known_nonneg(y):
            cx.nonneg.add(v.args[0])
    cx.names[key] = v
    return R(v)


def smax(a, b): return _minmax(a, b, True)
def smin(a, b): return _minmax(a, b, False)


# =========================================================================== helpers
def lift_scalar(x):
    if isinstance(x, (R, C, SymBool)):
        return x
    if isinstance(x, (bool, np.bool_)):
        return bool(x)
    if _is_pycomplex(x):
        return C.lift(x)
    if isinstance(x, (int, np.integer)):
        return int(x)
    if isinstance(x, E.Node):
        return R(x)
    return R(float(x))


def num(x):
    """Arithmetic-ready scalar: ints/bools/SymBools become R."""
    if isinstance(x, (R, C)):
        return x
    if isinstance(x, SymBool):
        return ite(x, R(1.0), R(0.0))
    if _is_pycomplex(x):
        return C.lift(x)
    return R(float(x))


def sym_real(name, kind='real'):
    c = ctx()
    c.inputs[name] = kind
    return R(E.var(name))


def is_symbolic(x):
    if isinstance(x, R):
        return not x.conc()
    if isinstance(x, C):
        return not x.conc()
    return isinstance(x, SymBool)
