"""Query construction (directed cone-of-influence slicing) and solver back ends.

Every query is decided in a forked child process that is killed at the wall-clock
limit (z3's own timeout is not honoured inside non-linear arithmetic).  Back ends:
z3 (Python API, default solver then qfnra-nlsat), then /usr/bin/cvc5 on the SMT-LIB
text for whatever z3 left `unknown`.
"""
import os
import pickle
import select
import signal
import subprocess
import time
from fractions import Fraction

import z3  # noqa: imported in the parent so forked solver children start instantly

from . import expr as E
from . import scalar as S

CVC5 = '/usr/bin/cvc5'


def conjuncts(f):
    if f.op == 'and':
        out = []
        for a in f.args:
            out.extend(conjuncts(a))
        return out
    if f is E.TRUE:
        return []
    return [f]


def build_query(c, goal, hyps=(), hints=(), path_len=None, negate=True, full=False, core=False, max_depth=None):
    """Assertions for  defs ∧ hyps ∧ path ∧ hints ∧ ¬goal  restricted to the cone of the goal.

    hyps: preconditions (formulas); hints: proof hints (formulas that are themselves
    obligations or ground lemma instances - the caller is responsible for their truth).
    """
    path = c.path if path_len is None else c.path[:path_len]
    rel = set(E.fv(goal))
    if not rel:
        # variable-free goal (an exception / frame obligation is `false`): the question is whether the path is feasible
        # under the preconditions, so the cone is that of the path conditions and the preconditions
        for p in path:
            rel |= E.fv(p)
        for h in hyps:
            rel |= E.fv(h)
        full = True
    chosen = []
    # hints may introduce ghost variables; they join the cone first
    pool_h = []
    for h in hints:
        for x in conjuncts(h):
            pool_h.append((x, E.fv(x)))
    links = S.app_links(c)
    defs = [(names, f, E.fv(f)) for names, f in c.defs]
    others = []
    for h in ([] if core else list(hyps) + [f for _, f in c.assumes] + list(path)):
        for x in conjuncts(h):
            others.append((x, E.fv(x)))
    used_def = [False] * len(defs)
    used_h = [False] * len(pool_h)
    changed = True
    rounds = 0
    while changed:
        changed = False
        rounds += 1
        if max_depth is not None and rounds > max_depth:
            break           # shallow cone: definitions of deeper variables are dropped (they stay free: sound for unsat)
        frozen = set(rel)
        for i, (names, f, v) in enumerate(defs):
            if not used_def[i] and (names & (frozen if max_depth is not None else rel)):
                used_def[i] = True
                chosen.append(f)
                if not v <= rel:
                    rel |= v
                changed = True
        for name, vs in links:
            if name in rel and not vs <= rel:
                rel |= vs
                changed = True
        for i, (x, v) in enumerate(pool_h):
            if not used_h[i] and ((v & rel) or not v):
                used_h[i] = True
                chosen.append(x)
                if not v <= rel:
                    rel |= v
                    changed = True
    if full:
        # undirected closure: hypotheses / path conditions over derived variables pull in the definitions of
        # those variables (needed when the relevance flows forward through purified terms, e.g. sqrt, max)
        used_o = [False] * len(others)
        changed = True
        while changed:
            changed = False
            for i, (x, v) in enumerate(others):
                if not used_o[i] and ((v & rel) or not v):
                    used_o[i] = True
                    chosen.append(x)
                    if not v <= rel:
                        rel |= v
                        changed = True
            for i, (names, f, v) in enumerate(defs):
                if not used_def[i] and ((names & rel) or (v & rel)):
                    used_def[i] = True
                    chosen.append(f)
                    new = (v | names) - rel
                    if new:
                        rel |= new
                        changed = True
            for name, vs in links:
                if (name in rel or (vs & rel)) and not (vs | {name}) <= rel:
                    rel |= vs | {name}
                    changed = True
            for i, (x, v) in enumerate(pool_h):
                if not used_h[i] and ((v & rel) or not v):
                    used_h[i] = True
                    chosen.append(x)
                    if not v <= rel:
                        rel |= v
                        changed = True
    else:
        for x, v in others:
            if (v & rel) or not v:
                chosen.append(x)
    for a in S.ground_axioms(c):
        if E.fv(a) <= rel:
            chosen.append(a)
    if negate:
        chosen.append(E.not_(goal))
    else:
        chosen.append(goal)
    return chosen, rel


# ----------------------------------------------------------------- solving
def _z3_value_to_fraction(z3, val):
    if z3.is_rational_value(val):
        return Fraction(val.numerator_as_long(), val.denominator_as_long())
    if z3.is_algebraic_value(val):
        a = val.approx(40)
        return Fraction(a.numerator_as_long(), a.denominator_as_long())
    if z3.is_true(val):
        return True
    if z3.is_false(val):
        return False
    return None


def _child_solve(assertions, timeout_s, model_vars, tactic):
    import z3
    zs = E.to_z3(assertions, z3)
    if tactic is None:
        s = z3.Solver()
    else:
        s = z3.Tactic(tactic).solver()
    s.set('timeout', int(timeout_s * 1000))
    for z in zs:
        s.add(z)
    r = s.check()
    res = str(r)
    model = None
    if r == z3.sat:
        m = s.model()
        model = {}
        for name, kind in model_vars.items():
            zv = z3.Bool(name) if kind == 'bool' else z3.Real(name)
            val = m.eval(zv, model_completion=True)
            fr = _z3_value_to_fraction(z3, val)
            if fr is not None:
                model[name] = fr
    reason = ''
    if r == z3.unknown:
        try:
            reason = s.reason_unknown()
        except Exception:
            reason = ''
    return res, model, reason


def _child_solve2(lin, assertions, timeout_s, model_vars, tactic, core=None):
    if core is not None:
        r, _, _ = _child_solve(core, min(3.0, timeout_s), {}, None)
        if r == 'unsat':
            return 'unsat-core', None, ''
    if lin is not None:
        r, _, _ = _child_solve(lin, min(3.0, timeout_s), {}, None)
        if r == 'unsat':
            return 'unsat-linabs', None, ''
    return _child_solve(assertions, timeout_s, model_vars, tactic)


def _die_with_parent():
    try:
        import ctypes
        ctypes.CDLL('libc.so.6', use_errno=True).prctl(1, signal.SIGKILL)     # PR_SET_PDEATHSIG
    except Exception:
        pass


def run_forked(fn, args, wall_s):
    """Run fn(*args) in a forked child, kill it after wall_s seconds.  -> (ok, value|reason)"""
    r, w = os.pipe()
    pid = os.fork()
    if pid == 0:
        try:
            _die_with_parent()
            os.close(r)
            try:
                out = ('ok', fn(*args))
            except BaseException as e:  # noqa
                out = ('exc', '%s: %s' % (type(e).__name__, e))
            data = pickle.dumps(out)
            with os.fdopen(w, 'wb') as fh:
                fh.write(data)
        finally:
            os._exit(0)
    os.close(w)
    deadline = time.time() + wall_s
    chunks = []
    timed_out = False
    try:
        while True:
            left = deadline - time.time()
            if left <= 0:
                timed_out = True
                break
            rl, _, _ = select.select([r], [], [], min(left, 1.0))
            if rl:
                b = os.read(r, 1 << 20)
                if not b:
                    break
                chunks.append(b)
    finally:
        os.close(r)
        if timed_out:
            try:
                os.kill(pid, signal.SIGKILL)
            except ProcessLookupError:
                pass
        try:
            os.waitpid(pid, 0)
        except ChildProcessError:
            pass
    if timed_out:
        return False, 'wall-clock timeout %.0fs' % wall_s
    try:
        tag, val = pickle.loads(b''.join(chunks))
    except Exception as e:  # child died
        return False, 'solver process died (%s)' % e
    if tag == 'exc':
        return False, val
    return True, val



def _spawn(fn, args):
    r, w = os.pipe()
    pid = os.fork()
    if pid == 0:
        try:
            _die_with_parent()
            os.close(r)
            try:
                out = ('ok', fn(*args))
            except BaseException as e:  # noqa
                out = ('exc', '%s: %s' % (type(e).__name__, e))
            with os.fdopen(w, 'wb') as fh:
                fh.write(pickle.dumps(out))
        finally:
            os._exit(0)
    os.close(w)
    return pid, r


def _cvc5_job(assertions, timeout_s, model_vars):
    return solve_cvc5(assertions, timeout_s, model_vars)


def race(first, others, wall_s, grace_s, conclusive):
    """Staged portfolio: `first` = (label, fn, args) starts alone; when it has not answered after grace_s seconds the `others`
    are started next to it.  The first child whose value satisfies `conclusive` wins, the rest is killed.
    -> (label, value) of the winner or (None, {label: reason}) when nobody is conclusive within wall_s."""
    t0 = time.time()
    live = {}          # fd -> (label, pid, chunks)
    reasons = {}

    def start(job):
        label, fn, args = job
        pid, fd = _spawn(fn, args)
        live[fd] = (label, pid, [])

    def kill_all():
        for fd, (label, pid, _) in list(live.items()):
            try:
                os.kill(pid, signal.SIGKILL)
            except ProcessLookupError:
                pass
            try:
                os.waitpid(pid, 0)
            except ChildProcessError:
                pass
            os.close(fd)
        live.clear()

    start(first)
    pending_others = list(others)
    try:
        while live or pending_others:
            now = time.time()
            if now - t0 > wall_s:
                for fd, (label, pid, _) in live.items():
                    reasons.setdefault(label, 'timeout')
                break
            if pending_others and (now - t0 >= grace_s or not live):
                for j in pending_others:
                    start(j)
                pending_others = []
            wait = min(0.5, max(0.01, (grace_s - (now - t0)) if pending_others else 0.5))
            rl, _, _ = select.select(list(live), [], [], wait)
            for fd in rl:
                label, pid, chunks = live[fd]
                b = os.read(fd, 1 << 20)
                if b:
                    chunks.append(b)
                    continue
                # EOF: child finished
                os.close(fd)
                del live[fd]
                try:
                    os.waitpid(pid, 0)
                except ChildProcessError:
                    pass
                try:
                    tag, val = pickle.loads(b''.join(chunks))
                except Exception as e:  # noqa  child died
                    reasons[label] = 'solver process died (%s)' % e
                    continue
                if tag == 'exc':
                    reasons[label] = str(val)
                    continue
                if conclusive(val):
                    return label, val
                reasons[label] = str(val[2]) if isinstance(val, tuple) and len(val) > 2 else 'inconclusive'
        return None, reasons
    finally:
        kill_all()


def _parse_cvc5_value(tok):
    tok = tok.strip()
    try:
        return Fraction(tok)
    except Exception:
        return None


def _sexpr_num(s):
    """Evaluate a numeric s-expression such as (- (/ 3 2)) -> Fraction."""
    toks = s.replace('(', ' ( ').replace(')', ' ) ').split()
    pos = [0]

    def parse():
        t = toks[pos[0]]
        pos[0] += 1
        if t == '(':
            op = toks[pos[0]]
            pos[0] += 1
            args = []
            while toks[pos[0]] != ')':
                args.append(parse())
            pos[0] += 1
            if op == '-':
                return -args[0] if len(args) == 1 else args[0] - args[1]
            if op == '/':
                return args[0] / args[1]
            if op == '+':
                return sum(args)
            if op == '*':
                r = Fraction(1)
                for a in args:
                    r *= a
                return r
            raise ValueError(op)
        if t in ('true', 'false'):
            return t == 'true'
        return Fraction(t)
    return parse()


def solve_cvc5(assertions, timeout_s, model_vars):
    text = E.to_smt2(assertions, logic='QF_NRA', get_values=list(model_vars))
    try:
        p = subprocess.run([CVC5, '--lang=smt2', '--produce-models', '--tlimit=%d' % int(timeout_s * 1000), '-'],
                           input=text, capture_output=True, text=True, timeout=timeout_s + 5)
    except subprocess.TimeoutExpired:
        return 'unknown', None, 'cvc5 wall-clock timeout'
    out = p.stdout.strip().splitlines()
    if not out:
        return 'unknown', None, 'cvc5: ' + p.stderr.strip()[:200]
    res = out[0].strip()
    if res not in ('sat', 'unsat'):
        return 'unknown', None, 'cvc5: ' + res
    model = None
    if res == 'sat':
        model = {}
        body = ' '.join(out[1:])
        # ((|x| val) (|y| val))
        import re
        for m in re.finditer(r'\(\|([^|]+)\|\s+((?:\([^()]*(?:\([^()]*(?:\([^()]*\)[^()]*)*\)[^()]*)*\))|[^()\s]+)\)', body):
            try:
                model[m.group(1)] = _sexpr_num(m.group(2))
            except Exception:
                pass
    return res, model, ''


def linear_abstraction(assertions):
    """Replace every product of two non-constant terms by a fresh variable (consistently: the DAG is
    hash-consed).  The result is implied-by-nothing weaker: abstraction UNSAT => original UNSAT."""
    memo = {}

    def ab(n):
        r = memo.get(n.id)
        if r is not None:
            return r
        op = n.op
        if op in ('var', 'bvar', 'const', 'true', 'false'):
            r = n
        elif op == '*':
            a, b = n.args
            if a.op == 'const' or b.op == 'const':
                r = E.mul(ab(a), ab(b))
            else:
                r = E.var('nl!%d' % n.id)
        elif op == '+':
            r = E.add(ab(n.args[0]), ab(n.args[1]))
        elif op == 'neg':
            r = E.neg(ab(n.args[0]))
        elif op in ('<', '<=', '==', '!='):
            r = E.cmp(op, ab(n.args[0]), ab(n.args[1]))
        elif op == 'and':
            r = E.and_(*[ab(a) for a in n.args])
        elif op == 'or':
            r = E.or_(*[ab(a) for a in n.args])
        elif op == 'not':
            r = E.not_(ab(n.args[0]))
        else:
            raise ValueError(op)
        memo[n.id] = r
        return r
    return [ab(a) for a in assertions]


class Result:
    __slots__ = ('status', 'model', 'time', 'backend', 'reason', 'nassert', 'smt2')

    def __init__(self, status, model, t, backend, reason='', nassert=0):
        self.status, self.model, self.time, self.backend, self.reason, self.nassert = status, model, t, backend, reason, nassert
        self.smt2 = None


def check_sat(assertions, timeout_s=20.0, model_vars=None, use_cvc5=True, tactics=(None, 'qfnra-nlsat'), core=None):
    """Decide satisfiability of the conjunction.  -> Result(status in sat/unsat/unknown)."""
    model_vars = model_vars or {}
    t0 = time.time()
    # trivial cases without a solver
    if any(a is E.FALSE for a in assertions):
        return Result('unsat', None, 0.0, 'syntactic', nassert=len(assertions))
    reason = ''
    budget = timeout_s
    # stage 0 (inside the first child): linear abstraction, products of non-constants as opaque variables;
    # UNSAT of the abstraction is conclusive
    lin = None
    if any(_nonlinear(a) for a in assertions):
        try:
            lin = linear_abstraction(assertions)
            if any(a is E.FALSE for a in lin):
                return Result('unsat', None, time.time() - t0, 'syntactic-linabs', nassert=len(assertions))
        except RecursionError:
            lin = None
    if len(tactics) <= 1 and not use_cvc5:
        tac = tactics[0] if tactics else None
        ok, val = run_forked(_child_solve2, (lin if tac is None else None, assertions, budget, model_vars, tac,
                                             core if tac is None else None), budget + 9)
        if ok:
            res, model, why = val
            if res == 'unsat-core':
                return Result('unsat', None, time.time() - t0, 'z3-identity(no hypotheses)', nassert=len(assertions))
            if res == 'unsat-linabs':
                return Result('unsat', None, time.time() - t0, 'z3-linear-abstraction', nassert=len(assertions))
            if res in ('sat', 'unsat'):
                return Result(res, model, time.time() - t0, 'z3' + ('' if tac is None else ':' + tac), nassert=len(assertions))
            reason = 'z3: %s' % why
        else:
            reason = 'z3: ' + str(val)
        return Result('unknown', None, time.time() - t0, 'none', reason, nassert=len(assertions))
    # portfolio: z3 default first; when it has not answered after a short grace period the other tactics and cvc5 run next
    # to it, each with the whole budget -- the verdict does not depend on which back end happens to be tried first
    first = ('z3', _child_solve2, (lin, assertions, budget, model_vars, None, core))
    others = [('z3:' + tac, _child_solve2, (None, assertions, budget, model_vars, tac, None)) for tac in tactics if tac is not None]
    if use_cvc5 and os.path.exists(CVC5):
        others.append(('cvc5', _cvc5_job, (assertions, budget, model_vars)))
    label, val = race(first, others, budget + 9, min(1.5, budget / 4), lambda v: v[0] in ('sat', 'unsat', 'unsat-core', 'unsat-linabs'))
    if label is not None:
        res, model, why = val
        if res == 'unsat-core':
            return Result('unsat', None, time.time() - t0, 'z3-identity(no hypotheses)', nassert=len(assertions))
        if res == 'unsat-linabs':
            return Result('unsat', None, time.time() - t0, 'z3-linear-abstraction', nassert=len(assertions))
        return Result(res, model, time.time() - t0, label, nassert=len(assertions))
    reason = '; '.join('%s: %s' % (k, v) for k, v in sorted(val.items()))
    return Result('unknown', None, time.time() - t0, 'none', reason, nassert=len(assertions))


def quick_feasible(assertions, timeout_ms=3000):
    """In-process feasibility check for the explorer: False only when surely unsat."""
    import z3
    if any(a is E.FALSE for a in assertions):
        return False
    s = z3.Solver()
    s.set('timeout', timeout_ms)
    for z in E.to_z3(assertions, z3):
        s.add(z)
    return s.check() != z3.unsat


_LIN_MEMO = {}


def _nonlinear(n):
    r = _LIN_MEMO.get(n.id)
    if r is not None:
        return r
    if n.op == '*':
        r = (n.args[0].op != 'const' and n.args[1].op != 'const') or _nonlinear(n.args[0]) or _nonlinear(n.args[1])
    elif n.op in ('var', 'bvar', 'const', 'true', 'false'):
        r = False
    else:
        r = any(_nonlinear(a) for a in n.args)
    _LIN_MEMO[n.id] = r
    return r


def _child_feasible(assertions, timeout_ms):
    return quick_feasible(assertions, timeout_ms)


def feasible(assertions, timeout_s=3.0):
    """Feasibility for path exploration; `unknown`/timeouts count as feasible (sound for proving)."""
    if any(a is E.FALSE for a in assertions):
        return False
    if not any(_nonlinear(a) for a in assertions):
        return quick_feasible(assertions, int(timeout_s * 1000))
    lin = linear_abstraction(assertions)
    if any(a is E.FALSE for a in lin) or not quick_feasible(lin, int(timeout_s * 1000)):
        return False
    ok, val = run_forked(_child_feasible, (assertions, int(timeout_s * 1000)), timeout_s + 1.0)
    if not ok:
        return True
    return bool(val)
