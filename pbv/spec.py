"""Mode-generic specification helpers.

A contract's `ensures` is written once, as index-level arithmetic over "scalars".  In
symbolic mode scalars are scalar.R / scalar.C and the helpers return formula nodes; in
concrete mode scalars are Python/NumPy floats and the helpers return booleans with the
tolerances of the mode (used for model replay and for the bounded tier).
"""
import cmath
import math

import numpy as np

from . import expr as E
from . import scalar as S
from .scalar import R, C, SymBool


def _issym(x):
    return isinstance(x, (R, C, SymBool, E.Node))


class Spec:
    def __init__(self, symbolic, rtol=1e-9, atol=1e-12):
        self.symbolic = symbolic
        self.rtol = rtol
        self.atol = atol

    # ---------------------------------------------------------------- scalars
    def lift(self, x):
        if self.symbolic:
            return S.num(x) if not isinstance(x, E.Node) else R(x)
        return x

    def re(self, x):
        if isinstance(x, C):
            return x.re
        if isinstance(x, R):
            return x
        return float(np.real(x))

    def im(self, x):
        if isinstance(x, C):
            return x.im
        if isinstance(x, R):
            return R(0.0)
        return float(np.imag(x))

    def conj(self, x):
        if isinstance(x, (R, C)):
            return x.conjugate()
        return np.conj(x)

    def cplx(self, re, im):
        if _issym(re) or _issym(im):
            return C(re, im)
        return complex(re, im)

    def abs2(self, x):
        if isinstance(x, C):
            return x.re * x.re + x.im * x.im
        if isinstance(x, R):
            return x * x
        return float(np.real(x) ** 2 + np.imag(x) ** 2)

    def abs(self, x):
        if isinstance(x, (R, C)):
            return abs(x)
        return float(abs(x))

    def sqrt(self, x):
        if isinstance(x, (R, C)):
            return x.sqrt()
        return math.sqrt(x) if x >= 0 else float('nan')

    def exp(self, x):
        if isinstance(x, (R, C)):
            return x.exp()
        try:
            return math.exp(x)
        except OverflowError:
            return float('inf')

    def log(self, x):
        if isinstance(x, R):
            if x.conc():
                return R(math.log(x.n)) if x.n > 0 else R(float('-inf'))
            return R(S.uf_app('log', (x.term(),)))
        return math.log(x) if x > 0 else float('-inf') if x == 0 else float('nan')

    def log10(self, x):
        if isinstance(x, R):
            if x.conc():
                return R(math.log10(x.n)) if x.n > 0 else R(float('-inf'))
            return R(S.uf_app('log10', (x.term(),)))
        return math.log10(x) if x > 0 else float('-inf') if x == 0 else float('nan')

    def max(self, a, b):
        if _issym(a) or _issym(b):
            return S.smax(a, b)
        return max(a, b)

    def min(self, a, b):
        if _issym(a) or _issym(b):
            return S.smin(a, b)
        return min(a, b)

    def sum(self, xs, start=0.0):
        acc = None
        for x in xs:
            acc = x if acc is None else acc + x
        if acc is None:
            return self.lift(start) if self.symbolic else start
        return acc

    def prod(self, xs):
        acc = None
        for x in xs:
            acc = x if acc is None else acc * x
        return acc if acc is not None else (R(1.0) if self.symbolic else 1.0)

    def ite(self, c, a, b):
        if isinstance(c, E.Node):
            c = S._wrapb(c)
        if isinstance(c, SymBool):
            return S.ite(c, a, b)
        return a if c else b

    # ---------------------------------------------------------------- formulas
    @property
    def TRUE(self):
        return E.TRUE if self.symbolic else True

    @property
    def FALSE(self):
        return E.FALSE if self.symbolic else False

    def _f(self, b):
        """to formula node (symbolic mode) / bool (concrete mode)"""
        if self.symbolic:
            if isinstance(b, E.Node):
                return b
            return S.sb_f(b)
        return bool(b)

    def _tol(self, a, b):
        m = max(abs(a), abs(b))
        if not math.isfinite(m):
            return 0.0
        return self.atol + self.rtol * m

    def eq(self, a, b):
        if _issym(a) or _issym(b):
            a, b = S.num(a) if not isinstance(a, E.Node) else R(a), S.num(b) if not isinstance(b, E.Node) else R(b)
            if isinstance(a, C) or isinstance(b, C):
                a, b = C.lift(a), C.lift(b)
                return E.and_(S.sb_f(a.re == b.re), S.sb_f(a.im == b.im))
            return S.sb_f(a == b)
        if self.symbolic:
            return E.TRUE if self._ceq(a, b) else E.FALSE
        return self._ceq(a, b)

    def _ceq(self, a, b):
        if isinstance(a, (complex, np.complexfloating)) or isinstance(b, (complex, np.complexfloating)):
            a, b = complex(a), complex(b)
            if cmath.isnan(a) or cmath.isnan(b):
                return False
            if a == b:
                return True
            return abs(a - b) <= self._tol(abs(a), abs(b))
        a, b = float(a), float(b)
        if math.isnan(a) or math.isnan(b):
            return False
        if a == b:
            return True
        return abs(a - b) <= self._tol(a, b)

    def ne(self, a, b):
        if _issym(a) or _issym(b):
            return E.not_(self.eq(a, b))
        r = not (complex(a) == complex(b))
        return self._f(r)

    def le(self, a, b):
        if _issym(a) or _issym(b):
            return S.sb_f(S.num(a) <= S.num(b))
        a, b = float(a), float(b)
        if math.isnan(a) or math.isnan(b):
            return self._f(False)
        return self._f(a <= b + self._tol(a, b))

    def ge(self, a, b):
        return self.le(b, a)

    def lt(self, a, b):
        if _issym(a) or _issym(b):
            return S.sb_f(S.num(a) < S.num(b))
        a, b = float(a), float(b)
        return self._f(a < b)

    def gt(self, a, b):
        return self.lt(b, a)

    def and_(self, *fs):
        if self.symbolic:
            return E.and_(*[self._f(f) for f in fs])
        return all(bool(f) for f in fs)

    def or_(self, *fs):
        if self.symbolic:
            return E.or_(*[self._f(f) for f in fs])
        return any(bool(f) for f in fs)

    def not_(self, f):
        if self.symbolic:
            return E.not_(self._f(f))
        return not bool(f)

    def implies(self, a, b):
        if self.symbolic:
            return E.implies(self._f(a), self._f(b))
        return (not bool(a)) or bool(b)

    def all(self, fs):
        return self.and_(*list(fs))

    def any(self, fs):
        return self.or_(*list(fs))

    def isfinite(self, x):
        if _issym(x):
            if isinstance(x, R) and x.conc():
                return self._f(math.isfinite(x.n))
            return self.TRUE
        return self._f(bool(np.isfinite(x)))

    def is_true(self, b):
        """truth of a (possibly symbolic) boolean cell"""
        return self._f(b)


def cells(a):
    """Uniform element access for SymArray / ndarray / scalars: returns an object that indexes to scalars."""
    from .symnp import SymArray
    if isinstance(a, SymArray):
        return a.data
    if isinstance(a, (R, C, SymBool)):
        o = np.empty((), dtype=object)
        o[()] = a
        return o
    return np.asarray(a)


def shape_of(a):
    from .symnp import SymArray
    if isinstance(a, SymArray):
        return a.shape
    if isinstance(a, (R, C, SymBool)):
        return ()
    return np.shape(a)
