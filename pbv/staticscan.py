"""Static scan for persistent state (C20: results are history-free).

If no function of the library writes state that outlives the call -- no `global`, no write to a module-level object, no attribute or
item write on `self` / `cls` outside the constructors, no caching decorator -- then the result of a call cannot depend on earlier calls:
history-freedom holds by construction, for every input and every call sequence.  The scan walks the AST of every module of the
anchored packages on every run and compares the writes it finds with the documented caches (an allow-list in the contract, each entry
covered by a bounded reuse family).  A write outside the list does not prove a defect (a cache may be sound); the syntactic argument
is then simply gone and the obligation is UNDECIDED, naming the site -- the bounded families have to decide.  Over-approximation:
writes through aliases of module objects, C extensions and monkey patching from outside the scanned packages are not seen."""
import ast
import os

MUT = {'append', 'extend', 'update', 'setdefault', 'add', 'pop', 'clear', 'insert', 'remove', 'popitem', '__setitem__'}
CACHE_DECOS = {'lru_cache', 'cache', 'cached_property', 'memoize'}
def scan(path, rel):
    src = open(path).read()
    try: tree = ast.parse(src)
    except SyntaxError as e: return [('syntax-error', rel, str(e))]
    out = []
    modnames = set()
    for st in tree.body:
        if isinstance(st, (ast.Assign, ast.AnnAssign)):
            tg = st.targets if isinstance(st, ast.Assign) else [st.target]
            for t in tg:
                if isinstance(t, ast.Name): modnames.add(t.id)
    class V(ast.NodeVisitor):
        def __init__(s): s.stack = []
        def deco(s, node):
            for d in node.decorator_list:
                n = d.func if isinstance(d, ast.Call) else d
                name = n.attr if isinstance(n, ast.Attribute) else getattr(n, 'id', None)
                if name in CACHE_DECOS:
                    out.append(('cache-decorator', rel, '%s on %s' % (name, '.'.join(s.stack + [node.name]))))
        def visit_ClassDef(s, node):
            s.stack.append(node.name); s.generic_visit(node); s.stack.pop()
        def visit_FunctionDef(s, node):
            s.deco(node)
            s.stack.append(node.name)
            fn = '.'.join(s.stack)
            local = {a.arg for a in node.args.args + node.args.kwonlyargs}
            for sub in ast.walk(node):
                if isinstance(sub, ast.Global):
                    out.append(('global-statement', rel, '%s: global %s' % (fn, ', '.join(sub.names))))
                if isinstance(sub, (ast.Assign, ast.AugAssign, ast.AnnAssign)):
                    tg = sub.targets if isinstance(sub, ast.Assign) else [sub.target]
                    for t in tg:
                        for tt in ([t] if not isinstance(t, ast.Tuple) else t.elts):
                            if isinstance(tt, ast.Attribute) and isinstance(tt.value, ast.Name):
                                if tt.value.id in ('self', 'cls') and node.name not in ('__init__', '__post_init__', '__new__'):
                                    out.append(('attribute-write-on-self', rel, '%s: %s.%s' % (fn, tt.value.id, tt.attr)))
                                elif tt.value.id in modnames and tt.value.id not in local:
                                    out.append(('attribute-write-on-module-object', rel, '%s: %s.%s' % (fn, tt.value.id, tt.attr)))
                            if isinstance(tt, ast.Subscript) and isinstance(tt.value, ast.Name) and tt.value.id in modnames and tt.value.id not in local:
                                # a local of the same name assigned earlier shadows: check
                                assigned_local = any(isinstance(x, ast.Assign) and any(isinstance(y, ast.Name) and y.id == tt.value.id for y in x.targets) for x in ast.walk(node))
                                if not assigned_local:
                                    out.append(('item-write-on-module-object', rel, '%s: %s[...]' % (fn, tt.value.id)))
                            if isinstance(tt, ast.Subscript) and isinstance(tt.value, ast.Attribute) and isinstance(tt.value.value, ast.Name) and tt.value.value.id in ('self', 'cls') \
                                    and node.name not in ('__init__', '__post_init__'):
                                out.append(('item-write-on-self-attribute', rel, '%s: %s.%s[...]' % (fn, tt.value.value.id, tt.value.attr)))
                if isinstance(sub, ast.Call) and isinstance(sub.func, ast.Attribute) and sub.func.attr in MUT:
                    base = sub.func.value
                    if isinstance(base, ast.Name) and base.id in modnames and base.id not in local:
                        assigned_local = any(isinstance(x, ast.Assign) and any(isinstance(y, ast.Name) and y.id == base.id for y in x.targets) for x in ast.walk(node))
                        if not assigned_local:
                            out.append(('mutating-call-on-module-object', rel, '%s: %s.%s()' % (fn, base.id, sub.func.attr)))
                    if isinstance(base, ast.Attribute) and isinstance(base.value, ast.Name) and base.value.id in ('self', 'cls'):
                        out.append(('mutating-call-on-self-attribute', rel, '%s: %s.%s.%s()' % (fn, base.value.id, base.attr, sub.func.attr)))
                if isinstance(sub, ast.Call) and isinstance(sub.func, ast.Name) and sub.func.id == 'setattr':
                    out.append(('setattr-call', rel, fn))
                if isinstance(sub, ast.Call) and isinstance(sub.func, ast.Attribute) and sub.func.attr == '__setattr__':
                    out.append(('setattr-call', rel, fn))
            s.generic_visit(node); s.stack.pop()
        visit_AsyncFunctionDef = visit_FunctionDef
    V().visit(tree)
    return out


PACKAGES = ('pb_bss/distribution', 'pb_bss/extraction', 'pb_bss/evaluation', 'pb_bss/initializer', 'pb_bss/math')
FILES = ('pb_bss/permutation_alignment.py', 'pb_bss/utils.py')


def scan_tree(root):
    """{relative file: sorted list of (kind, site)}"""
    out = {}
    files = []
    for base in PACKAGES:
        for dp, dn, fn in os.walk(os.path.join(root, base)):
            for f in sorted(fn):
                if f.endswith('.py'):
                    files.append(os.path.relpath(os.path.join(dp, f), root))
    files += list(FILES)
    for rel in sorted(files):
        out[rel] = sorted({(k, site) for k, _, site in scan(os.path.join(root, rel), rel)})
    return out
