"""Symbolic NumPy value domain.

`SymArray` is a duck array (NEP-13 / NEP-18): storage is a NumPy object array whose cells
are scalar terms (scalar.R / scalar.C / bool / SymBool), plus a claimed dtype.  Indexing,
views, broadcasting and aliasing are NumPy's own on the object array; element arithmetic
is symbolic.  The real repository functions are executed by CPython on these arrays.
"""
import contextlib
import itertools
import math
import sys

import numpy as np

from . import expr as E
from . import scalar as S
from .scalar import R, C, SymBool, EngineGap, lift_scalar, ite, smax, smin, sb_and, sb_or, sb_not, num


class FrameViolation(BaseException):
    """The function under contract wrote into an array owned by the caller."""

    def __init__(self, where, what=''):
        super().__init__('write to caller-owned array at %s %s' % (where, what))
        self.where = where


_asarray = np.asarray
_array = np.array

HANDLED = {}


def implements(*fs):
    def deco(g):
        for f in fs:
            HANDLED[f] = g
        return g
    return deco


# ----------------------------------------------------------------- conversions
_np_count_nonzero = np.count_nonzero


def _frompy(f, nin):
    """Element-wise application over object arrays by explicit iteration.  (np.frompyfunc would make NumPy dispatch on
    the __array_ufunc__ of scalar terms held in 0-d arrays.)"""
    def g(*arrs):
        arrs = [a if isinstance(a, np.ndarray) else obj(a) for a in arrs]
        b = np.broadcast(*arrs)
        out = np.empty(b.shape, dtype=object)
        flat = out.reshape(-1) if out.ndim else None
        for i, vals in enumerate(b):
            if flat is None:
                out[()] = f(*vals)
            else:
                flat[i] = f(*vals)
        return out
    return g


def obj(a):
    """-> object ndarray of scalars (no copy for SymArray)."""
    if isinstance(a, SymArray):
        return a.data
    if isinstance(a, (R, C, SymBool)):
        o = np.empty((), dtype=object)
        o[()] = a
        return o
    arr = _asarray(a)
    if arr.dtype == object:
        return arr
    out = np.empty(arr.shape, dtype=object)
    if arr.ndim == 0:
        out[()] = lift_scalar(arr.item())
        return out
    flat = out.reshape(-1)
    for i, v in enumerate(arr.reshape(-1).tolist()):
        flat[i] = lift_scalar(v)
    return out


def dt_of(a):
    if isinstance(a, SymArray):
        return a.dt
    if isinstance(a, R):
        return np.dtype(np.float64)
    if isinstance(a, C):
        return np.dtype(np.complex128)
    if isinstance(a, SymBool):
        return np.dtype(bool)
    if isinstance(a, (bool, int, float, complex)):
        return None            # python scalars are weak in result-type computation
    arr = _asarray(a)
    if arr.dtype == object:
        # infer from contents
        kinds = set()
        for x in arr.reshape(-1):
            kinds.add('c' if isinstance(x, (C, complex)) else 'b' if isinstance(x, (bool, SymBool, np.bool_)) else 'f')
        return np.dtype(np.complex128 if 'c' in kinds else np.float64 if 'f' in kinds or not kinds else bool)
    return arr.dtype


def _weak_kind(a):
    if isinstance(a, bool):
        return 'b'
    if isinstance(a, int):
        return 'i'
    if isinstance(a, float):
        return 'f'
    if isinstance(a, complex):
        return 'c'
    return None


def result_dtype(inputs, force_float=False):
    dts = []
    weak_c = False
    weak_f = False
    for a in inputs:
        d = dt_of(a)
        if d is None:
            k = _weak_kind(a)
            weak_c |= k == 'c'
            weak_f |= k == 'f'
        else:
            dts.append(d)
    if not dts:
        r = np.dtype(np.complex128 if weak_c else np.float64 if (weak_f or force_float) else np.int64)
    else:
        r = np.result_type(*dts)
        if weak_c and r.kind != 'c':
            r = np.result_type(r, np.complex64) if r.itemsize <= 4 and r.kind == 'f' else np.dtype(np.complex128)
        elif weak_f and r.kind in 'biu':
            r = np.dtype(np.float64)
    if force_float and r.kind in 'biu':
        r = np.dtype(np.float64)
    return r


def _wrap(r, dt):
    """0-d results become bare scalars like NumPy's, everything else a SymArray."""
    if isinstance(r, np.ndarray):
        if r.ndim == 0:
            return _scalar_out(r[()], dt)
        return SymArray(r, dt)
    return _scalar_out(r, dt)


def _scalar_out(x, dt):
    if isinstance(x, (R, C, SymBool)):
        return x
    if isinstance(x, (bool, np.bool_)):
        return bool(x)
    return lift_scalar(x)


def _where_str():
    return S._where() or '?'


# ----------------------------------------------------------------- the array
class SymArray(S.SymArrayBase):
    __array_priority__ = 2000

    @property
    def __class__(self):            # repository code tests isinstance(x, np.ndarray)
        return np.ndarray

    def __init__(self, data, dt):
        if not isinstance(data, np.ndarray) or data.dtype != object:
            data = obj(data)
        self.data = data
        self.dt = np.dtype(dt)

    shape = property(lambda s: s.data.shape)
    ndim = property(lambda s: s.data.ndim)
    size = property(lambda s: s.data.size)
    dtype = property(lambda s: s.dt)
    flags = property(lambda s: s.data.flags)

    def __len__(s):
        return len(s.data)

    @property
    def T(s):
        return SymArray(s.data.T, s.dt)

    @property
    def real(s):
        if s.dt.kind == 'c':
            return SymArray(_frompy(lambda x: C.lift(x).re, 1)(s.data), _real_dt(s.dt))
        return s

    @property
    def imag(s):
        if s.dt.kind == 'c':
            return SymArray(_frompy(lambda x: C.lift(x).im, 1)(s.data), _real_dt(s.dt))
        return SymArray(_frompy(lambda x: R(0.0), 1)(s.data), s.dt)

    def conj(s):
        if s.dt.kind == 'c':
            return SymArray(_frompy(lambda x: C.lift(x).conjugate(), 1)(s.data), s.dt)
        return s.copy()
    conjugate = conj

    def copy(s, order='C'):
        return SymArray(s.data.copy(), s.dt)

    def astype(s, dtype=None, copy=True, **kw):
        dtype = np.dtype(dtype)
        if dtype.kind == 'c' and s.dt.kind != 'c':
            return SymArray(_frompy(lambda x: C.lift(num(x)), 1)(s.data), dtype)
        if dtype.kind == 'f' and s.dt.kind == 'c':
            return SymArray(_frompy(lambda x: C.lift(x).re, 1)(s.data), dtype)
        if dtype.kind == 'f' and s.dt.kind in 'biu':
            return SymArray(_frompy(lambda x: num(x), 1)(s.data), dtype)
        if dtype.kind == 'b' and s.dt.kind != 'b':
            return SymArray(_frompy(lambda x: num(x) != 0.0, 1)(s.data), dtype)
        return SymArray(s.data.copy(), dtype)

    def reshape(s, *shape, **kw):
        if len(shape) == 1 and isinstance(shape[0], (tuple, list)):
            shape = tuple(shape[0])
        return SymArray(s.data.reshape(shape), s.dt)

    def transpose(s, *axes):
        if len(axes) == 1 and (isinstance(axes[0], (tuple, list)) or axes[0] is None):
            axes = axes[0]
            return SymArray(s.data.transpose(axes), s.dt)
        return SymArray(s.data.transpose(*axes), s.dt)

    def swapaxes(s, a, b): return SymArray(s.data.swapaxes(a, b), s.dt)
    def ravel(s, order='C'): return SymArray(s.data.ravel(), s.dt)
    def flatten(s, order='C'): return SymArray(s.data.flatten(), s.dt)
    def squeeze(s, axis=None): return SymArray(s.data.squeeze(axis), s.dt)
    def sum(s, axis=None, dtype=None, out=None, keepdims=False, **kw): return np.sum(s, axis=axis, keepdims=keepdims)
    def mean(s, axis=None, dtype=None, out=None, keepdims=False): return np.mean(s, axis=axis, keepdims=keepdims)
    def max(s, axis=None, out=None, keepdims=False, **kw): return np.amax(s, axis=axis, keepdims=keepdims)
    def min(s, axis=None, out=None, keepdims=False, **kw): return np.amin(s, axis=axis, keepdims=keepdims)
    def prod(s, axis=None, **kw): return np.prod(s, axis=axis, **kw)
    def argmax(s, axis=None, **kw): return np.argmax(s, axis=axis, **kw)
    def cumsum(s, axis=None, **kw): return np.cumsum(s, axis=axis)
    def cumprod(s, axis=None, **kw): return np.cumprod(s, axis=axis)
    def trace(s, offset=0, axis1=0, axis2=1, **kw): return np.trace(s, offset=offset, axis1=axis1, axis2=axis2)
    def clip(s, a_min=None, a_max=None, **kw): return np.clip(s, a_min, a_max)
    def dot(s, o): return np.dot(s, o)
    def __matmul__(s, o): return np.matmul(s, o)
    def __rmatmul__(s, o): return np.matmul(o, s)

    def argmin(s, axis=None, **kw): return np.argmin(s, axis=axis, **kw)
    def argsort(s, axis=-1, **kw): return np.argsort(s, axis=axis)
    def take(s, indices, axis=None, **kw): return np.take(s, indices, axis=axis)
    def repeat(s, repeats, axis=None): return np.repeat(s, repeats, axis=axis)

    def sort(s, axis=-1, **kw):
        """in place: goes through __setitem__, i.e. a FrameViolation when the storage is a caller-owned array"""
        s[...] = np.sort(s, axis=axis)

    def fill(s, value):
        s[...] = value

    def __getattr__(s, name):
        # a public ndarray attribute that the value domain does not model: the engine cannot follow -> undecided,
        # never an AttributeError that would look like a defect of the repository code
        if not name.startswith('_') and hasattr(np.ndarray, name):
            raise S.EngineGap('ndarray.%s is not modelled by the symbolic value domain' % name)
        raise AttributeError(name)

    def tolist(s):
        return s.data.tolist()

    def item(s, *a):
        return s.data.item(*a)

    def all(s, axis=None, **kw):
        return np.all(s, axis=axis)

    def any(s, axis=None, **kw):
        return np.any(s, axis=axis)

    def __bool__(s):
        if s.data.size != 1:
            raise ValueError('The truth value of an array with more than one element is ambiguous.')
        return bool(s.data.reshape(-1)[0])

    def __float__(s):
        if s.data.size != 1:
            raise TypeError('only size-1 arrays can be converted')
        return float(s.data.reshape(-1)[0])

    def __iter__(s):
        if s.data.ndim == 0:
            raise TypeError('iteration over a 0-d array')
        for i in range(len(s.data)):
            yield s[i]

    def __getitem__(s, idx):
        idx = _index(idx)
        r = s.data[idx]
        if isinstance(r, np.ndarray):
            return SymArray(r, s.dt)
        return r

    def __setitem__(s, idx, val):
        idx = _index(idx)
        if not s.data.flags.writeable:
            raise FrameViolation(_where_str(), 'setitem')
        if isinstance(val, (SymArray, np.ndarray, list, tuple)):
            v = obj(val)
            if s.dt.kind != 'c' and dt_of(val) is not None and dt_of(val).kind == 'c':
                raise EngineGap('complex stored into real array')
            if s.dt.kind == 'c':
                v = _frompy(lambda x: C.lift(num(x)), 1)(v)
            elif s.dt.kind == 'f':
                v = _frompy(lambda x: num(x), 1)(v)
        else:
            v = lift_scalar(val)
            if s.dt.kind == 'c':
                v = C.lift(num(v))
            elif s.dt.kind == 'f':
                v = num(v)
        s.data[idx] = v

    # ---- protocols
    def __array_function__(s, func, types, args, kwargs):
        h = HANDLED.get(func)
        if h is None:
            raise EngineGap('np.%s is not modelled' % getattr(func, '__name__', func))
        return h(*args, **kwargs)

    def __array_ufunc__(s, ufunc, method, *inputs, out=None, **kw):
        return _ufunc(ufunc, method, inputs, out, kw)

    # ---- operators
    def __add__(s, o): return np.add(s, o)
    def __radd__(s, o): return np.add(o, s)
    def __sub__(s, o): return np.subtract(s, o)
    def __rsub__(s, o): return np.subtract(o, s)
    def __mul__(s, o): return np.multiply(s, o)
    def __rmul__(s, o): return np.multiply(o, s)
    def __truediv__(s, o): return np.true_divide(s, o)
    def __rtruediv__(s, o): return np.true_divide(o, s)
    def __neg__(s): return np.negative(s)
    def __pos__(s): return s
    def __pow__(s, p): return np.power(s, p)
    def __rpow__(s, b): return np.power(b, s)
    def __abs__(s): return np.absolute(s)
    def __iadd__(s, o): return np.add(s, o, out=(s,))
    def __isub__(s, o): return np.subtract(s, o, out=(s,))
    def __imul__(s, o): return np.multiply(s, o, out=(s,))
    def __itruediv__(s, o): return np.true_divide(s, o, out=(s,))
    def __lt__(s, o): return np.less(s, o)
    def __le__(s, o): return np.less_equal(s, o)
    def __gt__(s, o): return np.greater(s, o)
    def __ge__(s, o): return np.greater_equal(s, o)
    def __eq__(s, o): return np.equal(s, o)
    def __ne__(s, o): return np.not_equal(s, o)
    def __and__(s, o): return np.logical_and(s, o)
    def __or__(s, o): return np.logical_or(s, o)
    def __invert__(s): return np.logical_not(s)
    __hash__ = None

    def __repr__(s):
        return 'SymArray(shape=%s, dtype=%s)' % (s.shape, s.dt)


def _real_dt(dt):
    return np.dtype(np.float32) if dt == np.complex64 else np.dtype(np.float64)


def _index(idx):
    """Indices must be concrete; SymArrays of ints are not supported as indices."""
    if isinstance(idx, SymArray):
        if idx.dt.kind == 'b':
            conc = np.empty(idx.shape, dtype=bool)
            for i, v in np.ndenumerate(idx.data):
                if isinstance(v, SymBool):
                    conc[i] = bool(v)       # forks
                else:
                    conc[i] = bool(v)
            return conc
        raise EngineGap('symbolic array used as index')
    if isinstance(idx, tuple):
        return tuple(_index(i) for i in idx)
    if isinstance(idx, R):
        return int(idx)
    return idx


# ----------------------------------------------------------------- ufuncs
def _b2n(x):
    return num(x) if isinstance(x, (bool, np.bool_, SymBool, int, np.integer)) else lift_scalar(x)


def _u_add(a, b): return _b2n(a) + _b2n(b)
def _u_sub(a, b): return _b2n(a) - _b2n(b)
def _u_mul(a, b): return _b2n(a) * _b2n(b)
def _u_div(a, b): return _b2n(a) / _b2n(b)
def _u_neg(a): return -_b2n(a)


def _u_abs(a):
    return abs(_b2n(a))


def _u_sign(a):
    a = _b2n(a)
    return ite(a > 0.0, R(1.0), ite(a < 0.0, R(-1.0), R(0.0)))


def _u_pow(a, p):
    a = _b2n(a)
    if isinstance(p, (R,)) and not p.conc():
        if isinstance(a, R) and a.conc() and a.n == 10.0:
            return p.__rpow__(10.0)
        raise EngineGap('power with symbolic exponent')
    if isinstance(p, R):
        p = p.n
    return a ** p


def _lex_ge(a, b):
    """NumPy orders complex numbers lexicographically (real part, then imaginary part)."""
    a, b = C.lift(a), C.lift(b)
    return sb_or(a.re > b.re, sb_and(a.re == b.re, a.im >= b.im))


def _u_max(a, b):
    a, b = _b2n(a), _b2n(b)
    if isinstance(a, C) or isinstance(b, C):
        a, b = C.lift(a), C.lift(b)
        # lexicographic maximum: the real part is the maximum of the real parts
        return C(smax(a.re, b.re), ite(_lex_ge(a, b), a.im, b.im))
    return smax(a, b)


def _u_min(a, b):
    a, b = _b2n(a), _b2n(b)
    if isinstance(a, C) or isinstance(b, C):
        a, b = C.lift(a), C.lift(b)
        return C(smin(a.re, b.re), ite(_lex_ge(a, b), b.im, a.im))
    return smin(a, b)


def _wrapsb(x):
    return x


def _cmpop(op):
    def f(a, b):
        a, b = _b2n(a), _b2n(b)
        if isinstance(a, C) or isinstance(b, C):
            return C.lift(a)._cmp(b, op)
        return a._cmp(b, op)
    return f


def _f_res(ins): return result_dtype(ins, force_float=True)
def _same_res(ins): return result_dtype(ins)


def _real_res(ins):
    r = result_dtype(ins, force_float=True)
    return _real_dt(r) if r.kind == 'c' else r


def _bool_res(ins): return np.dtype(bool)


UFUNCS = {
    np.add: (_u_add, _same_res), np.subtract: (_u_sub, _same_res), np.multiply: (_u_mul, _same_res),
    np.true_divide: (_u_div, _f_res), np.negative: (_u_neg, _same_res), np.positive: (lambda a: _b2n(a), _same_res),
    np.exp: (lambda a: _b2n(a).exp(), _f_res), np.log: (lambda a: _b2n(a).log(), _f_res),
    np.log10: (lambda a: _b2n(a).log10(), _f_res), np.sqrt: (lambda a: _b2n(a).sqrt(), _f_res),
    np.cos: (lambda a: _b2n(a).cos(), _f_res), np.sin: (lambda a: _b2n(a).sin(), _f_res),
    np.absolute: (_u_abs, _real_res), np.conjugate: (lambda a: _b2n(a).conjugate(), _same_res),
    np.maximum: (_u_max, _same_res), np.minimum: (_u_min, _same_res),
    np.square: (lambda a: _b2n(a) * _b2n(a), _same_res), np.power: (_u_pow, _same_res),
    np.sign: (_u_sign, _same_res),
    np.less: (_cmpop('<'), _bool_res), np.less_equal: (_cmpop('<='), _bool_res),
    np.greater: (_cmpop('>'), _bool_res), np.greater_equal: (_cmpop('>='), _bool_res),
    np.equal: (_cmpop('=='), _bool_res), np.not_equal: (_cmpop('!='), _bool_res),
    np.isfinite: (lambda a: True, _bool_res), np.isnan: (lambda a: False, _bool_res),
    np.isinf: (lambda a: False, _bool_res),
    np.logical_and: (lambda a, b: sb_and(_tob(a), _tob(b)), _bool_res),
    np.logical_or: (lambda a, b: sb_or(_tob(a), _tob(b)), _bool_res),
    np.logical_not: (lambda a: sb_not(_tob(a)), _bool_res),
    np.reciprocal: (lambda a: R(1.0) / _b2n(a), _f_res),
}


def _tob(x):
    if isinstance(x, (bool, np.bool_, SymBool)):
        return x
    return num(x) != 0.0


def _isfinite_scalar(x):
    x = lift_scalar(x)
    if isinstance(x, R) and x.conc():
        return math.isfinite(x.n)
    if isinstance(x, C) and x.conc():
        return math.isfinite(x.re.n) and math.isfinite(x.im.n)
    return True


UFUNCS[np.isfinite] = (_isfinite_scalar, _bool_res)


def _ufunc(ufunc, method, inputs, out, kw):
    kw = dict(kw)
    kw.pop('casting', None)
    dtype = kw.pop('dtype', None)
    where = kw.pop('where', True)
    kw.pop('order', None)
    kw.pop('subok', None)
    if method == 'reduce':
        axis = kw.pop('axis', 0)
        keepdims = kw.pop('keepdims', False)
        red = {np.add: np.sum, np.maximum: np.amax, np.minimum: np.amin, np.multiply: np.prod,
               np.logical_and: np.all, np.logical_or: np.any}.get(ufunc)
        if red is None:
            raise EngineGap('reduce of ufunc %s' % ufunc.__name__)
        return red(inputs[0], axis=axis, keepdims=keepdims)
    if method != '__call__':
        raise EngineGap('ufunc method %s.%s' % (ufunc.__name__, method))
    if ufunc is np.matmul and not kw and not out:
        return _matmul(*inputs)          # (a generalised ufunc since NumPy 1.16: `a @ b` arrives here)
    ent = UFUNCS.get(ufunc)
    if ent is None:
        raise EngineGap('ufunc %s is not modelled' % ufunc.__name__)
    if kw:
        raise EngineGap('ufunc kwargs %r' % (kw,))
    f, rdt = ent
    ins = [obj(i) for i in inputs]
    r = _asarray(_frompy(f, len(ins))(*ins), dtype=object)
    rdtype = np.dtype(dtype) if dtype is not None else rdt(inputs)
    if out is not None:
        o = out[0] if isinstance(out, tuple) else out
        if not isinstance(o, SymArray):
            raise EngineGap('ufunc out= concrete ndarray with symbolic inputs')
        if not o.data.flags.writeable:
            raise FrameViolation(_where_str(), 'in-place %s' % ufunc.__name__)
        if o.dt.kind != 'c' and rdtype.kind == 'c':
            raise TypeError("Cannot cast ufunc '%s' output from complex to %s" % (ufunc.__name__, o.dt))
        if o.dt.kind in 'biu' and rdtype.kind == 'f':
            raise TypeError("Cannot cast ufunc '%s' output from %s to %s" % (ufunc.__name__, rdtype, o.dt))
        if o.dt.kind == 'c':
            r = _frompy(lambda x: C.lift(num(x)), 1)(r)
        if where is True:
            o.data[...] = r
        else:
            w = obj(where)
            o.data[...] = _frompy(ite, 3)(w, r, o.data)
        return o
    if where is not True:
        raise EngineGap('ufunc where= without out=')
    return _wrap(r, rdtype)


# scalars take part in NumPy dispatch too (np.log10(R), np.maximum(R, x) ...)
def _scalar_array_ufunc(self, ufunc, method, *inputs, out=None, **kw):
    return _ufunc(ufunc, method, inputs, out, kw)


def _scalar_array_function(self, func, types, args, kwargs):
    h = HANDLED.get(func)
    if h is None:
        raise EngineGap('np.%s is not modelled' % getattr(func, '__name__', func))
    return h(*args, **kwargs)


def _scalar_getitem(self, idx):
    o = np.empty((), dtype=object)
    o[()] = self
    r = o[idx]
    if isinstance(r, np.ndarray):
        return SymArray(r, dt_of(self))
    return r


for _cls in (R, C, SymBool):
    _cls.__array_ufunc__ = _scalar_array_ufunc
    _cls.__array_function__ = _scalar_array_function
    _cls.__getitem__ = _scalar_getitem


def _sa(a):
    """Coerce to SymArray (0-d for scalars)."""
    if isinstance(a, SymArray):
        return a
    d = dt_of(a)
    if d is None:
        d = _asarray(a).dtype
    return SymArray(obj(a), d)


# ----------------------------------------------------------------- reductions
def _axis_tuple(axis, ndim):
    if axis is None:
        return tuple(range(ndim))
    if isinstance(axis, (int, np.integer)):
        axis = (axis,)
    out = tuple(int(a) % ndim if ndim else 0 for a in axis)
    for a in axis:
        if not (-ndim <= a < ndim):
            raise np.exceptions.AxisError(int(a), ndim)
    if len(set(out)) != len(out):
        raise ValueError('duplicate value in axis')
    return out


def _reduce(data, f, axis, keepdims, empty=None):
    ax = _axis_tuple(axis, data.ndim)
    rest = [i for i in range(data.ndim) if i not in ax]
    moved = np.transpose(data, rest + list(ax))
    oshape = moved.shape[:len(rest)]
    flat = moved.reshape(oshape + (int(np.prod([data.shape[a] for a in ax], dtype=int)),))       # (explicit: -1 is ambiguous for empty arrays)
    out = np.empty(oshape, dtype=object)
    for idx in np.ndindex(*oshape):
        vals = flat[idx]
        if len(vals) == 0:
            if empty is None:
                raise ValueError('zero-size array to reduction operation which has no identity')
            acc = empty
        else:
            acc = vals[0]
            for v in vals[1:]:
                acc = f(acc, v)
        out[idx] = acc
    if keepdims:
        shp = list(data.shape)
        for a in ax:
            shp[a] = 1
        out = out.reshape(shp)
    return out


@implements(np.sum)
def _sum(a, axis=None, dtype=None, out=None, keepdims=False, **kw):
    a = _sa(a)
    z = C(0.0, 0.0) if a.dt.kind == 'c' else R(0.0)
    r = _reduce(a.data, _u_add, axis, keepdims, empty=z)
    dt = a.dt if a.dt.kind in 'fc' else (np.dtype(np.int64) if a.dt.kind in 'biu' else a.dt)
    if a.dt.kind in 'biu':
        dt = np.dtype(np.float64)
    return _wrap(r, dt)


@implements(np.prod)
def _prod(a, axis=None, dtype=None, out=None, keepdims=False, **kw):
    a = _sa(a)
    r = _reduce(a.data, _u_mul, axis, keepdims, empty=R(1.0))
    return _wrap(r, a.dt)


@implements(np.mean)
def _mean(a, axis=None, dtype=None, out=None, keepdims=False, **kw):
    a = _sa(a)
    ax = _axis_tuple(axis, a.ndim)
    n = 1
    for i in ax:
        n *= a.shape[i]
    s = _sum(a, axis=axis, keepdims=keepdims)
    return s / n


@implements(np.amax, np.max)
def _amax(a, axis=None, out=None, keepdims=False, **kw):
    a = _sa(a)
    return _wrap(_reduce(a.data, _u_max, axis, keepdims), a.dt)


@implements(np.amin, np.min)
def _amin(a, axis=None, out=None, keepdims=False, **kw):
    a = _sa(a)
    return _wrap(_reduce(a.data, _u_min, axis, keepdims), a.dt)


@implements(np.all)
def _all(a, axis=None, out=None, keepdims=False, **kw):
    a = _sa(a)
    return _wrap(_reduce(a.data, lambda x, y: sb_and(_tob(x), _tob(y)), axis, keepdims, empty=True), bool)


@implements(np.any)
def _any(a, axis=None, out=None, keepdims=False, **kw):
    a = _sa(a)
    return _wrap(_reduce(a.data, lambda x, y: sb_or(_tob(x), _tob(y)), axis, keepdims, empty=False), bool)


@implements(np.cumsum)
def _cumsum(a, axis=None, dtype=None, out=None):
    a = _sa(a)
    if axis is None:
        d = a.data.reshape(-1).copy()
        axis = 0
    else:
        d = a.data.copy()
    d = np.moveaxis(d, axis, -1)
    for i in range(1, d.shape[-1]):
        d[..., i] = _frompy(_u_add, 2)(d[..., i - 1], d[..., i])
    return SymArray(np.moveaxis(d, -1, axis), a.dt)


@implements(np.cumprod)
def _cumprod(a, axis=None, dtype=None, out=None):
    a = _sa(a)
    if axis is None:
        d = a.data.reshape(-1).copy()
        axis = 0
    else:
        d = a.data.copy()
    d = np.moveaxis(d, axis, -1)
    for i in range(1, d.shape[-1]):
        d[..., i] = _frompy(_u_mul, 2)(d[..., i - 1], d[..., i])
    return SymArray(np.moveaxis(d, -1, axis), a.dt)


@implements(np.diff)
def _diff(a, n=1, axis=-1, **kw):
    a = _sa(a)
    assert n == 1
    d = np.moveaxis(a.data, axis, -1)
    r = _frompy(_u_sub, 2)(d[..., 1:], d[..., :-1])
    return SymArray(np.moveaxis(_asarray(r, dtype=object), -1, axis), a.dt)


# ----------------------------------------------------------------- shape manipulation (NumPy does the work)
def _shape_op(npf):
    def h(a, *args, **kw):
        a = _sa(a)
        return SymArray(npf(a.data, *args, **kw), a.dt)
    return h


for _f in (np.broadcast_to, np.swapaxes, np.transpose, np.moveaxis, np.rollaxis, np.expand_dims, np.squeeze,
           np.reshape, np.ravel, np.flip, np.roll, np.tile, np.repeat, np.atleast_1d, np.atleast_2d,
           np.take, np.delete, np.diagonal, np.tril, np.triu):
    HANDLED[_f] = _shape_op(_f)


@implements(np.take_along_axis)
def _take_along_axis(a, indices, axis):
    a = _sa(a)
    return SymArray(np.take_along_axis(a.data, _asarray(indices), axis), a.dt)


@implements(np.put_along_axis)
def _put_along_axis(arr, indices, values, axis):
    # in-place scatter: indices are concrete (an argmax / argsort result has forked already), NumPy does the addressing
    if not isinstance(arr, SymArray):
        raise EngineGap('put_along_axis into a concrete array')
    idx = _asarray(indices)
    if isinstance(values, SymArray):
        vals = values.data
    elif isinstance(values, (R, C, SymBool)):
        vals = np.array(values, dtype=object)
    else:
        vals = np.asarray(values)
    np.put_along_axis(arr.data, idx, vals, axis)
    return None


@implements(np.broadcast_arrays)
def _ba(*arrs, **kw):
    shapes = [np.shape(a) for a in arrs]
    shp = np.broadcast_shapes(*shapes)
    out = []
    for a in arrs:
        if isinstance(a, (SymArray, R, C, SymBool)):
            out.append(SymArray(np.broadcast_to(obj(a), shp), dt_of(a)))
        else:
            out.append(np.broadcast_to(a, shp))
    return out


@implements(np.copy)
def _copy(a, order='K', subok=False):
    return _sa(a).copy()


@implements(np.split)
def _split(a, n, axis=0):
    a = _sa(a)
    return [SymArray(p, a.dt) for p in np.split(a.data, n, axis)]


@implements(np.stack)
def _stack(arrs, axis=0, **kw):
    arrs = list(arrs)
    dt = result_dtype(arrs)
    return SymArray(np.stack([_conv(obj(a), dt) for a in arrs], axis=axis), dt)


@implements(np.concatenate)
def _concat(arrs, axis=0, **kw):
    arrs = list(arrs)
    dt = result_dtype(arrs)
    return SymArray(np.concatenate([_conv(obj(a), dt) for a in arrs], axis=axis), dt)


@implements(np.append)
def _append(arr, values, axis=None):
    if axis is None:
        return _concat([_sa(arr).ravel(), _sa(values).ravel()], axis=0)
    return _concat([arr, values], axis=axis)


def _conv(o, dt):
    if dt.kind == 'c':
        return _asarray(_frompy(lambda x: C.lift(num(x)), 1)(o), dtype=object)
    if dt.kind == 'f':
        return _asarray(_frompy(lambda x: num(x), 1)(o), dtype=object)
    return o


def _like(a, fill, dtype=None, shape=None):
    a = _sa(a)
    dt = np.dtype(dtype) if dtype is not None else a.dt
    shp = a.shape if shape is None else shape
    if dt.kind not in 'fc':
        return np.full(shp, fill, dtype=dt)
    d = np.empty(shp, dtype=object)
    v = C(float(fill), 0.0) if dt.kind == 'c' else R(float(fill))
    for i in np.ndindex(*d.shape):
        d[i] = v
    if d.ndim == 0:
        d[()] = v
    return SymArray(d, dt)


@implements(np.zeros_like)
def _zl(a, dtype=None, order='K', subok=True, shape=None): return _like(a, 0.0, dtype, shape)
@implements(np.empty_like)
def _el(a, dtype=None, order='K', subok=True, shape=None): return _like(a, 0.0, dtype, shape)
@implements(np.ones_like)
def _ol(a, dtype=None, order='K', subok=True, shape=None): return _like(a, 1.0, dtype, shape)


@implements(np.full_like)
def _fl(a, fill_value, dtype=None, **kw):
    r = _like(a, 0.0, dtype)
    if isinstance(r, SymArray):
        r.data[...] = lift_scalar(fill_value) if r.dt.kind != 'c' else C.lift(fill_value)
        return r
    r[...] = fill_value
    return r


@implements(np.iscomplexobj)
def _ico(a): return dt_of(a).kind == 'c'
@implements(np.isrealobj)
def _iro(a): return dt_of(a).kind != 'c'
@implements(np.iscomplex)
def _ic(a): return np.imag(a) != 0
@implements(np.shape)
def _shape(a): return a.shape
@implements(np.ndim)
def _ndim(a): return a.ndim
@implements(np.size)
def _size(a, axis=None): return a.size if axis is None else a.shape[axis]
@implements(np.real)
def _real(a): return _sa(a).real if not isinstance(a, (R, C)) else a.real
@implements(np.imag)
def _imag(a): return _sa(a).imag if not isinstance(a, (R, C)) else a.imag
@implements(np.conj, np.conjugate)
def _conj(a): return np.conjugate(a)
@implements(np.isscalar)
def _isscalar(a): return isinstance(a, (R, C))
@implements(np.isposinf)
def _isposinf(a):
    return _wrap(_frompy(lambda x: isinstance(x, R) and x.conc() and x.n == float('inf'), 1)(obj(a)), bool)
@implements(np.result_type)
def _rt(*a): return result_dtype(a)
@implements(np.can_cast)
def _cc(*a, **k): return True
@implements(np.around, np.round)
def _around(a, decimals=0, out=None):
    raise EngineGap('np.around on symbolic values')


@implements(np.nan_to_num)
def _nan_to_num(a, **kw):
    return _sa(a).copy()


@implements(np.where)
def _where(c, a=None, b=None):
    if a is None:
        raise EngineGap('np.where(cond) with symbolic cond')
    dt = result_dtype([a, b])
    r = _frompy(ite, 3)(obj(c), _conv(obj(a), dt), _conv(obj(b), dt))
    return _wrap(_asarray(r, dtype=object), dt)


@implements(np.clip)
def _clip(a, a_min=None, a_max=None, out=None, **kw):
    r = a
    if a_min is not None:
        r = np.maximum(r, a_min)
    if a_max is not None:
        r = np.minimum(r, a_max)
    return r


@implements(np.count_nonzero)
def _count_nonzero(a, axis=None, keepdims=False):
    # the count is a Python int: every symbolic truth value is decided (path fork)
    a = _sa(a)
    flags = np.empty(a.shape, dtype=bool)
    for i in np.ndindex(*a.shape):
        v = a.data[i]
        flags[i] = bool(v != 0) if not isinstance(v, (SymBool, bool, np.bool_)) else bool(v)
    return _np_count_nonzero(flags, axis=axis, keepdims=keepdims)


@implements(np.isclose)
def _isclose(a, b, rtol=1e-05, atol=1e-08, equal_nan=False):
    # |a - b| <= atol + rtol * |b| for finite values; a concrete infinity is close only to the same infinity, nan to nothing
    def one(x, y):
        x, y = _b2n(x), _b2n(y)
        for u, v in ((x, y), (y, x)):
            if isinstance(u, R) and u.conc() and not math.isfinite(u.n):
                if isinstance(v, R) and v.conc():
                    return bool(u.n == v.n)
                return False            # symbolic values range over the finite reals
        return abs(x - y) <= atol + rtol * abs(y)
    r = _frompy(one, 2)(obj(a), obj(b))
    return _wrap(r, np.dtype(bool))


@implements(np.allclose)
def _allclose(a, b, rtol=1e-05, atol=1e-08, equal_nan=False):
    return bool(np.all(_isclose(a, b, rtol=rtol, atol=atol)))


@implements(np.trace)
def _trace(a, offset=0, axis1=0, axis2=1, dtype=None, out=None):
    a = _sa(a)
    assert offset == 0
    d = np.moveaxis(a.data, (axis1, axis2), (-2, -1))
    out_ = np.empty(d.shape[:-2], dtype=object)
    n = min(d.shape[-2:])
    for idx in np.ndindex(*d.shape[:-2]):
        acc = d[idx + (0, 0)]
        for i in range(1, n):
            acc = _u_add(acc, d[idx + (i, i)])
        out_[idx] = acc
    return _wrap(out_, a.dt)


@implements(np.angle)
def _angle(a, deg=False):
    a = _sa(a)

    def f(x):
        x = C.lift(num(x))
        return S.angle_of(x.re, x.im)
    return _wrap(_asarray(_frompy(f, 1)(a.data), dtype=object), _real_dt(a.dt) if a.dt.kind == 'c' else a.dt)


@implements(np.linalg.norm)
def _norm(x, ord=None, axis=None, keepdims=False):
    x = _sa(x)
    rdt = _real_dt(x.dt) if x.dt.kind == 'c' else (x.dt if x.dt.kind == 'f' else np.dtype(np.float64))
    if axis is None:
        if ord is not None and x.ndim != 1:
            raise EngineGap('matrix norms')
        d, ax = x.data.reshape(-1), 0
        if keepdims:
            raise EngineGap('norm keepdims without axis')
    else:
        d, ax = x.data, axis
        if isinstance(ax, tuple):
            if ord is not None:
                raise EngineGap('matrix norms')
    if ord is None or ord == 2:
        def sq(v):
            v = _b2n(v)
            if isinstance(v, C):
                return v.re * v.re + v.im * v.im
            return v * v
        s = _reduce(_asarray(_frompy(sq, 1)(d), dtype=object), _u_add, ax, keepdims, empty=R(0.0))
        r = _frompy(lambda v: v.sqrt(), 1)(s) if isinstance(s, np.ndarray) else s.sqrt()
        return _wrap(_asarray(r, dtype=object) if isinstance(r, np.ndarray) else r, rdt)
    if ord == 1:
        ab = _asarray(_frompy(_u_abs, 1)(d), dtype=object)
        return _wrap(_reduce(ab, _u_add, ax, keepdims, empty=R(0.0)), rdt)
    if ord == np.inf:
        ab = _asarray(_frompy(_u_abs, 1)(d), dtype=object)
        return _wrap(_reduce(ab, _u_max, ax, keepdims), rdt)
    raise EngineGap('norm ord=%r' % (ord,))


# ----------------------------------------------------------------- einsum & products
def _parse_einsum(sub, ops):
    sub = sub.replace(' ', '')
    if '->' in sub:
        ins, out = sub.split('->')
    else:
        ins, out = sub, None
    ins = ins.split(',')
    if len(ins) != len(ops):
        raise ValueError('einsum: more operands provided than specified in the subscripts string')
    ell_dims = 0
    for s, o in zip(ins, ops):
        if '...' in s:
            n = o.ndim - (len(s) - 3)
            if n < 0:
                raise ValueError('einsum: operand has fewer dimensions than subscripts')
            ell_dims = max(ell_dims, n)
    ell = ['<%d>' % i for i in range(ell_dims)]

    def expand(s, nd):
        if '...' in s:
            pre, post = s.split('...')
            n = nd - len(pre) - len(post)
            return list(pre) + ell[ell_dims - n:] + list(post)
        return list(s)
    ins_l = [expand(s, o.ndim) for s, o in zip(ins, ops)]
    if out is None:
        cnt = {}
        for l in ins_l:
            for c in l:
                cnt[c] = cnt.get(c, 0) + 1
        out_l = ell + sorted(c for c in cnt if cnt[c] == 1 and not c.startswith('<'))
    else:
        if '...' in out:
            pre, post = out.split('...')
            out_l = list(pre) + ell + list(post)
        else:
            out_l = list(out)
    return ins_l, out_l


@implements(np.einsum)
def _einsum(sub, *ops, optimize=False, out=None, **kw):
    if not isinstance(sub, str):
        raise EngineGap('einsum with interleaved subscripts')
    ops_o = [obj(o) for o in ops]
    ins_l, out_l = _parse_einsum(sub, ops_o)
    sizes = {}
    for l, o in zip(ins_l, ops_o):
        if len(l) != o.ndim:
            raise ValueError('einsum: operand has %d dims but subscripts %r' % (o.ndim, ''.join(l)))
        for c, n in zip(l, o.shape):
            if c in sizes and sizes[c] != n:
                if sizes[c] == 1:
                    sizes[c] = n
                elif n != 1:
                    raise ValueError('einsum: operands could not be broadcast together with remapped shapes '
                                     '(label %s: %d vs %d)' % (c, sizes[c], n))
            else:
                sizes.setdefault(c, n)
    for c in out_l:
        if c not in sizes:
            raise ValueError('einsum: output subscript %r not in inputs' % c)
    # repeated label inside one operand (diagonal, e.g. '...dd')
    summed = [c for c in sizes if c not in out_l]
    oshape = tuple(sizes[c] for c in out_l)
    res = np.empty(oshape, dtype=object)
    dt = result_dtype(list(ops))
    zero = C(0.0, 0.0) if dt.kind == 'c' else R(0.0)
    # NumPy broadcasts size-1 dimensions for named labels as well as for the ellipsis
    for oidx in np.ndindex(*oshape):
        env = dict(zip(out_l, oidx))
        acc = None
        for sidx in np.ndindex(*[sizes[c] for c in summed]):
            env.update(zip(summed, sidx))
            p = None
            for l, o in zip(ins_l, ops_o):
                v = o[tuple(env[c] if o.shape[i] != 1 else 0 for i, c in enumerate(l))]
                p = _b2n(v) if p is None else _u_mul(p, v)
            acc = p if acc is None else acc + p
        res[oidx] = zero if acc is None else acc
    if dt.kind == 'c':
        res = _asarray(_frompy(lambda x: C.lift(x), 1)(res), dtype=object) if res.ndim else res
    return _wrap(res, dt if dt.kind in 'fc' else np.dtype(np.float64))


@implements(np.matmul)
def _matmul(a, b, **kw):
    a, b = _sa(a), _sa(b)
    if a.ndim == 1 and b.ndim == 1:
        return _einsum('i,i->', a, b)
    if a.ndim == 1:
        return _einsum('i,...ij->...j', a, b)
    if b.ndim == 1:
        return _einsum('...ij,j->...i', a, b)
    return _einsum('...ij,...jk->...ik', a, b)


@implements(np.dot)
def _dot(a, b, out=None):
    a, b = _sa(a), _sa(b)
    if a.ndim == 0 or b.ndim == 0:
        return a * b
    if a.ndim <= 2 and b.ndim <= 2:
        return _matmul(a, b)
    raise EngineGap('np.dot with ndim > 2')


@implements(np.vdot)
def _vdot(a, b):
    return _einsum('i,i->', np.conjugate(_sa(a).ravel()), _sa(b).ravel())


@implements(np.inner)
def _inner(a, b):
    return _einsum('...i,...i->...', _sa(a), _sa(b)) if _sa(a).ndim == _sa(b).ndim == 1 else (_ for _ in ()).throw(EngineGap('np.inner nd'))


@implements(np.outer)
def _outer(a, b, out=None):
    return _einsum('i,j->ij', _sa(a).ravel(), _sa(b).ravel())


@implements(np.tensordot)
def _tensordot(a, b, axes=2):
    raise EngineGap('np.tensordot')


# ----------------------------------------------------------------- data dependent: argmax / sort
def _argmax1(vals, first=True, want_max=True):
    """Fork: index i is the first maximum (NumPy's tie rule)."""
    ex = S._EXPLORER[0]
    vals = [_b2n(v) for v in vals]
    if all(isinstance(v, R) and v.conc() for v in vals):
        arr = _array([v.n for v in vals])
        return int(np.argmax(arr) if want_max else np.argmin(arr))
    if ex is None:
        raise EngineGap('symbolic argmax outside an explorer')
    conds = []
    for i, v in enumerate(vals):
        cs = []
        for j, u in enumerate(vals):
            if j == i:
                continue
            if want_max:
                c = (v > u) if j < i else (v >= u)
            else:
                c = (v < u) if j < i else (v <= u)
            cs.append(S.sb_f(c))
        conds.append(E.and_(*cs))
    return ex.choose(conds)


@implements(np.argmax)
def _argmax(a, axis=None, out=None, **kw):
    a = _sa(a)
    if a.dt.kind == 'c':
        raise EngineGap('argmax of complex values')
    d = a.data
    if axis is None:
        return _argmax1(list(d.reshape(-1)))
    d = np.moveaxis(d, axis, -1)
    res = np.empty(d.shape[:-1], dtype=np.int64)
    for idx in np.ndindex(*d.shape[:-1]):
        res[idx] = _argmax1(list(d[idx]))
    return res if res.ndim else int(res[()])


@implements(np.argmin)
def _argmin(a, axis=None, out=None, **kw):
    a = _sa(a)
    d = a.data
    if axis is None:
        return _argmax1(list(d.reshape(-1)), want_max=False)
    d = np.moveaxis(d, axis, -1)
    res = np.empty(d.shape[:-1], dtype=np.int64)
    for idx in np.ndindex(*d.shape[:-1]):
        res[idx] = _argmax1(list(d[idx]), want_max=False)
    return res if res.ndim else int(res[()])


def _argsort1(vals):
    """Fork over the stable ascending order of the values: returns a permutation (list)."""
    n = len(vals)
    rest = list(range(n))
    order = []
    vs = [_b2n(v) for v in vals]
    while rest:
        k = _argmax1([vs[i] for i in rest], want_max=False)
        order.append(rest.pop(k))
    return order


@implements(np.argsort)
def _argsort(a, axis=-1, kind=None, order=None, **kw):
    a = _sa(a)
    if axis is None:
        return _array(_argsort1(list(a.data.reshape(-1))), dtype=np.int64)
    d = np.moveaxis(a.data, axis, -1)
    res = np.empty(d.shape, dtype=np.int64)
    for idx in np.ndindex(*d.shape[:-1]):
        res[idx] = _argsort1(list(d[idx]))
    return np.moveaxis(res, -1, axis)


@implements(np.sort)
def _sort(a, axis=-1, kind=None, order=None, **kw):
    a = _sa(a)
    if axis is None:
        flat = a.data.reshape(-1)
        return SymArray(flat[_argsort1(list(flat))], a.dt)
    idx = _argsort(a, axis=axis)
    return SymArray(np.take_along_axis(a.data, idx, axis), a.dt)


@implements(np.percentile)
def _percentile(a, q, axis=None, **kw):
    """Linear-interpolation definition (NumPy default): virtual index (n-1)*q/100."""
    a = _sa(a)
    if kw.get('method', 'linear') != 'linear' or kw.get('keepdims'):
        raise EngineGap('percentile options')
    q = float(q)
    if axis is None:
        d = a.data.reshape(1, -1)
    else:
        d = np.moveaxis(a.data, axis, -1)
    res = np.empty(d.shape[:-1], dtype=object)
    n = d.shape[-1]
    pos = (n - 1) * (q / 100.0)          # NumPy computes the virtual index as (n - 1) * (q / 100)
    lo = int(math.floor(pos))
    hi = min(lo + 1, n - 1)
    g = pos - lo
    for idx in np.ndindex(*d.shape[:-1]):
        order = _argsort1(list(d[idx]))
        vlo, vhi = _b2n(d[idx][order[lo]]), _b2n(d[idx][order[hi]])
        # numpy's _lerp: a + (b - a) * t  (t < 0.5) ; b - (b - a) * (1 - t) otherwise
        res[idx] = vlo + (vhi - vlo) * g if g < 0.5 else vhi - (vhi - vlo) * (1 - g)
    if axis is None:
        return _scalar_out(res[0], a.dt)
    return _wrap(res, a.dt)


@implements(np.unravel_index)
def _unravel(i, shape, **kw):
    return np.unravel_index(int(i), shape)


@implements(np.nonzero)
def _nonzero(a):
    a = _sa(a)
    conc = np.empty(a.shape, dtype=bool)
    for i, v in np.ndenumerate(a.data):
        conc[i] = bool(_tob(v))
    return np.nonzero(conc)


@implements(np.unique)
def _unique(a, **kw):
    raise EngineGap('np.unique on symbolic values')


# ----------------------------------------------------------------- linear algebra with assumed contracts
def _det(M):
    n = len(M)
    if n == 1:
        return M[0][0]
    if n == 2:
        return M[0][0] * M[1][1] - M[0][1] * M[1][0]
    acc = None
    for j in range(n):
        minor = [[M[r][c] for c in range(n) if c != j] for r in range(1, n)]
        t = M[0][j] * _det(minor)
        if j % 2:
            t = -t
        acc = t if acc is None else acc + t
    return acc


def _adj(M, one):
    n = len(M)
    if n == 1:
        return [[one]]
    A = [[None] * n for _ in range(n)]
    for i in range(n):
        for j in range(n):
            minor = [[M[r][c] for c in range(n) if c != j] for r in range(n) if r != i]
            t = _det(minor)
            if (i + j) % 2:
                t = -t
            A[j][i] = t
    return A


class SolveStub:
    """np.linalg.solve by contract: exact inverse (adjugate / determinant).

    On the explorer fork det == 0 raises LinAlgError like LAPACK does for exactly singular input."""
    label = 'np.linalg.solve(A, B) returns the exact solution A^-1 B for det A != 0 and raises LinAlgError for det A == 0'
    fork_singular = True


def _nz(x):
    if isinstance(x, C):
        return sb_or(x.re != 0.0, x.im != 0.0)
    return x != 0.0


@implements(np.linalg.solve)
def _solve(A, B):
    S.ctx().assumptions_used.add(SolveStub.label)
    A_, B_ = obj(A), obj(B)
    if A_.ndim < 2 or A_.shape[-1] != A_.shape[-2]:
        raise np.linalg.LinAlgError('Last 2 dimensions of the array must be square')
    # NumPy 2 semantics: b is a vector only if it is exactly 1-D
    vecmode = B_.ndim == 1
    if vecmode:
        B_ = B_[:, None]
    if B_.shape[-2] != A_.shape[-1]:
        raise ValueError('solve: Input operand 1 has a mismatch in its core dimension 0 (size %d is different from %d)'
                         % (B_.shape[-2], A_.shape[-1]))
    bshape = np.broadcast_shapes(A_.shape[:-2], B_.shape[:-2])
    A_ = np.broadcast_to(A_, bshape + A_.shape[-2:])
    B_ = np.broadcast_to(B_, bshape + B_.shape[-2:])
    n, m = A_.shape[-1], B_.shape[-1]
    dt = result_dtype([A, B], force_float=True)
    cplx = dt.kind == 'c'
    lift = (lambda v: C.lift(num(v))) if cplx else (lambda v: num(v))
    X = np.empty(bshape + (n, m), dtype=object)
    for idx in np.ndindex(*bshape):
        M = [[lift(A_[idx + (i, j)]) for j in range(n)] for i in range(n)]
        det = _det(M)
        nz = _nz(det)
        if SolveStub.fork_singular:
            if not nz:          # symbolic: forks (det == 0 path raises like LAPACK)
                raise np.linalg.LinAlgError('Singular matrix')
        adj = _adj(M, C(1.0, 0.0) if cplx else R(1.0))
        for i in range(n):
            for j in range(m):
                acc = None
                for k in range(n):
                    t = adj[i][k] * lift(B_[idx + (k, j)])
                    acc = t if acc is None else acc + t
                X[idx + (i, j)] = acc / det
    if vecmode:
        X = X[..., 0]
    return SymArray(X, dt)


LSTSQ_LABEL = 'np.linalg.lstsq(A, B): some least-squares solution (havoc, unconstrained in the contracts)'


@implements(np.linalg.lstsq)
def _lstsq(a, b, rcond=None):
    c = S.ctx()
    c.assumptions_used.add(LSTSQ_LABEL)
    a, b = _sa(a), _sa(b)
    dt = result_dtype([a, b], force_float=True)
    shape = (a.shape[-1],) + b.shape[1:]
    X = np.empty(shape, dtype=object)
    for idx in np.ndindex(*shape):
        vr = c.new_var('lstsq_re')
        c.evalfn[vr.args[0]] = (lambda ev: 0.0)
        if dt.kind == 'c':
            vi = c.new_var('lstsq_im')
            c.evalfn[vi.args[0]] = (lambda ev: 0.0)
            X[idx] = C(R(vr), R(vi))
        else:
            X[idx] = R(vr)
    return SymArray(X, dt), None, None, None


@implements(np.linalg.inv)
def _inv(A):
    A = _sa(A)
    n = A.shape[-1]
    eye = np.broadcast_to(np.eye(n), A.shape)
    return _solve(A, eye)


@implements(np.linalg.det)
def _detf(A):
    A = _sa(A)
    n = A.shape[-1]
    res = np.empty(A.shape[:-2], dtype=object)
    for idx in np.ndindex(*A.shape[:-2]):
        res[idx] = _det([[_b2n(A.data[idx + (i, j)]) for j in range(n)] for i in range(n)])
    return _wrap(res, A.dt)


def fresh_real_array(shape, hint):
    c = S.ctx()
    d = np.empty(shape, dtype=object)
    for idx in np.ndindex(*shape):
        d[idx] = c.new_var(hint)
    return d


EIGH_LABEL = ('np.linalg.eigh(A) = (w, V): w real ascending, V^H V = I, H V = V diag(w) for the Hermitian matrix H '
              'given by the lower triangle of A')


@implements(np.linalg.eigh)
def _eigh(A, UPLO='L'):
    """Havoc + assumed contract; native evaluator = np.linalg.eigh on the evaluated matrix."""
    c = S.ctx()
    c.assumptions_used.add(EIGH_LABEL)
    A = _sa(A)
    A_ = A.data
    n = A_.shape[-1]
    if A_.ndim < 2 or A_.shape[-2] != n:
        raise np.linalg.LinAlgError('Last 2 dimensions of the array must be square')
    lead = A_.shape[:-2]
    cplx = A.dt.kind == 'c'
    W = np.empty(lead + (n,), dtype=object)
    V = np.empty(lead + (n, n), dtype=object)
    memo = c.names.setdefault('eigh-memo', {})
    for idx in np.ndindex(*lead):
        # deterministic external: the same matrix (cell by cell) gets the same decomposition (relational contracts)
        key = (UPLO, cplx) + tuple((C.lift(num(x)).re.term().id, C.lift(num(x)).im.term().id)
                                   for x in A_[idx].reshape(-1))
        hit = memo.get(key)
        if hit is not None:
            W[idx], V[idx] = hit[0], hit[1]
            continue
        wv = [c.new_var('eigval') for _ in range(n)]
        vr = [[c.new_var('eigvec_re') for _ in range(n)] for _ in range(n)]
        vi = [[c.new_var('eigvec_im') for _ in range(n)] for _ in range(n)] if cplx else None

        def Hm(i, j):
            if UPLO == 'L':
                return C.lift(num(A_[idx + (i, j)])) if i >= j else C.lift(num(A_[idx + (j, i)])).conjugate()
            return C.lift(num(A_[idx + (i, j)])) if i <= j else C.lift(num(A_[idx + (j, i)])).conjugate()
        Hn = [[Hm(i, j) for j in range(n)] for i in range(n)]
        # the diagonal of a Hermitian matrix is real: LAPACK ignores the imaginary part
        for i in range(n):
            Hn[i][i] = C(Hn[i][i].re, 0.0)

        def Vc(i, j):
            return C(R(vr[i][j]), R(vi[i][j]) if cplx else 0.0)
        fs = []
        for i in range(n - 1):
            fs.append(E.cmp('<=', wv[i], wv[i + 1]))
        for i in range(n):
            for j in range(n):
                acc = None
                for k in range(n):
                    t = Vc(k, i).conjugate() * Vc(k, j)
                    acc = t if acc is None else acc + t
                fs += _ceq(acc, 1.0 if i == j else 0.0)
                acc = None
                for k in range(n):
                    t = Vc(i, k) * Vc(j, k).conjugate()
                    acc = t if acc is None else acc + t
                fs += _ceq(acc, 1.0 if i == j else 0.0)
                acc = None
                for k in range(n):
                    t = Hn[i][k] * Vc(k, j)
                    acc = t if acc is None else acc + t
                fs += _ceq(acc, Vc(i, j) * R(wv[j]))
        Hterms = [[(Hn[i][j].re.term(), Hn[i][j].im.term()) for j in range(n)] for i in range(n)]
        cache = {}

        def native(ev, Hterms=Hterms, cache=cache):
            key = id(ev)
            if key not in cache:
                M = _array([[complex(ev(a), ev(b)) for (a, b) in row] for row in Hterms])
                cache.clear()
                cache[key] = np.linalg.eigh(M)
            return cache[key]
        allv, evs = [], []
        for i in range(n):
            allv.append(wv[i])
            evs.append(lambda ev, i=i: float(native(ev)[0][i]))
        for i in range(n):
            for j in range(n):
                allv.append(vr[i][j])
                evs.append(lambda ev, i=i, j=j: float(native(ev)[1][i, j].real))
                if cplx:
                    allv.append(vi[i][j])
                    evs.append(lambda ev, i=i, j=j: float(native(ev)[1][i, j].imag))
        c.add_def(allv, E.and_(*fs), evs)
        for i in range(n):
            W[idx + (i,)] = R(wv[i])
            for j in range(n):
                V[idx + (i, j)] = Vc(i, j) if cplx else R(vr[i][j])
        memo[key] = (W[idx].copy(), V[idx].copy())
    return SymArray(W, _real_dt(A.dt) if cplx else A.dt), SymArray(V, A.dt)


def _ceq(a, b):
    a, b = C.lift(num(a)), C.lift(num(b))
    out = []
    for x, y in ((a.re, b.re), (a.im, b.im)):
        f = S.sb_f(x == y)
        if f is not E.TRUE:
            out.append(f)
    return out


@implements(np.linalg.slogdet)
def _slogdet(A):
    """sign and log|det| for matrices whose determinant is real positive on the explored path."""
    A = _sa(A)
    n = A.shape[-1]
    sign = np.empty(A.shape[:-2], dtype=object)
    logd = np.empty(A.shape[:-2], dtype=object)
    for idx in np.ndindex(*A.shape[:-2]):
        det = _det([[_b2n(A.data[idx + (i, j)]) for j in range(n)] for i in range(n)])
        if isinstance(det, C):
            mag = abs(det)
            sign[idx] = det / mag
            logd[idx] = mag.log()
        else:
            sign[idx] = _u_sign(det)
            logd[idx] = abs(det).log()
    rdt = _real_dt(A.dt) if A.dt.kind == 'c' else A.dt
    return _wrap(sign, A.dt), _wrap(logd, rdt)


# ----------------------------------------------------------------- symbolic inputs
def sym_array(name, shape, dtype=np.float64, readonly=True, ctx=None):
    """Fresh symbolic input array; element (i,j) is the variable name_i_j (name_i_j.re/.im)."""
    c = ctx or S.ctx()
    dtype = np.dtype(dtype)
    d = np.empty(shape, dtype=object)
    for idx in np.ndindex(*shape):
        n = name + ''.join('_%d' % i for i in idx)
        if dtype.kind == 'c':
            c.inputs[n + '.re'] = 'real'
            c.inputs[n + '.im'] = 'real'
            d[idx] = C(R(E.var(n + '.re')), R(E.var(n + '.im')))
        else:
            c.inputs[n] = 'real'
            d[idx] = R(E.var(n))
    if readonly:
        d.flags.writeable = False
    return SymArray(d, dtype)


def from_scalars(cells, dtype, readonly=True):
    d = np.empty(np.shape(cells) if not isinstance(cells, np.ndarray) else cells.shape, dtype=object)
    src = _asarray(cells, dtype=object) if not isinstance(cells, np.ndarray) else cells
    for idx in np.ndindex(*d.shape):
        v = src[idx]
        d[idx] = C.lift(num(v)) if np.dtype(dtype).kind == 'c' else (num(v) if np.dtype(dtype).kind == 'f' else v)
    if readonly:
        d.flags.writeable = False
    return SymArray(d, dtype)


def concrete(a, readonly=True):
    """Wrap a concrete ndarray as SymArray (float/complex) so that stores of symbolic values work."""
    a = _asarray(a)
    s = SymArray(obj(a), a.dtype)
    if readonly:
        s.data.flags.writeable = False
    return s


# ----------------------------------------------------------------- patching non-dispatching entry points
_SYM = (SymArray, R, C, SymBool)


def _has_sym(x, depth=0):
    if isinstance(x, _SYM):
        return True
    if isinstance(x, (list, tuple)) and depth < 4:
        return any(_has_sym(y, depth + 1) for y in x)
    return False


def _nested_to_sym(x, dtype=None):
    """_array([... SymArray / R ...]) -> SymArray"""
    if isinstance(x, SymArray):
        return x
    if isinstance(x, (R, C, SymBool)):
        return SymArray(obj(x), dt_of(x))
    if isinstance(x, (list, tuple)):
        parts = [_nested_to_sym(y) for y in x]
        dt = result_dtype(parts)
        return SymArray(np.stack([_conv(p.data, dt) for p in parts], axis=0), dt)
    a = _asarray(x)
    return SymArray(obj(a), a.dtype if a.dtype != object else dt_of(a))


@contextlib.contextmanager
def patched_numpy(extra=()):
    """Rebind the NumPy entry points that do not dispatch on their arguments."""
    saved = []

    def patch(mod, name, f):
        saved.append((mod, name, getattr(mod, name)))
        setattr(mod, name, f)

    def passthru(name):
        orig = getattr(np, name)

        def f(a, *args, **kw):
            if _has_sym(a):
                dtype = kw.get('dtype', args[0] if args else None)
                s = _nested_to_sym(a)
                copy = kw.get('copy', None)
                if name == 'array' and copy is None:
                    copy = True
                if dtype is not None and np.dtype(dtype) != s.dt:
                    return s.astype(dtype)
                if copy:
                    return s.copy()
                return s
            return orig(a, *args, **kw)
        f.__name__ = name
        patch(np, name, f)
    for n in ('asarray', 'asanyarray', 'ascontiguousarray', 'asfortranarray', 'array'):
        passthru(n)

    def creator(name):
        orig = getattr(np, name)

        def f(*args, **kw):
            if any(_has_sym(a) for a in args) or any(_has_sym(v) for v in kw.values()):
                if name == 'full':
                    shape, fill = args[0], args[1] if len(args) > 1 else kw['fill_value']
                    d = np.empty(shape, dtype=object)
                    for i in np.ndindex(*d.shape):
                        d[i] = lift_scalar(fill)
                    return SymArray(d, dt_of(fill))
                raise EngineGap('np.%s with symbolic arguments' % name)
            r = orig(*args, **kw)
            if isinstance(r, np.ndarray) and r.dtype.kind in 'fc' and S.RUNNING[0] \
                    and '/pb_bss/' in sys._getframe(1).f_code.co_filename:
                # only arrays created by repository code become symbolic-capable; C extensions (numpy.random,
                # scipy, sklearn) that look np.empty up at run time must get real ndarrays
                return SymArray(obj(r), r.dtype)
            return r
        f.__name__ = name
        patch(np, name, f)
    for n in ('zeros', 'ones', 'empty', 'full', 'eye'):
        creator(n)
    def guarded(fn):
        def g(*a, **k):
            was = S.RUNNING[0]
            S.RUNNING[0] = False        # numpy.random is Cython: it calls np.empty by attribute and needs real ndarrays
            try:
                return fn(*a, **k)
            finally:
                S.RUNNING[0] = was
        g.__name__ = getattr(fn, '__name__', 'guarded')
        return g
    for n in ('uniform', 'normal', 'randn', 'rand', 'randint', 'dirichlet', 'choice', 'permutation', 'random',
              'multivariate_normal', 'standard_normal', 'shuffle', 'random_sample'):
        if hasattr(np.random, n):
            patch(np.random, n, guarded(getattr(np.random, n)))
    for mod, name, f in extra:
        patch(mod, name, f)
    try:
        yield
    finally:
        for mod, name, orig in reversed(saved):
            setattr(mod, name, orig)


PATCHED_ENTRY_POINTS = ('np.asarray', 'np.asanyarray', 'np.ascontiguousarray', 'np.asfortranarray', 'np.array',
                        'np.zeros', 'np.ones', 'np.empty', 'np.full', 'np.eye')
