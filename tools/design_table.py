#!/usr/bin/env python3
"""Refresh the obligation / evaluation counts of DESIGN.md §3 and the totals of §9 from evidence/*.json (quick tier)."""
import json
import os
import re

ROOT = os.path.dirname(os.path.dirname(os.path.abspath(__file__)))
p = os.path.join(ROOT, 'DESIGN.md')
s = open(p).read()
tot_o = tot_b = 0
walls = {}
for i in range(1, 21):
    pid = 'C%02d' % i
    e = json.load(open(os.path.join(ROOT, 'evidence', pid + '.json')))
    c = e['coverage']
    o, b = c['discharged'], c.get('bounded', {}).get('valid', 0)
    tot_o += o
    tot_b += b
    walls[pid] = e.get('wall_s', 0)
    m = re.search(r'^\| %s \|(.*)\|(.*)\|(.*)\|(.*)\|$' % pid, s, flags=re.M)
    if not m:
        print('row not found', pid)
        continue
    row = '| %s |%s| %d |%s| %d |' % (pid, m.group(1), o, m.group(3), b)
    s = s[:m.start()] + row + s[m.end():]
slow = sorted(walls.items(), key=lambda kv: -kv[1])[:4]
s = re.sub(r'(## 9\. Cost[^\n]*\n)(.*?)(\n## |\Z)', lambda m: m.group(1) + 'All 20 checks together ≈ %d min wall when run one after the other; the slowest are %s.  ≈ %d obligations discharged per full run, ≈ %d bounded evaluations.\n' % (
    round(sum(walls.values()) / 60.0 + 0.5), ', '.join('%s (%d s)' % (k, v) for k, v in slow), tot_o, tot_b) + m.group(3), s, flags=re.S)
open(p, 'w').write(s)
print('obligations', tot_o, 'bounded', tot_b, 'wall', round(sum(walls.values())))
